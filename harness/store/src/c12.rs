//! C12: value universe x chains of storage transitions on REAL servers.
//!
//! Topology: P (pristine) --refresh--> A; the value universe is created on A.  A chain is a list of
//! transitions; each transition takes the current server to a new one:
//!   reload    commit + clear every backend cache, entries are decoded again from their DB rows
//!   backup    backup (plain) -> restore into a fresh backend + reindex + server start (as kanidmd)
//!   backupgz  same with gzip
//!   refresh   fresh server, full replication refresh from the current one (JSON wire text)
//!   incr      fresh server refreshed from P (knows nothing of the universe), then ONE incremental
//!             replication from the current server (JSON wire text)
//! After every step the observation `Observe` of every stored entry is logged; the TLA+ trace spec
//! requires it to be unchanged (KStoreVal!L1).
use crate::sx;
use kanidm_lib_crypto::CryptoPolicy;
use kanidmd_lib::credential::Credential;
use kanidmd_lib::prelude::*;
use kanidmd_lib::value::{ApiToken, AuthType, Oauth2Session, Session, SessionState};
use kanidmd_lib::verif::store as kvs;
use kvc::srv::*;
use kvc::util::*;
use serde_json::{json, Map, Value as J};
use time::OffsetDateTime;

/// (short kind, import string, cleartext that must verify)
pub const IMPORTS: &[(&str, &str, &str)] = &[
    ("django_pbkdf2_sha256", "pbkdf2_sha256$36000$xIEozuZVAoYm$uW1b35DUKyhvQAf1mBqMvoBDcqSD06juzyO/nmyV0+w=", "eicieY7ahchaoCh0eeTa"),
    ("ds_sha1", "{SHA}W6ph5Mm5Pz8GgiULbPgzG37mj9g=", "password"),
    ("ds_ssha1", "{SSHA}EyzbBiP4u4zxOrLpKTORI/RX3HC6TCTJtnVOCQ==", "password"),
    ("ds_sha256", "{SHA256}XohImNooBHFR0OVvjcYpJ3NgPQ1qq73WKhHvch0VQtg=", "password"),
    ("ds_ssha256", "{SSHA256}luYWfFJOZgxySTsJXHgIaCYww4yMpu6yest69j/wO5n5OycuHFV/GQ==", "password"),
    ("ds_sha512", "{SHA512}sQnzu7wkTrgkQZF+0G1hi5AI3Qmzvv0bXgc5THBqi7mAsdd4Xll27ASbRt9fEyavWi6m0QP9B8lThf+rDKy8hg==", "password"),
    ("ds_ssha512", "{SSHA512}JwrSUHkI7FTAfHRVR6KoFlSN0E3dmaQWARjZ+/UsShYlENOqDtFVU77HJLLrY2MuSp0jve52+pwtdVl2QUAHukQ0XUf5LDtM", "password"),
    ("ol_pbkdf2", "{PBKDF2}10000$IlfapjA351LuDSwYC0IQ8Q$saHqQTuYnjJN/tmAndT.8mJt.6w", "password"),
    ("ol_pbkdf2_sha1", "{PBKDF2-SHA1}10000$ZBEH6B07rgQpJSikyvMU2w$TAA03a5IYkz1QlPsbJKvUsTqNV", "password"),
    ("ol_pbkdf2_sha256", "{PBKDF2-SHA256}10000$henZGfPWw79Cs8ORDeVNrQ$1dTJy73v6n3bnTmTZFghxHXHLsAzKaAy8SksDfZBPIw", "password"),
    ("ol_pbkdf2_sha512", "{PBKDF2-SHA512}10000$Je1Uw19Bfv5lArzZ6V3EPw$g4T/1sqBUYWl9o93MVnyQ/8zKGSkPbKaXXsT8WmysXQJhWy8MRP2JFudSL.N9RklQYgDPxPjnfum/F2f/TrppA", "password"),
    ("ol_argon2", "{ARGON2}$argon2id$v=19$m=65536,t=2,p=1$IyTQMsvzB2JHDiWx8fq7Ew$VhYOA7AL0kbRXI5g2kOyyp8St1epkNj7WZyUY4pAIQQ", "password"),
    ("ipa_nthash", "ipaNTHash: iEb36u6PsRetBr3YMLdYbA", "password"),
    ("samba_nt", "sambaNTPassword: 8846F7EAEE8FB117AD06BDD830B7586C", "password"),
    ("crypt_md5", "{crypt}$1$zaRIAsoe$7887GzjDTrst0XbDPpF5m.", "password"),
    ("crypt_sha256", "{crypt}$5$3UzV7Sut8EHCUxlN$41V.jtMQmFAOucqI4ImFV43r.bRLjPlN.hyfoCdmGE2", "password"),
    ("crypt_sha512", "{crypt}$6$aXn8azL8DXUyuMvj$9aJJC/KEUwygIpf2MTqjQa.f0MEXNg2cGFc62Fet8XpuDVDedM05CweAlxW6GWxnmHqp14CRf6zU7OQoE/bCu0", "password"),
];

pub const TRANS: &[&str] = &["reload", "backup", "backupgz", "refresh", "incr"];

fn ent(avas: Vec<(Attribute, Value)>) -> EntryInitNew {
    let mut e: EntryInitNew = Entry::new();
    for (a, v) in avas {
        e.add_ava(a, v);
    }
    e
}

fn person(n: u64, name: &str) -> Vec<(Attribute, Value)> {
    vec![
        (Attribute::Class, EntryClass::Object.to_value()),
        (Attribute::Class, EntryClass::Account.to_value()),
        (Attribute::Class, EntryClass::Person.to_value()),
        (Attribute::Name, Value::new_iname(name)),
        (Attribute::Uuid, Value::Uuid(uuid_e(n))),
        (Attribute::DisplayName, Value::new_utf8s(name)),
    ]
}

/// The harness-made part of the value universe (built-in entries are the other part).
pub fn universe(rng: &mut Rng, base: std::time::Duration) -> Vec<EntryInitNew> {
    let mut v = Vec::new();
    let mut n = 1u64;
    let odt = OffsetDateTime::UNIX_EPOCH + base;
    // imported passwords, every supported format; primary credential
    for (kind, hash, _) in IMPORTS {
        let mut a = person(n, &format!("pw{n}{}", kind.replace('_', "")));
        a.push((Attribute::PasswordImport, Value::new_utf8s(hash)));
        a.push((Attribute::Description, Value::new_utf8s(kind)));
        v.push(ent(a));
        n += 1;
    }
    // the same formats as unix passwords on posix accounts
    for (kind, hash, _) in IMPORTS {
        let mut a = person(n, &format!("ux{n}{}", kind.replace('_', "")));
        a.push((Attribute::Class, EntryClass::PosixAccount.to_value()));
        a.push((Attribute::UnixPasswordImport, Value::new_utf8s(hash)));
        a.push((Attribute::Description, Value::new_utf8s(kind)));
        v.push(ent(a));
        n += 1;
    }
    // generated credentials
    let pol = CryptoPolicy::minimum();
    {
        let mut a = person(n, &format!("gen{n}"));
        let c = Credential::new_password_only(&pol, "password", odt).expect("cred");
        a.push((Attribute::PrimaryCredential, Value::new_credential("primary", c)));
        v.push(ent(a));
        n += 1;
        let mut a = person(n, &format!("gen{n}"));
        let c = Credential::new_generatedpassword_only(&pol, "eicieY7ahchaoCh0eeTa", odt).expect("cred");
        a.push((Attribute::PrimaryCredential, Value::new_credential("primary", c)));
        v.push(ent(a));
        n += 1;
    }
    // sessions in each state, oauth2 sessions, ssh keys, mail, random utf8
    {
        let me = uuid_e(n);
        let mut a = person(n, &format!("sess{n}"));
        let states = [
            SessionState::NeverExpires,
            SessionState::ExpiresAt(odt + std::time::Duration::from_secs(3600)),
            SessionState::RevokedAt(Cid { s_uuid: Uuid::from_u128(0x51d), ts: base + std::time::Duration::from_secs(7) }),
        ];
        for (i, st) in states.iter().enumerate() {
            let sid = Uuid::from_u128(0x5e55_0000_0000_4000_8000_0000_0000_0000u128 + (n as u128) * 16 + i as u128);
            a.push((
                Attribute::UserAuthTokenSession,
                Value::Session(
                    sid,
                    Session {
                        label: format!("label{i}"),
                        state: st.clone(),
                        issued_at: odt,
                        issued_by: IdentityId::User(me),
                        cred_id: Uuid::from_u128(0xc0de + i as u128),
                        scope: [SessionScope::ReadOnly, SessionScope::ReadWrite, SessionScope::PrivilegeCapable][i],
                        type_: [AuthType::Passkey, AuthType::PasswordTotp, AuthType::GeneratedPassword][i],
                        ext_metadata: Default::default(),
                    },
                ),
            ));
        }
        a.push((Attribute::Mail, Value::new_email_address_primary_s("sess@example.com").expect("mail")));
        a.push((Attribute::Mail, Value::new_email_address_s("alt@example.com").expect("mail")));
        a.push((
            Attribute::SshPublicKey,
            Value::new_sshkey_str("k1", "ssh-ed25519 AAAAC3NzaC1lZDI1NTE5AAAAIAeGW1P6Pc2rPq0XqbRaDKBcXZUPRklo0L1EyR30CwoP william@amethyst").expect("ssh"),
        ));
        a.push((Attribute::LegalName, Value::new_utf8s(&format!("Legal {} \u{00e9}\u{4e16}", rng.below(1000)))));
        a.push((Attribute::AccountExpire, Value::new_datetime_epoch(base + std::time::Duration::from_secs(86400))));
        a.push((Attribute::AccountValidFrom, Value::new_datetime_epoch(base)));
        v.push(ent(a));
        n += 1;
    }
    // service account with api tokens
    {
        let me = uuid_e(n);
        let a = vec![
            (Attribute::Class, EntryClass::Object.to_value()),
            (Attribute::Class, EntryClass::Account.to_value()),
            (Attribute::Class, EntryClass::ServiceAccount.to_value()),
            (Attribute::Name, Value::new_iname(&format!("svc{n}"))),
            (Attribute::Uuid, Value::Uuid(me)),
            (Attribute::DisplayName, Value::new_utf8s("svc")),
            (
                Attribute::ApiTokenSession,
                Value::ApiToken(
                    Uuid::from_u128(0xa91_0001),
                    ApiToken { label: "t1".into(), expiry: None, issued_at: odt, issued_by: IdentityId::User(me), scope: ApiTokenScope::ReadOnly },
                ),
            ),
            (
                Attribute::ApiTokenSession,
                Value::ApiToken(
                    Uuid::from_u128(0xa91_0002),
                    ApiToken {
                        label: "t2".into(),
                        expiry: Some(odt + std::time::Duration::from_secs(999)),
                        issued_at: odt,
                        issued_by: IdentityId::Internal(Uuid::from_u128(9)),
                        scope: ApiTokenScope::ReadWrite,
                    },
                ),
            ),
        ];
        v.push(ent(a));
        n += 1;
    }
    // groups (posix, members, gidnumber)
    {
        let a = vec![
            (Attribute::Class, EntryClass::Object.to_value()),
            (Attribute::Class, EntryClass::Group.to_value()),
            (Attribute::Class, EntryClass::PosixGroup.to_value()),
            (Attribute::Name, Value::new_iname(&format!("grp{n}"))),
            (Attribute::Uuid, Value::Uuid(uuid_e(n))),
            (Attribute::GidNumber, Value::new_uint32(70000 + rng.below(1000) as u32)),
            (Attribute::Member, Value::Refer(uuid_e(1))),
            (Attribute::Member, Value::Refer(uuid_e(2))),
            (Attribute::Description, Value::new_utf8s("group with members")),
        ];
        v.push(ent(a));
        n += 1;
    }
    // oauth2 resource server (urls, scope maps, claim maps) + a user holding an oauth2 session to it
    {
        let rs = uuid_e(n);
        let grp = uuid_e(n - 1);
        let a = vec![
            (Attribute::Class, EntryClass::Object.to_value()),
            (Attribute::Class, EntryClass::Account.to_value()),
            (Attribute::Class, EntryClass::OAuth2ResourceServer.to_value()),
            (Attribute::Class, EntryClass::OAuth2ResourceServerBasic.to_value()),
            (Attribute::Name, Value::new_iname(&format!("rs{n}"))),
            (Attribute::Uuid, Value::Uuid(rs)),
            (Attribute::DisplayName, Value::new_utf8s("resource server")),
            (Attribute::OAuth2RsOriginLanding, Value::new_url_s("https://demo.example.com/landing").expect("url")),
            (Attribute::OAuth2RsOrigin, Value::new_url_s("https://demo.example.com/cb").expect("url")),
            (
                Attribute::OAuth2RsScopeMap,
                Value::new_oauthscopemap(grp, ["openid", "groups"].iter().map(|s| s.to_string()).collect()).expect("scopemap"),
            ),
            (
                Attribute::OAuth2RsClaimMap,
                Value::new_oauthclaimmap("role".to_string(), grp, ["admin", "user"].iter().map(|s| s.to_string()).collect()).expect("claimmap"),
            ),
        ];
        v.push(ent(a));
        n += 1;
        let mut a = person(n, &format!("osess{n}"));
        let parent = Uuid::from_u128(0x5e55_9999);
        a.push((
            Attribute::UserAuthTokenSession,
            Value::Session(
                parent,
                Session {
                    label: "parent".into(),
                    state: SessionState::NeverExpires,
                    issued_at: odt,
                    issued_by: IdentityId::User(uuid_e(n)),
                    cred_id: Uuid::from_u128(0xc0de),
                    scope: SessionScope::ReadWrite,
                    type_: AuthType::Password,
                    ext_metadata: Default::default(),
                },
            ),
        ));
        a.push((
            Attribute::OAuth2Session,
            Value::Oauth2Session(Uuid::from_u128(0x0a52_0001), Oauth2Session { parent: Some(parent), state: SessionState::NeverExpires, issued_at: odt, rs_uuid: rs }),
        ));
        a.push((
            Attribute::OAuth2Session,
            Value::Oauth2Session(
                Uuid::from_u128(0x0a52_0002),
                Oauth2Session { parent: Some(parent), state: SessionState::ExpiresAt(odt + std::time::Duration::from_secs(60)), issued_at: odt, rs_uuid: rs },
            ),
        ));
        v.push(ent(a));
        n += 1;
    }
    // keyed multi-values with SHARED outer keys and distinct inner identities:
    // two applications; a person holding two application passwords for the first one (different labels) and one
    // for the second; two more sessions issued from ONE credential; three api tokens of one issuer; two ssh key tags
    {
        let grp = uuid_e(n - 3);
        let (app1, app2) = (uuid_e(n), uuid_e(n + 1));
        for (i, app) in [app1, app2].iter().enumerate() {
            v.push(ent(vec![
                (Attribute::Class, EntryClass::Object.to_value()),
                (Attribute::Class, EntryClass::Account.to_value()),
                (Attribute::Class, EntryClass::ServiceAccount.to_value()),
                (Attribute::Class, EntryClass::Application.to_value()),
                (Attribute::Name, Value::new_iname(&format!("app{}x{i}", n))),
                (Attribute::Uuid, Value::Uuid(*app)),
                (Attribute::DisplayName, Value::new_utf8s("application")),
                (Attribute::LinkedGroup, Value::Refer(grp)),
            ]));
        }
        n += 2;
        let me = uuid_e(n);
        let mut a = person(n, &format!("keyed{n}"));
        for (app, label, clear) in [(app1, "laptop", "password"), (app1, "phone", "eicieY7ahchaoCh0eeTa"), (app1, "tablet", "Password"), (app2, "laptop", "password")] {
            let ap = kanidmd_lib::credential::apppwd::ApplicationPassword::new(app, label, clear, &pol).expect("app password");
            a.push((Attribute::ApplicationPassword, Value::ApplicationPassword(ap)));
        }
        let shared_cred = Uuid::from_u128(0xc0de_5a5e);
        for i in 0..3u128 {
            a.push((
                Attribute::UserAuthTokenSession,
                Value::Session(
                    Uuid::from_u128(0x5e55_7777_0000_4000_8000_0000_0000_0000u128 + i),
                    Session {
                        label: format!("same-cred-{i}"),
                        state: if i == 2 { SessionState::ExpiresAt(odt + std::time::Duration::from_secs(120)) } else { SessionState::NeverExpires },
                        issued_at: odt,
                        issued_by: IdentityId::User(me),
                        cred_id: shared_cred,
                        scope: SessionScope::ReadWrite,
                        type_: AuthType::Password,
                        ext_metadata: Default::default(),
                    },
                ),
            ));
        }
        for (tag, key) in [
            ("laptop", "ssh-ed25519 AAAAC3NzaC1lZDI1NTE5AAAAIAeGW1P6Pc2rPq0XqbRaDKBcXZUPRklo0L1EyR30CwoP william@amethyst"),
            ("desktop", "ssh-ed25519 AAAAC3NzaC1lZDI1NTE5AAAAIAeGW1P6Pc2rPq0XqbRaDKBcXZUPRklo0L1EyR30CwoP william@amethyst"),
        ] {
            a.push((Attribute::SshPublicKey, Value::new_sshkey_str(tag, key).expect("ssh")));
        }
        v.push(ent(a));
        n += 1;
        let svc = uuid_e(n);
        let mut a = vec![
            (Attribute::Class, EntryClass::Object.to_value()),
            (Attribute::Class, EntryClass::Account.to_value()),
            (Attribute::Class, EntryClass::ServiceAccount.to_value()),
            (Attribute::Name, Value::new_iname(&format!("svck{n}"))),
            (Attribute::Uuid, Value::Uuid(svc)),
            (Attribute::DisplayName, Value::new_utf8s("svc keyed")),
        ];
        for i in 0..3u128 {
            a.push((
                Attribute::ApiTokenSession,
                Value::ApiToken(
                    Uuid::from_u128(0xa91_1000 + i),
                    ApiToken { label: format!("same-issuer-{i}"), expiry: None, issued_at: odt, issued_by: IdentityId::User(svc), scope: ApiTokenScope::ReadOnly },
                ),
            ));
        }
        v.push(ent(a));
        n += 1;
    }
    // an entry that will be recycled (whole-entry form of a deleted entry)
    {
        let mut a = person(n, &format!("gone{n}"));
        a.push((Attribute::Description, Value::new_utf8s("to-recycle")));
        v.push(ent(a));
    }
    v
}

/// Observation of the whole server: harness entries attribute by attribute, other entries as one
/// digest per entry (replicated / non-replicated attributes separately).
pub async fn observe(qs: &QueryServer, detail: bool) -> J {
    let mut txn = qs.read().await.expect("read");
    let all = search_all(&mut txn);
    let schema = txn.get_schema();
    let mut out = Map::new();
    for e in all.iter() {
        let (r, n) = kvs::observe_entry(e, schema);
        let id = name_of(e.get_uuid());
        let live = liveness(e);
        let model = detail || (id.starts_with('e') && !id.contains('-'));
        let f = |m: std::collections::BTreeMap<String, String>| -> J {
            if model {
                J::Object(m.into_iter().map(|(k, v)| (k, J::String(v))).collect())
            } else {
                let s: Vec<String> = m.into_iter().map(|(k, v)| format!("{k}={v}")).collect();
                json!({"*": kvs::fnv(&s.join("\n"))})
            }
        };
        // keyed multi-values as sets of (outer key, inner identity) pairs (harness-made entries only)
        let p: Map<String, J> = if model {
            kvs::entry_pairs(e).into_iter().map(|(a, ps)| (a, json!(ps.into_iter().map(|(k, i)| json!([k, i])).collect::<Vec<_>>()))).collect()
        } else {
            Map::new()
        };
        out.insert(id, json!({"live": live, "r": f(r), "n": f(n), "p": p}));
    }
    J::Object(out)
}

pub struct World {
    pub k: u64,
    pub p: QueryServer,
    pub files: Vec<std::path::PathBuf>,
}
impl World {
    pub fn tick(&mut self) -> std::time::Duration {
        self.k += 1;
        t(self.k)
    }
}

/// Apply one storage transition to `cur`; returns (result class, next server).
pub async fn step(w: &mut World, cur: &QueryServer, tr: &str) -> (String, Option<QueryServer>) {
    match tr {
        "reload" => {
            let r = sx::clear_cache(cur, w.tick()).await;
            (sx::opres(&r), Some(cur.clone()))
        }
        "backup" | "backupgz" => {
            let gz = tr == "backupgz";
            let buf = match sx::backup(cur, gz).await {
                Ok(b) => b,
                Err(e) => return (format!("err:backup:{e:?}"), None),
            };
            let at = w.tick();
            w.tick();
            match sx::restore(&buf, gz, at).await {
                Ok((q, path)) => {
                    w.files.push(path);
                    ("ok".into(), Some(q))
                }
                Err(e) => (format!("err:restore:{e:?}"), None),
            }
        }
        "refresh" => {
            let b = sx::fresh(w.tick()).await;
            let r = sx::refresh(cur, &b, w.tick()).await;
            (sx::opres(&r), r.ok().map(|_| b))
        }
        "incr" => {
            let b = sx::fresh(w.tick()).await;
            let at = w.tick();
            if let Err(e) = sx::refresh(&w.p, &b, at).await {
                return (format!("err:prep:{e:?}"), None);
            }
            match sx::incremental(cur, &b, w.tick()).await {
                Ok(c) => (c.to_string(), Some(b)),
                Err(e) => (format!("err:{e:?}"), None),
            }
        }
        other => (format!("err:unknown-transition:{other}"), None),
    }
}

pub fn run(o: &Opts) -> i32 {
    let out = o.str("out", "/verif/work/C12/obs.ndjson");
    let mut tr = Tracer::create(&out);
    let mut rng = Rng::new(o.seed());
    // chains: from TLC (ndjson {"chain":[..]}) or a replay file (lines with a:"reset" carry the chain)
    let mut chains: Vec<Vec<String>> = Vec::new();
    if let Some(f) = o.get("chains").or(o.get("replay")) {
        for r in read_ndjson(f) {
            if let Some(c) = r.get("chain").and_then(|c| c.as_array()) {
                chains.push(c.iter().filter_map(|x| x.as_str().map(|s| s.to_string())).collect());
            }
        }
    } else {
        for a in TRANS {
            chains.push(vec![a.to_string()]);
        }
    }
    let detail = o.flag("detail");
    let rt = runtime();
    let t00 = std::time::Instant::now();
    let dbg = std::env::var("KV_TIMING").is_ok();
    macro_rules! lap { ($m:expr) => { if dbg { eprintln!("[{:8.2}s] {}", t00.elapsed().as_secs_f64(), $m); } } }
    rt.block_on(async {
        let p = sx::fresh(t(0)).await;
        lap!("P fresh");
        let mut w = World { k: 10, p, files: Vec::new() };
        // the universe entries are built once (KDFs are slow); every chain gets its own base server A
        let uni = universe(&mut rng, t(0));
        let n_uni = uni.len() as u64;
        lap!("universe built");
        for (ci, chain) in chains.iter().enumerate() {
            let a = sx::fresh(w.tick()).await;
            let at = w.tick();
            sx::refresh(&w.p, &a, at).await.expect("refresh P->A");
            {
                let mut wr = a.write(w.tick()).await.expect("write");
                for e in uni.iter() {
                    wr.internal_create(vec![e.clone()]).expect("universe create");
                }
                wr.commit().expect("commit");
                let mut wr = a.write(w.tick()).await.expect("write");
                wr.internal_delete_uuid(uuid_e(n_uni)).expect("recycle");
                wr.commit().expect("commit");
            }
            lap!("base A ready");
            let mut cur = a.clone();
            let st0 = observe(&cur, detail).await;
            tr.emit(&json!({"a":"reset","c":ci,"chain":chain,"res":"ok","st":st0}));
            for (si, trn) in chain.iter().enumerate() {
                let (res, next) = step(&mut w, &cur, trn).await;
                lap!(format!("step {trn}"));
                match next {
                    Some(q) => {
                        let st = observe(&q, detail).await;
                        tr.emit(&json!({"a":trn,"c":ci,"k":si+1,"res":res,"st":st}));
                        cur = q;
                    }
                    None => {
                        // the transition itself failed: logged with an empty state, judged by L1
                        tr.emit(&json!({"a":trn,"c":ci,"k":si+1,"res":res,"st":{}}));
                        break;
                    }
                }
            }
            drop(cur);
            for f in w.files.drain(..) {
                sx::remove_dbfile(&f);
            }
        }
    });
    sx::cleanup_dbfiles();
    let n = tr.finish();
    println!("OBSERVED lines={n} chains={} out={out}", chains.len());
    0
}
