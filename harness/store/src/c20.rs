//! C20: the finite request alphabet of KDirUuid replayed by a REAL user identity that holds a
//! grant-everything access control profile (created through real ACP entries).
//! Every request runs in its own write transaction from the same committed base state and is dropped.
use crate::sx;
use kanidmd_lib::constants::uuids::*;
use kanidmd_lib::prelude::*;
use kanidmd_lib::{f_or, filter, filter_all};
use kanidmd_lib::schema::SchemaTransaction;
use kanidmd_lib::server::batch_modify::BatchModifyEvent;
use kanidmd_lib::valueset::{ValueSetUtf8, ValueSetUuid};
use kanidmd_lib::verif::store as kvs;
use kvc::srv::*;
use kvc::util::*;
use serde_json::{json, Map, Value as J};
use std::collections::BTreeMap;
use std::sync::Arc;

const N_GROUP: u64 = 1;
const N_ACTOR: u64 = 2;
const N_ACP: u64 = 3;
const N_VICTIM: u64 = 4;
const N_RECYCLED: u64 = 5;
const N_PLAIN: u64 = 6; // a user-made entry without any unique attribute (no name / spn)
const N_FREE: u64 = 9; // a dynamic uuid nobody uses

fn chunks(u: Uuid) -> J {
    let v = u.as_u128();
    let c: Vec<u64> = (0..6).rev().map(|i| ((v >> (24 * i)) & 0xff_ffff) as u64).collect();
    json!(c)
}

fn project<'a, T: QueryServerTransaction<'a>>(txn: &mut T) -> J {
    let mut m = Map::new();
    for e in search_all(txn) {
        m.insert(kvs::entry_id(&e).to_string(), json!({"u": chunks(e.get_uuid()), "live": liveness(&e)}));
    }
    J::Object(m)
}

fn ent(avas: Vec<(Attribute, Value)>) -> EntryInitNew {
    let mut e: EntryInitNew = Entry::new();
    for (a, v) in avas {
        e.add_ava(a, v);
    }
    e
}
fn person(name: &str, uuid: Option<Uuid>) -> EntryInitNew {
    let mut v = vec![
        (Attribute::Class, EntryClass::Object.to_value()),
        (Attribute::Class, EntryClass::Account.to_value()),
        (Attribute::Class, EntryClass::Person.to_value()),
        (Attribute::Name, Value::new_iname(name)),
        (Attribute::DisplayName, Value::new_utf8s(name)),
    ];
    if let Some(u) = uuid {
        v.push((Attribute::Uuid, Value::Uuid(u)));
    }
    ent(v)
}

/// grant-everything profile: every attribute and class of the server's schema, target = every entry.
fn allow_all(w: &QueryServerWriteTransaction<'_>) -> EntryInitNew {
    let mut v = vec![
        (Attribute::Class, EntryClass::Object.to_value()),
        (Attribute::Class, EntryClass::AccessControlProfile.to_value()),
        (Attribute::Class, EntryClass::AccessControlTargetScope.to_value()),
        (Attribute::Class, EntryClass::AccessControlReceiverGroup.to_value()),
        (Attribute::Class, EntryClass::AccessControlModify.to_value()),
        (Attribute::Class, EntryClass::AccessControlCreate.to_value()),
        (Attribute::Class, EntryClass::AccessControlDelete.to_value()),
        (Attribute::Class, EntryClass::AccessControlSearch.to_value()),
        (Attribute::Name, Value::new_iname("kv_allow_everything")),
        (Attribute::Uuid, Value::Uuid(uuid_e(N_ACP))),
        (Attribute::AcpReceiverGroup, Value::Refer(uuid_e(N_GROUP))),
        (Attribute::AcpTargetScope, Value::new_json_filter_s("{\"pres\":\"class\"}").expect("filter")),
    ];
    let schema = w.get_schema();
    let mut attrs: Vec<Attribute> = schema.get_attributes().keys().cloned().collect();
    attrs.sort();
    for a in attrs {
        v.push((Attribute::AcpSearchAttr, Value::from(a.clone())));
        v.push((Attribute::AcpModifyRemovedAttr, Value::from(a.clone())));
        v.push((Attribute::AcpModifyPresentAttr, Value::from(a.clone())));
        v.push((Attribute::AcpCreateAttr, Value::from(a)));
    }
    let mut classes: Vec<String> = schema.get_classes().keys().map(|c| c.to_string()).collect();
    classes.sort();
    for c in classes {
        v.push((Attribute::AcpModifyClass, Value::new_iutf8(&c)));
        v.push((Attribute::AcpCreateClass, Value::new_iutf8(&c)));
    }
    ent(v)
}

#[derive(Clone)]
struct Req {
    abs: J,         // the abstract request (member of KDirUuid!Alphabet)
    detail: String, // which concrete target / value
}

fn res_class<T>(r: &Result<T, OperationError>) -> (&'static str, String) {
    match r {
        Ok(_) => ("ok", String::new()),
        Err(e) => ("refused", format!("{e:?}")),
    }
}

fn concrete_val(val: &str, target: Uuid) -> Uuid {
    match val {
        "same" => target,
        "dyn" => uuid_e(N_FREE),
        "reserved" => Uuid::from_u128(0x1234),
        _ => target,
    }
}

fn uuid_mod(kind: &str, val: &str, target: Uuid) -> Modify {
    let u = concrete_val(val, target);
    match kind {
        "present" => {
            if val == "illtyped" {
                Modify::Present(Attribute::Uuid, Value::new_utf8s("not-a-uuid"))
            } else {
                Modify::Present(Attribute::Uuid, Value::Uuid(u))
            }
        }
        "removed" => Modify::Removed(Attribute::Uuid, PartialValue::Uuid(u)),
        "purged" => Modify::Purged(Attribute::Uuid),
        "set" => Modify::Set(Attribute::Uuid, ValueSetUuid::new(u)),
        _ => Modify::Assert(Attribute::Uuid, PartialValue::Uuid(u)),
    }
}
fn other_mod(kind: &str) -> Modify {
    match kind {
        "present" => Modify::Present(Attribute::Description, Value::new_utf8s("kv-other")),
        "removed" => Modify::Removed(Attribute::Description, PartialValue::new_utf8s("kv-none")),
        "purged" => Modify::Purged(Attribute::Description),
        _ => Modify::Set(Attribute::Description, ValueSetUtf8::new("kv-set".to_string())),
    }
}

pub fn run(o: &Opts) -> i32 {
    let out = o.str("out", "/verif/work/C20/obs.ndjson");
    let mut tr = Tracer::create(&out);
    let full = o.flag("all-builtins");
    let rt = runtime();
    rt.block_on(async {
        let qs = sx::fresh(t(0)).await;
        // base state: receiver group, acting user, grant-everything ACP, victim, a recycled entry
        {
            let mut w = qs.write(t(1)).await.expect("write");
            let acp = allow_all(&w);
            w.internal_create(vec![
                ent(vec![
                    (Attribute::Class, EntryClass::Object.to_value()),
                    (Attribute::Class, EntryClass::Group.to_value()),
                    (Attribute::Name, Value::new_iname("kv_everything")),
                    (Attribute::Uuid, Value::Uuid(uuid_e(N_GROUP))),
                    (Attribute::Member, Value::Refer(uuid_e(N_ACTOR))),
                ]),
                person("kv_actor", Some(uuid_e(N_ACTOR))),
                acp,
                person("kv_victim", Some(uuid_e(N_VICTIM))),
                person("kv_gone", Some(uuid_e(N_RECYCLED))),
                ent(vec![
                    (Attribute::Class, EntryClass::Object.to_value()),
                    (Attribute::Class, EntryClass::ExtensibleObject.to_value()),
                    (Attribute::Uuid, Value::Uuid(uuid_e(N_PLAIN))),
                    (Attribute::DisplayName, Value::new_utf8s("no unique attribute")),
                ]),
            ])
            .expect("base create");
            w.commit().expect("commit");
            let mut w = qs.write(t(2)).await.expect("write");
            w.internal_delete_uuid(uuid_e(N_RECYCLED)).expect("recycle");
            w.commit().expect("commit");
        }
        let (actor, builtins): (Arc<EntrySealedCommitted>, Vec<Uuid>) = {
            let mut r = qs.read().await.expect("read");
            let a = r.internal_search_uuid(uuid_e(N_ACTOR)).expect("actor");
            let b: Vec<Uuid> = search_all(&mut r).iter().map(|e| e.get_uuid()).filter(|u| *u < DYNAMIC_RANGE_MINIMUM_UUID).collect();
            tr.emit(&json!({"a":"reset","res":"ok","st":project(&mut r)}));
            (a, b)
        };
        let ident = Identity::from_impersonate_entry_readwrite(actor);
        // ------------------------------------------------ the request list (same product as KDirUuid!Alphabet)
        let mut reqs: Vec<(Req, Box<dyn Fn(&mut QueryServerWriteTransaction<'_>, &Identity) -> Result<(), OperationError>>)> = Vec::new();
        let targets = |t: &str| -> Vec<(String, Uuid)> {
            if t == "user" {
                vec![("victim".into(), uuid_e(N_VICTIM)), ("plain".into(), uuid_e(N_PLAIN))]
            } else {
                vec![("idm_admins".into(), UUID_IDM_ADMINS), ("anonymous".into(), UUID_ANONYMOUS), ("domain_info".into(), UUID_DOMAIN_INFO)]
            }
        };
        for op in ["modify", "batch"] {
            for kind in ["present", "removed", "purged", "set", "assert", "swap", "purgeswap", "setrename"] {
                let vals: Vec<&str> = if kind == "swap" || kind == "purgeswap" || kind == "setrename" { vec!["dyn", "reserved"] } else if kind == "purged" { vec!["none"] } else if kind == "present" { vec!["same", "dyn", "reserved", "illtyped"] } else { vec!["same", "dyn", "reserved"] };
                for tgt in ["user", "builtin"] {
                    for val in vals.iter() {
                        for pos in ["only", "first", "last"] {
                            for (tname, tu) in targets(tgt) {
                                let (op, kind, val, pos) = (op.to_string(), kind.to_string(), val.to_string(), pos.to_string());
                                let abs = json!({"op":op,"kind":kind,"attr":"uuid","target":tgt,"val":val,"pos":pos});
                                let (op2, kind2, val2, pos2) = (op.clone(), kind.clone(), val.clone(), pos.clone());
                                reqs.push((Req { abs, detail: tname }, Box::new(move |w, ident| {
                                    let mut ums = match kind2.as_str() {
                                        // replace the uuid value by two modifies in one request
                                        "swap" => vec![uuid_mod("removed", "same", tu), uuid_mod("present", &val2, tu)],
                                        "purgeswap" => vec![uuid_mod("purged", "none", tu), uuid_mod("present", &val2, tu)],
                                        // replace the uuid AND give the entry a fresh unique name in the same request
                                        // (so that no uniqueness rule can mistake the re-identified entry for a duplicate)
                                        "setrename" => vec![
                                            uuid_mod("set", &val2, tu),
                                            Modify::Purged(Attribute::Name),
                                            Modify::Present(Attribute::Name, Value::new_iname("kv_renamed_in_same_request")),
                                        ],
                                        _ => vec![uuid_mod(&kind2, &val2, tu)],
                                    };
                                    let ml = match pos2.as_str() {
                                        "first" => {
                                            ums.push(other_mod("present"));
                                            ums
                                        }
                                        "last" => {
                                            ums.insert(0, other_mod("present"));
                                            ums
                                        }
                                        _ => ums,
                                    };
                                    apply_mod(w, ident, &op2, tu, ml)
                                })));
                            }
                        }
                    }
                }
            }
            for kind in ["present", "removed", "purged", "set"] {
                for tgt in ["user", "builtin"] {
                    for (tname, tu) in targets(tgt) {
                        let abs = json!({"op":op,"kind":kind,"attr":"other","target":tgt,"val":"none","pos":"only"});
                        let (op2, kind2) = (op.to_string(), kind.to_string());
                        reqs.push((Req { abs, detail: tname }, Box::new(move |w, ident| apply_mod(w, ident, &op2, tu, vec![other_mod(&kind2)]))));
                    }
                }
            }
        }
        for how in ["reserved_free", "reserved_dup", "anonymous", "doesnotexist", "dynmin", "dynamic", "absent", "dup_user", "dup_recycled", "two_values", "two_same", "mixed_reserved"] {
            let abs = json!({"op":"create","how":how});
            let how2 = how.to_string();
            reqs.push((Req { abs, detail: how.to_string() }, Box::new(move |w, ident| {
                let es: Vec<EntryInitNew> = match how2.as_str() {
                    "reserved_free" => vec![person("kvnew1", Some(Uuid::from_u128(0x00ab_cdef)))],
                    "reserved_dup" => vec![person("kvnew1", Some(UUID_IDM_ADMINS))],
                    "anonymous" => vec![person("kvnew1", Some(UUID_ANONYMOUS))],
                    "doesnotexist" => vec![person("kvnew1", Some(UUID_DOES_NOT_EXIST))],
                    "dynmin" => vec![person("kvnew1", Some(DYNAMIC_RANGE_MINIMUM_UUID))],
                    "dynamic" => vec![person("kvnew1", Some(uuid_e(N_FREE)))],
                    "absent" => vec![person("kvnew1", None)],
                    "dup_user" => vec![person("kvnew1", Some(uuid_e(N_VICTIM)))],
                    "dup_recycled" => vec![person("kvnew1", Some(uuid_e(N_RECYCLED)))],
                    "two_values" => {
                        let mut e = person("kvnew1", Some(uuid_e(N_FREE)));
                        e.add_ava(Attribute::Uuid, Value::Uuid(Uuid::from_u128(0x77)));
                        vec![e]
                    }
                    "two_same" => vec![person("kvnew1", Some(uuid_e(N_FREE))), person("kvnew2", Some(uuid_e(N_FREE)))],
                    _ => vec![person("kvnew1", Some(uuid_e(N_FREE))), person("kvnew2", Some(Uuid::from_u128(0x99)))],
                };
                let ce = CreateEvent::new_impersonate_identity(ident.clone(), es);
                w.create(&ce).map(|_| ())
            })));
        }
        let del = |abs_t: &str, detail: String, f: Filter<FilterInvalid>| -> (Req, Box<dyn Fn(&mut QueryServerWriteTransaction<'_>, &Identity) -> Result<(), OperationError>>) {
            let abs = json!({"op":"delete","target":abs_t});
            (Req { abs, detail }, Box::new(move |w, ident| {
                let de = DeleteEvent::from_parts(ident.clone(), &f, w)?;
                w.delete(&de)
            }))
        };
        let bl: Vec<Uuid> = if full { builtins.clone() } else { builtins.iter().step_by(4).cloned().chain([UUID_ADMIN, UUID_ANONYMOUS, UUID_DOMAIN_INFO]).collect() };
        for b in bl {
            reqs.push(del("builtin", b.to_string(), filter_all!(f_eq(Attribute::Uuid, PartialValue::Uuid(b)))));
        }
        reqs.push(del("builtin", "name=idm_admins".into(), filter!(f_eq(Attribute::Name, PartialValue::new_iname("idm_admins")))));
        reqs.push(del("builtin", "class=builtin".into(), filter!(f_eq(Attribute::Class, EntryClass::Builtin.into()))));
        reqs.push(del("user", "victim".into(), filter!(f_eq(Attribute::Uuid, PartialValue::Uuid(uuid_e(N_VICTIM))))));
        reqs.push(del("all", "pres class".into(), filter!(f_pres(Attribute::Class))));
        reqs.push(del("user_or_builtin", "victim|idm_admins".into(), filter!(f_or!([f_eq(Attribute::Uuid, PartialValue::Uuid(uuid_e(N_VICTIM))), f_eq(Attribute::Uuid, PartialValue::Uuid(UUID_IDM_ADMINS))]))));
        reqs.push(del("recycled", "gone".into(), filter!(f_eq(Attribute::Uuid, PartialValue::Uuid(uuid_e(N_RECYCLED))))));
        reqs.push(del("recycled", "gone (filter_all)".into(), filter_all!(f_eq(Attribute::Uuid, PartialValue::Uuid(uuid_e(N_RECYCLED))))));

        // replay: only the requests whose (abs, detail) appear in the replay file
        let only: Option<Vec<(J, String)>> = o.get("replay").map(|f| read_ndjson(f).into_iter().filter(|r| r["a"] == "req").map(|r| (r["r"].clone(), r["detail"].as_str().unwrap_or("").to_string())).collect());
        let mut k = 10u64;
        for (rq, f) in reqs.iter() {
            if let Some(sel) = &only {
                if !sel.iter().any(|(a, d)| *a == rq.abs && *d == rq.detail) {
                    continue;
                }
            }
            k += 1;
            let mut w = qs.write(t(k)).await.expect("write");
            let r = catch(|| f(&mut w, &ident));
            let (res, err) = match &r {
                Ok(r) => res_class(r),
                Err(p) => ("panic", p.clone()),
            };
            let st = if r.is_ok() { project(&mut w) } else { json!({}) };
            tr.emit(&json!({"a":"req","r":rq.abs,"detail":rq.detail,"res":res,"err":err,"st":st}));
            drop(w);
        }
    });
    let n = tr.finish();
    println!("OBSERVED lines={n} out={out}");
    0
}

fn apply_mod(w: &mut QueryServerWriteTransaction<'_>, ident: &Identity, op: &str, target: Uuid, ml: Vec<Modify>) -> Result<(), OperationError> {
    let ml = ModifyList::new_list(ml);
    if op == "batch" {
        let mlv = ml.validate(w.get_schema()).map_err(OperationError::SchemaViolation)?;
        let mut modset = BTreeMap::new();
        modset.insert(target, mlv);
        let bme = BatchModifyEvent { ident: ident.clone(), modset };
        w.batch_modify(&bme)
    } else {
        let f = filter_all!(f_eq(Attribute::Uuid, PartialValue::Uuid(target)));
        let fv = f.validate(w.get_schema()).map_err(OperationError::SchemaViolation)?;
        let mlv = ml.validate(w.get_schema()).map_err(OperationError::SchemaViolation)?;
        let me = ModifyEvent::new_impersonate(ident, fv.clone().into_ignore_hidden(), fv, mlv);
        w.modify(&me)
    }
}
