//! C15: random histories of valid and deliberately invalid creates / modifies / batch modifies,
//! schema ADDITIONS (new attributes and classes through real schema entries) and replicated merges of
//! individually valid edits, on two real servers A and B.  After every operation the stored entries of
//! both servers and (when it may have changed) the schema in force, projected from each server's own
//! schema, are logged; the TLA+ `Valid(e, schema)` judges every live entry (KDirSchema).
use crate::sx;
use kanidmd_lib::prelude::*;
use kanidmd_lib::schema::SchemaTransaction;
use kanidmd_lib::server::batch_modify::BatchModifyEvent;
use kanidmd_lib::valueset::ValueSetUtf8;
use kanidmd_lib::verif::store as kvs;
use kvc::srv::*;
use kvc::util::*;
use serde_json::{json, Map, Value as J};
use std::collections::BTreeMap;

const NE: u64 = 6;
const DEFECTS: &[&str] = &["valid", "valid", "valid", "missing_must", "not_allowed", "multi_single", "illtyped", "unknown_class", "unknown_attr"];

fn is_model(u: Uuid) -> bool {
    let n = name_of(u);
    n.starts_with('e') && !n.contains('-')
}

fn proj_entry(e: &EntrySealedCommitted) -> J {
    let mut attrs = Map::new();
    for (a, vs) in e.get_ava_iter() {
        attrs.insert(a.to_string(), json!({"n": vs.len(), "syn": format!("{:?}", vs.syntax())}));
    }
    let mut classes = ava_strings(e, Attribute::Class);
    classes.sort();
    let d = kvs::fnv(&kvs::canon(&dump_entry(e)));
    json!({"id": name_of(e.get_uuid()), "m": if is_model(e.get_uuid()) {1} else {0}, "live": liveness(e), "classes": classes, "attrs": attrs, "d": d})
}

async fn proj_server(qs: &QueryServer, all: bool) -> J {
    let mut r = qs.read().await.expect("read");
    let v: Vec<J> = search_all(&mut r).iter().filter(|e| all || is_model(e.get_uuid()) || liveness(e) == "conflict").map(|e| proj_entry(e)).collect();
    json!({"ents": v})
}

/// The schema in force, projected from the server's own schema (not through Entry::validate).
async fn proj_schema(qs: &QueryServer) -> J {
    let r = qs.read().await.expect("read");
    let s = r.get_schema();
    let mut classes = Map::new();
    for (n, c) in s.get_classes().iter() {
        let must: Vec<String> = c.systemmust.iter().chain(c.must.iter()).map(|a| a.to_string()).collect();
        let may: Vec<String> = c.systemmay.iter().chain(c.may.iter()).map(|a| a.to_string()).collect();
        classes.insert(n.to_string(), json!({"must": must, "may": may}));
    }
    let mut attrs = Map::new();
    for (n, a) in s.get_attributes().iter() {
        if a.phantom {
            continue; // phantom attributes can never be stored
        }
        attrs.insert(n.to_string(), json!({"multi": if a.multivalue {1} else {0}, "syn": format!("{:?}", a.syntax)}));
    }
    json!({"classes": classes, "attrs": attrs})
}

fn ent(avas: Vec<(Attribute, Value)>) -> EntryInitNew {
    let mut e: EntryInitNew = Entry::new();
    for (a, v) in avas {
        e.add_ava(a, v);
    }
    e
}

/// Build a create request for model entry n carrying the intended defect.
fn make_entry(n: u64, kind: u64, defect: &str, custom: bool) -> EntryInitNew {
    let name = format!("m{n}k{kind}");
    let mut v: Vec<(Attribute, Value)> = vec![(Attribute::Class, EntryClass::Object.to_value()), (Attribute::Uuid, Value::Uuid(uuid_e(n)))];
    match kind % 4 {
        0 => {
            v.push((Attribute::Class, EntryClass::Account.to_value()));
            v.push((Attribute::Class, EntryClass::Person.to_value()));
            v.push((Attribute::Name, Value::new_iname(&name)));
            if defect != "missing_must" {
                v.push((Attribute::DisplayName, Value::new_utf8s(&name)));
            }
            v.push((Attribute::Mail, Value::new_email_address_primary_s(&format!("{name}@example.com")).expect("mail")));
        }
        1 => {
            v.push((Attribute::Class, EntryClass::Group.to_value()));
            if defect != "missing_must" {
                v.push((Attribute::Name, Value::new_iname(&name)));
            }
            v.push((Attribute::Description, Value::new_utf8s("a group")));
        }
        2 => {
            v.push((Attribute::Class, EntryClass::Account.to_value()));
            v.push((Attribute::Class, EntryClass::ServiceAccount.to_value()));
            v.push((Attribute::Name, Value::new_iname(&name)));
            if defect != "missing_must" {
                v.push((Attribute::DisplayName, Value::new_utf8s(&name)));
            }
        }
        _ => {
            // an entry of the RUNTIME-DEFINED classes (only valid once those schema entries are in force):
            //   kvclass1 must {kvattr1 (utf8, single), name}  may {kvattr2 (utf8, multi), description}
            //   kvclass2 must {kvattr3 (uint32, single)}      may {kvattr1}
            //   kvattr4 (iname, multi) is in no class
            let second = custom || defect == "illtyped" || (defect == "missing_must" && n % 2 == 0);
            v.push((Attribute::Class, Value::new_iutf8("kvclass1")));
            v.push((Attribute::Name, Value::new_iname(&name)));
            if !(defect == "missing_must" && n % 2 == 1) {
                v.push((Attribute::from("kvattr1"), Value::new_utf8s("x")));
            }
            if defect == "multi_single" {
                v.push((Attribute::from("kvattr1"), Value::new_utf8s("x2")));
            }
            if second {
                v.push((Attribute::Class, Value::new_iutf8("kvclass2")));
                if defect == "illtyped" {
                    v.push((Attribute::from("kvattr3"), Value::new_utf8s("notanumber")));
                } else if defect != "missing_must" {
                    v.push((Attribute::from("kvattr3"), Value::new_uint32(7)));
                }
            }
            if custom {
                v.push((Attribute::from("kvattr2"), Value::new_utf8s("y1")));
                v.push((Attribute::from("kvattr2"), Value::new_utf8s("y2")));
            }
            if defect == "not_allowed" {
                v.push((Attribute::from("kvattr4"), Value::new_iname("nope")));
            }
            match defect {
                "unknown_class" => v.push((Attribute::Class, Value::new_iutf8("kvnosuchclass"))),
                "unknown_attr" => v.push((Attribute::from("kvnosuchattr"), Value::new_utf8s("z"))),
                _ => {}
            }
            return ent(v);
        }
    }
    match defect {
        "not_allowed" => v.push((Attribute::OAuth2RsOriginLanding, Value::new_url_s("https://x.example.com").expect("url"))),
        "multi_single" => {
            // exactly two values on a single-valued attribute (three for every other entry number)
            v.retain(|(a, _)| *a != Attribute::Description);
            v.push((Attribute::Description, Value::new_utf8s("one")));
            v.push((Attribute::Description, Value::new_utf8s("two")));
            if n % 2 == 0 {
                v.push((Attribute::Description, Value::new_utf8s("three")));
            }
        }
        "illtyped" => {
            // (a second, differently typed value on an existing attribute would trip a debug assertion while the
            // REQUEST is being built, before any server code runs)
            v.retain(|(a, _)| *a != Attribute::Description);
            v.push((Attribute::Description, Value::new_iname("wrongsyntax")));
        }
        "unknown_class" => v.push((Attribute::Class, Value::new_iutf8("kvnosuchclass"))),
        "unknown_attr" => v.push((Attribute::from("kvnosuchattr"), Value::new_utf8s("z"))),
        _ => {}
    }
    ent(v)
}

/// modify lists aimed at entries of the runtime-defined class kvclass1
fn make_custom_modlist(defect: &str, variant: u64) -> ModifyList<ModifyInvalid> {
    let a = |s: &str| Attribute::from(s);
    let m = match defect {
        "missing_must" => vec![Modify::Purged(a("kvattr1"))],
        "not_allowed" => vec![Modify::Present(a("kvattr4"), Value::new_iname("nope"))],
        "multi_single" => vec![Modify::Present(a("kvattr1"), Value::new_utf8s("second"))],
        "illtyped" => vec![Modify::Set(a("kvattr1"), kanidmd_lib::valueset::ValueSetIname::new("wrongtype"))],
        "unknown_class" => vec![Modify::Present(Attribute::Class, Value::new_iutf8("kvnosuchclass"))],
        "unknown_attr" => vec![Modify::Present(a("kvnosuchattr"), Value::new_utf8s("z"))],
        _ => match variant % 3 {
            0 => vec![Modify::Present(a("kvattr2"), Value::new_utf8s("more"))],
            1 => vec![Modify::Present(Attribute::Class, Value::new_iutf8("kvclass2")), Modify::Purged(a("kvattr3")), Modify::Present(a("kvattr3"), Value::new_uint32(9))],
            _ => vec![Modify::Purged(Attribute::Description), Modify::Present(Attribute::Description, Value::new_utf8s("custom changed"))],
        },
    };
    ModifyList::new_list(m)
}

fn make_modlist(defect: &str, kind: &str) -> ModifyList<ModifyInvalid> {
    let m = match defect {
        "missing_must" => vec![Modify::Purged(Attribute::Name)],
        "not_allowed" => vec![Modify::Present(Attribute::OAuth2RsOriginLanding, Value::new_url_s("https://x.example.com").expect("url"))],
        // exactly two values afterwards, whatever was stored before
        "multi_single" => vec![Modify::Purged(Attribute::Description), Modify::Present(Attribute::Description, Value::new_utf8s("m1")), Modify::Present(Attribute::Description, Value::new_utf8s("m2"))],
        "illtyped" => vec![Modify::Set(Attribute::Name, ValueSetUtf8::new("notaniname".to_string()))],
        "unknown_class" => vec![Modify::Present(Attribute::Class, Value::new_iutf8("kvnosuchclass"))],
        "unknown_attr" => vec![Modify::Present(Attribute::from("kvnosuchattr"), Value::new_utf8s("z"))],
        _ => match kind {
            "desc" => vec![Modify::Purged(Attribute::Description), Modify::Present(Attribute::Description, Value::new_utf8s("changed"))],
            "addposix" => vec![Modify::Present(Attribute::Class, EntryClass::PosixAccount.to_value())],
            "shell" => vec![Modify::Purged(Attribute::LoginShell), Modify::Present(Attribute::LoginShell, Value::new_iutf8("/bin/zsh"))],
            "dropposix" => vec![Modify::Purged(Attribute::GidNumber), Modify::Purged(Attribute::LoginShell), Modify::Purged(Attribute::UnixPassword),
                                 Modify::Removed(Attribute::Class, EntryClass::PosixAccount.into())],
            "custom" => vec![Modify::Present(Attribute::from("kvattr2"), Value::new_utf8s("more"))],
            _ => vec![Modify::Purged(Attribute::Description)],
        },
    };
    ModifyList::new_list(m)
}

fn schema_attr(name: &str, n: u64, syntax: &str, multi: bool) -> EntryInitNew {
    ent(vec![
        (Attribute::Class, EntryClass::Object.to_value()),
        (Attribute::Class, EntryClass::AttributeType.to_value()),
        (Attribute::Uuid, Value::Uuid(uuid_e(900 + n))),
        (Attribute::AttributeName, Value::new_iutf8(name)),
        (Attribute::Description, Value::new_utf8s("kv custom attribute")),
        (Attribute::MultiValue, Value::new_bool(multi)),
        (Attribute::Unique, Value::new_bool(false)),
        (Attribute::Syntax, Value::new_syntaxs(syntax).expect("syntax")),
    ])
}
fn schema_class(which: u64) -> EntryInitNew {
    let mut v = vec![
        (Attribute::Class, EntryClass::Object.to_value()),
        (Attribute::Class, EntryClass::ClassType.to_value()),
        (Attribute::Uuid, Value::Uuid(uuid_e(909 + which))),
        (Attribute::ClassName, Value::new_iutf8(&format!("kvclass{which}"))),
        (Attribute::Description, Value::new_utf8s("kv custom class")),
    ];
    if which == 1 {
        v.push((Attribute::Must, Value::new_iutf8("kvattr1")));
        v.push((Attribute::Must, Value::from(Attribute::Name)));
        v.push((Attribute::May, Value::new_iutf8("kvattr2")));
        v.push((Attribute::May, Value::from(Attribute::Description)));
    } else {
        v.push((Attribute::Must, Value::new_iutf8("kvattr3")));
        v.push((Attribute::May, Value::new_iutf8("kvattr1")));
    }
    ent(v)
}
fn schema_entry(what: &str) -> EntryInitNew {
    match what {
        "attr1" => schema_attr("kvattr1", 1, "UTF8STRING", false),
        "attr2" => schema_attr("kvattr2", 2, "UTF8STRING", true),
        "attr3" => schema_attr("kvattr3", 3, "UINT32", false),
        "attr4" => schema_attr("kvattr4", 4, "UTF8STRING_INAME", true),
        "class2" => schema_class(2),
        _ => schema_class(1),
    }
}
const SCHEMA_ORDER: &[&str] = &["attr1", "attr2", "attr3", "attr4", "class1", "class2"];

/// `live`: model entries currently live on A (biases the choice of targets only)
pub fn random_op(rng: &mut Rng, live: &[u64], step: u64, dynlevel: bool) -> J {
    if dynlevel {
        return random_op_dyn(rng, live, step);
    }
    let srv = if rng.chance(1, 2) { "A" } else { "B" };
    let absent: Vec<u64> = (1..=NE).filter(|n| !live.contains(n)).collect();
    let tgt = |rng: &mut Rng| -> u64 { if live.is_empty() || rng.chance(1, 8) { rng.range(1, NE) } else { *rng.pick(live) } };
    let fresh = |rng: &mut Rng| -> u64 { if absent.is_empty() || rng.chance(1, 8) { rng.range(1, NE) } else { *rng.pick(&absent) } };
    let defect = *rng.pick(DEFECTS);
    if step < 3 {
        // seed the history with valid entries of the three built-in kinds on A, then replicate
        return json!({"op":"create","srv":"A","n":step + 1,"kind":step,"defect":"valid","custom2":false});
    }
    // scripted prefix: a replicated merge of two individually valid edits that is not a valid entry
    match step {
        3 => return json!({"op":"modify","srv":"A","n":1,"defect":"valid","kind":"addposix","batch":false}),
        4 => return json!({"op":"repl","from":"A"}),
        5 => return json!({"op":"split","n":1}),
        6 => return json!({"op":"repl","from":"A"}),
        7 => return json!({"op":"repl","from":"B"}),
        _ => {}
    }
    match rng.below(100) {
        0..=21 => json!({"op":"create","srv":srv,"n":fresh(rng),"kind":rng.below(4),"defect":defect,"custom2":rng.chance(1,2)}),
        22..=54 => json!({"op":"modify","srv":srv,"n":tgt(rng),"defect":defect,"kind":*rng.pick(&["desc","addposix","shell","dropposix","custom","purge"]),"batch":rng.chance(1,3)}),
        55..=62 => json!({"op":"schema","srv":"A","what":*rng.pick(&["attr1","attr2","class1"])}),
        63..=69 => json!({"op":"split","n":tgt(rng)}),
        70..=86 => json!({"op":"repl","from": srv}),
        87..=93 => json!({"op":"recycle","srv":srv,"n":tgt(rng)}),
        _ => json!({"op":"revive","srv":srv,"n":rng.range(1, NE)}),
    }
}

/// histories on level-14 servers: runtime classes and attributes first (on both servers), then mostly entries of them
fn random_op_dyn(rng: &mut Rng, live: &[u64], step: u64) -> J {
    let srv = if rng.chance(1, 2) { "A" } else { "B" };
    let absent: Vec<u64> = (1..=NE).filter(|n| !live.contains(n)).collect();
    let tgt = |rng: &mut Rng| -> u64 { if live.is_empty() || rng.chance(1, 8) { rng.range(1, NE) } else { *rng.pick(live) } };
    let fresh = |rng: &mut Rng| -> u64 { if absent.is_empty() || rng.chance(1, 8) { rng.range(1, NE) } else { *rng.pick(&absent) } };
    let defect = *rng.pick(DEFECTS);
    let k = SCHEMA_ORDER.len() as u64;
    // step 0: a custom entry BEFORE its class exists (must be refused); then the schema on A and on B
    if step == 0 {
        return json!({"op":"create","srv":"A","n":1,"kind":3,"defect":"valid","custom2":false});
    }
    if step <= 2 * k {
        let i = (step - 1) as usize;
        return json!({"op":"schema","srv": if i < k as usize {"A"} else {"B"},"what":SCHEMA_ORDER[i % k as usize]});
    }
    if step <= 2 * k + 2 {
        // one valid custom entry on each server to aim modifies at
        return json!({"op":"create","srv": if step == 2 * k + 1 {"A"} else {"B"},"n":1,"kind":3,"defect":"valid","custom2":step == 2 * k + 1});
    }
    match rng.below(100) {
        0..=29 => json!({"op":"create","srv":srv,"n":fresh(rng),"kind":3,"defect":defect,"custom2":rng.chance(1,2)}),
        30..=37 => json!({"op":"create","srv":srv,"n":fresh(rng),"kind":rng.below(3),"defect":defect,"custom2":false}),
        38..=72 => json!({"op":"cmodify","srv":srv,"n":tgt(rng),"defect":defect,"variant":rng.below(3),"batch":rng.chance(1,3)}),
        73..=80 => json!({"op":"modify","srv":srv,"n":tgt(rng),"defect":defect,"kind":*rng.pick(&["desc","addposix","shell","dropposix","purge"]),"batch":rng.chance(1,3)}),
        81..=86 => json!({"op":"schema","srv":srv,"what":*rng.pick(&["extend","attr4","class2"])}),
        87..=94 => json!({"op":"recycle","srv":srv,"n":tgt(rng)}),
        _ => json!({"op":"revive","srv":srv,"n":rng.range(1, NE)}),
    }
}

pub struct Pair {
    pub a: QueryServer,
    pub b: QueryServer,
    pub now: u64,
    /// "dyn" histories: two INDEPENDENT servers kept at DOMAIN_LEVEL_14, where attributetype / classtype entries
    /// stored in the database are loaded into the schema in force (from 1.11 on the schema is compiled in and
    /// runtime classes never take effect); replication needs the target level, so these histories do not replicate
    pub dynlevel: bool,
}
impl Pair {
    fn srv(&self, s: &str) -> &QueryServer {
        if s == "B" { &self.b } else { &self.a }
    }
}

fn rc<T>(r: &Result<T, OperationError>) -> (String, String) {
    match r {
        Ok(_) => ("ok".into(), String::new()),
        Err(e) => ("refused".into(), format!("{e:?}").chars().take(90).collect()),
    }
}

async fn write_op(qs: &QueryServer, at: std::time::Duration, f: impl FnOnce(&mut QueryServerWriteTransaction<'_>) -> Result<(), OperationError>) -> (String, String) {
    let mut w = qs.write(at).await.expect("write");
    // a panic inside kanidm code on a request is data: the transaction is abandoned
    match catch(|| f(&mut w)) {
        Ok(Ok(())) => rc(&w.commit()),
        Ok(Err(e)) => {
            drop(w);
            rc::<()>(&Err(e))
        }
        Err(p) => {
            drop(w);
            ("panic".into(), p.chars().take(90).collect())
        }
    }
}

/// Does the request's defect label apply as given?  (the target must exist and be live for a modify; the custom
/// class / attributes must already be in the schema of the server for requests that use them)
async fn label(p: &Pair, op: &J) -> (bool, String) {
    let srv = op["srv"].as_str().unwrap_or("A");
    let n = op["n"].as_u64().unwrap_or(1);
    let mut defect = op["defect"].as_str().unwrap_or("valid").to_string();
    let mut r = p.srv(srv).read().await.expect("read");
    let (has_class, has_a2, has_second, has_a1) = {
        let s = r.get_schema();
        let at = |x: &str| s.get_attributes().contains_key(&Attribute::from(x));
        (s.get_classes().contains_key("kvclass1"), at("kvattr2"), s.get_classes().contains_key("kvclass2") && at("kvattr3"), at("kvattr1"))
    };
    let target = r.internal_search_uuid(uuid_e(n)).ok();
    match op["op"].as_str().unwrap_or("") {
        "create" => {
            if op["kind"].as_u64().unwrap_or(0) % 4 == 3 && defect != "unknown_class" {
                if !has_class || !has_a1 {
                    defect = "unknown_class".into();
                } else if op["custom2"].as_bool().unwrap_or(false) && (!has_a2 || !has_second) && defect == "valid" {
                    defect = "unknown_attr".into();
                }
            }
            // an entry with this uuid already stored (any liveness) is refused for another reason
            let exists = search_all(&mut r).iter().any(|e| e.get_uuid() == uuid_e(n));
            (!exists, defect)
        }
        "cmodify" => {
            // aimed at a live entry of the runtime class; the "valid" variants need what they touch to be in the schema
            let custom = target.as_ref().map(|t| t.attribute_equality(Attribute::Class, &PartialValue::new_iutf8("kvclass1"))).unwrap_or(false);
            let mut applies = custom && has_class && has_a1;
            if defect == "valid" {
                applies = applies && match op["variant"].as_u64().unwrap_or(0) % 3 { 0 => has_a2, 1 => has_second, _ => true };
            }
            if defect == "multi_single" || defect == "missing_must" {
                applies = applies && target.as_ref().map(|t| t.attribute_pres(Attribute::from("kvattr1"))).unwrap_or(false);
            }
            (applies, defect)
        }
        "modify" => {
            let kind = op["kind"].as_str().unwrap_or("desc");
            let mut applies = target.is_some();
            if let Some(t) = &target {
                let posix = t.attribute_equality(Attribute::Class, &EntryClass::PosixAccount.into());
                let account = t.attribute_equality(Attribute::Class, &EntryClass::Account.into());
                let custom = t.attribute_equality(Attribute::Class, &PartialValue::new_iutf8("kvclass1"));
                if defect == "missing_must" {
                    // purging `name` only breaks entries whose classes require it
                    applies = account || custom;
                }
                if defect == "valid" {
                    // the "valid" edits are only valid on the entry kinds they are meant for
                    applies = match kind {
                        "addposix" => account && !posix,
                        "shell" | "dropposix" => posix,
                        "custom" => custom && has_a2,
                        _ => true,
                    };
                }
            }
            (applies, defect)
        }
        _ => (true, defect),
    }
}

/// Apply one op; returns (result class, error text, schema may have changed)
pub async fn apply(p: &mut Pair, op: &J) -> (String, String, bool) {
    p.now += 1;
    let at = t(p.now);
    let n = op["n"].as_u64().unwrap_or(1);
    let defect = op["defect"].as_str().unwrap_or("valid").to_string();
    let srv = op["srv"].as_str().unwrap_or("A").to_string();
    match op["op"].as_str().unwrap_or("") {
        "create" => {
            let e = make_entry(n, op["kind"].as_u64().unwrap_or(0), &defect, op["custom2"].as_bool().unwrap_or(false));
            let (r, e2) = write_op(p.srv(&srv), at, |w| w.internal_create(vec![e])).await;
            (r, e2, false)
        }
        "modify" => {
            let ml = make_modlist(&defect, op["kind"].as_str().unwrap_or("desc"));
            let batch = op["batch"].as_bool().unwrap_or(false);
            let (r, e2) = write_op(p.srv(&srv), at, |w| {
                if batch {
                    let mlv = ml.validate(w.get_schema()).map_err(OperationError::SchemaViolation)?;
                    let mut modset = BTreeMap::new();
                    modset.insert(uuid_e(n), mlv);
                    // internal identity through the public internal API
                    let _ = BatchModifyEvent { ident: kvs::internal_identity(), modset: modset.clone() };
                    w.batch_modify(&BatchModifyEvent { ident: kvs::internal_identity(), modset })
                } else {
                    w.internal_modify_uuid(uuid_e(n), &ml)
                }
            })
            .await;
            (r, e2, false)
        }
        "cmodify" => {
            let ml = make_custom_modlist(&defect, op["variant"].as_u64().unwrap_or(0));
            let batch = op["batch"].as_bool().unwrap_or(false);
            let (r, e2) = write_op(p.srv(&srv), at, |w| {
                if batch {
                    let mlv = ml.validate(w.get_schema()).map_err(OperationError::SchemaViolation)?;
                    let mut modset = BTreeMap::new();
                    modset.insert(uuid_e(n), mlv);
                    w.batch_modify(&BatchModifyEvent { ident: kvs::internal_identity(), modset })
                } else {
                    w.internal_modify_uuid(uuid_e(n), &ml)
                }
            })
            .await;
            (r, e2, false)
        }
        "schema" => {
            // schema ADDITIONS only: new attributes, new classes, one more `may` on an existing runtime class
            let what = op["what"].as_str().unwrap_or("attr1").to_string();
            let target = if p.dynlevel { p.srv(&srv) } else { &p.a };
            let (r, e2) = if what == "extend" {
                write_op(target, at, |w| w.internal_modify_uuid(uuid_e(910), &ModifyList::new_list(vec![Modify::Present(Attribute::May, Value::from(Attribute::LegalName))]))).await
            } else {
                let e = schema_entry(&what);
                write_op(target, at, |w| w.internal_create(vec![e])).await
            };
            (r, e2, true)
        }
        // two individually valid edits of the same entry on the two servers that do not merge to a valid entry:
        // A drops the posix class (and what it allows), B sets an attribute only that class allows
        "split" if p.dynlevel => ("refused".into(), "no replication below the target level".into(), false),
        "split" => {
            let (r1, e1) = write_op(&p.a, at, |w| w.internal_modify_uuid(uuid_e(n), &make_modlist("valid", "dropposix"))).await;
            p.now += 1;
            let (r2, e2) = write_op(&p.b, t(p.now), |w| w.internal_modify_uuid(uuid_e(n), &make_modlist("valid", "shell"))).await;
            (format!("{r1}+{r2}"), format!("{e1}|{e2}"), false)
        }
        "repl" if p.dynlevel => ("refused".into(), "no replication below the target level".into(), false),
        "repl" => {
            let (from, to) = if op["from"].as_str().unwrap_or("A") == "A" { (&p.a, &p.b) } else { (&p.b, &p.a) };
            match sx::incremental(from, to, at).await {
                Ok(c) => (if c == "changes" || c == "nochanges" { "ok".into() } else { "refused".into() }, c.to_string(), true),
                Err(e) => ("refused".into(), format!("{e:?}"), true),
            }
        }
        "recycle" => {
            let (r, e2) = write_op(p.srv(&srv), at, |w| w.internal_delete_uuid(uuid_e(n))).await;
            (r, e2, false)
        }
        "revive" => {
            let (r, e2) = write_op(p.srv(&srv), at, |w| kvs::revive_uuid(w, uuid_e(n))).await;
            (r, e2, false)
        }
        _ => ("refused".into(), "unknown op".into(), false),
    }
}

async fn new_pair(dynlevel: bool) -> Pair {
    if dynlevel {
        let a = sx::fresh_level(t(0), DOMAIN_LEVEL_14).await;
        let b = sx::fresh_level(t(1), DOMAIN_LEVEL_14).await;
        return Pair { a, b, now: 10, dynlevel };
    }
    let a = sx::fresh(t(0)).await;
    let b = sx::fresh(t(1)).await;
    sx::refresh(&a, &b, t(2)).await.expect("refresh A->B");
    Pair { a, b, now: 10, dynlevel }
}

async fn state(p: &Pair, all: bool) -> J {
    json!({"A": proj_server(&p.a, all).await, "B": proj_server(&p.b, all).await})
}
async fn schemas(p: &Pair) -> J {
    json!({"A": proj_schema(&p.a).await, "B": proj_schema(&p.b).await})
}

pub fn run(o: &Opts) -> i32 {
    let out = o.str("out", "/verif/work/C15/obs.ndjson");
    let mut tr = Tracer::create(&out);
    let seed = o.seed();
    let nh = o.u64("histories", 6);
    let ndyn = o.u64("dyn-histories", 2);
    let len = o.u64("len", 40);
    let replay: Option<Vec<J>> = o.get("replay").map(read_ndjson);
    let rt = runtime();
    rt.block_on(async {
        let mut script: Vec<(u64, bool, Option<Vec<J>>)> = Vec::new();
        if let Some(lines) = replay {
            for l in lines {
                if l["a"] == "reset" {
                    script.push((l["h"].as_u64().unwrap_or(0), l["dyn"].as_u64().unwrap_or(0) == 1, Some(Vec::new())));
                } else if l["a"] == "op" {
                    if let Some((_, _, Some(v))) = script.last_mut() {
                        v.push(l["op"].clone());
                    }
                }
            }
        } else {
            for hi in 0..(nh + ndyn) {
                script.push((hi, hi >= nh, None));
            }
        }
        for (hi, dynlevel, fixed) in script {
            let mut rng = Rng::new(seed.wrapping_mul(7_000_003).wrapping_add(hi));
            let mut p = new_pair(dynlevel).await;
            tr.emit(&json!({"a":"reset","h":hi,"dyn": if dynlevel {1} else {0},"res":"ok","st":state(&p, true).await,"schema":schemas(&p).await}));
            let count = fixed.as_ref().map(|v| v.len() as u64).unwrap_or(len);
            let mut live: Vec<u64> = Vec::new();
            for step in 0..count {
                let op = match &fixed {
                    Some(v) => v[step as usize].clone(),
                    None => random_op(&mut rng, &live, step, dynlevel),
                };
                let (applies, defect) = label(&p, &op).await;
                let (res, err, sch) = apply(&mut p, &op).await;
                // the whole database (built-in entries too) is re-validated whenever the schema may have changed
                // (level-14 servers hold ~300 schema entries: there, the full dump is taken once the scripted schema
                // prefix is complete and after every later schema change)
                let full = sch && (!dynlevel || step >= 2 * SCHEMA_ORDER.len() as u64);
                let st = state(&p, full).await;
                live = st["A"]["ents"].as_array().map(|a| a.iter().filter(|e| e["m"] == 1 && e["live"] == "live")
                    .filter_map(|e| e["id"].as_str().and_then(|x| x[1..].parse::<u64>().ok())).filter(|n| *n <= NE).collect()).unwrap_or_default();
                let mut line = json!({"a":"op","op":op,"applies": if applies {1} else {0},"defect":defect,"res":res,"err":err,"st":st});
                if sch {
                    line["schema"] = schemas(&p).await;
                }
                tr.emit(&line);
            }
        }
    });
    let n = tr.finish();
    println!("OBSERVED lines={n} out={out}");
    0
}
