//! Group driver: runs the REAL kanidm code and records observed traces (ndjson) which TLC
//! validates against the TLA+ specifications in /verif/spec. See /verif/DESIGN.md.
use kvc::util::Opts;
mod sx;
mod c12;
mod c21;
mod c20;
mod c03;
mod c15;
mod c48;

fn main() {
    let args: Vec<String> = std::env::args().collect();
    if args.len() < 2 {
        eprintln!("usage: {} <subcommand> [--key value ...]", args[0]);
        std::process::exit(2);
    }
    let opts = Opts::parse(&args[2..]);
    let rc = match args[1].as_str() {
        "c12" => c12::run(&opts),
        "c21" => c21::run(&opts),
        "c20" => c20::run(&opts),
        "c03" => c03::run(&opts),
        "c15" => c15::run(&opts),
        "c48" => c48::run(&opts),
        other => {
            eprintln!("unknown subcommand {other}");
            2
        }
    };
    std::process::exit(rc);
}
