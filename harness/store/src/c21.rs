//! C21: gid numbers through the REAL gidnumber plugin (create / modify / replace / batch / Set / batch Set paths).
//! Every case runs in its own write transaction that is dropped without commit.
use crate::sx;
use kanidmd_lib::prelude::*;
use kvc::srv::*;
use kvc::util::*;
use serde_json::{json, Value as J};

fn halves(x: Option<u32>) -> J {
    match x {
        Some(v) => json!({"h": (v >> 16) as i64, "l": (v & 0xffff) as i64}),
        None => json!({"h": -1, "l": 0}),
    }
}
fn uuid_tail(u: u32) -> Uuid {
    uuid_e(u as u64)
}
fn class_of(e: &str) -> String {
    e.split(':').next().unwrap_or("err").to_string()
}
fn res<T>(r: &Result<T, OperationError>) -> String {
    match r {
        Ok(_) => "ok".into(),
        Err(e) => format!("err:{e:?}").replace(' ', ""),
    }
}

fn base_entry(kind: &str, u: u32, posix: bool) -> EntryInitNew {
    let mut e: EntryInitNew = Entry::new();
    e.add_ava(Attribute::Class, EntryClass::Object.to_value());
    e.add_ava(Attribute::Uuid, Value::Uuid(uuid_tail(u)));
    e.add_ava(Attribute::Name, Value::new_iname(&format!("x{u:08x}")));
    if kind == "group" {
        e.add_ava(Attribute::Class, EntryClass::Group.to_value());
        if posix {
            e.add_ava(Attribute::Class, EntryClass::PosixGroup.to_value());
        }
    } else {
        e.add_ava(Attribute::Class, EntryClass::Account.to_value());
        e.add_ava(Attribute::Class, EntryClass::Person.to_value());
        e.add_ava(Attribute::DisplayName, Value::new_utf8s("x"));
        if posix {
            e.add_ava(Attribute::Class, EntryClass::PosixAccount.to_value());
        }
    }
    e
}
fn posix_class(kind: &str) -> Value {
    if kind == "group" {
        EntryClass::PosixGroup.to_value()
    } else {
        EntryClass::PosixAccount.to_value()
    }
}

fn stored(w: &mut QueryServerWriteTransaction<'_>, u: u32) -> (Option<u32>, bool) {
    match w.internal_search_uuid(uuid_tail(u)) {
        Ok(e) => (
            e.get_ava_single_uint32(Attribute::GidNumber),
            e.attribute_equality(Attribute::Class, &EntryClass::PosixAccount.into())
                || e.attribute_equality(Attribute::Class, &EntryClass::PosixGroup.into()),
        ),
        Err(_) => (None, false),
    }
}

/// One request; returns (result class, stored gid, is posix afterwards).
async fn one(qs: &QueryServer, at: std::time::Duration, kind: &str, path: &str, u: u32, sup: Option<u32>) -> (String, Option<u32>, bool) {
    let mut w = qs.write(at).await.expect("write");
    let r: Result<(), OperationError> = match path {
        // create a posix entry, with or without a supplied number
        "create" => {
            let mut e = base_entry(kind, u, true);
            if let Some(g) = sup {
                e.add_ava(Attribute::GidNumber, Value::new_uint32(g));
            }
            w.internal_create(vec![e])
        }
        // create a plain entry, then make it posix (and supply the number) by a modify
        "modify" => w.internal_create(vec![base_entry(kind, u, false)]).and_then(|_| {
            let mut m = vec![Modify::Present(Attribute::Class, posix_class(kind))];
            if let Some(g) = sup {
                m.push(Modify::Present(Attribute::GidNumber, Value::new_uint32(g)));
            }
            w.internal_modify_uuid(uuid_tail(u), &ModifyList::new_list(m))
        }),
        // existing posix entry with a generated number: replace it (purge + present)
        "replace" => w.internal_create(vec![base_entry(kind, u, true)]).and_then(|_| {
            let mut m = vec![Modify::Purged(Attribute::GidNumber)];
            if let Some(g) = sup {
                m.push(Modify::Present(Attribute::GidNumber, Value::new_uint32(g)));
            }
            w.internal_modify_uuid(uuid_tail(u), &ModifyList::new_list(m))
        }),
        // the same through batch modify
        "batch" => w.internal_create(vec![base_entry(kind, u, false)]).and_then(|_| {
            let mut m = vec![Modify::Present(Attribute::Class, posix_class(kind))];
            if let Some(g) = sup {
                m.push(Modify::Present(Attribute::GidNumber, Value::new_uint32(g)));
            }
            w.internal_batch_modify([(uuid_tail(u), ModifyList::new_list(m))].into_iter())
        }),
        // existing posix entry: the number is replaced by a Set modification (the form SCIM PUT and the assertion
        // interface use), alone in its modify list
        "set" => w.internal_create(vec![base_entry(kind, u, true)]).and_then(|_| match sup {
            Some(g) => w.internal_modify_uuid(
                uuid_tail(u),
                &ModifyList::new_set(Attribute::GidNumber, kanidmd_lib::valueset::ValueSetUint32::new(g)),
            ),
            None => Ok(()),
        }),
        // the same through batch modify
        "batchset" => w.internal_create(vec![base_entry(kind, u, true)]).and_then(|_| match sup {
            Some(g) => w.internal_batch_modify(
                [(uuid_tail(u), ModifyList::new_set(Attribute::GidNumber, kanidmd_lib::valueset::ValueSetUint32::new(g)))].into_iter(),
            ),
            None => Ok(()),
        }),
        // a plain (non posix) entry: no number is generated
        "plain" => w.internal_create(vec![base_entry(kind, u, false)]),
        _ => Err(OperationError::InvalidState),
    };
    let rs = res(&r);
    if r.is_ok() {
        let (g, p) = stored(&mut w, u);
        (rs, g, p)
    } else {
        (class_of(&rs) + ":" + rs.split(':').nth(1).unwrap_or(""), None, false)
    }
}

pub fn run(o: &Opts) -> i32 {
    let out = o.str("out", "/verif/work/C21/obs.ndjson");
    let mut tr = Tracer::create(&out);
    let mut rng = Rng::new(o.seed());
    // cases: (kind, path, u, sup)
    let mut cases: Vec<(String, String, u32, Option<u32>)> = Vec::new();
    if let Some(f) = o.get("replay") {
        for r in read_ndjson(f) {
            let p = |v: &J| -> Option<u32> {
                let h = v["h"].as_i64().unwrap_or(-1);
                if h < 0 { None } else { Some(((h as u32) << 16) | v["l"].as_u64().unwrap_or(0) as u32) }
            };
            cases.push((r["kind"].as_str().unwrap_or("account").into(), r["path"].as_str().unwrap_or("create").into(), p(&r["u"]).unwrap_or(0), p(&r["sup"])));
        }
    } else {
        let edges: Vec<u64> = o.str("edges", "0,999,1000,60000,60001,60577,60578,61183,61184,65519,65520,65533,65534,65535,65536,524287,524288,1879048191,1879048192,2147483647,2147483648,4294967295")
            .split(',').filter_map(|s| s.parse().ok()).collect();
        let mut vals: Vec<u32> = Vec::new();
        for e in &edges {
            for d in -2i64..=2 {
                let v = *e as i64 + d;
                if (0..=u32::MAX as i64).contains(&v) && !vals.contains(&(v as u32)) {
                    vals.push(v as u32);
                }
            }
        }
        let kinds = ["account", "group"];
        let mut n = 0u32;
        // supplied numbers: every boundary value through every path; uuid tails vary
        for (i, g) in vals.iter().enumerate() {
            for path in ["create", "modify", "replace", "batch", "set", "batchset"] {
                n += 1;
                cases.push((kinds[(i + n as usize) % 2].into(), path.into(), 0x0100_0000 + n, Some(*g)));
            }
        }
        // generated numbers: uuid tails at the mask boundaries, the numeric edges and random
        let mut tails: Vec<u32> = vals.clone();
        for k in 0..16u64 {
            for d in [-1i64, 0, 1] {
                let v = (k << 28) as i64 + d;
                if (0..=u32::MAX as i64).contains(&v) {
                    tails.push(v as u32);
                }
            }
        }
        for _ in 0..o.u64("random", 200) {
            tails.push(rng.next() as u32);
        }
        tails.sort();
        tails.dedup();
        for (i, u) in tails.iter().enumerate() {
            cases.push((kinds[i % 2].into(), "create".into(), *u, None));
            if i % 7 == 0 {
                cases.push((kinds[i % 2].into(), "plain".into(), *u, None));
            }
        }
        // random supplied numbers (uniform and near the small ranges)
        for i in 0..o.u64("random", 200) {
            let g = if i % 2 == 0 { rng.next() as u32 } else { rng.below(70000) as u32 };
            n += 1;
            let path = *rng.pick(&["create", "modify", "replace", "batch", "set", "batchset"]);
            cases.push((kinds[(i % 2) as usize].into(), path.into(), 0x0200_0000 + n, Some(g)));
        }
    }
    let rt = runtime();
    rt.block_on(async {
        let qs = sx::fresh(t(0)).await;
        let mut k = 10u64;
        for (kind, path, u, sup) in cases.iter() {
            k += 1;
            let (r1, g1, posix) = one(&qs, t(k), kind, path, *u, *sup).await;
            // repeat generation through another path (create <-> modify) to observe determinism
            let g2 = if sup.is_none() && path != "plain" {
                k += 1;
                let other = if path == "create" { "modify" } else { "create" };
                one(&qs, t(k), kind, other, *u, None).await.1
            } else {
                g1
            };
            tr.emit(&json!({"a":"gid","kind":kind,"path":path,"posix": if posix {1} else {0},
                "u":halves(Some(*u)),"sup":halves(*sup),"res":r1,"gid":halves(g1),"gid2":halves(g2)}));
        }
    });
    let n = tr.finish();
    println!("OBSERVED lines={n} out={out}");
    0
}
