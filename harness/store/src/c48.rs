//! C48: a server initialised at DOMAIN_PREVIOUS_TGT_LEVEL receives random user content, then is started
//! with DOMAIN_TGT_LEVEL exactly as an upgraded kanidmd does (`initialise_helper(ts, DOMAIN_TGT_LEVEL)` on the
//! existing database).  Logged: the database before and after, the user-set attributes, the server's
//! consistency check, the schema in force and every entry in the C15 projection.  `def` (the built-in
//! definitions of the target level) is extracted from two independent fresh target-level servers:
//! attributes whose values agree on both and that are not derived from other entries.
use crate::c12::IMPORTS;
use crate::sx;
use kanidmd_lib::constants::uuids::*;
use kanidmd_lib::prelude::*;
use kanidmd_lib::schema::SchemaTransaction;
use kanidmd_lib::verif::store as kvs;
use kvc::srv::*;
use kvc::util::*;
use serde_json::{json, Map, Value as J};
use std::collections::BTreeMap;

/// attributes derived from other entries / from the instance, never part of a definition
const DERIVED: &[&str] = &["memberof", "directmemberof", "dynmember", "last_modified_cid", "created_at_cid", "version", "patch_level",
                           "domain_development_taint"];

fn value_strings(vs: &ValueSet) -> Vec<String> {
    let mut v: Vec<String> = vs.to_proto_string_clone_iter().map(|s| if s.len() > 120 { format!("#{}", kvs::fnv(&s)) } else { s }).collect();
    if vs.syntax() == SyntaxType::Credential || v.iter().all(|s| s.is_empty()) {
        v = vec![kvs::observe_vs(vs)];
    }
    v.sort();
    v
}

async fn dump(qs: &QueryServer) -> BTreeMap<String, (String, BTreeMap<String, Vec<String>>)> {
    let mut r = qs.read().await.expect("read");
    let mut m = BTreeMap::new();
    for e in search_all(&mut r) {
        let attrs: BTreeMap<String, Vec<String>> = e.get_ava_iter().map(|(a, vs)| (a.to_string(), value_strings(vs))).collect();
        m.insert(e.get_uuid().to_string(), (liveness(&e).to_string(), attrs));
    }
    m
}
fn dump_json(d: &BTreeMap<String, (String, BTreeMap<String, Vec<String>>)>) -> J {
    J::Object(d.iter().map(|(u, (l, a))| (u.clone(), json!({"live": l, "attrs": a}))).collect())
}

/// C15 projection of every entry + schema (so that KDirSchema!Valid can be evaluated after the upgrade)
async fn c15_proj(qs: &QueryServer) -> (J, J) {
    let mut r = qs.read().await.expect("read");
    let ents: Vec<J> = search_all(&mut r)
        .iter()
        .map(|e| {
            let attrs: Map<String, J> = e.get_ava_iter().map(|(a, vs)| (a.to_string(), json!({"n": vs.len(), "syn": format!("{:?}", vs.syntax())}))).collect();
            let mut classes = ava_strings(e, Attribute::Class);
            classes.sort();
            json!({"id": name_of(e.get_uuid()), "live": liveness(e), "classes": classes, "attrs": attrs})
        })
        .collect();
    let s = r.get_schema();
    let classes: Map<String, J> = s.get_classes().iter().map(|(n, c)| {
        let must: Vec<String> = c.systemmust.iter().chain(c.must.iter()).map(|a| a.to_string()).collect();
        let may: Vec<String> = c.systemmay.iter().chain(c.may.iter()).map(|a| a.to_string()).collect();
        (n.to_string(), json!({"must": must, "may": may}))
    }).collect();
    let attrs: Map<String, J> = s.get_attributes().iter().filter(|(_, a)| !a.phantom)
        .map(|(n, a)| (n.to_string(), json!({"multi": if a.multivalue {1} else {0}, "syn": format!("{:?}", a.syntax)}))).collect();
    (json!(ents), json!({"classes": classes, "attrs": attrs}))
}

/// Def[target]: built-in entries (reserved uuid range) of two independent fresh target-level servers,
/// attributes with identical values on both, derived attributes excluded.
async fn extract_def() -> J {
    let f1 = dump(&sx::fresh(t(0)).await).await;
    let f2 = dump(&sx::fresh(t(5)).await).await;
    let mut def = Map::new();
    for (u, (live, attrs)) in f1.iter() {
        let uu = Uuid::parse_str(u).expect("uuid");
        if uu >= DYNAMIC_RANGE_MINIMUM_UUID || live != "live" {
            continue;
        }
        let Some((_, a2)) = f2.get(u) else { continue };
        let mut m = Map::new();
        for (a, v) in attrs.iter() {
            if DERIVED.contains(&a.as_str()) {
                continue;
            }
            if a2.get(a) == Some(v) {
                m.insert(a.clone(), json!(v));
            }
        }
        def.insert(u.clone(), J::Object(m));
    }
    J::Object(def)
}

fn ent(avas: Vec<(Attribute, Value)>) -> EntryInitNew {
    let mut e: EntryInitNew = Entry::new();
    for (a, v) in avas {
        e.add_ava(a, v);
    }
    e
}

/// Random user content at the previous level. Returns the per-entry list of user-set attributes.
async fn populate(qs: &QueryServer, rng: &mut Rng, now: &mut u64) -> BTreeMap<String, Vec<String>> {
    let mut user: BTreeMap<String, Vec<String>> = BTreeMap::new();
    let mut people: Vec<u64> = Vec::new();
    let mut n = 0u64;
    let set = |user: &mut BTreeMap<String, Vec<String>>, n: u64, attrs: &[&str]| {
        user.entry(uuid_e(n).to_string()).or_default().extend(attrs.iter().map(|s| s.to_string()));
    };
    let np = rng.range(3, 7);
    let mut batch: Vec<EntryInitNew> = Vec::new();
    for _ in 0..np {
        n += 1;
        let name = format!("p{n}x{}", rng.below(1000));
        let mut v = vec![
            (Attribute::Class, EntryClass::Object.to_value()),
            (Attribute::Class, EntryClass::Account.to_value()),
            (Attribute::Class, EntryClass::Person.to_value()),
            (Attribute::Name, Value::new_iname(&name)),
            (Attribute::Uuid, Value::Uuid(uuid_e(n))),
            (Attribute::DisplayName, Value::new_utf8s(&format!("Person {name}"))),
        ];
        let mut attrs = vec!["name", "displayname", "class"];
        if rng.chance(1, 2) {
            v.push((Attribute::Mail, Value::new_email_address_primary_s(&format!("{name}@example.com")).expect("mail")));
            attrs.push("mail");
        }
        if rng.chance(1, 2) {
            let (_, hash, _) = IMPORTS[rng.below(IMPORTS.len() as u64) as usize];
            v.push((Attribute::PasswordImport, Value::new_utf8s(hash)));
            attrs.push("primary_credential");
        }
        if rng.chance(1, 3) {
            v.push((Attribute::Class, EntryClass::PosixAccount.to_value()));
            attrs.push("gidnumber");
        }
        if rng.chance(1, 3) {
            v.push((Attribute::LegalName, Value::new_utf8s(&format!("Legal {name}"))));
            attrs.push("legalname");
        }
        batch.push(ent(v));
        set(&mut user, n, &attrs);
        people.push(n);
    }
    for _ in 0..rng.range(1, 3) {
        n += 1;
        let name = format!("svc{n}x{}", rng.below(1000));
        batch.push(ent(vec![
            (Attribute::Class, EntryClass::Object.to_value()),
            (Attribute::Class, EntryClass::Account.to_value()),
            (Attribute::Class, EntryClass::ServiceAccount.to_value()),
            (Attribute::Name, Value::new_iname(&name)),
            (Attribute::Uuid, Value::Uuid(uuid_e(n))),
            (Attribute::DisplayName, Value::new_utf8s(&name)),
            (Attribute::Description, Value::new_utf8s("service")),
        ]));
        set(&mut user, n, &["name", "displayname", "description", "class"]);
    }
    let mut groups: Vec<u64> = Vec::new();
    for _ in 0..rng.range(2, 4) {
        n += 1;
        let name = format!("g{n}x{}", rng.below(1000));
        let mut v = vec![
            (Attribute::Class, EntryClass::Object.to_value()),
            (Attribute::Class, EntryClass::Group.to_value()),
            (Attribute::Name, Value::new_iname(&name)),
            (Attribute::Uuid, Value::Uuid(uuid_e(n))),
            (Attribute::Description, Value::new_utf8s("user group")),
        ];
        for p in people.iter() {
            if rng.chance(1, 2) {
                v.push((Attribute::Member, Value::Refer(uuid_e(*p))));
            }
        }
        if let Some(g) = groups.last() {
            if rng.chance(1, 2) {
                v.push((Attribute::Member, Value::Refer(uuid_e(*g))));
            }
        }
        batch.push(ent(v));
        set(&mut user, n, &["name", "description", "member", "class"]);
        groups.push(n);
    }
    // an OAuth2 client
    n += 1;
    let rs = n;
    batch.push(ent(vec![
        (Attribute::Class, EntryClass::Object.to_value()),
        (Attribute::Class, EntryClass::Account.to_value()),
        (Attribute::Class, EntryClass::OAuth2ResourceServer.to_value()),
        (Attribute::Class, EntryClass::OAuth2ResourceServerBasic.to_value()),
        (Attribute::Name, Value::new_iname(&format!("rs{n}"))),
        (Attribute::Uuid, Value::Uuid(uuid_e(n))),
        (Attribute::DisplayName, Value::new_utf8s("client")),
        (Attribute::OAuth2RsOriginLanding, Value::new_url_s("https://c.example.com/landing").expect("url")),
        (Attribute::OAuth2RsOrigin, Value::new_url_s("https://c.example.com/cb").expect("url")),
        (Attribute::OAuth2RsScopeMap, Value::new_oauthscopemap(uuid_e(groups[0]), ["openid", "email"].iter().map(|s| s.to_string()).collect()).expect("scopemap")),
    ]));
    set(&mut user, rs, &["name", "displayname", "oauth2_rs_origin_landing", "oauth2_rs_origin", "oauth2_rs_scope_map", "class"]);
    *now += 1;
    {
        let mut w = qs.write(t(*now)).await.expect("write");
        for e in batch {
            w.internal_create(vec![e]).expect("user content create");
        }
        w.commit().expect("commit");
    }
    // memberships in built-in groups (additions only), later edits, a recycled user entry
    *now += 1;
    {
        let mut w = qs.write(t(*now)).await.expect("write");
        for (g, gname) in [(UUID_IDM_ADMINS, "idm_admins"), (UUID_IDM_PEOPLE_ADMINS, "idm_people_admins"), (UUID_IDM_SERVICE_DESK, "idm_service_desk"),
                           (UUID_IDM_HIGH_PRIVILEGE, "idm_high_privilege"), (UUID_IDM_UNIX_AUTHENTICATION_READ, "idm_unix_authentication_read")] {
            if rng.chance(2, 3) {
                let p = *rng.pick(&people);
                w.internal_modify_uuid(g, &ModifyList::new_list(vec![Modify::Present(Attribute::Member, Value::Refer(uuid_e(p)))])).expect("builtin member add");
                user.entry(g.to_string()).or_default().push("member".to_string());
                let _ = gname;
            }
        }
        let p = *rng.pick(&people);
        w.internal_modify_uuid(uuid_e(p), &ModifyList::new_purge_and_set(Attribute::DisplayName, Value::new_utf8s("Renamed Person"))).expect("edit");
        w.commit().expect("commit");
    }
    if rng.chance(1, 2) {
        *now += 1;
        let mut w = qs.write(t(*now)).await.expect("write");
        let p = people[0];
        w.internal_delete_uuid(uuid_e(p)).expect("recycle");
        w.commit().expect("commit");
        // a recycled entry keeps its stored attributes; membership references to it are removed by refint
    }
    for v in user.values_mut() {
        v.sort();
        v.dedup();
    }
    user
}

/// Attributes the migration deliberately never re-asserts on an existing entry (`internal_migrate_or_create`).
const NOT_REASSERTED: &[&str] = &["member_create_once", "credential_type_minimum"];
/// (entry, attribute) pairs that every history perturbs
const ALWAYS: &[(Uuid, &str)] = &[(UUID_IDM_HIGH_PRIVILEGE, "member"), (UUID_SYSTEM_CONFIG, "badlist_password")];

/// KUpgrade `RemoveSome`: at the previous level an administrator removes a PROPER NON-EMPTY subset of the values
/// the target level's migration data specifies for a multi-valued attribute of a built-in entry.  `all`: every
/// such (entry, attribute); otherwise the ALWAYS pairs plus a random half.  Each removal is its own write
/// transaction; a removal the server refuses (schema) is counted and skipped.  What was really removed is read
/// back from the entry (before - after).  Returns (removed: uuid -> attr -> values, candidates, refused).
async fn remove_some(qs: &QueryServer, rng: &mut Rng, now: &mut u64, all: bool) -> (BTreeMap<String, BTreeMap<String, Vec<String>>>, u64, u64) {
    let (lvl, templates) = kvs::migration_templates_target();
    assert_eq!(lvl, DOMAIN_TGT_LEVEL, "inlib migration_templates_target is not the target level's data");
    let mut removed: BTreeMap<String, BTreeMap<String, Vec<String>>> = BTreeMap::new();
    let (mut cands, mut refused) = (0u64, 0u64);
    for tpl in templates.iter() {
        let Some(u) = tpl.get_uuid() else { continue };
        let avas: Vec<(Attribute, Vec<PartialValue>)> = tpl.get_ava_iter().map(|(a, vs)| (a.clone(), vs.to_partialvalue_iter().collect())).collect();
        for (a, pvs) in avas {
            let an = a.to_string();
            if pvs.len() < 2 || DERIVED.contains(&an.as_str()) || NOT_REASSERTED.contains(&an.as_str()) {
                continue;
            }
            *now += 1;
            let mut w = qs.write(t(*now)).await.expect("write");
            let multi = w.get_schema().get_attributes().get(&a).map(|s| s.multivalue).unwrap_or(false);
            let Ok(before) = w.internal_search_uuid(u) else { continue };
            if !multi {
                continue;
            }
            cands += 1;
            let always = ALWAYS.iter().any(|(au, aa)| *au == u && *aa == an);
            // the random draws are made for every candidate so that a replay takes the same decisions
            let k = 1 + rng.below(pvs.len() as u64 - 1) as usize;
            let mut idx: Vec<usize> = (0..pvs.len()).collect();
            rng.shuffle(&mut idx);
            let take = rng.chance(1, 2);
            if !(all || always || take) {
                continue;
            }
            let ml = ModifyList::new_list(idx[..k].iter().map(|i| Modify::Removed(a.clone(), pvs[*i].clone())).collect());
            let bv = before.get_ava_set(&a).map(value_strings).unwrap_or_default();
            if w.internal_modify_uuid(u, &ml).is_err() {
                refused += 1;
                continue;
            }
            let av = w.internal_search_uuid(u).ok().and_then(|e| e.get_ava_set(&a).map(value_strings)).unwrap_or_default();
            if w.commit().is_err() {
                refused += 1;
                continue;
            }
            let gone: Vec<String> = bv.iter().filter(|v| !av.contains(v)).cloned().collect();
            if !gone.is_empty() {
                removed.entry(u.to_string()).or_default().insert(an, gone);
            }
        }
    }
    (removed, cands, refused)
}

pub fn run(o: &Opts) -> i32 {
    let out = o.str("out", "/verif/work/C48/obs.ndjson");
    let mut tr = Tracer::create(&out);
    let seed = o.seed();
    let nh = o.u64("histories", 4);
    // replay: the seeds of the histories to repeat
    // (history seed, RemoveSome on every candidate?)
    let seeds: Vec<(u64, bool)> = match o.get("replay") {
        Some(f) => read_ndjson(f).iter().filter(|l| l["a"] == "reset").filter_map(|l| l["hseed"].as_u64().map(|s| (s, l["all"].as_bool().unwrap_or(false)))).collect(),
        None => (0..nh).map(|h| (seed.wrapping_mul(9_000_011).wrapping_add(h), h == 0)).collect(),
    };
    let rt = runtime();
    rt.block_on(async {
        let def = extract_def().await;
        tr.emit(&json!({"a":"def","res":"ok","def":def}));
        for (hi, (hs, all)) in seeds.iter().enumerate() {
            let mut rng = Rng::new(*hs);
            let mut now = 10u64;
            let qs = sx::fresh_level(t(now), DOMAIN_PREVIOUS_TGT_LEVEL).await;
            tr.emit(&json!({"a":"reset","h":hi,"hseed":hs,"all":all,"res":"ok","level":DOMAIN_PREVIOUS_TGT_LEVEL}));
            let user = populate(&qs, &mut rng, &mut now).await;
            let (mut removed, cands, refused) = remove_some(&qs, &mut rng, &mut now, *all).await;
            let pre = dump(&qs).await;
            // RemoveSome speaks about the stored state the upgrade starts from: a value that a later write of the
            // same history made a plugin derive again (class `memberof` of a built-in account, re-added when one of
            // its groups is recomputed) is not missing before the upgrade and so is not a perturbation
            for (u, m) in removed.iter_mut() {
                for (a, gone) in m.iter_mut() {
                    gone.retain(|v| !pre.get(u).and_then(|(_, attrs)| attrs.get(a)).map(|vs| vs.contains(v)).unwrap_or(false));
                }
                m.retain(|_, gone| !gone.is_empty());
            }
            removed.retain(|_, m| !m.is_empty());
            // only user-set attributes that are really stored before the upgrade are claimed
            let user_j: Map<String, J> = user.iter().map(|(u, attrs)| {
                let have: Vec<&String> = attrs.iter().filter(|a| pre.get(u).map(|(_, m)| m.contains_key(*a)).unwrap_or(false)).collect();
                (u.clone(), json!(have))
            }).collect();
            tr.emit(&json!({"a":"pre","res":"ok","st":dump_json(&pre),"user":user_j,"removed":removed,"candidates":cands,"refused":refused}));
            // the upgrade: the new server version starts on the existing database
            now += 60;
            let r = qs.initialise_helper(t(now), DOMAIN_TGT_LEVEL).await;
            let res = sx::opres(&r);
            let (verify, level) = {
                let mut rd = qs.read().await.expect("read");
                (kvs::qs_verify(&mut rd), rd.get_domain_version())
            };
            let post = dump(&qs).await;
            let (ents, schema) = c15_proj(&qs).await;
            tr.emit(&json!({"a":"upgrade","res":res,"level":level,"target":DOMAIN_TGT_LEVEL,"verify":verify,"st":dump_json(&post),"ents":ents,"schema":schema}));
        }
    });
    let n = tr.finish();
    println!("OBSERVED lines={n} out={out}");
    0
}
