//! C03 (and the history part of C13): random histories of creates / renames / membership edits /
//! recycle / revive / purge / reap / reindex / cache clears / aborted writes on a REAL QueryServer.
//! After EVERY commit the stored entries (decoded from the raw id2entry rows), the raw index tables of
//! the alphabet attributes, and the four lookup tables (probed over the whole key pool, through the
//! caches) are read through a fresh read transaction and logged; TLC recomputes every table from the
//! logged entries (KStore!IndexMirror).
use crate::sx;
use kanidmd_lib::be::BackendTransaction;
use kanidmd_lib::prelude::*;
use kanidmd_lib::verif::store as kvs;
use kvc::srv::*;
use kvc::util::*;
use serde_json::{json, Map, Value as J};
use std::collections::{BTreeMap, BTreeSet};

/// attributes whose index tables are observed
pub const ALPHA: &[Attribute] = &[
    Attribute::Name, Attribute::Spn, Attribute::Uuid, Attribute::Class, Attribute::Member, Attribute::MemberOf,
    Attribute::DirectMemberOf, Attribute::DisplayName, Attribute::Mail, Attribute::GidNumber, Attribute::SyncExternalId,
    Attribute::SyncParentUuid,
];
const NAMES: &[&str] = &["n1", "n2", "n3", "na12", "bob", "n1x"];
const NE: u64 = 8; // model entries e1..e8 (e1..e5 persons, e6..e8 groups)
const SYNC_PARENT: u64 = 90;
const WEEK: u64 = 7 * 86400;

fn is_group(n: u64) -> bool {
    n > 5
}
/// the history's own entries e1..e8 (the sync parent e90 and built-in entries are the fixed background)
pub fn is_model(u: Uuid) -> bool {
    let n = name_of(u);
    n.starts_with('e') && !n.contains('-') && n[1..].parse::<u64>().map(|x| x <= NE).unwrap_or(false)
}

pub struct Hist {
    pub qs: QueryServer,
    pub now: u64, // simulated seconds after T0
    pub files: Vec<std::path::PathBuf>,
    pub shadow: BTreeMap<u64, String>, // last observed liveness of e1..e8 (guides the random generator only)
}
impl Drop for Hist {
    fn drop(&mut self) {
        for f in self.files.drain(..) {
            sx::remove_dbfile(&f);
        }
    }
}

fn chars(s: &str) -> J {
    json!(s.to_lowercase().chars().map(|c| c.to_string()).collect::<Vec<_>>())
}

/// Projection of the stored state read through a fresh read transaction.
pub async fn observe(h: &Hist) -> J {
    let mut r = h.qs.read().await.expect("read");
    let verify = kvs::qs_verify(&mut r);
    let be = r.get_be_txn();
    // --- entries from the raw rows; only the model's own (id > base_max_id)
    let all = kvs::be_all_entries(be).expect("raw entries");
    let meta = kvs::idxmeta(be);
    let sub_attrs: Vec<Attribute> = meta.iter().filter(|(_, t)| *t == IndexType::SubString).map(|(a, _)| a.clone()).collect();
    let mut ents = Vec::new();
    let mut model_ids: BTreeSet<u64> = BTreeSet::new();
    for e in all.iter().filter(|e| is_model(e.get_uuid())) {
        let id = kvs::entry_id(e);
        model_ids.insert(id);
        let mut a = Map::new();
        let mut c = Map::new();
        let mut syn = Map::new();
        let mut k = Map::new();
        for at in ALPHA {
            if let Some(vs) = e.get_ava_set(at) {
                let mut v: Vec<String> = vs.to_proto_string_clone_iter().collect();
                v.sort();
                // the index keys the backend's own key functions generate for this stored valueset
                for (_, it) in meta.iter().filter(|(x, _)| x == at) {
                    let ty = kvs::itype_str(*it);
                    if ty == "ord" {
                        continue;
                    }
                    let mut keys = kvs::vs_idx_keys(vs, *it);
                    keys.sort();
                    keys.dedup();
                    k.insert(format!("{ty}:{at}"), json!(keys));
                }
                if sub_attrs.contains(at) {
                    c.insert(at.to_string(), json!(v.iter().map(|s| chars(s)).collect::<Vec<_>>()));
                    syn.insert(at.to_string(), json!(format!("{:?}", vs.syntax())));
                }
                a.insert(at.to_string(), json!(v));
            }
        }
        ents.push(json!({"id": id, "uuid": e.get_uuid().to_string(), "e": name_of(e.get_uuid()), "live": liveness(e), "a": a, "c": c, "syn": syn, "k": k}));
    }
    // --- raw index tables of the alphabet attributes, rows restricted to the model's entry ids
    let tables: BTreeSet<String> = be.list_indexes().expect("list_indexes").into_iter().collect();
    let mut idx = Map::new();
    let mut metaj = Vec::new();
    for (at, it) in meta.iter().filter(|(a, _)| ALPHA.contains(a)) {
        let ty = kvs::itype_str(*it);
        if ty == "ord" {
            continue;
        }
        metaj.push(json!([at.to_string(), ty]));
        let tname = format!("idx_{}_{}", ty, at.as_str());
        let mut rows = Map::new();
        let present = tables.contains(&tname);
        if present {
            for (key, idl) in be.list_index_content(&tname).expect("index content") {
                let ids: Vec<u64> = idl.into_iter().filter(|i| model_ids.contains(i)).collect();
                if !ids.is_empty() {
                    rows.insert(key, json!(ids));
                }
            }
        }
        idx.insert(format!("{ty}:{at}"), json!({"present": if present {1} else {0}, "rows": rows}));
    }
    // --- the same keys read THROUGH the idl cache (filter2idl of one term) for eq(name), eq(class), pres
    let mut cached = Map::new();
    let mut crow = Map::new();
    for n in NAMES {
        let pv = PartialValue::new_iname(n);
        if let Ok(Some(ids)) = kvs::idl_cached_eq(be, &Attribute::Name, &pv) {
            let ids: Vec<u64> = ids.into_iter().filter(|i| model_ids.contains(i)).collect();
            crow.insert(n.to_string(), json!(ids));
        }
    }
    cached.insert("eq:name".to_string(), J::Object(crow));
    for at in [Attribute::Name, Attribute::Member, Attribute::GidNumber] {
        if let Ok(Some(ids)) = kvs::idl_cached_pres(be, &at) {
            let ids: Vec<u64> = ids.into_iter().filter(|i| model_ids.contains(i)).collect();
            cached.insert(format!("pres:{at}"), json!({"_": ids}));
        }
    }
    // --- lookup tables probed over the key pool
    let mut n2u = Map::new();
    let mut keys: Vec<String> = NAMES.iter().map(|s| s.to_string()).collect();
    keys.extend(NAMES.iter().map(|s| format!("{s}@example.com")));
    keys.extend((1..=NE).map(|n| (1_879_048_192u64 + n).to_string())); // generated gid numbers of e1..e8
    keys.extend((1..=NE).map(|n| (20_000 + n).to_string()));
    for k in keys.iter() {
        let v = be.name2uuid(k).expect("name2uuid").map(|u| u.to_string()).unwrap_or_else(|| "-".into());
        n2u.insert(k.clone(), json!(v));
    }
    let mut x2u = Map::new();
    for n in 1..=NE {
        let k = format!("ext{n}");
        let v = be.externalid2uuid(&k).expect("externalid2uuid").map(|u| u.to_string()).unwrap_or_else(|| "-".into());
        x2u.insert(k, json!(v));
    }
    let mut u2s = Map::new();
    let mut u2r = Map::new();
    for n in 1..=NE {
        let u = uuid_e(n);
        let s = be.uuid2spn(u).expect("uuid2spn").map(|v| kvs::value_proto_string(&v)).unwrap_or_else(|| "-".into());
        let rdn = be.uuid2rdn(u).expect("uuid2rdn").unwrap_or_else(|| "-".into());
        u2s.insert(u.to_string(), json!(s));
        u2r.insert(u.to_string(), json!(rdn));
    }
    // --- the server level resolvers (ResolveAgrees)
    let mut resolve = Map::new();
    for k in keys.iter() {
        let v = r.name_to_uuid(k).map(|u| u.to_string()).unwrap_or_else(|_| "-".into());
        resolve.insert(k.clone(), json!(v));
    }
    json!({"ents": ents, "meta": metaj, "idx": idx, "cached": cached, "n2u": n2u, "x2u": x2u, "u2s": u2s, "u2r": u2r,
           "resolve": resolve, "verify": verify})
}

fn person(n: u64, name: &str, posix: bool, ext: bool) -> EntryInitNew {
    let mut e: EntryInitNew = Entry::new();
    e.add_ava(Attribute::Class, EntryClass::Object.to_value());
    e.add_ava(Attribute::Class, EntryClass::Account.to_value());
    e.add_ava(Attribute::Class, EntryClass::Person.to_value());
    e.add_ava(Attribute::Name, Value::new_iname(name));
    e.add_ava(Attribute::Uuid, Value::Uuid(uuid_e(n)));
    e.add_ava(Attribute::DisplayName, Value::new_utf8s(&format!("Display {name}")));
    if posix {
        e.add_ava(Attribute::Class, EntryClass::PosixAccount.to_value());
    }
    if ext {
        e.add_ava(Attribute::Class, EntryClass::SyncObject.to_value());
        e.add_ava(Attribute::SyncParentUuid, Value::Refer(uuid_e(SYNC_PARENT)));
        e.add_ava(Attribute::SyncExternalId, Value::new_iutf8(&format!("ext{n}")));
    }
    e
}
fn group(n: u64, name: &str, posix: bool, members: &[u64]) -> EntryInitNew {
    let mut e: EntryInitNew = Entry::new();
    e.add_ava(Attribute::Class, EntryClass::Object.to_value());
    e.add_ava(Attribute::Class, EntryClass::Group.to_value());
    e.add_ava(Attribute::Name, Value::new_iname(name));
    e.add_ava(Attribute::Uuid, Value::Uuid(uuid_e(n)));
    if posix {
        e.add_ava(Attribute::Class, EntryClass::PosixGroup.to_value());
        e.add_ava(Attribute::GidNumber, Value::new_uint32(20_000 + n as u32));
    }
    for m in members {
        e.add_ava(Attribute::Member, Value::Refer(uuid_e(*m)));
    }
    e
}

/// The operation alphabet. An op is a JSON object so that a replay file can carry it verbatim.
/// `shadow` (last observed liveness per model entry) only biases the choice towards applicable operations.
pub fn random_op(rng: &mut Rng, shadow: &BTreeMap<u64, String>, restore_pct: u64) -> J {
    let pick_where = |rng: &mut Rng, want: &str| -> u64 {
        let c: Vec<u64> = (1..=NE).filter(|n| shadow.get(n).map(|s| s.as_str()).unwrap_or("absent") == want).collect();
        if c.is_empty() || rng.chance(1, 6) { rng.range(1, NE) } else { *rng.pick(&c) }
    };
    let name = *rng.pick(NAMES);
    if rng.below(100) < restore_pct {
        return json!({"op":"restore","gz":rng.chance(1,2)});
    }
    match rng.below(100) {
        0..=21 => {
            let n = pick_where(rng, "absent");
            json!({"op":"create","n":n,"name":name,"posix":rng.chance(1,3),"ext":rng.chance(1,4),
                   "members":[pick_where(rng, "live"), pick_where(rng, "live")]})
        }
        22..=35 => json!({"op":"rename","n":pick_where(rng, "live"),"name":name}),
        36..=41 => json!({"op":"display","n":pick_where(rng, "live"),"v":format!("D{}", rng.below(5))}),
        42..=48 => json!({"op":"mail","n":pick_where(rng, "live"),"v":format!("{}@m.example.com", rng.pick(NAMES))}),
        49..=56 => json!({"op":"member","g":rng.range(6,NE),"m":pick_where(rng, "live"),"add":rng.chance(2,3)}),
        57..=58 => json!({"op":"cred","n":rng.range(1,5),"k":rng.below(3)}),
        59..=60 => json!({"op":"purgeattr","n":pick_where(rng, "live"),"attr":*rng.pick(&["mail", "gidnumber", "member"])}),
        61..=63 => json!({"op":"session","n":rng.range(1,5),"k":rng.below(3)}),
        64..=73 => json!({"op":"recycle","n":pick_where(rng, "live")}),
        74..=81 => json!({"op":"revive","n":pick_where(rng, "recycled")}),
        82..=85 => json!({"op":"purge_recycled","jump":rng.chance(2,3)}),
        86..=88 => json!({"op":"purge_tombstones","jump":rng.chance(2,3)}),
        89..=92 => json!({"op":"reindex"}),
        93..=95 => json!({"op":"clear_cache"}),
        _ => json!({"op":"abort","n":pick_where(rng, "absent"),"name":name}),
    }
}

pub async fn new_hist(seedtime: u64) -> Hist {
    let qs = sx::fresh(t(seedtime)).await;
    // sync parent for entries with external ids (committed before the base line)
    {
        let mut w = qs.write(t(seedtime + 1)).await.expect("write");
        let mut e: EntryInitNew = Entry::new();
        e.add_ava(Attribute::Class, EntryClass::Object.to_value());
        e.add_ava(Attribute::Class, EntryClass::SyncAccount.to_value());
        e.add_ava(Attribute::Name, Value::new_iname("kvsync"));
        e.add_ava(Attribute::Uuid, Value::Uuid(uuid_e(SYNC_PARENT)));
        w.internal_create(vec![e]).expect("sync parent");
        w.commit().expect("commit");
    }
    Hist { qs, now: seedtime + 10, files: Vec::new(), shadow: BTreeMap::new() }
}

/// Apply one op in its own write transaction (committed unless it fails or is an abort). Returns the result class.
pub async fn apply(h: &mut Hist, op: &J, tr: &mut Tracer) -> String {
    h.now += 1;
    let kind = op["op"].as_str().unwrap_or("");
    if (kind == "purge_recycled" || kind == "purge_tombstones") && op["jump"].as_bool().unwrap_or(false) {
        h.now += WEEK + 10;
    }
    if kind == "clear_cache" {
        return sx::opres(&sx::clear_cache(&h.qs, t(h.now)).await);
    }
    if kind == "restore" {
        // handled by the caller (it needs to log the C13 line); here only the plain transition
        let gz = op["gz"].as_bool().unwrap_or(false);
        return match restore_point(h, gz, tr).await {
            Ok(_) => "ok".into(),
            Err(e) => format!("err:{e}"),
        };
    }
    let mut w = h.qs.write(t(h.now)).await.expect("write");
    let n = op["n"].as_u64().unwrap_or(1);
    let name = op["name"].as_str().unwrap_or("n1");
    let r: Result<(), OperationError> = match kind {
        "create" | "abort" => {
            let e = if is_group(n) {
                let ms: Vec<u64> = op["members"].as_array().map(|a| a.iter().filter_map(|x| x.as_u64()).collect()).unwrap_or_default();
                group(n, name, op["posix"].as_bool().unwrap_or(false), &ms)
            } else {
                person(n, name, op["posix"].as_bool().unwrap_or(false), op["ext"].as_bool().unwrap_or(false))
            };
            w.internal_create(vec![e])
        }
        "rename" => w.internal_modify_uuid(uuid_e(n), &ModifyList::new_purge_and_set(Attribute::Name, Value::new_iname(name))),
        "display" => w.internal_modify_uuid(uuid_e(n), &ModifyList::new_purge_and_set(Attribute::DisplayName, Value::new_utf8s(op["v"].as_str().unwrap_or("D")))),
        "mail" => match Value::new_email_address_primary_s(op["v"].as_str().unwrap_or("a@b.c")) {
            Some(v) => w.internal_modify_uuid(uuid_e(n), &ModifyList::new_purge_and_set(Attribute::Mail, v)),
            None => Err(OperationError::InvalidValueState),
        },
        "member" => {
            let g = op["g"].as_u64().unwrap_or(6);
            let m = op["m"].as_u64().unwrap_or(1);
            let ml = if op["add"].as_bool().unwrap_or(true) {
                ModifyList::new_list(vec![Modify::Present(Attribute::Member, Value::Refer(uuid_e(m)))])
            } else {
                ModifyList::new_list(vec![Modify::Removed(Attribute::Member, PartialValue::Refer(uuid_e(m)))])
            };
            w.internal_modify_uuid(uuid_e(g), &ml)
        }
        "cred" => {
            let hashes = ["{SHA256}XohImNooBHFR0OVvjcYpJ3NgPQ1qq73WKhHvch0VQtg=", "{SSHA512}JwrSUHkI7FTAfHRVR6KoFlSN0E3dmaQWARjZ+/UsShYlENOqDtFVU77HJLLrY2MuSp0jve52+pwtdVl2QUAHukQ0XUf5LDtM",
                          "{PBKDF2-SHA256}10000$henZGfPWw79Cs8ORDeVNrQ$1dTJy73v6n3bnTmTZFghxHXHLsAzKaAy8SksDfZBPIw"];
            let k = op["k"].as_u64().unwrap_or(0) as usize % hashes.len();
            w.internal_modify_uuid(uuid_e(n), &ModifyList::new_list(vec![Modify::Present(Attribute::PasswordImport, Value::new_utf8s(hashes[k]))]))
        }
        "session" => {
            use kanidmd_lib::value::{AuthType, Session, SessionState};
            let k = op["k"].as_u64().unwrap_or(0);
            let odt = time::OffsetDateTime::UNIX_EPOCH + t(h.now);
            let state = match k { 0 => SessionState::NeverExpires, 1 => SessionState::ExpiresAt(odt + std::time::Duration::from_secs(3600)), _ => SessionState::ExpiresAt(odt + std::time::Duration::from_secs(30)) };
            let sid = Uuid::from_u128(0x5e55_0000_0000_4000_8000_0000_0000_0000u128 + (h.now as u128));
            let sess = Value::Session(sid, Session { label: format!("s{k}"), state, issued_at: odt, issued_by: IdentityId::User(uuid_e(n)),
                cred_id: Uuid::from_u128(0xc0de), scope: SessionScope::ReadWrite, type_: AuthType::Password, ext_metadata: Default::default() });
            w.internal_modify_uuid(uuid_e(n), &ModifyList::new_list(vec![Modify::Present(Attribute::UserAuthTokenSession, sess)]))
        }
        "purgeattr" => {
            let at = match op["attr"].as_str().unwrap_or("mail") { "gidnumber" => Attribute::GidNumber, "member" => Attribute::Member, _ => Attribute::Mail };
            w.internal_modify_uuid(uuid_e(n), &ModifyList::new_purge(at))
        }
        "recycle" => w.internal_delete_uuid(uuid_e(n)),
        "revive" => kvs::revive_uuid(&mut w, uuid_e(n)),
        "purge_recycled" => w.purge_recycled().map(|_| ()),
        "purge_tombstones" => w.purge_tombstones().map(|_| ()),
        "reindex" => w.reindex(false),
        _ => Err(OperationError::InvalidState),
    };
    match r {
        Ok(()) => {
            if kind == "abort" {
                drop(w);
                "aborted".into()
            } else {
                sx::opres(&w.commit())
            }
        }
        Err(e) => {
            drop(w);
            format!("err:{e:?}").chars().take(60).collect()
        }
    }
}

pub fn run(o: &Opts) -> i32 {
    let out = o.str("out", "/verif/work/C03/obs.ndjson");
    let mut tr = Tracer::create(&out);
    let seed = o.seed();
    let nh = o.u64("histories", 10);
    let len = o.u64("len", 30);
    let restore_pct = o.u64("restore-pct", 4);
    let vermut = o.flag("vermut");
    // a replay file holds {"a":"reset",..} and {"a":"op","op":{..}} lines
    let replay: Option<Vec<J>> = o.get("replay").map(read_ndjson);
    let rt = runtime();
    rt.block_on(async {
        if let Some(lines) = replay {
            let mut h: Option<Hist> = None;
            for l in lines {
                if l["a"] == "reset" {
                    let nhh = new_hist(0).await;
                    let st = observe(&nhh).await;
                    tr.emit(&json!({"a":"reset","h":l["h"],"res":"ok","st":st}));
                    h = Some(nhh);
                } else if l["a"] == "bakver" {
                    if let Some(hh) = h.as_ref() {
                        version_mutations(hh, &mut tr).await;
                    }
                } else if l["a"] != "op" {
                    continue;
                } else if let Some(hh) = h.as_mut() {
                    let res = apply(hh, &l["op"], &mut tr).await;
                    let st = observe(hh).await;
                    tr.emit(&json!({"a":"op","op":l["op"],"res":res,"st":st}));
                }
            }
            return;
        }
        for hi in 0..nh {
            let mut rng = Rng::new(seed.wrapping_mul(1_000_003).wrapping_add(hi));
            let mut h = new_hist(0).await;
            let st = observe(&h).await;
            tr.emit(&json!({"a":"reset","h":hi,"res":"ok","st":st}));
            for step in 0..len {
                if vermut && step == len / 2 {
                    version_mutations(&h, &mut tr).await;
                    continue;
                }
                let op = random_op(&mut rng, &h.shadow, restore_pct);
                let res = apply(&mut h, &op, &mut tr).await;
                let st = observe(&h).await;
                h.shadow.clear();
                if let Some(es) = st["ents"].as_array() {
                    for e in es {
                        if let Some(n) = e["e"].as_str().and_then(|x| x[1..].parse::<u64>().ok()) {
                            h.shadow.insert(n, e["live"].as_str().unwrap_or("live").to_string());
                        }
                    }
                }
                tr.emit(&json!({"a":"op","op":op,"res":res,"st":st}));
            }
        }
    });
    let n = tr.finish();
    sx::cleanup_dbfiles();
    println!("OBSERVED lines={n} out={out}");
    0
}

// ------------------------------------------------------------------------------------------------ C13

/// Fixed probe set of searches; answers are the uuids of the model's entries plus the number of other entries.
fn probes<'a, T: QueryServerTransaction<'a>>(txn: &mut T) -> J {
    use kanidmd_lib::{f_and, f_or, filter, filter_all, filter_rec};
    let mut ps: Vec<(String, Filter<FilterInvalid>)> = Vec::new();
    for n in NAMES {
        ps.push((format!("name={n}"), filter!(f_eq(Attribute::Name, PartialValue::new_iname(n)))));
        ps.push((format!("spn={n}"), filter!(f_eq(Attribute::Spn, PartialValue::new_spn_nrs(n, "example.com")))));
        ps.push((format!("mail={n}"), filter!(f_eq(Attribute::Mail, PartialValue::new_email_address_s(&format!("{n}@m.example.com"))))));
    }
    for c in ["person", "group", "account", "posixaccount", "posixgroup", "syncobject", "memberof"] {
        ps.push((format!("class={c}"), filter!(f_eq(Attribute::Class, PartialValue::new_iutf8(c)))));
    }
    ps.push(("rec:class=recycled".into(), filter_rec!(f_eq(Attribute::Class, EntryClass::Recycled.into()))));
    ps.push(("all:class=tombstone".into(), filter_all!(f_eq(Attribute::Class, EntryClass::Tombstone.into()))));
    ps.push(("all:pres class".into(), filter_all!(f_pres(Attribute::Class))));
    for n in 1..=NE {
        ps.push((format!("uuid=e{n}"), filter!(f_eq(Attribute::Uuid, PartialValue::Uuid(uuid_e(n))))));
        ps.push((format!("all:uuid=e{n}"), filter_all!(f_eq(Attribute::Uuid, PartialValue::Uuid(uuid_e(n))))));
        ps.push((format!("member=e{n}"), filter!(f_eq(Attribute::Member, PartialValue::Refer(uuid_e(n))))));
        ps.push((format!("memberof=e{n}"), filter!(f_eq(Attribute::MemberOf, PartialValue::Refer(uuid_e(n))))));
        ps.push((format!("gid={n}"), filter!(f_eq(Attribute::GidNumber, PartialValue::Uint32(20_000 + n as u32)))));
        ps.push((format!("ext={n}"), filter!(f_eq(Attribute::SyncExternalId, PartialValue::new_iutf8(&format!("ext{n}"))))));
    }
    ps.push(("pres mail".into(), filter!(f_pres(Attribute::Mail))));
    ps.push(("pres member".into(), filter!(f_pres(Attribute::Member))));
    ps.push(("pres primary_credential".into(), filter!(f_pres(Attribute::PrimaryCredential))));
    ps.push(("sub name n1".into(), filter!(f_sub(Attribute::Name, PartialValue::new_iname("n1")))));
    ps.push(("sub mail n".into(), filter!(f_sub(Attribute::Mail, PartialValue::new_email_address_s("n")))));
    ps.push(("person&!mail".into(), filter!(f_and!([f_eq(Attribute::Class, EntryClass::Person.into()), f_andnot(f_pres(Attribute::Mail))]))));
    ps.push(("group|posix".into(), filter!(f_or!([f_eq(Attribute::Class, EntryClass::Group.into()), f_eq(Attribute::Class, EntryClass::PosixAccount.into())]))));
    ps.push(("display=D1".into(), filter!(f_eq(Attribute::DisplayName, PartialValue::new_utf8s("D1")))));
    let mut out = Map::new();
    for (name, f) in ps {
        let v = match txn.internal_search(f) {
            Ok(es) => {
                let mut m: Vec<String> = es.iter().filter(|e| is_model(e.get_uuid())).map(|e| name_of(e.get_uuid())).collect();
                m.sort();
                let other = es.iter().filter(|e| !is_model(e.get_uuid())).count();
                json!({"m": m, "other": other})
            }
            Err(e) => json!({"err": format!("{e:?}")}),
        };
        out.insert(name, v);
    }
    J::Object(out)
}

/// entries by uuid -> digest of everything stored (attributes as proto strings AND db form, change state)
fn ents_digest(be: &mut kanidmd_lib::be::BackendReadTransaction<'_>) -> J {
    let mut m = Map::new();
    let all = match kvs::be_all_entries(be) {
        Ok(v) => v,
        // a database whose rows cannot even be read back is an observation, not a harness failure
        Err(e) => return json!({"#unreadable": format!("{e:?}")}),
    };
    for e in all {
        let mut d = dump_entry(&e);
        if let Some(o) = d.as_object_mut() {
            o.remove("id");
            let dbform: Vec<String> = e.get_ava_iter().map(|(a, vs)| format!("{a}={}", kvs::observe_vs(vs))).collect();
            o.insert("db".into(), json!(dbform));
        }
        m.insert(e.get_uuid().to_string(), json!(kvs::fnv(&kvs::canon(&d))));
    }
    J::Object(m)
}

/// Backup the running server, restore into a fresh file-backed database, reopen it (next process start),
/// observe the restored database BEFORE any server start, then start the server and run consistency check and probes.
/// Emits the C13 "bak" line; the history continues on the restored server.
pub async fn restore_point(h: &mut Hist, gz: bool, tr: &mut Tracer) -> Result<(), String> {
    // --- original
    h.now += 1;
    let orig = {
        let ids = {
            let mut w = h.qs.write(t(h.now)).await.map_err(|e| format!("{e:?}"))?;
            kvs::db_ids(w.get_be_txn()).map_err(|e| format!("{e:?}"))?
        };
        let mut r = h.qs.read().await.map_err(|e| format!("{e:?}"))?;
        let verify = kvs::qs_verify(&mut r);
        let pr = probes(&mut r);
        let be = r.get_be_txn();
        json!({"ents": ents_digest(be), "ids": ids, "ruv": kvs::ruv_cids(be), "verify": verify, "beverify": kvs::be_verify(be), "probes": pr})
    };
    let buf = sx::backup(&h.qs, gz).await.map_err(|e| format!("backup:{e:?}"))?;
    // --- restore (process 1), reopen (process 2)
    let path = sx::new_dbfile();
    h.files.push(path.clone());
    let r1: Result<(), OperationError> = (|| {
        let (be, _schema) = sx::new_backend_file(&path)?;
        let mut w = be.write()?;
        w.restore(std::io::Cursor::new(&buf[..]), sx::comp(gz))?;
        w.commit()?;
        let mut w = be.write()?;
        w.reindex(false)?;
        w.commit()
    })();
    let gzn = if gz { 1 } else { 0 };
    if let Err(e) = r1 {
        tr.emit(&json!({"a":"bak","gz":gzn,"res":format!("err:{e:?}"),"orig":orig,"rest":{}}));
        return Err(format!("{e:?}"));
    }
    let (be, schema) = sx::new_backend_file(&path).map_err(|e| format!("reopen:{e:?}"))?;
    let (ents, ruv, beverify) = {
        let mut r = be.read().map_err(|e| format!("{e:?}"))?;
        (ents_digest(&mut r), kvs::ruv_cids(&mut r), kvs::be_verify(&mut r))
    };
    let ids = {
        let mut w = be.write().map_err(|e| format!("{e:?}"))?;
        kvs::db_ids(&mut w).map_err(|e| format!("{e:?}"))?
    };
    h.now += 1;
    let qs = match sx::qs_over(be, schema, t(h.now), DOMAIN_TGT_LEVEL).await {
        Ok(q) => q,
        Err(e) => {
            tr.emit(&json!({"a":"bak","gz":gzn,"res":format!("err:start:{e:?}"),"orig":orig,"rest":{}}));
            return Err(format!("{e:?}"));
        }
    };
    h.now += 1;
    {
        let mut w = qs.write(t(h.now)).await.map_err(|e| format!("{e:?}"))?;
        w.reindex(false).map_err(|e| format!("{e:?}"))?;
        w.commit().map_err(|e| format!("{e:?}"))?;
    }
    let (verify, pr) = {
        let mut r = qs.read().await.map_err(|e| format!("{e:?}"))?;
        (kvs::qs_verify(&mut r), probes(&mut r))
    };
    let rest = json!({"ents": ents, "ids": ids, "ruv": ruv, "verify": verify, "beverify": beverify, "probes": pr});
    tr.emit(&json!({"a":"bak","gz":gzn,"res":"ok","orig":orig,"rest":rest}));
    h.qs = qs;
    Ok(())
}

/// A plain backup whose version tag is rewritten / removed must be refused by restore.
pub async fn version_mutations(h: &Hist, tr: &mut Tracer) {
    let buf = sx::backup(&h.qs, false).await.expect("backup");
    let v: J = serde_json::from_slice(&buf).expect("backup json");
    let cur = v["version"].as_str().unwrap_or("").to_string();
    let mut muts: Vec<(String, J)> = Vec::new();
    for (name, newv) in [("other-series", json!("0.0")), ("next-series", json!(format!("{cur}9"))), ("empty", json!("")), ("suffix", json!(format!("{cur}.1")))] {
        let mut m = v.clone();
        m["version"] = newv;
        muts.push((name.to_string(), m));
    }
    let mut m = v.clone();
    if let Some(o) = m.as_object_mut() {
        o.remove("version");
    }
    muts.push(("no-version-field".to_string(), m));
    // control: the untouched backup must be accepted (guards against a vacuous "everything is refused")
    muts.push(("control-unchanged".to_string(), v.clone()));
    for (name, m) in muts {
        let bytes = serde_json::to_vec(&m).expect("json");
        let r = sx::restore_be_only(&bytes, false);
        let res = match &r {
            Ok(_) => "ok".to_string(),
            Err(e) => format!("refused:{e:?}"),
        };
        let a = if name == "control-unchanged" { "bakctl" } else { "bakver" };
        tr.emit(&json!({"a":a,"mut":name,"res":res}));
    }
}
