//! C17 direction (A): model cases on the REAL memberof plugin, with transactions as backtracking.
//! A case = a member graph over NG groups + NL leaves built by ONE create, then 1..4 edits, all inside
//! one write transaction that is never committed (kanidm plugins run when an operation is applied).
//! After the build and after every edit the projected state is logged.
//!   --walk NG:NL          every graph x every single edit (+ delete-then-revive pairs with --deep)
//!   --cases FILE          cases printed by TLC (KMemberOfMC CEX tuples converted by the orchestrator)
//!   --replay FILE         re-run the cases found in an earlier observation file
use crate::hist::exec;
use crate::world::*;
use kanidmd_lib::prelude::*;
use kvc::srv::*;
use kvc::util::*;
use serde_json::{json, Value as J};

fn eid(n: u64) -> String {
    format!("e{n}")
}

/// member lists of the groups from the edge mask used by KMemberOfMC (bit (g-1)*N + (x-1))
fn build_op(mask: u64, ng: u64, nl: u64) -> J {
    let n = ng + nl;
    let mut ents = vec![];
    for g in 1..=ng {
        let m: Vec<String> = (1..=n).filter(|x| mask >> ((g - 1) * n + (x - 1)) & 1 == 1).map(eid).collect();
        ents.push(json!({"k":"grp","id":eid(g),"n":format!("g{g}"),"m":m,"d":""}));
    }
    for x in ng + 1..=n {
        ents.push(json!({"k":"usr","id":eid(x),"n":format!("u{x}"),"d":"x1"}));
    }
    json!({"a":"create_batch","first":true,"ng":ng,"nl":nl,"mask":mask,"ents":ents})
}
fn set_ids(code: u64, n: u64) -> Vec<String> {
    (1..=n).filter(|x| code >> (x - 1) & 1 == 1).map(eid).collect()
}
/// edit codes of KMemberOfMC: 1 add(g,x) 2 remove(g,x) 3 set(g, setcode) 4 delete(setcode) 5 revive(x);
/// 6 revive(setcode) is used by the walk only
fn act_op(k: u64, a: u64, b: u64, n: u64) -> J {
    match k {
        1 => json!({"a":"add_member","g":eid(a),"x":eid(b)}),
        2 => json!({"a":"remove_member","g":eid(a),"x":eid(b)}),
        3 => json!({"a":"set_members","g":eid(a),"xs":set_ids(b, n)}),
        4 => json!({"a":"delete","ids":set_ids(a, n)}),
        5 => json!({"a":"revive","ids":[eid(a)]}),
        _ => json!({"a":"revive","ids":set_ids(a, n)}), // 6: ONE revive operation over a set
    }
}

struct Runner {
    qs: QueryServer,
    pj: Projector,
    tr: Tracer,
    case: u64,
}
impl Runner {
    /// one case in one uncommitted transaction
    async fn run_case(&mut self, build: &J, acts: &[J]) {
        self.case += 1;
        let mut w = self.qs.write(t(10)).await.expect("write");
        let mut ops = vec![build.clone()];
        ops.extend(acts.iter().cloned());
        for (i, op) in ops.iter().enumerate() {
            let mut op = op.clone();
            if let Some(m) = op.as_object_mut() {
                m.remove("st");
                m.remove("res");
            }
            let a = op["a"].as_str().unwrap_or("").to_string();
            let r = catch(|| exec(&mut w, &a, &op));
            let res = match r {
                Err(_) => "panic".to_string(),
                Ok(r) => res_class(&r),
            };
            op["case"] = json!(self.case);
            op["first"] = json!(i == 0);
            op["t"] = json!(10);
            op["res"] = json!(res);
            op["st"] = self.pj.state(&mut w, 10, false);
            self.tr.emit(&op);
            if op["res"] != "ok" {
                break; // a failed operation poisons the transaction: the case ends here
            }
        }
        drop(w);
    }
}

pub fn run(o: &Opts) -> i32 {
    let out = o.str("out", "/verif/work/C17/cases.ndjson");
    let rt = runtime();
    rt.block_on(async {
        let qs = new_qs(t(0)).await;
        let pj = {
            let mut r = qs.read().await.expect("read");
            Projector::new(&mut r)
        };
        let mut rn = Runner { qs, pj, tr: Tracer::create(&out), case: 0 };
        if let Some(f) = o.get("replay") {
            // observation file: group lines by case
            let mut cur: Vec<J> = vec![];
            for l in read_ndjson(f) {
                if l["first"] == true && !cur.is_empty() {
                    let b = cur[0].clone();
                    rn.run_case(&b, &cur[1..]).await;
                    cur.clear();
                }
                cur.push(l);
            }
            if !cur.is_empty() {
                let b = cur[0].clone();
                rn.run_case(&b, &cur[1..]).await;
            }
        } else if let Some(f) = o.get("cases") {
            // {"ng":3,"nl":0,"mask":144,"acts":[[2,3,2],...]}
            for c in read_ndjson(f) {
                let (ng, nl) = (c["ng"].as_u64().unwrap_or(3), c["nl"].as_u64().unwrap_or(0));
                let b = build_op(c["mask"].as_u64().unwrap_or(0), ng, nl);
                let acts: Vec<J> = c["acts"].as_array().cloned().unwrap_or_default().iter()
                    .map(|a| act_op(a[0].as_u64().unwrap_or(0), a[1].as_u64().unwrap_or(0), a[2].as_u64().unwrap_or(0), ng + nl)).collect();
                rn.run_case(&b, &acts).await;
            }
        } else {
            let spec = o.str("walk", "3:0");
            let (ng, nl) = spec.split_once(':').expect("NG:NL");
            let (ng, nl): (u64, u64) = (ng.parse().expect("ng"), nl.parse().expect("nl"));
            let n = ng + nl;
            let deep = o.flag("deep");
            let stride = o.u64("stride", 1); // sample every stride-th graph (offset by seed)
            let off = o.seed() % stride.max(1);
            for mask in 0..(1u64 << (ng * n)) {
                if mask % stride.max(1) != off {
                    continue;
                }
                let b = build_op(mask, ng, nl);
                let has = |g: u64, x: u64| mask >> ((g - 1) * n + (x - 1)) & 1 == 1;
                let mut seqs: Vec<Vec<J>> = vec![];
                for g in 1..=ng {
                    for x in 1..=n {
                        seqs.push(vec![act_op(if has(g, x) { 2 } else { 1 }, g, x, n)]);
                    }
                }
                for x in 1..=n {
                    seqs.push(vec![act_op(4, 1 << (x - 1), 0, n)]);
                    if deep {
                        seqs.push(vec![act_op(4, 1 << (x - 1), 0, n), act_op(5, x, 0, n)]);
                    }
                }
                if deep {
                    for x in 1..=n {
                        for y in x + 1..=n {
                            let d = (1 << (x - 1)) | (1 << (y - 1));
                            seqs.push(vec![act_op(4, d, 0, n)]);
                            seqs.push(vec![act_op(4, d, 0, n), act_op(5, x, 0, n)]);
                            seqs.push(vec![act_op(4, d, 0, n), act_op(5, y, 0, n), act_op(5, x, 0, n)]);
                            seqs.push(vec![act_op(4, d, 0, n), act_op(6, d, 0, n)]);
                        }
                    }
                }
                for s in seqs {
                    rn.run_case(&b, &s).await;
                }
            }
        }
        let cases = rn.case;
        let n = rn.tr.finish();
        println!("OBSERVED lines={n} cases={cases} out={out}");
    });
    0
}
