//! Shared history driver (C16 C17 C18 C22 C26): seeded random histories and replays on a REAL
//! in-memory QueryServer. One operation = one write transaction at a simulated time; committed when
//! the operation succeeds, dropped otherwise. After every step the projected state is logged.
use crate::world::*;
use kanidm_proto::internal::Filter as ProtoFilter;
use kanidmd_lib::prelude::*;
use kanidmd_lib::verif::dirsrv as kd;
use kvc::srv::*;
use kvc::util::*;
use serde_json::{json, Value as J};
use std::collections::BTreeMap;

pub const RMAX: u64 = RECYCLEBIN_MAX_AGE;
pub const CMAX: u64 = CHANGELOG_MAX_AGE;

pub fn filter_from_json(j: &J) -> ProtoFilter {
    let subs = || -> Vec<ProtoFilter> { j["s"].as_array().map(|a| a.iter().map(filter_from_json).collect()).unwrap_or_default() };
    match j["t"].as_str().unwrap_or("") {
        "eq" => ProtoFilter::Eq(j["a"].as_str().unwrap_or("").into(), j["v"].as_str().unwrap_or("").into()),
        "pres" => ProtoFilter::Pres(j["a"].as_str().unwrap_or("").into()),
        "and" => ProtoFilter::And(subs()),
        "or" => ProtoFilter::Or(subs()),
        "not" => ProtoFilter::AndNot(Box::new(subs().into_iter().next().unwrap_or(ProtoFilter::Pres("class".into())))),
        _ => ProtoFilter::Pres("class".into()),
    }
}

fn ids(j: &J) -> Vec<u64> {
    j.as_array()
        .map(|a| a.iter().filter_map(|x| x.as_str()).map(|s| s.trim_start_matches('e').parse::<u64>().unwrap_or(0)).collect())
        .unwrap_or_default()
}
fn idn(j: &J) -> u64 {
    j.as_str().map(|s| s.trim_start_matches('e').parse::<u64>().unwrap_or(0)).unwrap_or(0)
}
fn eid(n: u64) -> String {
    format!("e{n}")
}

/// What the generator remembers about an id it created (bookkeeping for plausible operations only;
/// never used to judge anything).
#[derive(Clone, Debug, PartialEq)]
pub enum Kind {
    Grp,
    Dyn,
    Usr,
    Svc,
    Cert,
    Oa2,
}
#[derive(Clone, Debug)]
pub struct Known {
    pub kind: Kind,
    pub live: bool, // best effort
}

pub struct World {
    pub qs: QueryServer,
    pub now: u64,
    pub pj: Projector,
    pub known: BTreeMap<u64, Known>,
    pub next_id: u64,
    /// operations of a scripted pattern still to be issued (generator only)
    pub pending: std::collections::VecDeque<J>,
}

impl World {
    pub async fn new() -> Self {
        let qs = new_qs(t(0)).await;
        let pj = {
            let mut r = qs.read().await.expect("read");
            Projector::new(&mut r)
        };
        World { qs, now: 0, pj, known: BTreeMap::new(), next_id: 1, pending: Default::default() }
    }
    pub async fn state(&self, full: bool) -> J {
        let mut r = self.qs.read().await.expect("read");
        self.pj.state(&mut r, self.now, full)
    }

    /// Execute one logged/generated operation on the real server. Returns the result class.
    pub async fn apply(&mut self, op: &J) -> String {
        let a = op["a"].as_str().unwrap_or("").to_string();
        if let Some(tt) = op["t"].as_u64() {
            self.now = tt;
        }
        let mut w = self.qs.write(t(self.now)).await.expect("write txn");
        let op2 = op.clone();
        let r: Result<Result<(), OperationError>, String> = catch(|| exec(&mut w, &a, &op2));
        match r {
            Err(_p) => {
                drop(w);
                "panic".into()
            }
            Ok(Ok(())) => match w.commit() {
                Ok(()) => {
                    self.book(&a, op);
                    "ok".into()
                }
                Err(e) => res_class(&Err(e)).replace("err:", "commiterr:"),
            },
            Ok(Err(e)) => {
                drop(w);
                res_class(&Err(e))
            }
        }
    }

    fn book(&mut self, a: &str, op: &J) {
        let mut put = |n: u64, k: Kind| {
            self.known.insert(n, Known { kind: k, live: true });
        };
        match a {
            "create_group" => put(idn(&op["id"]), Kind::Grp),
            "create_dyn" => put(idn(&op["id"]), Kind::Dyn),
            "create_person" => put(idn(&op["id"]), Kind::Usr),
            "create_svc" => put(idn(&op["id"]), Kind::Svc),
            "create_cert" => put(idn(&op["id"]), Kind::Cert),
            "create_oa2" => put(idn(&op["id"]), Kind::Oa2),
            "create_batch" => {
                for s in op["ents"].as_array().cloned().unwrap_or_default() {
                    let k = match s["k"].as_str().unwrap_or("") {
                        "grp" => Kind::Grp,
                        "dyn" => Kind::Dyn,
                        "usr" => Kind::Usr,
                        "svc" => Kind::Svc,
                        "cert" => Kind::Cert,
                        _ => Kind::Oa2,
                    };
                    put(idn(&s["id"]), k);
                }
            }
            "delete" => {
                for n in ids(&op["ids"]) {
                    if let Some(k) = self.known.get_mut(&n) {
                        k.live = false;
                    }
                }
            }
            "revive" => {
                let v = if op["ids"].is_array() { ids(&op["ids"]) } else { vec![idn(&op["id"])] };
                for n in v {
                    if let Some(k) = self.known.get_mut(&n) {
                        k.live = true;
                    }
                }
            }
            _ => {}
        }
    }
}

fn ent_from_json(s: &J) -> EntryInitNew {
    let id = idn(&s["id"]);
    let n = s["n"].as_str().unwrap_or("");
    let d = s["d"].as_str().unwrap_or("");
    match s["k"].as_str().unwrap_or("") {
        "grp" => {
            let mut e = e_group(id, n, &ids(&s["m"]));
            if !d.is_empty() {
                e.add_ava(Attribute::Description, Value::new_utf8s(d));
            }
            e
        }
        "dyn" => {
            let mut e = e_dyngroup(id, n, &filter_from_json(&s["f"]));
            if !d.is_empty() {
                e.add_ava(Attribute::Description, Value::new_utf8s(d));
            }
            e
        }
        "usr" => e_person(id, n, d),
        "svc" => e_service(id, n, d),
        "cert" => e_cert(id, idn(&s["r"])),
        _ => e_oauth2(id, n, &ids(&s["g"])),
    }
}

pub fn exec(w: &mut QueryServerWriteTransaction, a: &str, op: &J) -> Result<(), OperationError> {
    let u = |k: &str| uuid_e(idn(&op[k]));
    match a {
        "create_group" | "create_dyn" | "create_person" | "create_svc" | "create_cert" | "create_oa2" => {
            let mut s = op.clone();
            s["k"] = json!(match a {
                "create_group" => "grp",
                "create_dyn" => "dyn",
                "create_person" => "usr",
                "create_svc" => "svc",
                "create_cert" => "cert",
                _ => "oa2",
            });
            w.internal_create(vec![ent_from_json(&s)])
        }
        "create_batch" => {
            let v: Vec<EntryInitNew> = op["ents"].as_array().cloned().unwrap_or_default().iter().map(ent_from_json).collect();
            w.internal_create(v)
        }
        "add_member" => w.internal_modify_uuid(u("g"), &ModifyList::new_list(vec![Modify::Present(Attribute::Member, Value::Refer(u("x")))])),
        "remove_member" => w.internal_modify_uuid(u("g"), &ModifyList::new_list(vec![Modify::Removed(Attribute::Member, PartialValue::Refer(u("x")))])),
        "set_members" => {
            let mut ml = vec![m_purge(Attribute::Member)];
            for x in ids(&op["xs"]) {
                ml.push(Modify::Present(Attribute::Member, Value::Refer(uuid_e(x))));
            }
            w.internal_modify_uuid(u("g"), &ModifyList::new_list(ml))
        }
        "set_emb" => w.internal_modify_uuid(u("id"), &ModifyList::new_purge_and_set(Attribute::EntryManagedBy, Value::Refer(u("x")))),
        "clear_emb" => w.internal_modify_uuid(u("id"), &ModifyList::new_purge(Attribute::EntryManagedBy)),
        "add_scope" => w.internal_modify_uuid(u("o"), &ModifyList::new_list(vec![Modify::Present(Attribute::OAuth2RsScopeMap, scope_map(idn(&op["g"])))])),
        "rm_scope" => w.internal_modify_uuid(u("o"), &ModifyList::new_list(vec![Modify::Removed(Attribute::OAuth2RsScopeMap, PartialValue::Refer(u("g")))])),
        "set_refers" => w.internal_modify_uuid(u("c"), &ModifyList::new_purge_and_set(Attribute::Refers, Value::Refer(u("x")))),
        "rename" => w.internal_modify_uuid(u("id"), &ModifyList::new_purge_and_set(Attribute::Name, Value::new_iname(op["n"].as_str().unwrap_or("x")))),
        "set_desc" => w.internal_modify_uuid(u("id"), &ModifyList::new_purge_and_set(Attribute::Description, Value::new_utf8s(op["d"].as_str().unwrap_or("x")))),
        "set_filter" => w.internal_modify_uuid(u("d"), &ModifyList::new_purge_and_set(Attribute::DynGroupFilter, Value::JsonFilt(filter_from_json(&op["f"])))),
        "delete" => {
            let v = ids(&op["ids"]);
            if v.len() == 1 {
                w.internal_delete_uuid(uuid_e(v[0]))
            } else {
                let f = Filter::new_ignore_hidden(f_or(v.iter().map(|n| f_eq(Attribute::Uuid, PartialValue::Uuid(uuid_e(*n)))).collect()));
                w.internal_delete(&f)
            }
        }
        "revive" => {
            // one revive operation over a set of ids (older replay files carry a single "id")
            let v: Vec<Uuid> = if op["ids"].is_array() { ids(&op["ids"]).into_iter().map(uuid_e).collect() } else { vec![u("id")] };
            if v.len() == 1 {
                kd::revive_uuid(w, v[0])
            } else {
                kd::revive_uuids(w, &v)
            }
        }
        "purge_recycled" => w.purge_recycled().map(|_| ()),
        "purge_tombstones" => w.purge_tombstones().map(|_| ()),
        "domain_rename" => w.danger_domain_rename(op["dom"].as_str().unwrap_or("example.com")),
        "noop" => Ok(()),
        other => {
            eprintln!("TOOL-ERROR unknown op {other}");
            std::process::exit(2)
        }
    }
}

// ------------------------------------------------------------------------------------ generator

pub struct Gen {
    pub focus: String,
    pub max_groups: u64,
}

const NAMES: [&str; 8] = ["n1", "n2", "n3", "n4", "n5", "n6", "n7", "n8"];
const DESCS: [&str; 3] = ["x1", "x2", "x3"];
const DOMS: [&str; 3] = ["example.com", "new.example.org", "third.test"];

fn rand_atom(r: &mut Rng) -> J {
    match r.below(6) {
        0 | 1 => json!({"t":"eq","a":"description","v":*r.pick(&DESCS),"s":[]}),
        2 => json!({"t":"eq","a":"name","v":*r.pick(&NAMES),"s":[]}),
        3 => json!({"t":"eq","a":"class","v":*r.pick(&["person","group","service_account","account","dyngroup"]),"s":[]}),
        4 => json!({"t":"pres","a":"description","v":"","s":[]}),
        _ => json!({"t":"eq","a":"displayname","v":*r.pick(&NAMES),"s":[]}),
    }
}
/// can this filter only match entries carrying a model-only marker value (description x*, name n*,
/// displayname n*)?  (generator hygiene: keeps the built-in population out of model dyngroups)
fn safe(f: &J) -> bool {
    match f["t"].as_str().unwrap_or("") {
        "eq" => f["a"] != "class",
        "and" => f["s"].as_array().map(|a| a.iter().any(safe)).unwrap_or(false),
        "or" => f["s"].as_array().map(|a| !a.is_empty() && a.iter().all(safe)).unwrap_or(false),
        _ => false,
    }
}
fn rand_filter_raw(r: &mut Rng, depth: u32) -> J {
    if depth == 0 {
        return rand_atom(r);
    }
    match r.below(6) {
        0 | 1 => rand_atom(r),
        2 => {
            let n = r.range(2, 3);
            json!({"t":"or","a":"","v":"","s":(0..n).map(|_| rand_filter_raw(r, depth - 1)).collect::<Vec<_>>()})
        }
        3 => {
            let n = r.range(2, 3);
            json!({"t":"and","a":"","v":"","s":(0..n).map(|_| rand_filter_raw(r, depth - 1)).collect::<Vec<_>>()})
        }
        _ => {
            let pos = rand_filter_raw(r, depth - 1);
            let neg = rand_filter_raw(r, depth - 1);
            json!({"t":"and","a":"","v":"","s":[pos, {"t":"not","a":"","v":"","s":[neg]}]})
        }
    }
}
/// Random dyngroup filter over the candidates' attributes. AndNot only inside an And that has a
/// positive term (the only placement kanidm's filter documentation allows). Filters that could match
/// built-in entries are guarded by a conjunct only model entries satisfy.
pub fn rand_filter(r: &mut Rng, depth: u32) -> J {
    let f = rand_filter_raw(r, depth);
    if safe(&f) {
        f
    } else {
        let guard = json!({"t":"or","a":"","v":"","s":DESCS.iter().map(|d| json!({"t":"eq","a":"description","v":d,"s":[]})).collect::<Vec<_>>()});
        json!({"t":"and","a":"","v":"","s":[guard, f]})
    }
}

impl Gen {
    fn pick_kind(&self, w: &World, r: &mut Rng, f: impl Fn(&Known) -> bool) -> Option<u64> {
        let v: Vec<u64> = w.known.iter().filter(|(_, k)| f(k)).map(|(n, _)| *n).collect();
        if v.is_empty() {
            None
        } else {
            Some(*r.pick(&v))
        }
    }
    fn any(&self, w: &World, r: &mut Rng) -> Option<u64> {
        self.pick_kind(w, r, |_| true)
    }
    fn any_live(&self, w: &World, r: &mut Rng) -> Option<u64> {
        self.pick_kind(w, r, |k| k.live)
    }
    fn live_of(&self, w: &World, r: &mut Rng, kinds: &[Kind]) -> Option<u64> {
        self.pick_kind(w, r, |k| k.live && kinds.contains(&k.kind))
    }
    /// mostly a live id, sometimes a dead or never-created one (to exercise refusals)
    fn target(&self, w: &World, r: &mut Rng) -> u64 {
        match r.below(12) {
            0 => 90 + r.below(3),
            1 => self.any(w, r).unwrap_or(91),
            _ => self.any_live(w, r).unwrap_or(91),
        }
    }

    fn dt(&self, r: &mut Rng) -> u64 {
        let timey = matches!(self.focus.as_str(), "C26" | "C16" | "mixed");
        if timey && r.chance(1, 6) {
            *r.pick(&[RMAX / 2, RMAX - 1, RMAX, RMAX + 1, RMAX + 7, CMAX / 3, 2 * RMAX])
        } else {
            r.range(1, 9)
        }
    }

    pub fn create(&self, w: &mut World, r: &mut Rng) -> J {
        let id = w.next_id;
        w.next_id += 1;
        let n = *r.pick(&NAMES);
        let ngroups = w.known.values().filter(|k| k.kind == Kind::Grp).count() as u64;
        let wts: [u64; 6] = match self.focus.as_str() {
            // grp dyn usr svc cert oa2
            "C17" => [if ngroups < self.max_groups { 14 } else { 0 }, 2, 3, 1, 0, 0],
            "C16" => [4, 1, 4, 2, 4, 3],
            "C18" => [3, 4, 5, 2, 0, 0],
            "C22" => [4, 1, 5, 4, 0, 1],
            "C26" => [4, 1, 5, 1, 4, 0],
            _ => [4, 2, 4, 2, 2, 1],
        };
        let tot: u64 = wts.iter().sum();
        let mut x = r.below(tot.max(1));
        let mut k = 0;
        for (i, wgt) in wts.iter().enumerate() {
            if x < *wgt {
                k = i;
                break;
            }
            x -= wgt;
        }
        let d = if r.chance(2, 3) { *r.pick(&DESCS) } else { "" };
        match k {
            0 => {
                let mut m = vec![];
                for _ in 0..r.below(3) {
                    m.push(eid(self.target(w, r)));
                }
                m.sort();
                m.dedup();
                json!({"a":"create_group","id":eid(id),"n":n,"m":m,"d":d})
            }
            1 => json!({"a":"create_dyn","id":eid(id),"n":n,"f":rand_filter(r, 2),"d":d}),
            2 => json!({"a":"create_person","id":eid(id),"n":n,"d": *r.pick(&DESCS)}),
            3 => json!({"a":"create_svc","id":eid(id),"n":n,"d": *r.pick(&DESCS)}),
            4 => json!({"a":"create_cert","id":eid(id),"r":eid(self.target(w, r))}),
            _ => {
                let mut g = vec![];
                for _ in 0..r.range(1, 2) {
                    g.push(eid(self.live_of(w, r, &[Kind::Grp, Kind::Dyn]).unwrap_or(92)));
                }
                g.sort();
                g.dedup();
                json!({"a":"create_oa2","id":eid(id),"n":n,"g":g})
            }
        }
    }

    /// Scripted multi-step patterns (sequence-dependent corners that single random steps rarely line up):
    /// the steps are queued and issued one per transaction like any other operation.
    fn pattern(&self, w: &mut World, r: &mut Rng) -> bool {
        let g = self.live_of(w, r, &[Kind::Grp]);
        let x = self.any_live(w, r);
        let u = self.live_of(w, r, &[Kind::Usr, Kind::Svc]);
        let which: &[u64] = match self.focus.as_str() {
            "C16" => &[1, 2, 1, 2, 6, 8],
            "C17" => &[3, 3, 7, 1, 8],
            "C18" => &[5, 5, 4],
            "C22" => &[4, 4, 7],
            "C26" => &[6, 2, 1, 8, 8],
            _ => &[1, 2, 3, 4, 5, 6, 7, 8],
        };
        let mut q: Vec<J> = vec![];
        match *r.pick(which) {
            1 => {
                // holder and target deleted one after the other, holder revived first
                if let (Some(g), Some(x)) = (g, x) {
                    if g != x {
                        q = vec![json!({"a":"add_member","g":eid(g),"x":eid(x)}), json!({"a":"delete","ids":[eid(g)]}),
                                 json!({"a":"delete","ids":[eid(x)]}), json!({"a":"revive","ids":[eid(g)]}), json!({"a":"revive","ids":[eid(x)]})];
                    }
                }
            }
            2 => {
                // dependent behind its target: cascade delete, lone revive of the dependent, revive of the target
                if let Some(u) = u {
                    let c = w.next_id;
                    w.next_id += 1;
                    q = vec![json!({"a":"create_cert","id":eid(c),"r":eid(u)}), json!({"a":"delete","ids":[eid(u)]}),
                             json!({"a":"revive","ids":[eid(c)]}), json!({"a":"revive","ids":[eid(u)]})];
                }
            }
            3 => {
                // a member cycle with an external parent that is then removed
                let a = self.live_of(w, r, &[Kind::Grp]);
                let b = self.live_of(w, r, &[Kind::Grp]);
                let c = self.live_of(w, r, &[Kind::Grp]);
                if let (Some(a), Some(b), Some(c)) = (a, b, c) {
                    q = vec![json!({"a":"add_member","g":eid(a),"x":eid(b)}), json!({"a":"add_member","g":eid(b),"x":eid(a)}),
                             json!({"a":"add_member","g":eid(c),"x":eid(a)}), json!({"a":"remove_member","g":eid(c),"x":eid(a)})];
                }
            }
            4 => {
                // domain renamed while an entry sits in the recycle bin
                if let Some(x) = x {
                    q = vec![json!({"a":"delete","ids":[eid(x)]}), json!({"a":"domain_rename","dom":*r.pick(&DOMS)}), json!({"a":"revive","ids":[eid(x)]})];
                }
            }
            5 => {
                // candidate leaves, the filter changes underneath, candidate comes back and is edited
                let d = self.live_of(w, r, &[Kind::Dyn]);
                if let (Some(d), Some(u)) = (d, u) {
                    q = vec![json!({"a":"set_desc","id":eid(u),"d":*r.pick(&DESCS)}), json!({"a":"delete","ids":[eid(u)]}),
                             json!({"a":"set_filter","d":eid(d),"f":rand_filter(r, 1)}), json!({"a":"revive","ids":[eid(u)]}),
                             json!({"a":"set_desc","id":eid(u),"d":*r.pick(&DESCS)})];
                }
            }
            6 => {
                // a full trip through the bin: just before / after the retention period, then the changelog window
                if let Some(x) = x {
                    q = vec![json!({"a":"delete","ids":[eid(x)]}), json!({"a":"purge_recycled","dt":RMAX - 1}), json!({"a":"purge_recycled","dt":2}),
                             json!({"a":"revive","ids":[eid(x)]}), json!({"a":"purge_tombstones","dt":CMAX - 2}), json!({"a":"purge_tombstones","dt":3})];
                }
            }
            8 => {
                // two members of the same group leave and come back in ONE delete / ONE revive operation
                let y = self.any_live(w, r);
                if let (Some(g), Some(x), Some(y)) = (g, x, y) {
                    if x != y && g != x && g != y {
                        q = vec![json!({"a":"add_member","g":eid(g),"x":eid(x)}), json!({"a":"add_member","g":eid(g),"x":eid(y)}),
                                 json!({"a":"delete","ids":[eid(x), eid(y)]}), json!({"a":"revive","ids":[eid(x), eid(y)]})];
                    }
                }
            }
            _ => {
                // a group with members goes through the bin
                if let (Some(g), Some(x)) = (g, x) {
                    q = vec![json!({"a":"add_member","g":eid(g),"x":eid(x)}), json!({"a":"delete","ids":[eid(g)]}), json!({"a":"revive","ids":[eid(g)]})];
                }
            }
        }
        if q.is_empty() {
            return false;
        }
        w.pending.extend(q);
        true
    }

    pub fn next(&self, w: &mut World, r: &mut Rng) -> J {
        if w.pending.is_empty() && w.known.len() >= 5 && r.chance(1, 9) {
            self.pattern(w, r);
        }
        if let Some(mut op) = w.pending.pop_front() {
            let dt = op.get("dt").and_then(|d| d.as_u64()).unwrap_or_else(|| r.range(1, 5));
            if let Some(m) = op.as_object_mut() {
                m.remove("dt");
            }
            op["t"] = json!(w.now + dt);
            return op;
        }
        let nknown = w.known.len() as u64;
        let mut op = if nknown < 4 || r.chance(1, if nknown < 10 { 4 } else { 12 }) {
            self.create(w, r)
        } else {
            self.edit(w, r)
        };
        let tnew = w.now + self.dt(r);
        op["t"] = json!(tnew);
        op
    }

    fn edit(&self, w: &mut World, r: &mut Rng) -> J {
        let grp = |s: &Self, w: &World, r: &mut Rng| s.live_of(w, r, &[Kind::Grp]).unwrap_or(91);
        let recycled = |s: &Self, w: &World, r: &mut Rng| s.pick_kind(w, r, |k| !k.live);
        // op table: (weight, tag)
        let table: Vec<(u64, &str)> = match self.focus.as_str() {
            "C17" => vec![(40, "add_member"), (30, "remove_member"), (4, "set_members"), (8, "delete"), (8, "revive"), (2, "set_desc"), (1, "set_filter"), (1, "rename"), (1, "delete_many")],
            "C16" => vec![(10, "add_member"), (5, "remove_member"), (3, "set_members"), (8, "set_emb"), (2, "clear_emb"), (8, "add_scope"), (3, "rm_scope"), (4, "set_refers"),
                          (14, "delete"), (4, "delete_many"), (12, "revive"), (4, "purge_recycled"), (2, "purge_tombstones"), (2, "set_desc"), (1, "rename")],
            "C18" => vec![(18, "set_desc"), (10, "rename"), (10, "set_filter"), (12, "delete"), (10, "revive"), (3, "delete_many"), (3, "add_member"), (2, "purge_recycled"), (1, "domain_rename")],
            "C22" => vec![(30, "rename"), (10, "domain_rename"), (10, "delete"), (10, "revive"), (3, "set_desc"), (3, "add_member"), (2, "purge_recycled")],
            "C26" => vec![(20, "delete"), (4, "delete_many"), (18, "revive"), (10, "purge_recycled"), (8, "purge_tombstones"), (10, "add_member"), (3, "remove_member"), (2, "rename"), (2, "set_refers"), (1, "domain_rename"), (3, "noop")],
            _ => vec![(12, "add_member"), (6, "remove_member"), (2, "set_members"), (4, "set_emb"), (1, "clear_emb"), (4, "add_scope"), (2, "rm_scope"), (2, "set_refers"),
                      (10, "delete"), (3, "delete_many"), (10, "revive"), (4, "purge_recycled"), (3, "purge_tombstones"), (6, "set_desc"), (8, "rename"), (4, "set_filter"), (3, "domain_rename")],
        };
        let tot: u64 = table.iter().map(|x| x.0).sum();
        let mut x = r.below(tot);
        let mut tag = table[0].1;
        for (wgt, tg) in &table {
            if x < *wgt {
                tag = tg;
                break;
            }
            x -= wgt;
        }
        match tag {
            "add_member" => json!({"a":"add_member","g":eid(if r.chance(1,10) { self.target(w, r) } else { grp(self, w, r) }),"x":eid(self.target(w, r))}),
            "remove_member" => json!({"a":"remove_member","g":eid(grp(self, w, r)),"x":eid(self.any_live(w, r).unwrap_or(91))}),
            "set_members" => {
                let mut xs = vec![];
                for _ in 0..r.below(4) {
                    xs.push(eid(self.target(w, r)));
                }
                xs.sort();
                xs.dedup();
                json!({"a":"set_members","g":eid(grp(self, w, r)),"xs":xs})
            }
            "set_emb" => json!({"a":"set_emb","id":eid(self.live_of(w, r, &[Kind::Grp, Kind::Svc, Kind::Dyn]).unwrap_or(91)),"x":eid(self.target(w, r))}),
            "clear_emb" => json!({"a":"clear_emb","id":eid(self.live_of(w, r, &[Kind::Grp, Kind::Svc, Kind::Dyn]).unwrap_or(91))}),
            "add_scope" => json!({"a":"add_scope","o":eid(self.live_of(w, r, &[Kind::Oa2]).unwrap_or(91)),"g":eid(self.target(w, r))}),
            "rm_scope" => json!({"a":"rm_scope","o":eid(self.live_of(w, r, &[Kind::Oa2]).unwrap_or(91)),"g":eid(self.live_of(w, r, &[Kind::Grp, Kind::Dyn]).unwrap_or(91))}),
            "set_refers" => json!({"a":"set_refers","c":eid(self.live_of(w, r, &[Kind::Cert]).unwrap_or(91)),"x":eid(self.target(w, r))}),
            "rename" => json!({"a":"rename","id":eid(self.live_of(w, r, &[Kind::Grp, Kind::Dyn, Kind::Usr, Kind::Svc, Kind::Oa2]).unwrap_or(91)),"n":*r.pick(&NAMES)}),
            "set_desc" => json!({"a":"set_desc","id":eid(self.live_of(w, r, &[Kind::Grp, Kind::Dyn, Kind::Usr, Kind::Svc]).unwrap_or(91)),"d":*r.pick(&DESCS)}),
            "set_filter" => json!({"a":"set_filter","d":eid(self.live_of(w, r, &[Kind::Dyn]).unwrap_or(91)),"f":rand_filter(r, 2)}),
            "delete" => json!({"a":"delete","ids":[eid(if r.chance(1,12) { self.target(w, r) } else { self.any_live(w, r).unwrap_or(91) })]}),
            "delete_many" => {
                let mut v = vec![];
                for _ in 0..r.range(2, 3) {
                    v.push(eid(self.any_live(w, r).unwrap_or(91)));
                }
                v.sort();
                v.dedup();
                json!({"a":"delete","ids":v})
            }
            "revive" => {
                let mut v = vec![eid(if r.chance(1, 10) { self.target(w, r) } else { recycled(self, w, r).unwrap_or(91) })];
                if r.chance(1, 4) {
                    for _ in 0..r.range(1, 2) {
                        v.push(eid(recycled(self, w, r).unwrap_or(91)));
                    }
                    v.sort();
                    v.dedup();
                }
                json!({"a":"revive","ids":v})
            }
            "purge_recycled" => json!({"a":"purge_recycled"}),
            "purge_tombstones" => json!({"a":"purge_tombstones"}),
            "domain_rename" => json!({"a":"domain_rename","dom":*r.pick(&DOMS)}),
            _ => json!({"a":"noop"}),
        }
    }
}

/// is this line worth a full-database projection (C22 needs every account/group after a domain rename)
fn wants_full(op: &J, step: u64) -> bool {
    op["a"] == "domain_rename" || step % 25 == 0
}

async fn run_history(tr: &mut Tracer, hid: u64, ops: Option<&[J]>, g: &Gen, steps: u64, r: &mut Rng) {
    let mut w = World::new().await;
    let st = w.state(true).await;
    tr.emit(&json!({"a":"reset","hid":hid,"t":0,"res":"ok","focus":g.focus,"c":{"rmax":RMAX,"cmax":CMAX},"full":true,"st":st}));
    let n = ops.map(|o| o.len() as u64).unwrap_or(steps);
    for i in 0..n {
        let mut op = match ops {
            Some(o) => o[i as usize].clone(),
            None => g.next(&mut w, r),
        };
        // strip anything observed from a replayed line
        if let Some(m) = op.as_object_mut() {
            m.remove("st");
            m.remove("res");
            m.remove("full");
            // revive is logged over a SET of ids (older files name a single id)
            if m.get("a").and_then(|a| a.as_str()) == Some("revive") && !m.contains_key("ids") {
                let one = m.remove("id").unwrap_or(json!("e0"));
                m.insert("ids".into(), json!([one]));
            }
        }
        let res = w.apply(&op).await;
        let full = wants_full(&op, i + 1);
        let st = w.state(full).await;
        op["res"] = json!(res);
        op["full"] = json!(full);
        op["st"] = st;
        tr.emit(&op);
    }
}

pub fn run(o: &Opts) -> i32 {
    let out = o.str("out", "/verif/work/dirsrv/obs.ndjson");
    let mut tr = Tracer::create(&out);
    let rt = runtime();
    let focus = o.str("focus", "mixed");
    let g = Gen { focus: focus.clone(), max_groups: o.u64("groups", 12) };
    rt.block_on(async {
        if let Some(rp) = o.get("replay") {
            // a replay file: lines of one or more histories, each starting with a reset line
            let lines = read_ndjson(rp);
            let mut cur: Vec<J> = vec![];
            let mut hid = 0;
            let mut r = Rng::new(0);
            let mut started = false;
            for l in lines {
                if l["a"] == "reset" {
                    if started {
                        run_history(&mut tr, hid, Some(&cur), &g, 0, &mut r).await;
                        cur.clear();
                    }
                    started = true;
                    hid = l["hid"].as_u64().unwrap_or(0);
                } else {
                    started = true;
                    cur.push(l);
                }
            }
            if started {
                run_history(&mut tr, hid, Some(&cur), &g, 0, &mut r).await;
            }
        } else {
            let nh = o.u64("hist", 4);
            let steps = o.u64("steps", 40);
            for h in 0..nh {
                let mut r = Rng::new(o.seed().wrapping_mul(1_000_003).wrapping_add(h).wrapping_add(focus.bytes().map(|b| b as u64).sum::<u64>() << 20));
                run_history(&mut tr, h + 1, None, &g, steps, &mut r).await;
            }
        }
    });
    let n = tr.finish();
    println!("OBSERVED lines={n} out={out}");
    0
}
