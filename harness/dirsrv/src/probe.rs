//! scratch probe (development aid): prints what the real code does on a few scenarios
use crate::world::*;
use kanidm_proto::internal::Filter as ProtoFilter;
use kanidmd_lib::prelude::*;
use kanidmd_lib::verif::dirsrv as kd;
use kvc::srv::*;
use kvc::util::*;

fn show(tag: &str, st: &serde_json::Value) {
    println!("--- {tag}");
    if let Some(m) = st["e"].as_object() {
        for (k, v) in m {
            println!("  {k} lv={} k={} n={} spn={} m={} dm={} mo={} dmo={} rdmo={} cd={} lm={}", v["lv"], v["k"], v["n"], v["spn"], v["m"], v["dm"], v["mo"], v["dmo"], v["rdmo"], v["cd"], v["lm"]);
        }
    }
    println!("  vis={} rvis={} dom={}", st["vis"], st["rvis"], st["dom"]);
}

pub fn run(_o: &Opts) -> i32 {
    let rt = runtime();
    rt.block_on(async {
        let t_start = std::time::Instant::now();
        let qs = new_qs(t(0)).await;
        println!("new_qs took {:?}", t_start.elapsed());
        let mut w = qs.write(t(1)).await.unwrap();
        let pj = Projector::new(&mut w);
        println!("refattrs = {:?}", pj.refattrs);
        // C17 scenario
        w.internal_create(vec![e_group(1, "g1", &[]), e_group(2, "g2", &[1]), e_group(3, "g3", &[1])]).unwrap();
        let r = w.internal_modify_uuid(uuid_e(1), &ModifyList::new_list(vec![Modify::Present(Attribute::Member, Value::Refer(uuid_e(2)))]));
        println!("add g2 to g1: {}", res_class(&r));
        show("after build", &pj.state(&mut w, 1, false));
        let r = w.internal_modify_uuid(uuid_e(3), &ModifyList::new_list(vec![Modify::Removed(Attribute::Member, PartialValue::Refer(uuid_e(1)))]));
        println!("remove g1 from g3: {}", res_class(&r));
        show("after remove", &pj.state(&mut w, 1, false));
        drop(w);
        // dyngroup scenarios
        let mut w = qs.write(t(2)).await.unwrap();
        w.internal_create(vec![e_person(11, "n11", "x1"), e_person(12, "n12", "x2")]).unwrap();
        w.internal_delete_uuid(uuid_e(11)).unwrap();
        w.internal_create(vec![e_dyngroup(21, "d21", &ProtoFilter::Eq("description".into(), "x1".into()))]).unwrap();
        show("dyngroup created while u11 recycled", &pj.state(&mut w, 2, false));
        let r = kd::revive_uuid(&mut w, uuid_e(11));
        println!("revive e11: {}", res_class(&r));
        show("after revive", &pj.state(&mut w, 2, false));
        // dyngroup matching dyngroups
        w.internal_create(vec![e_dyngroup(22, "d22", &ProtoFilter::Eq("class".into(), "dyngroup".into()))]).unwrap();
        w.internal_create(vec![e_dyngroup(23, "d23", &ProtoFilter::Eq("name".into(), "zzz".into()))]).unwrap();
        show("d22 class=dyngroup, then d23 created", &pj.state(&mut w, 2, false));
        // name reuse
        let r = w.internal_modify_uuid(uuid_e(12), &ModifyList::new_purge_and_set(Attribute::Name, Value::new_iname("m12")));
        println!("rename e12 -> m12: {}", res_class(&r));
        let r = w.internal_modify_uuid(uuid_e(11), &ModifyList::new_purge_and_set(Attribute::Name, Value::new_iname("n12")));
        println!("rename e11 -> n12 (old name of e12): {}", res_class(&r));
        // cert dependents
        let r = w.internal_create(vec![e_cert(31, 12), e_cert(32, 12)]);
        println!("create certs: {}", res_class(&r));
        let r = w.internal_create(vec![e_oauth2(41, "o41", &[1])]);
        println!("create oauth2: {}", res_class(&r));
        let r = w.internal_modify_uuid(uuid_e(2), &ModifyList::new_list(vec![Modify::Present(Attribute::EntryManagedBy, Value::Refer(uuid_e(12)))]));
        println!("set entry_managed_by on g2: {}", res_class(&r));
        w.internal_delete_uuid(uuid_e(12)).unwrap();
        show("after delete e12", &pj.state(&mut w, 2, false));
        let r = w.danger_domain_rename("new.example.org");
        println!("domain rename {}", res_class(&r));
        let r = kd::revive_uuid(&mut w, uuid_e(12));
        println!("revive e12: {}", res_class(&r));
        let st = pj.state(&mut w, 2, false);
        show("after revive e12", &st);
        println!("{}", serde_json::to_string(&st["e"]["e41"]).unwrap());
        println!("{}", serde_json::to_string(&st["e"]["e2"]).unwrap());
        w.commit().unwrap();
        // timing
        let t1 = std::time::Instant::now();
        for i in 0..50u64 {
            let mut w = qs.write(t(10 + i)).await.unwrap();
            let _ = w.internal_modify_uuid(uuid_e(3), &ModifyList::new_list(vec![Modify::Present(Attribute::Member, Value::Refer(uuid_e(1)))]));
            let _ = pj.state(&mut w, 1, false);
            drop(w);
        }
        println!("50 aborted modify+proj: {:?}", t1.elapsed());
        let t1 = std::time::Instant::now();
        for i in 0..50u64 {
            let mut w = qs.write(t(100 + i)).await.unwrap();
            let m = if i % 2 == 0 { Modify::Present(Attribute::Member, Value::Refer(uuid_e(1))) } else { Modify::Removed(Attribute::Member, PartialValue::Refer(uuid_e(1))) };
            let _ = w.internal_modify_uuid(uuid_e(3), &ModifyList::new_list(vec![m]));
            w.commit().unwrap();
        }
        println!("50 committed modify: {:?}", t1.elapsed());
        let mut w = qs.write(t(200)).await.unwrap();
        let t1 = std::time::Instant::now();
        let st = pj.state(&mut w, 1, true);
        println!("full proj: {:?} bytes={}", t1.elapsed(), serde_json::to_string(&st).unwrap().len());
        println!("RECYCLEBIN_MAX_AGE={} CHANGELOG_MAX_AGE={}", RECYCLEBIN_MAX_AGE, CHANGELOG_MAX_AGE);
    });
    0
}
