//! Shared driver for the dirsrv group: a REAL in-memory QueryServer, model entities mapped to fixed
//! uuids, operations through the public write APIs at simulated times, and the projected state.
#![allow(dead_code)]
use crypto_glue::{traits::DecodePem, x509::Certificate};
use kanidm_proto::internal::Filter as ProtoFilter;
use kanidmd_lib::prelude::*;
use kanidmd_lib::verif::dirsrv as kd;
use kvc::srv::*;
use serde_json::{json, Map, Value as J};
use std::collections::BTreeMap;

pub const CERT_PEM: &str = r#"-----BEGIN CERTIFICATE-----
MIICeDCCAh6gAwIBAgIBAjAKBggqhkjOPQQDAjCBhDELMAkGA1UEBhMCQVUxDDAK
BgNVBAgMA1FMRDEPMA0GA1UECgwGS2FuaWRtMRwwGgYDVQQDDBNLYW5pZG0gR2Vu
ZXJhdGVkIENBMTgwNgYDVQQLDC9EZXZlbG9wbWVudCBhbmQgRXZhbHVhdGlvbiAt
IE5PVCBGT1IgUFJPRFVDVElPTjAeFw0yNTA3MjkwMzMxMDNaFw0yNTA4MDMwMzMx
MDNaMHoxCzAJBgNVBAYTAkFVMQwwCgYDVQQIDANRTEQxDzANBgNVBAoMBkthbmlk
bTESMBAGA1UEAwwJbG9jYWxob3N0MTgwNgYDVQQLDC9EZXZlbG9wbWVudCBhbmQg
RXZhbHVhdGlvbiAtIE5PVCBGT1IgUFJPRFVDVElPTjBZMBMGByqGSM49AgEGCCqG
SM49AwEHA0IABPFkpVzFH+feItm9JFFm/noge+BlZLpdGWOuSUvfoivAzCgPr7Kr
nGd8kUzIyJermePzu2SVQLaEt/7GY8Ha+2ujgYkwgYYwCQYDVR0TBAIwADAOBgNV
HQ8BAf8EBAMCBaAwEwYDVR0lBAwwCgYIKwYBBQUHAwEwHQYDVR0OBBYEFOjucEtX
mj/wQ7npVaMOyDtLU6dUMB8GA1UdIwQYMBaAFNo5o+5ea0sNMlW/75VgGJCv2AcJ
MBQGA1UdEQQNMAuCCWxvY2FsaG9zdDAKBggqhkjOPQQDAgNIADBFAiEA1TACf4eS
g07LRiKhlMgA+6xxztxiZCuV6LakRp7FZdECIFp0rFSiFJdkLEO9IyqYc+zPW770
ta41VMU3u9UQfHxF
-----END CERTIFICATE-----
"#;

/// Result class of an operation (what the trace specs see).
pub fn res_class(r: &Result<(), OperationError>) -> String {
    match r {
        Ok(()) => "ok".into(),
        Err(e) => {
            let s = format!("{e:?}");
            let head: String = s.chars().take_while(|c| c.is_ascii_alphanumeric()).collect();
            format!("err:{head}")
        }
    }
}

/// model id "e<n>" <-> uuid
pub fn id_uuid(id: &str) -> Uuid {
    uuid_e(id.trim_start_matches('e').parse::<u64>().expect("model id"))
}

pub fn e_group(n: u64, name: &str, members: &[u64]) -> EntryInitNew {
    let mut e = EntryInitNew::new();
    e.add_ava(Attribute::Class, EntryClass::Object.to_value());
    e.add_ava(Attribute::Class, EntryClass::Group.to_value());
    e.add_ava(Attribute::Name, Value::new_iname(name));
    e.add_ava(Attribute::Uuid, Value::Uuid(uuid_e(n)));
    for m in members {
        e.add_ava(Attribute::Member, Value::Refer(uuid_e(*m)));
    }
    e
}
pub fn e_dyngroup(n: u64, name: &str, f: &ProtoFilter) -> EntryInitNew {
    let mut e = EntryInitNew::new();
    e.add_ava(Attribute::Class, EntryClass::Object.to_value());
    e.add_ava(Attribute::Class, EntryClass::Group.to_value());
    e.add_ava(Attribute::Class, EntryClass::DynGroup.to_value());
    e.add_ava(Attribute::Name, Value::new_iname(name));
    e.add_ava(Attribute::Uuid, Value::Uuid(uuid_e(n)));
    e.add_ava(Attribute::DynGroupFilter, Value::JsonFilt(f.clone()));
    e
}
pub fn e_person(n: u64, name: &str, desc: &str) -> EntryInitNew {
    let mut e = EntryInitNew::new();
    e.add_ava(Attribute::Class, EntryClass::Object.to_value());
    e.add_ava(Attribute::Class, EntryClass::Account.to_value());
    e.add_ava(Attribute::Class, EntryClass::Person.to_value());
    e.add_ava(Attribute::Name, Value::new_iname(name));
    e.add_ava(Attribute::Uuid, Value::Uuid(uuid_e(n)));
    e.add_ava(Attribute::Description, Value::new_utf8s(desc));
    e.add_ava(Attribute::DisplayName, Value::new_utf8s(name));
    e
}
pub fn e_service(n: u64, name: &str, desc: &str) -> EntryInitNew {
    let mut e = EntryInitNew::new();
    e.add_ava(Attribute::Class, EntryClass::Object.to_value());
    e.add_ava(Attribute::Class, EntryClass::Account.to_value());
    e.add_ava(Attribute::Class, EntryClass::ServiceAccount.to_value());
    e.add_ava(Attribute::Name, Value::new_iname(name));
    e.add_ava(Attribute::Uuid, Value::Uuid(uuid_e(n)));
    e.add_ava(Attribute::Description, Value::new_utf8s(desc));
    e.add_ava(Attribute::DisplayName, Value::new_utf8s(name));
    e
}
pub fn e_cert(n: u64, refers: u64) -> EntryInitNew {
    let cert = Box::new(Certificate::from_pem(CERT_PEM).expect("cert pem"));
    let mut e = EntryInitNew::new();
    e.add_ava(Attribute::Class, EntryClass::Object.to_value());
    e.add_ava(Attribute::Class, EntryClass::ClientCertificate.to_value());
    e.add_ava(Attribute::Uuid, Value::Uuid(uuid_e(n)));
    e.add_ava(Attribute::Refers, Value::Refer(uuid_e(refers)));
    e.add_ava(Attribute::Certificate, Value::Certificate(cert));
    e
}
pub fn e_oauth2(n: u64, name: &str, scope_groups: &[u64]) -> EntryInitNew {
    let mut e = EntryInitNew::new();
    e.add_ava(Attribute::Class, EntryClass::Object.to_value());
    e.add_ava(Attribute::Class, EntryClass::Account.to_value());
    e.add_ava(Attribute::Class, EntryClass::OAuth2ResourceServer.to_value());
    e.add_ava(Attribute::Class, EntryClass::OAuth2ResourceServerBasic.to_value());
    e.add_ava(Attribute::Name, Value::new_iname(name));
    e.add_ava(Attribute::Uuid, Value::Uuid(uuid_e(n)));
    e.add_ava(Attribute::DisplayName, Value::new_utf8s(name));
    e.add_ava(
        Attribute::OAuth2RsOriginLanding,
        Value::new_url_s("https://demo.example.com").expect("url"),
    );
    for g in scope_groups {
        e.add_ava(Attribute::OAuth2RsScopeMap, scope_map(*g));
    }
    e
}
pub fn scope_map(g: u64) -> Value {
    let mut s = std::collections::BTreeSet::new();
    s.insert("groups".to_string());
    Value::new_oauthscopemap(uuid_e(g), s).expect("scopemap")
}

/// Projection of the model population (+ whatever it references / is referenced by) after a step.
pub struct Projector {
    pub refattrs: Vec<Attribute>,
}
fn ref_targets(e: &EntrySealedCommitted, attrs: &[Attribute]) -> Vec<(String, Uuid)> {
    let mut v = vec![];
    for a in attrs {
        if let Some(vs) = e.get_ava_set(a) {
            if let Some(it) = vs.as_ref_uuid_iter() {
                for u in it {
                    v.push((a.to_string(), u));
                }
            }
        }
    }
    v
}
impl Projector {
    pub fn new<'a, T: QueryServerTransaction<'a>>(txn: &mut T) -> Self {
        Projector { refattrs: kd::ref_attrs(txn) }
    }
    /// st = {dom, domattr, now, e: {id: entry}, lvx: {id: liveness of referenced ids that are not in e},
    ///       vis, rvis, spnx (full only): name/spn of every other live account or group,
    ///       refx (full only): every reference held by a live entry that is not in e}
    /// Selection of `e` (a projection rule, not a judgement): model-range entries; entries holding a
    /// reference to a model-range entry; and every entry that contains a selected entry as member or
    /// dynmember (upward closure, so that ancestor sets can be computed from the projection: flag `cl`).
    pub fn state<'a, T: QueryServerTransaction<'a>>(&self, txn: &mut T, now: u64, full: bool) -> J {
        let all = search_all(txn);
        let model_lo = uuid_e(0).as_u128();
        let is_model = |u: Uuid| (model_lo..model_lo + 100_000).contains(&u.as_u128());
        let by_uuid: BTreeMap<Uuid, &std::sync::Arc<EntrySealedCommitted>> =
            all.iter().map(|e| (e.get_uuid(), e)).collect();
        // closure set: model entries + every holder (member/dynmember) of something in the set
        let mattrs = [Attribute::Member, Attribute::DynMember];
        // (every dynamic group is a potential holder of model entries: always part of the closure, so that
        // the projected population does not change when the first / last model member comes and goes)
        let mut cl: std::collections::BTreeSet<Uuid> = all.iter().filter(|e| is_model(e.get_uuid()) || kd::kind(e) == "dyn").map(|e| e.get_uuid()).collect();
        loop {
            let mut grew = false;
            for e in all.iter() {
                let u = e.get_uuid();
                if !cl.contains(&u) && ref_targets(e, &mattrs).iter().any(|(_, t)| cl.contains(t)) {
                    cl.insert(u);
                    grew = true;
                }
            }
            if !grew {
                break;
            }
        }
        let mut sel = cl.clone();
        for e in all.iter() {
            if ref_targets(e, &self.refattrs).iter().any(|(_, t)| is_model(*t)) {
                sel.insert(e.get_uuid());
            }
        }
        let mut ents = Map::new();
        let mut referenced: std::collections::BTreeSet<Uuid> = Default::default();
        let mut domattr = String::new();
        let mut spnx = vec![];
        let mut refx = vec![];
        for (ix, e) in all.iter().enumerate() {
            let u = e.get_uuid();
            if kd::kind(e) == "dom" {
                domattr = ava_strings(e, Attribute::DomainName).join(",");
            }
            if sel.contains(&u) {
                referenced.extend(ref_targets(e, &self.refattrs).into_iter().map(|x| x.1));
                let mut pe = kd::proj_entry(e, &self.refattrs, T0);
                pe["mdl"] = json!(is_model(u));
                pe["cl"] = json!(cl.contains(&u));
                pe["ix"] = json!(ix);
                ents.insert(name_of(u), pe);
            } else if full && liveness(e) == "live" {
                let acct = e.attribute_equality(Attribute::Class, &EntryClass::Account.into());
                let isg = e.attribute_equality(Attribute::Class, &EntryClass::Group.into());
                if acct || isg {
                    spnx.push(json!({"n": ava_strings(e, Attribute::Name), "spn": ava_strings(e, Attribute::Spn)}));
                }
                for (a, t) in ref_targets(e, &self.refattrs) {
                    let tl = by_uuid.get(&t).map(|x| liveness(x)).unwrap_or("absent");
                    refx.push(json!({"h": name_of(u), "a": a, "t": name_of(t), "tl": tl}));
                }
            }
        }
        // liveness of every referenced id that is not itself projected (plain lookup)
        let mut lvx = Map::new();
        for r in referenced {
            let id = name_of(r);
            if !ents.contains_key(&id) {
                match by_uuid.get(&r) {
                    Some(e) => lvx.insert(id, json!(liveness(e))),
                    None => lvx.insert(id, json!("absent")),
                };
            }
        }
        let vn = kd::visible_normal(txn);
        let vr = kd::visible_recycled(txn);
        let vis: Vec<String> = vn.iter().filter(|u| is_model(**u)).map(|u| name_of(*u)).collect();
        let rvis: Vec<String> = vr.iter().filter(|u| is_model(**u)).map(|u| name_of(*u)).collect();
        json!({"dom": kd::domain_name(txn), "domattr": domattr, "now": now, "e": ents, "lvx": lvx,
               "vis": vis, "rvis": rvis, "spnx": spnx, "refx": refx})
    }
}
