//! Replication history driver (C08 C09 C19): 2-3 REAL in-memory servers, local writes through the
//! public write APIs at simulated times, exchanges through consumer_get_state ->
//! supplier_provide_changes -> consumer_apply_changes. After every step one ndjson line with the
//! projected state of every replica is recorded; KReplTrace.tla judges it.
//!
//! Script line shapes (one JSON object per line; also the replay format):
//!   {"op":"init","n":3}                              new history: A initialised, others refreshed from A
//!   {"op":"create","r":"A","e":1,"name":"n1","kind":"person"|"group"}
//!   {"op":"setdn","r":"A","e":1,"v":"d2"}          displayname / description (last-writer-wins attribute)
//!   {"op":"rename","r":"A","e":1,"name":"n2"}       name (unique attribute)
//!   {"op":"cleardn","r":"A","e":1}                    purge of that attribute (the entry keeps a change id for it)
//!   {"op":"addmem","r":"A","g":5,"m":1} / "delmem"  group member (reference set)
//!   {"op":"addses","r":"A","e":1,"sid":1} / "revses" login session (mergeable valueset)
//!   {"op":"delete"|"revive","r":"A","e":1}
//!   {"op":"purge_rec"|"purge_ts","r":"A"}
//!   {"op":"advance","dt":N}                          simulated seconds
//!   {"op":"repl","from":"A","to":"B"}  {"op":"refresh","from":"A","to":"B"}
//!   {"op":"mesh"}                                    all ordered pairs, rounds until a round changes nothing
use kanidmd_lib::prelude::*;
use kanidmd_lib::value::{AuthType, Session, SessionState};
use kanidmd_lib::verif::repl as kr;
use kanidmd_lib::{entry_init, filter};
use kanidm_lib_crypto::CryptoPolicy;
use kvc::srv::*;
use kvc::util::*;
use serde_json::{json, Map, Value as J};
use std::collections::BTreeMap;
use time::OffsetDateTime;

const NAMES: [&str; 3] = ["A", "B", "C"];

struct World {
    qs: Vec<QueryServer>,
    suuid: Vec<Uuid>,
    now: u64, // simulated seconds offset from T0
    last_skew: bool,
    dbdir: Option<String>, // file-backed replicas live here (restartable)
    tscale: u64, // seconds per model time unit for explicit-time ops (10 by default)
    cred: kanidmd_lib::credential::Credential,
}

fn ridx(r: &str) -> usize {
    NAMES.iter().position(|n| *n == r).expect("replica name")
}
/// session uuid of model session `sid` on entry `e` (session ids are unique across entries)
fn ses_uuid2(e: u64, sid: u64) -> Uuid {
    Uuid::from_u128(0x5e55_0000_0000_4000_8000_0000_0000_0000u128 + (e as u128) * 64 + sid as u128)
}

impl World {
    async fn new(n: usize, dbdir: Option<String>) -> World {
        let mut qs = Vec::new();
        for i in 0..n {
            match &dbdir {
                // file-backed replicas can be restarted ({"op":"restart","r":"A"})
                Some(d) => {
                    let _ = std::fs::create_dir_all(d);
                    let p = format!("{d}/{}.db", NAMES[i]);
                    let _ = std::fs::remove_file(&p);
                    qs.push(open_qs_file(std::path::Path::new(&p), 1, t(0), true).await);
                }
                None => qs.push(new_qs(t(0)).await),
            }
        }
        let p = CryptoPolicy::minimum();
        let cred = kanidmd_lib::credential::Credential::new_password_only(&p, "verif_password", OffsetDateTime::UNIX_EPOCH + t(0)).expect("cred");
        let mut w = World { qs, suuid: vec![], now: 1, last_skew: false, tscale: 10, dbdir, cred };
        // all other replicas are refreshed from A so that they share the domain
        for i in 1..n {
            let r = w.refresh(0, i).await;
            assert!(r == "ok", "initial refresh failed: {r}");
        }
        for i in 0..n {
            let wr = w.qs[i].write(t(w.now)).await.expect("write");
            w.suuid.push(kr::server_uuid(&wr));
        }
        w.now += 1;
        w
    }

    fn srv_name(&self, u: &Uuid) -> String {
        match self.suuid.iter().position(|s| s == u) {
            Some(i) => NAMES[i].to_string(),
            None => format!("x{}", &u.to_string()[..8]),
        }
    }

    async fn refresh(&mut self, from: usize, to: usize) -> String {
        let mut rd = self.qs[from].read().await.expect("read");
        let ctx = match rd.supplier_provide_refresh() {
            Ok(c) => c,
            Err(e) => return format!("err:{e:?}"),
        };
        drop(rd);
        let mut wr = self.qs[to].write(t(self.now)).await.expect("write");
        match wr.consumer_apply_refresh(ctx).and_then(|_| wr.commit()) {
            Ok(()) => "ok".to_string(),
            Err(e) => format!("err:{e:?}"),
        }
    }

    /// one incremental exchange; returns (supplier answer kind, consumer result, consumer ranges, supplier ranges, sent)
    async fn repl(&mut self, from: usize, to: usize) -> J {
        let mut wr = self.qs[to].write(t(self.now)).await.expect("write");
        let state = wr.consumer_get_state().expect("consumer_get_state");
        let cr = kr::consumer_ranges(&state);
        let mut rd = self.qs[from].read().await.expect("read");
        let sr = kr::supplier_ranges(&mut rd);
        let ctx = match rd.supplier_provide_changes(state) {
            Ok(c) => c,
            Err(e) => return json!({"sup": format!("err:{e:?}"), "con": "none"}),
        };
        drop(rd);
        let kind = kr::ctx_kind(&ctx);
        let sent: Vec<J> = kr::ctx_entries(&ctx)
            .into_iter()
            .filter(|(u, _)| is_model_name(&name_of(*u)))
            .map(|(u, a)| json!({"id": name_of(u), "attrs": a}))
            .collect();
        let res = wr.consumer_apply_changes(ctx);
        let con = match res {
            Ok(cs) => match wr.commit() {
                Ok(()) => kr::consumer_state_kind(&cs).to_string(),
                Err(e) => format!("commit_err:{e:?}"),
            },
            Err(e) => format!("err:{e:?}"),
        };
        // order-preserving rank compression of all window bounds (TLC ints are 32 bit; only order matters)
        let mut pts: Vec<(u64, u32)> = cr.values().chain(sr.values()).flat_map(|(a, b)| [*a, *b]).collect();
        pts.sort();
        pts.dedup();
        let rank = |p: &(u64, u32)| pts.iter().position(|q| q == p).unwrap_or(0);
        let rk = |m: &BTreeMap<Uuid, ((u64, u32), (u64, u32))>| -> J {
            let mut o = Map::new();
            for (k, (a, b)) in m {
                o.insert(self.srv_name(k), json!({"min": rank(a), "max": rank(b)}));
            }
            J::Object(o)
        };
        json!({"sup": kind, "con": con, "cr": self.ranges_json(&cr), "sr": self.ranges_json(&sr),
               "crk": rk(&cr), "srk": rk(&sr), "sent": sent})
    }

    fn ranges_json(&self, m: &BTreeMap<Uuid, ((u64, u32), (u64, u32))>) -> J {
        // seconds relative to T0 (entries written at initialisation are at 0); nanos kept for tie-breaks
        let mut o = Map::new();
        for (k, ((a, an), (b, bn))) in m {
            o.insert(
                self.srv_name(k),
                json!({"min": a.saturating_sub(T0), "minn": an, "max": b.saturating_sub(T0), "maxn": bn}),
            );
        }
        J::Object(o)
    }

    async fn local<F>(&mut self, r: usize, f: F) -> String
    where
        F: FnOnce(&mut QueryServerWriteTransaction<'_>) -> Result<(), OperationError>,
    {
        let mut wr = self.qs[r].write(t(self.now)).await.expect("write");
        // clock-skew marker: this replica already holds a change stamped later than its own clock now
        let seen_max = kr::ruv_ranges(&mut wr).values().map(|(_, b)| b.0).max().unwrap_or(0);
        self.last_skew = seen_max >= T0 + self.now;
        let res = catch(|| f(&mut wr));
        match res {
            Err(_) => "panic".to_string(),
            Ok(Err(e)) => format!("err:{e:?}").chars().take(60).collect(),
            Ok(Ok(())) => match wr.commit() {
                Ok(()) => "ok".to_string(),
                Err(e) => format!("commit_err:{e:?}"),
            },
        }
    }

    async fn proj(&mut self) -> J {
        let mut st = Map::new();
        for i in 0..self.qs.len() {
            let mut rd = self.qs[i].read().await.expect("read");
            let all = search_all(&mut rd);
            let mut ents = Map::new();
            let mut seen = std::collections::BTreeSet::new();
            let mut dup = 0u64;
            let mut sysh = std::collections::BTreeMap::new();
            for e in all.iter() {
                if !seen.insert(e.get_uuid()) {
                    dup += 1;
                }
                let id = name_of(e.get_uuid());
                let src = e
                    .get_ava_single_uuid(Attribute::SourceUuid)
                    .map(name_of)
                    .unwrap_or_default();
                let is_model = is_model_name(&id) || is_model_name(&src);
                if !is_model {
                    sysh.insert(e.get_uuid(), liveness(e));
                    continue;
                }
                let mut attrs = Map::new();
                for (a, vs) in e.get_ava_iter() {
                    if matches!(a, Attribute::LastModifiedCid | Attribute::CreatedAtCid | Attribute::PrimaryCredential | Attribute::UserAuthTokenSession) {
                        continue;
                    }
                    let mut v: Vec<String> = if matches!(a, Attribute::Member | Attribute::MemberOf | Attribute::DirectMemberOf | Attribute::SourceUuid) {
                        e.get_ava_as_refuuid(a.clone()).map(|it| it.map(name_of).collect()).unwrap_or_else(|| vs.to_proto_string_clone_iter().collect())
                    } else {
                        vs.to_proto_string_clone_iter().collect()
                    };
                    v.sort();
                    attrs.insert(a.to_string(), json!(v));
                }
                // mergeable valueset projected structurally: sid -> {st: 1 live | 2 revoked, c: [secs, nanos, server]}
                let mut ses = Map::new();
                if let Some(m) = e.get_ava_as_session_map(Attribute::UserAuthTokenSession) {
                    for (sid, sv) in m.iter() {
                        let k = sid.as_u128().wrapping_sub(ses_uuid2(0, 0).as_u128()) % 64;
                        let v = match &sv.state {
                            SessionState::RevokedAt(c) => json!({"st": 2, "c": [c.ts.as_secs().saturating_sub(T0), c.ts.subsec_nanos(), self.srv_name(&c.s_uuid)]}),
                            SessionState::ExpiresAt(_) | SessionState::NeverExpires => json!({"st": 1, "c": [0, 0, ""]}),
                        };
                        ses.insert(format!("s{k}"), v);
                    }
                }
                ents.insert(id, json!({"live": liveness(e), "src": src, "attrs": attrs, "ses": ses}));
            }
            let ruv = kr::ruv_ranges(&mut rd);
            st.insert(
                NAMES[i].to_string(),
                json!({"ents": ents, "dup": dup, "ruv": self.ranges_json(&ruv), "nsys": sysh.len()}),
            );
        }
        J::Object(st)
    }
}

fn person(e: u64, name: &str, cred: &kanidmd_lib::credential::Credential) -> EntryInitNew {
    entry_init!(
        (Attribute::Class, EntryClass::Object.to_value()),
        (Attribute::Class, EntryClass::Account.to_value()),
        (Attribute::Class, EntryClass::Person.to_value()),
        (Attribute::Name, Value::new_iname(name)),
        (Attribute::Uuid, Value::Uuid(uuid_e(e))),
        (Attribute::Description, Value::new_utf8s("d0")),
        (Attribute::DisplayName, Value::new_utf8s("d0")),
        (Attribute::PrimaryCredential, Value::Cred("primary".to_string(), cred.clone()))
    )
}
fn group(e: u64, name: &str) -> EntryInitNew {
    entry_init!(
        (Attribute::Class, EntryClass::Object.to_value()),
        (Attribute::Class, EntryClass::Group.to_value()),
        (Attribute::Name, Value::new_iname(name)),
        (Attribute::Uuid, Value::Uuid(uuid_e(e))),
        (Attribute::Description, Value::new_utf8s("d0"))
    )
}

async fn step(w: &mut World, op: &J) -> J {
    let o = op["op"].as_str().unwrap_or("");
    let r = op["r"].as_str().map(ridx);
    let e = op["e"].as_u64().unwrap_or(0);
    let uf = |x: u64| filter!(f_eq(Attribute::Uuid, PartialValue::Uuid(uuid_e(x))));
    let mut advance = true;
    // explicit model time (behaviours exported by TLC): seconds = t*10 + rank of the acting replica, so
    // that the order of change ids is the model's order whatever the random server uuids are
    let saved_now = w.now;
    if let Some(mt) = op["t"].as_u64() {
        let actor = r.or_else(|| op["to"].as_str().map(ridx)).unwrap_or(0);
        w.now = 1000 + mt * w.tscale + actor as u64 + 1;
        advance = false;
    }
    let explicit = op["t"].as_u64().is_some();
    let res: J = match o {
        "create" => {
            let name = op["name"].as_str().unwrap_or("n1").to_string();
            let ent = if op["kind"].as_str() == Some("group") { group(e, &name) } else { person(e, &name, &w.cred) };
            json!(w.local(r.expect("r"), move |wr| wr.internal_create(vec![ent])).await)
        }
        "setdn" => {
            let v = op["v"].as_str().unwrap_or("d1").to_string();
            json!(w.local(r.expect("r"), move |wr| {
                wr.internal_modify(&uf(e), &ModifyList::new_purge_and_set(Attribute::Description, Value::new_utf8s(&v)))
            }).await)
        }
        "cleardn" => {
            json!(w.local(r.expect("r"), move |wr| {
                wr.internal_modify(&uf(e), &ModifyList::new_purge(Attribute::Description))
            }).await)
        }
        "rename" => {
            let v = op["name"].as_str().unwrap_or("n1").to_string();
            json!(w.local(r.expect("r"), move |wr| {
                wr.internal_modify(&uf(e), &ModifyList::new_purge_and_set(Attribute::Name, Value::new_iname(&v)))
            }).await)
        }
        "addmem" | "delmem" => {
            let g = op["g"].as_u64().unwrap_or(0);
            let m = op["m"].as_u64().unwrap_or(0);
            let add = o == "addmem";
            json!(w.local(r.expect("r"), move |wr| {
                let ml = if add {
                    ModifyList::new_append(Attribute::Member, Value::Refer(uuid_e(m)))
                } else {
                    ModifyList::new_remove(Attribute::Member, PartialValue::Refer(uuid_e(m)))
                };
                wr.internal_modify(&uf(g), &ml)
            }).await)
        }
        "addses" => {
            let sid = op["sid"].as_u64().unwrap_or(1);
            let cred_id = cred_uuid(&w.cred);
            let issued = OffsetDateTime::UNIX_EPOCH + t(w.now);
            json!(w.local(r.expect("r"), move |wr| {
                let s = Value::Session(ses_uuid2(e, sid), Session {
                    label: format!("s{sid}"),
                    state: SessionState::ExpiresAt(OffsetDateTime::UNIX_EPOCH + t(400_000_000)),
                    issued_at: issued,
                    issued_by: IdentityId::User(uuid_e(e)),
                    cred_id,
                    scope: SessionScope::ReadOnly,
                    type_: AuthType::Password,
                    ext_metadata: Default::default(),
                });
                wr.internal_modify(&uf(e), &ModifyList::new_append(Attribute::UserAuthTokenSession, s))
            }).await)
        }
        "revses" => {
            let sid = op["sid"].as_u64().unwrap_or(1);
            json!(w.local(r.expect("r"), move |wr| {
                wr.internal_modify(&uf(e), &ModifyList::new_remove(Attribute::UserAuthTokenSession, PartialValue::Refer(ses_uuid2(e, sid))))
            }).await)
        }
        "delete" => json!(w.local(r.expect("r"), move |wr| wr.internal_delete_uuid(uuid_e(e))).await),
        "revive" => json!(w.local(r.expect("r"), move |wr| revive_uuid(wr, uuid_e(e))).await),
        "restart" => {
            // drop the server object (closes its connections) and reopen the same database file, as a
            // restarted kanidmd does (Backend::new -> ruv rebuild, QueryServer::new, initialise_helper)
            let i = r.expect("r");
            match w.dbdir.clone() {
                None => json!("err:not-file-backed"),
                Some(d) => {
                    let p = format!("{d}/{}.db", NAMES[i]);
                    let dummy = new_qs(t(0)).await;
                    let old = std::mem::replace(&mut w.qs[i], dummy);
                    drop(old);
                    w.qs[i] = open_qs_file(std::path::Path::new(&p), 1, t(w.now), true).await;
                    json!("ok")
                }
            }
        }
        "trim" => json!(w.local(r.expect("r"), |wr| wr.purge_tombstones().map(|_| ())).await),
        "purge" => {
            // model purge of one recycled entry: jump past the retention period unless the behaviour's own
            // time scale already covers it (tscale > 10: model time units are days), then purge
            if w.tscale <= 10 {
                w.now += RECYCLEBIN_MAX_AGE + 1;
            }
            json!(w.local(r.expect("r"), |wr| wr.purge_recycled().map(|_| ())).await)
        }
        "purge_rec" => json!(w.local(r.expect("r"), |wr| wr.purge_recycled().map(|_| ())).await),
        "purge_ts" => json!(w.local(r.expect("r"), |wr| wr.purge_tombstones().map(|_| ())).await),
        "advance" => {
            w.now += op["dt"].as_u64().unwrap_or(1);
            advance = false;
            let _ = advance;
            json!("ok")
        }
        "repl" => {
            let f = ridx(op["from"].as_str().expect("from"));
            let to = ridx(op["to"].as_str().expect("to"));
            w.repl(f, to).await
        }
        "refresh" => {
            let f = ridx(op["from"].as_str().expect("from"));
            let to = ridx(op["to"].as_str().expect("to"));
            json!(w.refresh(f, to).await)
        }
        other => {
            eprintln!("TOOL-ERROR unknown op {other}");
            std::process::exit(2);
        }
    };
    if explicit {
        w.now = saved_now.max(w.now);
    } else if advance {
        w.now += 1;
    }
    res
}

/// Scripted multi-step lag / trim patterns with seeded variation (C09): a replica deletes an entry, purges it to a
/// tombstone after the recycle window and reaps it (trimming its RUV) after the changelog window, while another
/// replica stays out of contact and may have edited the entry; optional local writes on old entries after the
/// trim; then the stale replica meets the trimmed one in both directions. Random steps rarely line these up.
fn gen_lag_pattern(rng: &mut Rng, n: usize) -> Vec<J> {
    let mut v = vec![json!({"op":"init","n":n})];
    let creator = NAMES[rng.below(n as u64) as usize];
    for e in 1..=3u64 {
        v.push(json!({"op":"create","r":creator,"e":e,"name":format!("p{e}"),"kind":"person"}));
    }
    v.push(json!({"op":"create","r":creator,"e":5,"name":"g5","kind":"group"}));
    v.push(json!({"op":"mesh"}));
    // every replica writes once so that every server id is known everywhere (established topology)
    if rng.chance(2, 3) {
        for i in 0..n {
            v.push(json!({"op":"setdn","r":NAMES[i],"e":3,"v":format!("d{}", i)}));
        }
        v.push(json!({"op":"mesh"}));
    }
    // the replica that deletes and trims: usually the one whose old change ids the long-lived entries carry
    let del = if rng.chance(3, 4) { creator } else { NAMES[rng.below(n as u64) as usize] };
    let mut stale = NAMES[rng.below(n as u64) as usize];              // the replica that stays out of contact
    while stale == del { stale = NAMES[rng.below(n as u64) as usize]; }
    let victim = rng.range(1, 2);
    if rng.chance(3, 4) { v.push(json!({"op":"setdn","r":stale,"e":victim,"v":"d9"})); }
    if rng.chance(1, 2) { v.push(json!({"op":"addmem","r":stale,"g":5,"m":victim})); }
    v.push(json!({"op":"delete","r":del,"e":victim}));
    if rng.chance(1, 3) { v.push(json!({"op":"repl","from":del,"to":stale})); }
    v.push(json!({"op":"advance","dt":604_801 + rng.below(1000)}));
    // replicas that are alive write something now and then: a silent replica's whole RUV falls out of the window
    let heartbeat = rng.chance(2, 3);
    if heartbeat {
        for i in 0..n { v.push(json!({"op":"setdn","r":NAMES[i],"e":3,"v":format!("h{}", i)})); }
    }
    v.push(json!({"op":"purge_rec","r":del}));
    if rng.chance(1, 4) { v.push(json!({"op":"setdn","r":stale,"e":victim,"v":"d8"})); }
    // the changelog window passes and the tombstone is reaped (RUV trim) - or not yet
    let trims = rng.chance(2, 3);
    if trims {
        v.push(json!({"op":"advance","dt":604_801 + rng.below(100_000)}));
        if heartbeat && rng.chance(1, 2) {
            for i in 0..n { v.push(json!({"op":"setdn","r":NAMES[i],"e":3,"v":format!("k{}", i)})); }
        }
        v.push(json!({"op":"purge_ts","r":del}));
    }
    // local writes on old entries after the trim
    for _ in 0..rng.range(1, 3) {
        let k = rng.below(3);
        let op = match k {
            0 => json!({"op":"setdn","r":del,"e":3,"v":format!("d{}", rng.below(5))}),
            1 => json!({"op":"addmem","r":del,"g":5,"m":3}),
            _ => json!({"op":"setdn","r":del,"e":if victim == 1 { 2 } else { 1 },"v":"d7"}),
        };
        v.push(op);
    }
    if rng.chance(1, 3) { v.push(json!({"op":"setdn","r":stale,"e":3,"v":"d6"})); }
    if rng.chance(1, 2) {
        v.push(json!({"op":"repl","from":stale,"to":del}));
        v.push(json!({"op":"repl","from":del,"to":stale}));
    } else {
        v.push(json!({"op":"repl","from":del,"to":stale}));
        v.push(json!({"op":"repl","from":stale,"to":del}));
    }
    if trims && rng.chance(1, 2) { v.push(json!({"op":"purge_ts","r":del})); }
    v.push(json!({"op":"mesh"}));
    v
}

/// Scripted conflict patterns with seeded variation (C19 / C08): the same uuid created on two replicas (add-conflict)
/// while the unique name of one of the versions is also held by ANOTHER entry on the other side, renames into a taken
/// name on both sides, and the exchanges in either order.
fn gen_conflict_pattern(rng: &mut Rng, n: usize) -> Vec<J> {
    let mut v = vec![json!({"op":"init","n":n})];
    let a = NAMES[rng.below(n as u64) as usize];
    let mut b = NAMES[rng.below(n as u64) as usize];
    while b == a { b = NAMES[rng.below(n as u64) as usize]; }
    let names = ["n1", "n2", "n3"];
    let x = *rng.pick(&names);
    let mut y = *rng.pick(&names);
    while y == x { y = *rng.pick(&names); }
    if rng.chance(1, 2) {
        v.push(json!({"op":"create","r":a,"e":4,"name":"keep","kind":"person"}));
        v.push(json!({"op":"mesh"}));
    }
    // a creates u1 named x; b creates the same uuid named y and (maybe) another entry named x
    let mut ops = vec![
        json!({"op":"create","r":a,"e":1,"name":x,"kind":"person"}),
        json!({"op":"create","r":b,"e":1,"name":y,"kind":"person"}),
    ];
    match rng.below(3) {
        0 => ops.push(json!({"op":"create","r":b,"e":2,"name":x,"kind":"person"})),
        1 => { ops.push(json!({"op":"create","r":a,"e":2,"name":y,"kind":"person"})); }
        _ => { ops.push(json!({"op":"create","r":b,"e":2,"name":"n9","kind":"person"}));
               ops.push(json!({"op":"rename","r":b,"e":2,"name":x})); }
    }
    if rng.chance(1, 2) { ops.swap(0, 1); }
    v.extend(ops);
    if rng.chance(1, 3) { v.push(json!({"op":"setdn","r":a,"e":1,"v":"d3"})); }
    if rng.chance(1, 2) {
        v.push(json!({"op":"repl","from":a,"to":b}));
        if rng.chance(1, 2) { v.push(json!({"op":"repl","from":b,"to":a})); }
    } else {
        v.push(json!({"op":"repl","from":b,"to":a}));
        if rng.chance(1, 2) { v.push(json!({"op":"repl","from":a,"to":b})); }
    }
    v.push(json!({"op":"mesh"}));
    v
}

/// Attribute presence races (merge_state arms where one side no longer has the attribute): an attribute is set /
/// extended on one replica and emptied on another (purge of the description, removal of a group's last member), the
/// later write on either side, the two exchange directions in either order, then a full mesh.
fn gen_attr_race_pattern(rng: &mut Rng, n: usize) -> Vec<J> {
    let mut v = vec![json!({"op":"init","n":n})];
    v.push(json!({"op":"create","r":"A","e":1,"name":"p1","kind":"person"}));
    v.push(json!({"op":"create","r":"A","e":2,"name":"p2","kind":"person"}));
    v.push(json!({"op":"create","r":"A","e":5,"name":"g5","kind":"group"}));
    v.push(json!({"op":"addmem","r":"A","g":5,"m":1}));
    if rng.chance(1, 2) { v.push(json!({"op":"setdn","r":"A","e":1,"v":"d1"})); }
    v.push(json!({"op":"mesh"}));
    let a = NAMES[rng.below(n as u64) as usize];
    let mut b = NAMES[rng.below(n as u64) as usize];
    while b == a { b = NAMES[rng.below(n as u64) as usize]; }
    let (keep, empty) = if rng.chance(1, 2) {
        (json!({"op":"setdn","r":a,"e":1,"v":"d2"}), json!({"op":"cleardn","r":b,"e":1}))
    } else {
        (json!({"op":"addmem","r":a,"g":5,"m":2}), json!({"op":"delmem","r":b,"g":5,"m":1}))
    };
    // which write is the later one
    if rng.chance(1, 2) { v.push(keep); v.push(empty); } else { v.push(empty); v.push(keep); }
    if rng.chance(1, 4) { v.push(json!({"op":"setdn","r":a,"e":2,"v":"d3"})); }
    if rng.chance(1, 2) {
        v.push(json!({"op":"repl","from":a,"to":b}));
        v.push(json!({"op":"repl","from":b,"to":a}));
    } else {
        v.push(json!({"op":"repl","from":b,"to":a}));
        v.push(json!({"op":"repl","from":a,"to":b}));
    }
    v.push(json!({"op":"mesh"}));
    v
}

/// seeded random script
fn gen_script(rng: &mut Rng, n: usize, len: usize, mode: &str) -> Vec<J> {
    let mut v = vec![json!({"op":"init","n":n})];
    let ents: [u64; 4] = [1, 2, 3, 4]; // persons
    let grps: [u64; 2] = [5, 6];
    let names = ["n1", "n2", "n3"];
    let rep = |rng: &mut Rng| NAMES[rng.below(n as u64) as usize];
    // sessions get fresh ids (as real logins do) and are revoked on the replica that issued them
    let mut next_sid: u64 = 1;
    let mut issued: Vec<(&'static str, u64, u64)> = vec![];
    if mode == "sessions" {
        for e in ents.iter().take(3) {
            v.push(json!({"op":"create","r":"A","e":e,"name":format!("p{e}"),"kind":"person"}));
        }
        v.push(json!({"op":"mesh"}));
    }
    for _ in 0..len {
        let k = rng.below(100);
        let r = rep(rng);
        let e = *rng.pick(&ents);
        let op = match mode {
            "sessions" => match k {
                0..=34 if next_sid < 60 => { let e = rng.range(1,3); let sid = next_sid; next_sid += 1; issued.push((r, e, sid));
                    json!({"op":"addses","r":r,"e":e,"sid":sid}) }
                35..=59 if !issued.is_empty() => { let (r0, e, sid) = *rng.pick(&issued);
                    json!({"op":"revses","r":r0,"e":e,"sid":sid}) }
                0..=59 => json!({"op":"setdn","r":r,"e":rng.range(1,3),"v":format!("d{}", rng.below(3))}),
                60..=64 => json!({"op":"setdn","r":r,"e":rng.range(1,3),"v":format!("d{}", rng.below(3))}),
                _ => {
                    let f = rep(rng);
                    let mut to = rep(rng);
                    while to == f { to = rep(rng); }
                    json!({"op":"repl","from":f,"to":to})
                }
            },
            "lifecycle" => match k {
                0..=11 => json!({"op":"create","r":r,"e":e,"name":format!("p{e}"),"kind":"person"}),
                12..=21 => json!({"op":"setdn","r":r,"e":e,"v":format!("d{}", rng.below(3))}),
                22..=33 => json!({"op":"delete","r":r,"e":e}),
                34..=39 => json!({"op":"revive","r":r,"e":e}),
                40..=47 => json!({"op":"purge_rec","r":r}),
                48..=55 => json!({"op":"purge_ts","r":r}),
                56..=65 => json!({"op":"advance","dt": *rng.pick(&[100_000u64, 400_000, 604_801, 700_000])}),
                66..=69 if next_sid < 60 => { let sid = next_sid; next_sid += 1; issued.push((r, e, sid)); json!({"op":"addses","r":r,"e":e,"sid":sid}) }
                66..=69 => json!({"op":"setdn","r":r,"e":e,"v":"d1"}),
                70..=73 => json!({"op":"create","r":r,"e":*rng.pick(&grps),"name":format!("g{}", rng.below(2)),"kind":"group"}),
                74..=77 => json!({"op":"addmem","r":r,"g":*rng.pick(&grps),"m":e}),
                _ => {
                    let f = rep(rng);
                    let mut to = rep(rng);
                    while to == f { to = rep(rng); }
                    json!({"op":"repl","from":f,"to":to})
                }
            },
            _ => match k {
                0..=9 => json!({"op":"create","r":r,"e":e,"name":*rng.pick(&names),"kind":"person"}),
                10..=15 => json!({"op":"create","r":r,"e":*rng.pick(&grps),"name":*rng.pick(&names),"kind":"group"}),
                16..=23 => json!({"op":"setdn","r":r,"e":e,"v":format!("d{}", rng.below(3))}),
                24..=31 => json!({"op":"rename","r":r,"e":e,"name":*rng.pick(&names)}),
                32..=41 => json!({"op":"addmem","r":r,"g":*rng.pick(&grps),"m": if rng.chance(1,5) { *rng.pick(&grps) } else { e }}),
                42..=46 => json!({"op":"delmem","r":r,"g":*rng.pick(&grps),"m":e}),
                47..=56 if next_sid < 60 => { let sid = next_sid; next_sid += 1; issued.push((r, e, sid)); json!({"op":"addses","r":r,"e":e,"sid":sid}) }
                57..=61 if !issued.is_empty() => { let (r0, e0, sid) = *rng.pick(&issued); json!({"op":"revses","r":r0,"e":e0,"sid":sid}) }
                47..=61 => json!({"op":"setdn","r":r,"e":e,"v":"d2"}),
                62..=66 => json!({"op":"delete","r":r,"e":if rng.chance(1,4) { *rng.pick(&grps) } else { e }}),
                67..=69 => json!({"op":"revive","r":r,"e":e}),
                _ => {
                    let f = rep(rng);
                    let mut to = rep(rng);
                    while to == f { to = rep(rng); }
                    json!({"op":"repl","from":f,"to":to})
                }
            },
        };
        v.push(op);
    }
    v.push(json!({"op":"mesh"}));
    v
}

pub fn run(o: &Opts) -> i32 {
    let out = o.str("out", "/verif/work/C08/obs.ndjson");
    let mut tr = Tracer::create(&out);
    let rt = runtime();
    let mut scripts: Vec<J> = vec![];
    if let Some(p) = o.get("script") {
        scripts.extend(read_ndjson(p));
    }
    let mut rng = Rng::new(o.seed());
    let nh = o.u64("random", 0);
    let mode = o.str("mode", "converge");
    for h in 0..nh {
        let n = if o.get("replicas").is_some() { o.u64("replicas", 2) as usize } else if h % 2 == 0 { 2 } else { 3 };
        let len = rng.range(o.u64("minlen", 10), o.u64("maxlen", 40)) as usize;
        scripts.extend(gen_script(&mut rng, n, len, &mode));
    }
    for h in 0..o.u64("patterns", 0) {
        let n = if h % 3 == 2 { 3 } else { 2 };
        if mode == "lifecycle" {
            scripts.extend(gen_lag_pattern(&mut rng, n));
        } else {
            scripts.extend(gen_conflict_pattern(&mut rng, n));
        }
    }
    if mode != "lifecycle" {
        for h in 0..o.u64("patterns", 0) {
            scripts.extend(gen_attr_race_pattern(&mut rng, if h % 4 == 3 { 3 } else { 2 }));
        }
    }
    rt.block_on(async {
        let mut w: Option<World> = None;
        for op in scripts.iter() {
            // script lines may be observation lines of a replay file: the op is under "op" either way
            let opname = op["op"].as_str().unwrap_or("");
            if opname == "init" {
                let n = op["n"].as_u64().unwrap_or(2) as usize;
                let dbdir = if op["file"].as_bool().unwrap_or(false) {
                    Some(format!("{}.db.d", out))
                } else {
                    None
                };
                let mut nw = World::new(n, dbdir).await;
                nw.tscale = op["tscale"].as_u64().unwrap_or(10);
                let st = nw.proj().await;
                w = Some(nw);
                let mut line = op.clone();
                line["res"] = json!("ok");
                line["st"] = st;
                line["now"] = json!(w.as_ref().map(|w| w.now).unwrap_or(0));
                tr.emit(&line);
                continue;
            }
            let wref = w.as_mut().expect("script must start with init");
            // strip previous observation fields when replaying an observed file
            let mut line = Map::new();
            if let Some(m) = op.as_object() {
                for (k, v) in m {
                    if k != "res" && k != "st" && k != "now" && k != "skew" {
                        line.insert(k.clone(), v.clone());
                    }
                }
            }
            if op.get("mx").is_some() {
                continue; // exchange lines generated by a mesh (replay files): the mesh regenerates them
            }
            if opname == "mesh" {
                // all ordered pairs, every exchange its own observed line, until one whole round supplies nothing
                let n = wref.qs.len();
                let mut rounds = 0;
                let mut quiescent = false;
                let mut kinds: Vec<String> = vec![];
                while rounds < 8 && !quiescent {
                    rounds += 1;
                    let mut all_nc = true;
                    for f in 0..n {
                        for to in 0..n {
                            if f == to {
                                continue;
                            }
                            let x = wref.repl(f, to).await;
                            let k = x["sup"].as_str().unwrap_or("?").to_string();
                            let con = x["con"].as_str().unwrap_or("?").to_string();
                            let st = wref.proj().await;
                            tr.emit(&json!({"op":"repl","from":NAMES[f],"to":NAMES[to],"mx":1,"skew":false,"res":x,"st":st,"now":wref.now}));
                            wref.now += 1;
                            if k == "refresh_required" {
                                // the consumer "must be refreshed": do what the server's automatic refresh does
                                let rr = wref.refresh(f, to).await;
                                let st = wref.proj().await;
                                tr.emit(&json!({"op":"refresh","from":NAMES[f],"to":NAMES[to],"mx":1,"skew":false,"res":rr,"st":st,"now":wref.now}));
                                kinds.push(format!("{}>{}:refreshed", NAMES[f], NAMES[to]));
                                all_nc = false;
                                wref.now += 1;
                                continue;
                            }
                            if k != "no_changes" {
                                all_nc = false;
                            }
                            if con != "ok" || (k != "no_changes" && k != "changes") {
                                kinds.push(format!("{}>{}:{}/{}", NAMES[f], NAMES[to], k, con));
                            }
                        }
                    }
                    quiescent = all_nc;
                }
                let st = wref.proj().await;
                tr.emit(&json!({"op":"mesh","skew":false,"res":{"q": quiescent, "rounds": rounds, "odd": kinds},"st":st,"now":wref.now}));
                continue;
            }
            wref.last_skew = false;
            let res = step(wref, op).await;
            let st = wref.proj().await;
            line.insert("skew".into(), json!(wref.last_skew));
            line.insert("res".into(), res);
            line.insert("st".into(), st);
            line.insert("now".into(), json!(wref.now));
            tr.emit(&J::Object(line));
        }
    });
    println!("OBSERVED lines={} out={out}", tr.finish());
    0
}
