//! C11: families of three replica views of one mergeable attribute, merged by the REAL
//! repl_merge_valueset in every order and grouping (newer/older chosen by change id as merge_state does).
use kanidmd_lib::verif::repl as kr;
use kvc::util::*;
use serde_json::{json, Value as J};

fn states(kind: &str) -> Vec<J> {
    if kind == "key" {
        vec![json!({"st":"valid","v":0,"s":1}), json!({"st":"ret","v":1,"s":1}), json!({"st":"ret","v":2,"s":1}),
             json!({"st":"rev","v":1,"s":1}), json!({"st":"rev","v":2,"s":1})]
    } else {
        vec![json!({"st":"never","v":0,"s":0}), json!({"st":"exp","v":1,"s":0}), json!({"st":"exp","v":2,"s":0}),
             json!({"st":"rev","v":1,"s":1}), json!({"st":"rev","v":2,"s":1})]
    }
}

/// all non-empty maps over keys 1..=nk: list of {id, st, v, s}
fn maps(kind: &str, nk: u64) -> Vec<J> {
    let sts = states(kind);
    let mut out: Vec<Vec<J>> = vec![vec![]];
    for k in 1..=nk {
        let mut nx = vec![];
        for m in &out {
            nx.push(m.clone()); // key absent
            for s in &sts {
                let mut m2 = m.clone();
                let mut e = s.clone();
                e["id"] = json!(k);
                m2.push(e);
                nx.push(m2);
            }
        }
        out = nx;
    }
    out.into_iter().filter(|m| !m.is_empty()).map(J::Array).collect()
}

#[derive(Clone)]
struct View { c: u64, m: J }

fn join(kind: &str, p: &View, q: &View, trim: (u64, u64)) -> View {
    if p.c > q.c { View { c: p.c, m: kr::merge_vs(kind, &p.m, &q.m, trim) } }
    else { View { c: q.c, m: kr::merge_vs(kind, &q.m, &p.m, trim) } }
}

fn family(tr: &mut Tracer, kind: &str, vs: &[J; 3], trim: (u64, u64)) {
    let views: Vec<View> = vs.iter().enumerate().map(|(i, m)| View { c: i as u64 + 1, m: m.clone() }).collect();
    let perms = [[0,1,2],[0,2,1],[1,0,2],[1,2,0],[2,0,1],[2,1,0]];
    let mut res = vec![];
    for o in perms.iter() {
        let l = join(kind, &join(kind, &views[o[0]], &views[o[1]], trim), &views[o[2]], trim);
        let r = join(kind, &views[o[0]], &join(kind, &views[o[1]], &views[o[2]], trim), trim);
        res.push(json!({"o": [o[0]+1, o[1]+1, o[2]+1], "g": "l", "m": l.m}));
        res.push(json!({"o": [o[0]+1, o[1]+1, o[2]+1], "g": "r", "m": r.m}));
    }
    let idem: Vec<J> = vs.iter().map(|m| kr::merge_vs(kind, m, m, trim)).collect();
    tr.emit(&json!({"a":"family","kind":kind,"trim":[trim.0, trim.1],"views":vs,"res":res,"idem":idem}));
}

pub fn run(o: &Opts) -> i32 {
    let out = o.str("out", "/verif/work/C11/obs.ndjson");
    let mut tr = Tracer::create(&out);
    if let Some(rp) = o.get("replay") {
        for r in read_ndjson(rp) {
            let v = r["views"].as_array().expect("views");
            let t = (r["trim"][0].as_u64().unwrap_or(0), r["trim"][1].as_u64().unwrap_or(0));
            family(&mut tr, r["kind"].as_str().unwrap_or("session"), &[v[0].clone(), v[1].clone(), v[2].clone()], t);
        }
        println!("OBSERVED lines={} out={out}", tr.finish());
        return 0;
    }
    let mut rng = Rng::new(o.seed());
    for kind in ["session", "oauth2", "key"] {
        // exhaustive over one key
        let m1 = maps(kind, 1);
        for trim in [(0u64, 0u64), (2, 1)] {
            for a in &m1 { for b in &m1 { for c in &m1 {
                family(&mut tr, kind, &[a.clone(), b.clone(), c.clone()], trim);
            }}}
        }
        // two / three keys: exhaustive when asked, else seeded sample
        let m2 = maps(kind, 2);
        if o.flag("full2") {
            for trim in [(0u64, 0u64), (2, 1)] {
                for a in &m2 { for b in &m2 { for c in &m2 {
                    family(&mut tr, kind, &[a.clone(), b.clone(), c.clone()], trim);
                }}}
            }
        }
        let m3 = maps(kind, 3);
        for _ in 0..o.u64("sample", 300) {
            let pool = if rng.chance(1, 2) { &m2 } else { &m3 };
            let trim = if rng.chance(1, 2) { (0, 0) } else { (2, 1) };
            family(&mut tr, kind, &[rng.pick(pool).clone(), rng.pick(pool).clone(), rng.pick(pool).clone()], trim);
        }
    }
    println!("OBSERVED lines={} out={out}", tr.finish());
    0
}
