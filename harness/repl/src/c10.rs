//! C10: window-map pairs through the real `ReplicationUpdateVector::range_diff` (via hook H1).
use kanidmd_lib::verif as kv;
use kvc::util::*;
use serde_json::json;
use std::collections::BTreeMap;
use uuid::Uuid;

fn srv(i: usize) -> Uuid {
    Uuid::from_u128(0x5e5e_0000_0000_4000_8000_0000_0000_0000u128 + i as u128 + 1)
}

type Map = Vec<Option<(u64, u64)>>;

fn all_maps(n: usize, t: u64) -> Vec<Map> {
    let mut wins: Vec<Option<(u64, u64)>> = vec![None];
    for a in 0..=t {
        for b in a..=t {
            wins.push(Some((a, b)));
        }
    }
    let mut out: Vec<Map> = vec![vec![]];
    for _ in 0..n {
        let mut nx = Vec::new();
        for m in &out {
            for w in &wins {
                let mut m2 = m.clone();
                m2.push(*w);
                nx.push(m2);
            }
        }
        out = nx;
    }
    out
}

fn to_real(m: &Map) -> BTreeMap<Uuid, (u64, u64)> {
    m.iter().enumerate().filter_map(|(i, w)| w.map(|w| (srv(i), w))).collect()
}
fn to_json(m: &Map) -> serde_json::Value {
    let mut o = serde_json::Map::new();
    for (i, w) in m.iter().enumerate() {
        if let Some((a, b)) = w {
            o.insert(format!("s{}", i + 1), json!({"min": a, "max": b}));
        }
    }
    serde_json::Value::Object(o)
}
fn back(m: &BTreeMap<Uuid, (u64, u64)>, n: usize) -> serde_json::Value {
    let mut o = serde_json::Map::new();
    for i in 0..n {
        if let Some((a, b)) = m.get(&srv(i)) {
            o.insert(format!("s{}", i + 1), json!({"min": a, "max": b}));
        }
    }
    serde_json::Value::Object(o)
}

fn observe(tr: &mut Tracer, c: &Map, s: &Map, n: usize) {
    let r = kv::range_diff(&to_real(c), &to_real(s));
    tr.emit(&json!({"a":"range_diff","n":n,"c":to_json(c),"s":to_json(s),
        "res":r.status,"ok":back(&r.ok,n),"lag":back(&r.lag,n),"adv":back(&r.adv,n)}));
}

pub fn run(o: &Opts) -> i32 {
    let out = o.str("out", "/verif/work/C10/obs.ndjson");
    let mut tr = Tracer::create(&out);
    if let Some(rp) = o.get("replay") {
        for r in read_ndjson(rp) {
            let n = r["n"].as_u64().unwrap_or(3) as usize;
            let from = |v: &serde_json::Value| -> Map {
                (0..n).map(|i| v.get(format!("s{}", i + 1)).map(|w| (w["min"].as_u64().unwrap_or(0), w["max"].as_u64().unwrap_or(0)))).collect()
            };
            observe(&mut tr, &from(&r["c"]), &from(&r["s"]), n);
        }
        println!("OBSERVED lines={} out={out}", tr.finish());
        return 0;
    }
    // exhaustive spaces: "n:t,n:t"
    for spec in o.str("spaces", "2:3").split(',') {
        let (n, t) = spec.split_once(':').expect("n:t");
        let (n, t): (usize, u64) = (n.parse().expect("n"), t.parse().expect("t"));
        let maps = all_maps(n, t);
        for c in &maps {
            for s in &maps {
                observe(&mut tr, c, s, n);
            }
        }
    }
    // random larger maps
    let mut rng = Rng::new(o.seed());
    for _ in 0..o.u64("random", 0) {
        let n = rng.range(1, 6) as usize;
        let t = 40;
        let gen = |rng: &mut Rng| -> Map {
            (0..n).map(|_| if rng.chance(1, 4) { None } else {
                let a = rng.below(t); let b = rng.range(a, t); Some((a, b)) }).collect()
        };
        let c = gen(&mut rng);
        let s = gen(&mut rng);
        observe(&mut tr, &c, &s, n);
    }
    let n = tr.finish();
    println!("OBSERVED lines={n} out={out}");
    0
}
