//! C38: OAuth2 authorisation requests through the REAL `check_oauth2_authorisation`,
//! `check_oauth2_authorise_permit` and `check_oauth2_token_exchange` of a real IdmServer.
//!
//!   kv-oauth c38 --out obs.ndjson [--cases model-cases.ndjson] [--random N] [--seed S] [--replay FILE]
//!
//! model cases  : abstract (cfg, req) pairs chosen by TLC (KOAuth2MC) as the covering set; concretised here
//! random cases : seeded random client configurations and requests (richer URI / scope pools)
//! replay       : observed lines of an earlier run; their `case` objects are executed again
//! Every line carries the concrete `case` (enough to re-execute it) and the observed facts `f`
//! (read back from the server / the url crate) from which the TLA+ trace spec judges the result.
use crate::common::*;
use compact_jwt::JwsCompact;
use kanidm_proto::oauth2::*;
use kanidmd_lib::idm::oauth2::{AuthorisationRequestContext, AuthoriseResponse, Oauth2Error};
use kanidmd_lib::prelude::*;
use kvc::srv::*;
use kvc::util::*;
use serde_json::{json, Map, Value as J};
use std::collections::{BTreeMap, BTreeSet};
use std::time::Duration;

const RS_BASIC: u64 = 50;
const RS_PUBLIC: u64 = 51;
const G1: u64 = 61;
const G2: u64 = 62;
const USERS: [(&str, u64, &[u64]); 3] = [("u0", 70, &[]), ("u1", 71, &[G1]), ("u12", 72, &[G1, G2])];

pub(crate) fn group_uuid(name: &str) -> Option<Uuid> {
    match name {
        "g1" => Some(uuid_e(G1)),
        "g2" => Some(uuid_e(G2)),
        "all" => Some(UUID_IDM_ALL_ACCOUNTS),
        _ => None,
    }
}
pub(crate) fn group_name(u: Uuid) -> Option<&'static str> {
    if u == uuid_e(G1) {
        Some("g1")
    } else if u == uuid_e(G2) {
        Some("g2")
    } else if u == UUID_IDM_ALL_ACCOUNTS {
        Some("all")
    } else {
        None
    }
}

fn strs(v: &J) -> Vec<String> {
    v.as_array().map(|a| a.iter().filter_map(|x| x.as_str().map(|s| s.to_string())).collect()).unwrap_or_default()
}

pub(crate) struct World {
    pub s: Srv,
    pub tokens: BTreeMap<String, JwsCompact>,
    pub secret: String,
    cur_cfg: BTreeMap<String, String>, // rs name -> serialized cfg last written
    cur_prev: BTreeMap<String, String>, // ident -> serialized (rs, scopes) last written
}

impl World {
    pub async fn new() -> World {
        let mut s = Srv::new().await;
        let ct = t(1);
        {
            let mut w = s.idms.proxy_write(ct).await.expect("w");
            let mut es = vec![];
            for (n, id, _) in USERS.iter() {
                es.push(person(n, uuid_e(*id)));
            }
            let members = |g: u64| -> Vec<Uuid> {
                USERS.iter().filter(|(_, _, gs)| gs.contains(&g)).map(|(_, id, _)| uuid_e(*id)).collect()
            };
            es.push(group("g1", uuid_e(G1), &members(G1)));
            es.push(group("g2", uuid_e(G2), &members(G2)));
            for (name, id, basic) in [("kbasic", RS_BASIC, true), ("kpublic", RS_PUBLIC, false)] {
                let mut e: EntryInitNew = entry_init!(
                    (Attribute::Class, EntryClass::Object.to_value()),
                    (Attribute::Class, EntryClass::Account.to_value()),
                    (Attribute::Class, EntryClass::OAuth2ResourceServer.to_value()),
                    (Attribute::Uuid, Value::Uuid(uuid_e(id))),
                    (Attribute::Name, Value::new_iname(name)),
                    (Attribute::DisplayName, Value::new_utf8s(name)),
                    (Attribute::OAuth2RsOriginLanding, Value::new_url_s("https://app.example.com/").expect("url"))
                );
                e.add_ava(
                    Attribute::Class,
                    if basic { EntryClass::OAuth2ResourceServerBasic.to_value() } else { EntryClass::OAuth2ResourceServerPublic.to_value() },
                );
                es.push(e);
            }
            w.qs_write.internal_create(es).expect("create population");
            w.commit().expect("commit");
        }
        for (n, id, _) in USERS.iter() {
            s.set_password(uuid_e(*id), &format!("pw-{n}-correct horse"), ct).await;
        }
        let mut tokens = BTreeMap::new();
        for (n, _, _) in USERS.iter() {
            let tok = s.login(n, Some(&format!("pw-{n}-correct horse")), t(2)).await.expect("login");
            tokens.insert(n.to_string(), tok);
        }
        let tok = s.login("anonymous", None, t(2)).await.expect("anonymous login");
        tokens.insert("anon".to_string(), tok);
        let secret = {
            let mut r = s.idms.proxy_read().await.expect("r");
            let e = r.qs_read.internal_search_uuid(uuid_e(RS_BASIC)).expect("rs");
            e.get_ava_single_secret(Attribute::OAuth2RsBasicSecret).expect("secret").to_string()
        };
        World { s, tokens, secret, cur_cfg: BTreeMap::new(), cur_prev: BTreeMap::new() }
    }

    pub fn rs_of(cfg: &J) -> (&'static str, Uuid) {
        if cfg["type"] == "public" {
            ("kpublic", uuid_e(RS_PUBLIC))
        } else {
            ("kbasic", uuid_e(RS_BASIC))
        }
    }

    /// Write the client configuration of a case onto the client entry (only when it changed).
    pub async fn ensure_cfg(&mut self, cfg: &J, ct: Duration) -> Result<(), String> {
        let (name, uuid) = Self::rs_of(cfg);
        let ser = cfg.to_string();
        if self.cur_cfg.get(name) == Some(&ser) {
            return Ok(());
        }
        let basic = name == "kbasic";
        let mut mods: Vec<Modify> = vec![
            Modify::Purged(Attribute::OAuth2RsOriginLanding),
            Modify::Purged(Attribute::OAuth2RsOrigin),
            Modify::Purged(Attribute::OAuth2RsScopeMap),
            Modify::Purged(Attribute::OAuth2RsSupScopeMap),
        ];
        let landing = cfg["landing"].as_str().unwrap_or("https://app.example.com/");
        mods.push(Modify::Present(
            Attribute::OAuth2RsOriginLanding,
            Value::new_url_s(landing).ok_or_else(|| format!("bad landing {landing}"))?,
        ));
        for o in strs(&cfg["origins"]) {
            mods.push(Modify::Present(Attribute::OAuth2RsOrigin, Value::new_url_s(&o).ok_or_else(|| format!("bad origin {o}"))?));
        }
        for (attr, key) in [(Attribute::OAuth2RsScopeMap, "smap"), (Attribute::OAuth2RsSupScopeMap, "sup")] {
            if let Some(m) = cfg[key].as_object() {
                for (g, sc) in m {
                    let sc: BTreeSet<String> = strs(sc).into_iter().collect();
                    if sc.is_empty() {
                        continue;
                    }
                    let gu = group_uuid(g).ok_or_else(|| format!("unknown group {g}"))?;
                    mods.push(Modify::Present(attr.clone(), Value::new_oauthscopemap(gu, sc).ok_or("bad scope map")?));
                }
            }
        }
        if basic {
            mods.push(Modify::Purged(Attribute::OAuth2AllowInsecureClientDisablePkce));
            mods.push(Modify::Purged(Attribute::OAuth2ConsentPromptEnable));
            mods.push(Modify::Present(
                Attribute::OAuth2AllowInsecureClientDisablePkce,
                Value::new_bool(cfg["pkce_disable"].as_bool().unwrap_or(false)),
            ));
            mods.push(Modify::Present(Attribute::OAuth2ConsentPromptEnable, Value::new_bool(cfg["consent"].as_bool().unwrap_or(true))));
        } else {
            mods.push(Modify::Purged(Attribute::OAuth2AllowLocalhostRedirect));
            mods.push(Modify::Present(Attribute::OAuth2AllowLocalhostRedirect, Value::new_bool(cfg["lh"].as_bool().unwrap_or(false))));
        }
        let mut w = self.s.idms.proxy_write(ct).await.map_err(|e| format!("{e:?}"))?;
        w.qs_write.internal_modify_uuid(uuid, &ModifyList::new_list(mods)).map_err(|e| format!("cfg modify {e:?}"))?;
        w.commit().map_err(|e| format!("cfg commit {e:?}"))?;
        self.cur_cfg.insert(name.to_string(), ser);
        Ok(())
    }

    /// Record (or clear) a previous consent of the user for the client.
    pub async fn ensure_prev(&mut self, ident: &str, rs: Uuid, prev: Option<&BTreeSet<String>>, ct: Duration) -> Result<(), String> {
        let Some((_, id, _)) = USERS.iter().find(|(n, _, _)| *n == ident) else {
            return Ok(());
        };
        let ser = format!("{rs}:{prev:?}");
        if self.cur_prev.get(ident) == Some(&ser) {
            return Ok(());
        }
        let mut mods = vec![Modify::Purged(Attribute::OAuth2ConsentScopeMap)];
        if let Some(p) = prev {
            if !p.is_empty() {
                mods.push(Modify::Present(Attribute::OAuth2ConsentScopeMap, Value::OauthScopeMap(rs, p.clone())));
            }
        }
        let mut w = self.s.idms.proxy_write(ct).await.map_err(|e| format!("{e:?}"))?;
        w.qs_write.internal_modify_uuid(uuid_e(*id), &ModifyList::new_list(mods)).map_err(|e| format!("prev modify {e:?}"))?;
        w.commit().map_err(|e| format!("prev commit {e:?}"))?;
        self.cur_prev.insert(ident.to_string(), ser);
        Ok(())
    }
}

pub(crate) fn o2err(e: &Oauth2Error) -> String {
    match e {
        Oauth2Error::ServerError(oe) => format!("err:server_error:{oe:?}"),
        other => format!("err:{other}"),
    }
}

/// JSON form of an authorisation request, as the HTTP layer would deserialise it.
pub(crate) fn auth_req_json(client: &str, req: &J, verifier: &str) -> J {
    let mut m = Map::new();
    m.insert("response_type".into(), json!("code"));
    m.insert("client_id".into(), json!(client));
    m.insert("state".into(), json!("st4te"));
    m.insert("nonce".into(), json!("n0nce"));
    m.insert("redirect_uri".into(), req["uri"].clone());
    m.insert("scope".into(), json!(strs(&req["scopes"]).join(" ")));
    match req["pkce"].as_str().unwrap_or("none") {
        "s256" => {
            m.insert("code_challenge".into(), json!(b64url(&s256(verifier))));
            m.insert("code_challenge_method".into(), json!("S256"));
        }
        "plain" => {
            m.insert("code_challenge".into(), json!(b64url(verifier.as_bytes())));
            m.insert("code_challenge_method".into(), json!("plain"));
        }
        _ => {}
    }
    let p = req["prompt"].as_str().unwrap_or("");
    if !p.is_empty() {
        m.insert("prompt".into(), json!(p));
    }
    J::Object(m)
}

/// Execute one concrete case on the real server and return the observation line.
async fn execute(w: &mut World, n: u64, src: &str, case: &J, exp: Option<&str>) -> J {
    let ct = t(10);
    let cfg = &case["cfg"];
    let req = &case["req"];
    let (client, rs_uuid) = World::rs_of(cfg);
    if let Err(e) = w.ensure_cfg(cfg, ct).await {
        return json!({"a":"skip","n":n,"why":format!("cfg rejected by the server: {e}"),"case":case});
    }
    let ident_name = req["ident"].as_str().unwrap_or("none").to_string();
    let prev: Option<BTreeSet<String>> = match &req["prev"] {
        J::Array(a) => Some(a.iter().filter_map(|x| x.as_str().map(|s| s.to_string())).collect()),
        _ => None,
    };
    if let Err(e) = w.ensure_prev(&ident_name, rs_uuid, prev.as_ref(), ct).await {
        return json!({"a":"skip","n":n,"why":format!("prev consent rejected: {e}"),"case":case});
    }
    let ident: Option<Identity> = match w.tokens.get(&ident_name) {
        Some(tok) => Some(w.s.ident_of(tok, ct).await.expect("identity")),
        None => None,
    };
    let verifier = format!("verifier-{n}-0123456789abcdefghijklmnopqrstuvwxyz");

    // ---- observed facts -------------------------------------------------------------------
    let mut f = Map::new();
    {
        let mut r = w.s.idms.proxy_read().await.expect("r");
        let e = r.qs_read.internal_search_uuid(rs_uuid).expect("rs entry");
        let basic = e.attribute_equality(Attribute::Class, &EntryClass::OAuth2ResourceServerBasic.into());
        f.insert("type".into(), json!(if basic { "basic" } else { "public" }));
        f.insert("lh".into(), json!(e.get_ava_single_bool(Attribute::OAuth2AllowLocalhostRedirect).unwrap_or(false)));
        f.insert("pkce_disable".into(), json!(e.get_ava_single_bool(Attribute::OAuth2AllowInsecureClientDisablePkce).unwrap_or(false)));
        f.insert("consent".into(), json!(e.get_ava_single_bool(Attribute::OAuth2ConsentPromptEnable).unwrap_or(true)));
        let mut reg = vec![];
        let mut all: Vec<String> = ava_strings(&e, Attribute::OAuth2RsOrigin);
        all.extend(ava_strings(&e, Attribute::OAuth2RsOriginLanding));
        all.sort();
        all.dedup();
        for s in all {
            let scheme = Url::parse(&s).map(|u| u.scheme().to_string()).unwrap_or_default();
            reg.push(json!({"s": s, "scheme": scheme}));
        }
        f.insert("reg".into(), json!(reg));
        for (attr, key) in [(Attribute::OAuth2RsScopeMap, "smap"), (Attribute::OAuth2RsSupScopeMap, "sup")] {
            let mut m = Map::new();
            if let Some(maps) = e.get_ava_as_oauthscopemaps(attr) {
                for (g, sc) in maps.iter() {
                    let name = group_name(*g).map(|s| s.to_string()).unwrap_or_else(|| g.to_string());
                    m.insert(name, json!(sc.iter().cloned().collect::<Vec<_>>()));
                }
            }
            f.insert(key.into(), J::Object(m));
        }
    }
    let raw_uri = req["uri"].as_str().unwrap_or("").to_string();
    match Url::parse(&raw_uri) {
        Ok(u) => {
            f.insert("u".into(), json!(u.as_str()));
            f.insert("host".into(), json!(u.host_str().unwrap_or("")));
            f.insert("hl".into(), json!(u.host_str().unwrap_or("").split('.').collect::<Vec<_>>()));
            f.insert("scheme".into(), json!(u.scheme()));
        }
        Err(_) => {
            f.insert("u".into(), json!(""));
            f.insert("host".into(), json!(""));
            f.insert("hl".into(), json!([""]));
            f.insert("scheme".into(), json!(""));
        }
    }
    let (ikind, groups, prevset, prevscopes) = match &ident {
        None => ("none", vec![], false, vec![]),
        Some(i) => {
            let kind = if i.get_uuid() == UUID_ANONYMOUS { "anon" } else { "user" };
            let mut gs: Vec<String> =
                i.get_memberof().map(|m| m.iter().filter_map(|g| group_name(*g).map(|s| s.to_string())).collect()).unwrap_or_default();
            gs.sort();
            let ps = i.get_oauth2_consent_scopes(rs_uuid).map(|s| s.iter().cloned().collect::<Vec<_>>());
            (kind, gs, ps.is_some(), ps.unwrap_or_default())
        }
    };
    f.insert("ident".into(), json!(ikind));
    f.insert("groups".into(), json!(groups));
    f.insert("prevset".into(), json!(prevset));
    f.insert("prevscopes".into(), json!(prevscopes));
    f.insert("scopes".into(), json!(strs(&req["scopes"])));
    f.insert("pkce".into(), req["pkce"].clone());
    f.insert("prompt".into(), json!(req["prompt"].as_str().unwrap_or("")));

    // ---- the real calls -------------------------------------------------------------------
    let rj = auth_req_json(client, req, &verifier);
    let mut res;
    let mut permit = "na".to_string();
    let mut code: Option<String> = None;
    let mut consent_scopes: Vec<String> = vec![];
    match serde_json::from_value::<AuthorisationRequest>(rj) {
        Err(_) => res = "err:parse".to_string(),
        Ok(ar) => {
            let r = w.s.idms.proxy_read().await.expect("r");
            let out = catch(|| r.check_oauth2_authorisation(ident.as_ref(), &ar, &AuthorisationRequestContext::default(), ct));
            drop(r);
            match out {
                Err(_) => res = "panic".to_string(),
                Ok(Err(e)) => res = o2err(&e),
                Ok(Ok(AuthoriseResponse::AuthenticationRequired { .. })) => res = "authreq".to_string(),
                Ok(Ok(AuthoriseResponse::ReauthenticationRequired { .. })) => res = "reauth".to_string(),
                Ok(Ok(AuthoriseResponse::Permitted(p))) => {
                    res = "code".to_string();
                    code = Some(p.code);
                }
                Ok(Ok(AuthoriseResponse::ConsentRequested { consent_token, scopes, .. })) => {
                    res = "consent".to_string();
                    consent_scopes = scopes.into_iter().collect();
                    if let Some(i) = ident.as_ref() {
                        let mut pw = w.s.idms.proxy_write(ct).await.expect("w");
                        match pw.check_oauth2_authorise_permit(i, &consent_token, ct) {
                            Ok(p) => {
                                permit = "ok".to_string();
                                code = Some(p.code);
                            }
                            Err(e) => permit = format!("err:{e:?}"),
                        }
                        drop(pw); // never committed: the consent is not remembered
                    }
                }
            }
            if res == "err:parse" {
                res = "err:parse".to_string();
            }
        }
    }
    // ---- recover the scopes carried by the code by exchanging it --------------------------
    let mut xchg = "na".to_string();
    let mut granted: Vec<String> = vec![];
    if let Some(c) = code.as_ref() {
        let redirect = Url::parse(&raw_uri).expect("a code was issued for an unparsable uri");
        let code_verifier = if req["pkce"] == "s256" { Some(verifier.clone()) } else { None };
        let tr = AccessTokenRequest {
            grant_type: GrantTypeReq::AuthorizationCode { code: c.clone(), redirect_uri: redirect, code_verifier },
            client_post_auth: ClientPostAuth {
                client_id: Some(client.to_string()),
                client_secret: if client == "kbasic" { Some(w.secret.clone()) } else { None },
            },
        };
        let mut pw = w.s.idms.proxy_write(ct).await.expect("w");
        match pw.check_oauth2_token_exchange(&no_authz(), &tr, ct) {
            Ok(at) => {
                xchg = "ok".to_string();
                granted = at.scope.into_iter().collect();
            }
            Err(e) => xchg = format!("fail:{}", o2err(&e)),
        }
        drop(pw);
    }
    let mut line = json!({"a":"authz","n":n,"src":src,"case":case,"f":J::Object(f),"res":res,"permit":permit,
        "code":code.is_some(),"xchg":xchg,"granted":granted,"cscopes":consent_scopes});
    if let Some(e) = exp {
        line["exp"] = json!(e);
    }
    line
}

// ------------------------------------------------------------------------------------------
// concretisation of the abstract (model) cases

fn model_cfg(c: &J) -> J {
    let regs = c["regs"].as_str().unwrap_or("https");
    let (landing, origins): (&str, Vec<&str>) = match regs {
        "http" => ("http://app.example.com/", vec!["http://app.example.com/oauth2/cb"]),
        "mixed" => ("https://app.example.com/", vec!["http://app.example.com/oauth2/cb", "app://cheese"]),
        _ => ("https://app.example.com/", vec!["https://app.example.com/oauth2/cb", "https://portal.example.com/?custom=foo", "app://cheese"]),
    };
    let smap = match c["smap"].as_str().unwrap_or("m1") {
        "m2" => json!({"g1": ["openid", "read"]}),
        _ => json!({"all": ["openid"], "g1": ["read"], "g2": ["write"]}),
    };
    let sup = match c["sup"].as_str().unwrap_or("none") {
        "g1" => json!({"g1": ["extra"]}),
        "all" => json!({"all": ["extra"]}),
        _ => json!({}),
    };
    json!({"type": c["type"], "landing": landing, "origins": origins, "lh": c["lh"],
           "pkce_disable": !c["pkceReq"].as_bool().unwrap_or(true), "consent": c["consentOn"], "smap": smap, "sup": sup})
}

fn model_uri(class: &str, regs: &str, k: u64) -> String {
    // base: the registered https URI if there is one, else the registered http callback
    let https_base = if regs == "mixed" { "https://app.example.com/" } else { "https://app.example.com/oauth2/cb" };
    let base = if regs == "http" { "http://app.example.com/oauth2/cb" } else { https_base };
    let v = |xs: &[&str]| xs[(k as usize) % xs.len()].to_string();
    match class {
        "exact" => https_base.to_string(),
        "exacthttp" => "http://app.example.com/oauth2/cb".to_string(),
        "path" => {
            let b = base.trim_end_matches('/');
            v(&[&format!("{b}/extra"), &format!("{b}x"), &format!("{b}/..%2f"), &format!("{b}//")])
        }
        "query" => v(&[&format!("{base}?x=1"), &format!("{base}?custom=foo"), &format!("{base}?")]),
        "port" => {
            let (sch, rest) = base.split_once("://").expect("url");
            let (host, path) = rest.split_once('/').expect("path");
            v(&[&format!("{sch}://{host}:8443/{path}"), &format!("{sch}://{host}:1/{path}")])
        }
        "scheme" => {
            if base.starts_with("https://") {
                base.replacen("https://", "http://", 1)
            } else {
                base.replacen("http://", "https://", 1)
            }
        }
        "frag" => v(&[&format!("{base}#frag"), &format!("{base}#")]),
        "userinfo" => {
            let (sch, rest) = base.split_once("://").expect("url");
            v(&[&format!("{sch}://user@{rest}"), &format!("{sch}://app.example.com:pw@{rest}")])
        }
        "hostsuffix" => {
            let (sch, rest) = base.split_once("://").expect("url");
            let (host, path) = rest.split_once('/').expect("path");
            v(&[&format!("{sch}://{host}.evil.org/{path}"), &format!("{sch}://x.{host}/{path}"), &format!("{sch}://{host}./{path}")])
        }
        "loop" => v(&["http://localhost:8080/cb", "http://127.0.0.1:7777/cb", "http://[::1]:9000/cb", "http://127.8.8.8/cb"]),
        "loophttps" => v(&["https://localhost:8443/cb", "https://127.0.0.1/cb"]),
        "loopip" => v(&["http://127.0.0.2:8765/cb", "http://127.255.255.254/cb", "http://127.8.8.8:1/cb", "http://127.1:8080/cb"]),
        "loopv6" => v(&["http://[::1]:8765/cb", "http://[0:0:0:0:0:0:0:1]/cb"]),
        "loopnear" => v(&["http://localhost.evil.org/cb", "http://127.0.0.1.evil.org/cb", "http://128.0.0.1/cb", "http://localhost4/cb"]),
        "looknot" => v(&["http://notlocalhost/cb", "http://notlocalhost:8765/cb", "http://xlocalhost/", "http://mylocalhost:80/cb"]),
        "lookdash" => v(&["http://evil-localhost:8765/cb", "http://evil-localhost/cb", "http://not-localhost:1/"]),
        "looksub" => v(&["http://app.localhost/cb", "http://evil.localhost:8765/cb", "http://a.b.localhost/"]),
        "looksuffix" => v(&["http://localhost.evil.example/cb", "http://localhost.localdomain:8080/cb", "http://localhost.example.com/"]),
        "lookx" => v(&["http://localhostx/cb", "http://localhost1:8765/cb", "http://localhost-evil/cb", "http://localhos/cb"]),
        "lookhttps" => v(&["https://notlocalhost/cb", "https://evil-localhost:8765/cb", "https://app.localhost/cb", "https://localhost.evil.example/cb"]),
        "ipsuffix" => v(&["http://127.0.0.1.evil.example/cb", "http://127.0.0.1.nip.test:8765/cb", "http://127.0.0.evil.example/"]),
        "ipnear" => v(&["http://128.0.0.1/cb", "http://126.255.255.255:8765/cb", "http://1.0.0.127/cb", "http://10.127.0.1/cb", "http://0.0.0.0:8080/cb"]),
        "v6near" => v(&["http://[::2]/cb", "http://[::ffff:127.0.0.1]:8765/cb", "http://[::]/cb", "http://[fe80::1]/cb"]),
        "loopuser" => v(&["http://localhost@evil.example/cb", "http://127.0.0.1@evil.example:8765/cb", "http://localhost:80@evil.example/", "http://[::1]@evil.example/cb"]),
        "appreg" => "app://cheese".to_string(),
        "appunreg" => v(&["app://cheesy", "app://cheese/x", "app://cheese?x=1", "other://cheese"]),
        _ => v(&["https://evil.example.org/oauth2/cb", "https://app.example.org/oauth2/cb"]),
    }
}

fn held(map: &J, groups: &[&str]) -> BTreeSet<String> {
    let mut out = BTreeSet::new();
    if let Some(m) = map.as_object() {
        for (g, sc) in m {
            if groups.contains(&g.as_str()) {
                out.extend(strs(sc));
            }
        }
    }
    out
}
fn groups_of(ident: &str) -> Vec<&'static str> {
    match ident {
        "u0" | "anon" => vec!["all"],
        "u1" => vec!["all", "g1"],
        "u12" => vec!["all", "g1", "g2"],
        _ => vec![],
    }
}

fn concretise(m: &J, k: u64) -> J {
    let cfg = model_cfg(&m["cfg"]);
    let r = &m["req"];
    let regs = m["cfg"]["regs"].as_str().unwrap_or("https");
    let class = r["u"].as_str().unwrap_or("exact");
    let scopes: Vec<String> = strs(&r["scopes"]).into_iter().map(|s| if s == "bad scope" { "bad!scope".to_string() } else { s }).collect();
    let ident = r["ident"].as_str().unwrap_or("none");
    // "same": a previous consent for exactly what would be granted now
    let prev = if r["prev"] == "same" && ident.starts_with('u') {
        let mut g: BTreeSet<String> = scopes.iter().cloned().collect();
        g.extend(held(&cfg["sup"], &groups_of(ident)));
        if g.iter().all(|s| s.chars().all(|c| c.is_ascii_alphanumeric() || c == '_')) {
            json!(g.into_iter().collect::<Vec<_>>())
        } else {
            json!("no")
        }
    } else {
        json!("no")
    };
    json!({"cfg": cfg, "req": {"uri": model_uri(class, regs, k), "uclass": class, "scopes": scopes, "pkce": r["pkce"],
           "prompt": r["prompt"], "ident": ident, "prev": prev}})
}

// ------------------------------------------------------------------------------------------
// seeded random cases (direction B): richer pools than the model

fn random_cfg(rng: &mut Rng) -> J {
    let hosts = ["app.example.com", "portal.example.com", "sso.corp.test", "a.b.c.example.net"];
    let paths = ["", "cb", "oauth2/cb", "oauth2/result", "a/b/c", "login/callback"];
    let queries = ["", "", "?custom=foo", "?a=1&b=2"];
    let scopes_pool = ["openid", "read", "write", "email", "groups", "profile", "admin:all", "x-y.z"];
    let mk = |rng: &mut Rng, https: bool| -> String {
        let port = if rng.chance(1, 4) { format!(":{}", rng.pick(&[8080u64, 8443, 444, 81])) } else { String::new() };
        format!("{}://{}{}/{}{}", if https { "https" } else { "http" }, rng.pick(&hosts), port, rng.pick(&paths), rng.pick(&queries))
    };
    let public = rng.chance(1, 2);
    let any_https = rng.chance(3, 4);
    let landing = mk(rng, any_https);
    let mut origins: Vec<String> = vec![];
    for _ in 0..rng.below(4) {
        let https = if any_https { rng.chance(3, 4) } else { false };
        origins.push(mk(rng, https));
    }
    if rng.chance(1, 2) {
        origins.push(rng.pick(&["app://cheese", "com.example.app://cb", "myapp://auth/done"]).to_string());
    }
    if rng.chance(1, 6) {
        origins.push(rng.pick(&["http://localhost:3000/cb", "http://127.0.0.1:9999/done"]).to_string());
    }
    let rand_scopes = |rng: &mut Rng, max: u64| -> Vec<String> {
        let mut s = BTreeSet::new();
        for _ in 0..rng.below(max + 1) {
            s.insert(rng.pick(&scopes_pool).to_string());
        }
        s.into_iter().collect()
    };
    let mut smap = Map::new();
    let mut sup = Map::new();
    for g in ["all", "g1", "g2"] {
        if rng.chance(2, 3) {
            let s = rand_scopes(rng, 3);
            if !s.is_empty() {
                smap.insert(g.to_string(), json!(s));
            }
        }
        if rng.chance(1, 3) {
            let s = rand_scopes(rng, 2);
            if !s.is_empty() {
                sup.insert(g.to_string(), json!(s));
            }
        }
    }
    json!({"type": if public {"public"} else {"basic"}, "landing": landing, "origins": origins, "lh": rng.chance(1, 2),
        "pkce_disable": rng.chance(1, 3), "consent": rng.chance(2, 3), "smap": smap, "sup": sup})
}

fn random_req(rng: &mut Rng, cfg: &J) -> J {
    let scopes_pool = ["openid", "read", "write", "email", "groups", "profile", "admin:all", "x-y.z"];
    let rand_scopes = |rng: &mut Rng, max: u64| -> Vec<String> {
        let mut s = BTreeSet::new();
        for _ in 0..rng.below(max + 1) {
            s.insert(rng.pick(&scopes_pool).to_string());
        }
        s.into_iter().collect()
    };
    // Start from a request that is valid by construction, then (mostly) break exactly one aspect.
    let mut regs: Vec<String> = vec![cfg["landing"].as_str().unwrap_or("").to_string()];
    regs.extend(strs(&cfg["origins"]));
    let base = rng.pick(&regs).clone();
    let mut ident = rng.pick(&["u0", "u1", "u12", "u12"]).to_string();
    let held_now = |ident: &str| -> Vec<String> { held(&cfg["smap"], &groups_of(ident)).into_iter().collect() };
    let mut req_scopes: BTreeSet<String> = BTreeSet::new();
    {
        let h = held_now(&ident);
        if !h.is_empty() {
            for _ in 0..rng.range(1, 3) {
                req_scopes.insert(rng.pick(&h).clone());
            }
        }
    }
    let mut uri = base.clone();
    let mut pkce = "s256";
    let mut prompt = *rng.pick(&["", "", "", "consent", "select_account"]);
    let nfaults = match rng.below(10) { 0..=3 => 0, 4..=8 => 1, _ => 2 };
    for _ in 0..nfaults {
        match rng.below(9) {
            0 => uri = format!("{base}{}", rng.pick(&["x", "/", "/extra", "%2e%2e", "?q=1", "&z=9", "#f"])),
            1 => {
                if let Ok(mut u) = Url::parse(&base) {
                    let _ = u.set_port(Some(*rng.pick(&[1u16, 8443, 65535])));
                    uri = u.to_string();
                }
            }
            2 => {
                uri = if base.starts_with("https://") { base.replacen("https://", "http://", 1) } else { base.replacen("http://", "https://", 1) }
            }
            3 => {
                uri = match rng.below(5) {
                    0 => base.replacen("://", "://user:pw@", 1),
                    1 => rng.pick(&["http://localhost:8080/cb", "http://127.0.0.1/x", "https://localhost/", "http://[::1]:1/cb", "http://127.8.8.8:80/",
                                    "http://127.0.0.2:8765/cb", "https://127.255.255.254/", "http://LOCALHOST:3000/cb", "http://[0:0:0:0:0:0:0:1]:9/"]).to_string(),
                    2 => rng.pick(&["http://localhost.evil.org/cb", "http://128.0.0.1/", "http://localhost4/", "http://127.0.0.1.nip.test/",
                                    "https://notlocalhost/cb", "http://evil-localhost:8765/cb", "http://app.localhost/cb", "http://localhostx/",
                                    "http://localhost.evil.example/cb", "http://127.0.0.1.evil.example/", "http://126.255.255.255/cb", "http://[::2]/cb",
                                    "http://[::ffff:127.0.0.1]/cb", "http://localhost@evil.example/", "http://127.0.0.1:80@evil.example/cb",
                                    "https://xlocalhost:8443/", "http://0.0.0.0/cb"]).to_string(),
                    3 => rng.pick(&["app://cheese", "app://cheesy", "com.example.app://cb", "com.example.app://cb/x", "myapp://auth/done?x=1"]).to_string(),
                    _ => rng.pick(&["https://evil.example.org/oauth2/cb", "https://app.example.com.evil.org/cb", "https://portal.example.com/"]).to_string(),
                }
            }
            4 => pkce = *rng.pick(&["none", "plain"]),
            5 => ident = rng.pick(&["none", "anon"]).to_string(),
            6 => {
                // a scope outside what the identity holds / outside the maps / invalid syntax / none at all
                match rng.below(4) {
                    0 => { req_scopes.insert(rng.pick(&scopes_pool).to_string()); }
                    1 => { req_scopes.insert(rng.pick(&["bad!scope", "-lead", "trail-", "sp@ce"]).to_string()); }
                    2 => req_scopes.clear(),
                    _ => { ident = "u0".to_string(); }
                }
            }
            7 => prompt = *rng.pick(&["none", "login"]),
            _ => {
                // loopback look-alikes: not loopback, not registered
                uri = rng.pick(&["https://notlocalhost/cb", "http://evil-localhost:8765/cb", "http://app.localhost/cb", "http://localhostx/cb",
                                 "http://localhost.evil.example/cb", "http://127.0.0.1.evil.example/cb", "http://128.0.0.1/cb", "http://[::2]/cb",
                                 "http://localhost@evil.example/cb", "https://mylocalhost:8443/cb", "http://[::ffff:127.0.0.1]/cb"]).to_string()
            }
        }
    }
    let uri = if rng.chance(1, 12) { uri.to_uppercase().replace("HTTPS://", "https://").replace("HTTP://", "http://") } else { uri };
    let req_scopes: Vec<String> = req_scopes.into_iter().collect();
    let prev = match rng.below(4) {
        0 if ident.starts_with('u') => {
            let mut g: BTreeSet<String> = req_scopes.iter().cloned().collect();
            g.extend(held(&cfg["sup"], &groups_of(&ident)));
            if g.iter().any(|s| s.contains('!') || s.contains('@') || s.starts_with('-') || s.ends_with('-')) { json!("no") } else { json!(g.into_iter().collect::<Vec<_>>()) }
        }
        1 if ident.starts_with('u') => json!(rand_scopes(rng, 2)),
        _ => json!("no"),
    };
    json!({"cfg": cfg.clone(), "req": {"uri": uri, "uclass": "random", "scopes": req_scopes,
        "pkce": pkce, "prompt": prompt, "ident": ident, "prev": prev}})
}

pub fn run(o: &Opts) -> i32 {
    let out = o.str("out", "/verif/work/C38/obs.ndjson");
    let rt = runtime();
    rt.block_on(async {
        let mut tr = Tracer::create(&out);
        let mut w = World::new().await;
        let mut n = 0u64;
        if let Some(rp) = o.get("replay") {
            for l in read_ndjson(rp) {
                if l.get("case").is_some() {
                    n += 1;
                    let line = execute(&mut w, n, "replay", &l["case"], None).await;
                    tr.emit(&line);
                }
            }
        } else {
            if let Some(cp) = o.get("cases") {
                // group by configuration: fewer client reconfigurations
                let mut cases = read_ndjson(cp);
                cases.sort_by_key(|c| c["cfg"].to_string());
                for m in cases {
                    n += 1;
                    let case = concretise(&m, n);
                    let line = execute(&mut w, n, "model", &case, m["exp"].as_str()).await;
                    tr.emit(&line);
                }
            }
            let mut rng = Rng::new(o.seed());
            let total = o.u64("random", 0);
            let mut i = 0;
            while i < total {
                // a random configuration, then a burst of random requests against it
                let cfg = random_cfg(&mut rng);
                for _ in 0..8 {
                    if i >= total {
                        break;
                    }
                    let c = random_req(&mut rng, &cfg);
                    n += 1;
                    i += 1;
                    let line = execute(&mut w, n, "random", &c, None).await;
                    tr.emit(&line);
                }
            }
        }
        let lines = tr.finish();
        println!("OBSERVED lines={lines} out={out}");
    });
    0
}
