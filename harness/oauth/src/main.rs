//! Group driver: runs the REAL kanidm code and records observed traces (ndjson) which TLC
//! validates against the TLA+ specifications in /verif/spec. See /verif/DESIGN.md.
#[macro_use]
extern crate kanidmd_lib;

use kvc::util::Opts;

mod c38;
mod c39;
mod c40;
mod common;

fn main() {
    let args: Vec<String> = std::env::args().collect();
    if args.len() < 2 {
        eprintln!("usage: {} <subcommand> [--key value ...]", args[0]);
        std::process::exit(2);
    }
    let opts = Opts::parse(&args[2..]);
    let rc = match args[1].as_str() {
        "c38" => c38::run(&opts),
        "c39" => c39::run(&opts),
        "c40" => c40::run(&opts),
        other => {
            eprintln!("unknown subcommand {other}");
            2
        }
    };
    std::process::exit(rc);
}
