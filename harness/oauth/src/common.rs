//! Shared helpers of the oauth group drivers: a real IdmServer with its delayed-action queue,
//! real logins (password / anonymous), PKCE S256, OAuth2 client entries.
#![allow(dead_code)]
use base64::{engine::general_purpose::URL_SAFE_NO_PAD, Engine as _};
use compact_jwt::JwsCompact;
use crypto_glue::{s256::Sha256, traits::Digest};
use futures::FutureExt;
use kanidm_lib_crypto::CryptoPolicy;
use kanidm_proto::v1::{AuthCredential, AuthIssueSession, AuthMech, AuthStep};
use kanidmd_lib::credential::Credential;
use kanidmd_lib::idm::authentication::AuthState;
use kanidmd_lib::idm::delayed::DelayedAction;
use kanidmd_lib::idm::event::AuthEvent;
use kanidmd_lib::idm::server::IdmServerTransaction;
use kanidmd_lib::prelude::*;
use kvc::srv::*;
use std::time::Duration;
use time::OffsetDateTime;

pub struct Srv {
    pub idms: IdmServer,
    pub delayed: IdmServerDelayed,
    pub audit: IdmServerAudit,
}

impl Srv {
    pub async fn new() -> Srv {
        let qs = new_qs(t(0)).await;
        let (idms, delayed, audit) = new_idms(qs, t(0)).await;
        Srv { idms, delayed, audit }
    }

    /// Process every queued delayed action exactly as the server's background task does
    /// (one write transaction per action). Returns how many were processed.
    pub async fn drain(&mut self, ct: Duration) -> usize {
        let mut n = 0;
        loop {
            let mut buf: Vec<DelayedAction> = Vec::with_capacity(16);
            // `unconstrained`: tokio's cooperative budget would otherwise make recv_many report Pending
            // although an action is queued once the budget of the current poll is used up.
            match tokio::task::unconstrained(self.delayed.recv_many(&mut buf)).now_or_never() {
                Some(k) if k > 0 => {
                    for da in buf.iter() {
                        let mut pw = self.idms.proxy_write(ct).await.expect("proxy_write");
                        pw.process_delayedaction(da, ct).expect("delayed action");
                        pw.commit().expect("commit delayed");
                        n += 1;
                    }
                }
                _ => break,
            }
        }
        // audit events are not needed: discard
        while self.audit.audit_rx().try_recv().is_ok() {}
        n
    }

    /// Real password login through the auth state machine. Returns the bearer token.
    pub async fn login(&mut self, name: &str, pw: Option<&str>, ct: Duration) -> Result<JwsCompact, String> {
        let token = {
            let mut a = self.idms.auth().await.map_err(|e| format!("{e:?}"))?;
            let init = AuthEvent::from_message(
                None,
                AuthStep::Init2 { username: name.to_string(), issue: AuthIssueSession::Token, privileged: false }.into(),
            )
            .map_err(|e| format!("{e:?}"))?;
            let r = a.auth(&init, ct, no_authz()).await.map_err(|e| format!("init {e:?}"))?;
            let sid = r.sessionid;
            let mech = match pw {
                Some(_) => AuthMech::Password,
                None => AuthMech::Anonymous,
            };
            let begin = AuthEvent::from_message(Some(sid), AuthStep::Begin(mech).into()).map_err(|e| format!("{e:?}"))?;
            a.auth(&begin, ct, no_authz()).await.map_err(|e| format!("begin {e:?}"))?;
            let cred = match pw {
                Some(p) => AuthCredential::Password(p.to_string()),
                None => AuthCredential::Anonymous,
            };
            let step = AuthEvent::from_message(Some(sid), AuthStep::Cred(cred).into()).map_err(|e| format!("{e:?}"))?;
            let r = a.auth(&step, ct, no_authz()).await.map_err(|e| format!("cred {e:?}"))?;
            let tok = match r.state {
                AuthState::Success(tok, _) => *tok,
                other => return Err(format!("login not successful: {other:?}")),
            };
            a.commit().map_err(|e| format!("{e:?}"))?;
            tok
        };
        self.drain(ct).await; // records the session on the account
        Ok(token)
    }

    /// Bearer token -> Identity, as the HTTP layer does for every request.
    pub async fn ident_of(&self, token: &JwsCompact, ct: Duration) -> Result<Identity, OperationError> {
        let mut r = self.idms.proxy_read().await?;
        let cai = ClientAuthInfo::new(Source::Internal, None, Some(token.clone()), None);
        r.validate_client_auth_info_to_ident(cai, ct)
    }

    pub async fn set_password(&self, uuid: Uuid, pw: &str, ct: Duration) {
        let cred = Credential::new_password_only(&CryptoPolicy::minimum(), pw, OffsetDateTime::UNIX_EPOCH + ct)
            .expect("credential");
        let mut w = self.idms.proxy_write(ct).await.expect("proxy_write");
        w.qs_write
            .internal_modify_uuid(
                uuid,
                &ModifyList::new_purge_and_set(Attribute::PrimaryCredential, Value::new_credential("primary", cred)),
            )
            .expect("set password");
        w.commit().expect("commit");
    }
}

pub fn s256(verifier: &str) -> Vec<u8> {
    let mut h = Sha256::new();
    h.update(verifier.as_bytes());
    h.finalize().to_vec()
}
pub fn b64url(b: &[u8]) -> String {
    URL_SAFE_NO_PAD.encode(b)
}
pub fn basic_authz(id: &str, secret: &str) -> ClientAuthInfo {
    let v = base64::engine::general_purpose::STANDARD.encode(format!("{id}:{secret}"));
    ClientAuthInfo::new(Source::Internal, None, None, Some(v))
}
pub fn no_authz() -> ClientAuthInfo {
    ClientAuthInfo::new(Source::Internal, None, None, None)
}

pub fn person(name: &str, uuid: Uuid) -> EntryInitNew {
    entry_init!(
        (Attribute::Class, EntryClass::Object.to_value()),
        (Attribute::Class, EntryClass::Account.to_value()),
        (Attribute::Class, EntryClass::Person.to_value()),
        (Attribute::Name, Value::new_iname(name)),
        (Attribute::Uuid, Value::Uuid(uuid)),
        (Attribute::Description, Value::new_utf8s(name)),
        (Attribute::DisplayName, Value::new_utf8s(name))
    )
}
pub fn group(name: &str, uuid: Uuid, members: &[Uuid]) -> EntryInitNew {
    let mut e: EntryInitNew = entry_init!(
        (Attribute::Class, EntryClass::Object.to_value()),
        (Attribute::Class, EntryClass::Group.to_value()),
        (Attribute::Name, Value::new_iname(name)),
        (Attribute::Uuid, Value::Uuid(uuid))
    );
    for m in members {
        e.add_ava(Attribute::Member, Value::Refer(*m));
    }
    e
}
