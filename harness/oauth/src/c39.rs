//! C39: histories of code exchange / refresh / introspection / userinfo / revocation on the REAL
//! token endpoint of a real IdmServer, with mutated client / redirect / verifier / scopes / time,
//! interleaved with session revocation, account expiry and logout.
//!
//!   kv-oauth c39 --out obs.ndjson [--behaviours beh.ndjson] [--random N --len L] [--seed S] [--replay FILE]
//!
//! behaviours : {"cfg":{"ktype","pkce"},"h":[actions]} printed by TLC (KOAuth2TokMC): covering set + hypotheses
//! random     : seeded random histories (longer, finer time steps) over the same action alphabet
//! replay     : observed lines of an earlier run: the actions of each history are executed again
//! One history = one grant (authorisation code) on a fresh time window; it starts with a "reset" line.
use crate::common::*;
use compact_jwt::JwsCompact;
use kanidm_proto::oauth2::*;
use kanidmd_lib::idm::oauth2::{AuthorisationRequestContext, AuthoriseResponse, Oauth2Error};
use kanidmd_lib::prelude::*;
use kanidmd_lib::value::SessionState;
use kvc::srv::*;
use kvc::util::*;
use serde_json::{json, Value as J};
use std::collections::BTreeSet;
use std::str::FromStr;
use std::time::Duration;

const NUSERS: u64 = 4;
const HISTORIES_PER_SERVER: u64 = 120;
const RTLIFE: u64 = 57600;

fn rs_uuid(name: &str) -> Uuid {
    match name {
        "k1basic" => uuid_e(50),
        "k1nopkce" => uuid_e(51),
        "k1public" => uuid_e(52),
        _ => uuid_e(53),
    }
}
fn user_uuid(i: u64) -> Uuid {
    uuid_e(70 + i)
}
fn k1_name(ktype: &str) -> &'static str {
    match ktype {
        "basic" => "k1basic",
        "basicnopkce" => "k1nopkce",
        _ => "k1public",
    }
}

struct Tok {
    at: String,
    rt: String,
    scopes: BTreeSet<String>,
}

struct World {
    s: Srv,
    now: u64, // seconds since T0 (kvc::srv::t)
    login: Vec<Option<JwsCompact>>,
    secrets: std::collections::BTreeMap<String, String>,
    hist_on_server: u64,
    acct_dirty: Vec<bool>,
}

impl World {
    async fn new() -> World {
        let s = Srv::new().await;
        let ct = t(1);
        {
            let mut w = s.idms.proxy_write(ct).await.expect("w");
            let mut es = vec![];
            for i in 0..NUSERS {
                es.push(person(&format!("u{i}"), user_uuid(i)));
            }
            for (name, basic, host) in [("k1basic", true, "k1"), ("k1nopkce", true, "k1"), ("k1public", false, "k1"), ("k2pub", false, "k2")] {
                let mut e: EntryInitNew = entry_init!(
                    (Attribute::Class, EntryClass::Object.to_value()),
                    (Attribute::Class, EntryClass::Account.to_value()),
                    (Attribute::Class, EntryClass::OAuth2ResourceServer.to_value()),
                    (Attribute::Uuid, Value::Uuid(rs_uuid(name))),
                    (Attribute::Name, Value::new_iname(name)),
                    (Attribute::DisplayName, Value::new_utf8s(name)),
                    (Attribute::OAuth2RsOriginLanding, Value::new_url_s(&format!("https://{host}.example.com/")).expect("url")),
                    (Attribute::OAuth2RsOrigin, Value::new_url_s(&format!("https://{host}.example.com/cb")).expect("url")),
                    (
                        Attribute::OAuth2RsScopeMap,
                        Value::new_oauthscopemap(UUID_IDM_ALL_ACCOUNTS, ["openid".to_string(), "read".to_string()].into()).expect("scopemap")
                    )
                );
                if basic {
                    e.add_ava(Attribute::Class, EntryClass::OAuth2ResourceServerBasic.to_value());
                    e.add_ava(Attribute::OAuth2AllowInsecureClientDisablePkce, Value::new_bool(name == "k1nopkce"));
                } else {
                    e.add_ava(Attribute::Class, EntryClass::OAuth2ResourceServerPublic.to_value());
                }
                es.push(e);
            }
            w.qs_write.internal_create(es).expect("create population");
            // logins must outlive the longest history: the user's login session is the parent of the grant
            w.qs_write
                .internal_modify_uuid(
                    UUID_IDM_ALL_PERSONS,
                    &ModifyList::new_purge_and_set(Attribute::AuthSessionExpiry, Value::Uint32(400 * 86400)),
                )
                .expect("session expiry policy");
            w.commit().expect("commit");
        }
        for i in 0..NUSERS {
            s.set_password(user_uuid(i), &format!("pw-u{i}-correct horse"), ct).await;
        }
        let mut secrets = std::collections::BTreeMap::new();
        {
            let mut r = s.idms.proxy_read().await.expect("r");
            for name in ["k1basic", "k1nopkce"] {
                let e = r.qs_read.internal_search_uuid(rs_uuid(name)).expect("rs");
                secrets.insert(name.to_string(), e.get_ava_single_secret(Attribute::OAuth2RsBasicSecret).expect("secret").to_string());
            }
        }
        World { s, now: 10, login: (0..NUSERS).map(|_| None).collect(), secrets, hist_on_server: 0, acct_dirty: (0..NUSERS).map(|_| false).collect() }
    }

    fn ct(&self) -> Duration {
        t(self.now)
    }

    /// Projection of what the database holds about the grant's session and the account.
    async fn st(&self, user: u64, sess: Option<Uuid>, parent: Option<Uuid>) -> J {
        let mut r = self.s.idms.proxy_read().await.expect("r");
        let e = r.qs_read.internal_search_uuid(user_uuid(user)).expect("user");
        let rel = |odt: time::OffsetDateTime| -> i64 { odt.unix_timestamp() - T0 as i64 };
        let (s, issued) = match sess.and_then(|sid| e.get_ava_as_oauth2session_map(Attribute::OAuth2Session).and_then(|m| m.get(&sid))) {
            None => ("absent", 0),
            Some(o) => (if matches!(o.state, SessionState::RevokedAt(_)) { "revoked" } else { "live" }, rel(o.issued_at)),
        };
        let p = match parent.and_then(|pid| e.get_ava_as_session_map(Attribute::UserAuthTokenSession).and_then(|m| m.get(&pid))) {
            None => "absent",
            Some(u) => {
                if matches!(u.state, SessionState::RevokedAt(_)) {
                    "revoked"
                } else {
                    "live"
                }
            }
        };
        let from = e.get_ava_single_datetime(Attribute::AccountValidFrom).map(rel).unwrap_or(0);
        let until = e.get_ava_single_datetime(Attribute::AccountExpire).map(rel).unwrap_or(0);
        json!({"s": s, "issued": issued, "parent": p, "from": from, "until": until})
    }
}

fn o2err(e: &Oauth2Error) -> String {
    match e {
        Oauth2Error::ServerError(oe) => format!("err:server_error:{oe:?}"),
        other => format!("err:{other}"),
    }
}

fn strs(v: &J) -> Vec<String> {
    v.as_array().map(|a| a.iter().filter_map(|x| x.as_str().map(|s| s.to_string())).collect()).unwrap_or_default()
}

/// session id carried by an access token (JWS payload, unverified decode) - needed to project the right session record
fn session_of(at: &str) -> Option<Uuid> {
    use base64::Engine as _;
    let payload = at.split('.').nth(1)?;
    let raw = base64::engine::general_purpose::URL_SAFE_NO_PAD.decode(payload).ok()?;
    let v: J = serde_json::from_slice(&raw).ok()?;
    v.get("session_id").and_then(|s| s.as_str()).and_then(|s| Uuid::parse_str(s).ok())
}

/// Run one history. `actions` are records as printed by the model / logged before:
/// tick{d} exchange{client,auth,redirect,verifier} refresh{g,client,auth,scopes} introspect{g} userinfo{g,client}
/// revoke{g,kind} expire restore logout
async fn run_history(w: &mut World, tr: &mut Tracer, hno: u64, src: &str, cfg: &J, actions: &[J]) {
    let ktype = cfg["ktype"].as_str().unwrap_or("public").to_string();
    let pkce_req = ktype != "basicnopkce";
    let use_pkce = cfg["pkce"].as_bool().unwrap_or(true) || pkce_req;
    let k1 = k1_name(&ktype);
    let user = hno % NUSERS;
    // ---- reset: fresh time window, valid account, live login, new authorisation code ----------
    w.now += 20;
    if w.acct_dirty[user as usize] {
        w.acct_dirty[user as usize] = false;
        let mut pw = w.s.idms.proxy_write(w.ct()).await.expect("w");
        pw.qs_write
            .internal_modify_uuid(
                user_uuid(user),
                &ModifyList::new_list(vec![Modify::Purged(Attribute::AccountExpire), Modify::Purged(Attribute::AccountValidFrom)]),
            )
            .expect("restore account");
        pw.commit().expect("commit");
    }
    if w.login[user as usize].is_none() {
        let ct = w.ct();
        let tok = w.s.login(&format!("u{user}"), Some(&format!("pw-u{user}-correct horse")), ct).await.expect("login");
        w.login[user as usize] = Some(tok);
    }
    let ident = {
        let tok = w.login[user as usize].clone().expect("token");
        match w.s.ident_of(&tok, w.ct()).await {
            Ok(i) => i,
            Err(_) => {
                // the login was revoked by an earlier history: log in again
                let ct = w.ct();
                let tok = w.s.login(&format!("u{user}"), Some(&format!("pw-u{user}-correct horse")), ct).await.expect("login");
                w.login[user as usize] = Some(tok.clone());
                w.s.ident_of(&tok, ct).await.expect("identity")
            }
        }
    };
    let parent_id = ident.get_session_id();
    let verifier = format!("right-verifier-{hno}-0123456789abcdefghijklmnopqrstuvwxyz");
    let redirect_same = "https://k1.example.com/cb";
    let redirect_other = "https://k1.example.com/cb2";
    let code: String = {
        let req = json!({"uri": redirect_same, "scopes": ["openid", "read"], "pkce": if use_pkce {"s256"} else {"none"}, "prompt": ""});
        let ar: AuthorisationRequest = serde_json::from_value(crate::c38::auth_req_json(k1, &req, &verifier)).expect("auth request");
        let r = w.s.idms.proxy_read().await.expect("r");
        let resp = r.check_oauth2_authorisation(Some(&ident), &ar, &AuthorisationRequestContext::default(), w.ct()).expect("authorisation");
        drop(r);
        match resp {
            AuthoriseResponse::Permitted(p) => p.code,
            AuthoriseResponse::ConsentRequested { consent_token, .. } => {
                let mut pw = w.s.idms.proxy_write(w.ct()).await.expect("w");
                let p = pw.check_oauth2_authorise_permit(&ident, &consent_token, w.ct()).expect("permit");
                pw.commit().expect("commit");
                p.code
            }
            other => panic!("unexpected authorisation response {other:?}"),
        }
    };
    let mut toks: Vec<Tok> = vec![];
    let mut sess: Option<Uuid> = None;
    let st = w.st(user, sess, Some(parent_id)).await;
    tr.emit(&json!({"a":"reset","h":hno,"src":src,"t":w.now,"user":format!("u{user}"),
        "cfg":{"ktype":ktype,"pkce":use_pkce,"pkceReq":pkce_req,"rtlife":RTLIFE},
        "code":{"client":"k1","redirect":"same","pkce":use_pkce,"verifier": if use_pkce {"right"} else {""},"scopes":["openid","read"]},
        "st": st}));

    let client_auth = |w: &World, client: &str, auth: &str| -> (ClientPostAuth, bool) {
        // returns the post-auth block and whether valid client credentials are presented
        let name = if client == "k1" { k1 } else { "k2pub" };
        match w.secrets.get(name) {
            Some(sec) => {
                let good = auth != "bad";
                (
                    ClientPostAuth { client_id: Some(name.to_string()), client_secret: Some(if good { sec.clone() } else { format!("{sec}x") }) },
                    good,
                )
            }
            None => (
                ClientPostAuth { client_id: Some(name.to_string()), client_secret: if auth == "bad" { Some("bogus".to_string()) } else { None } },
                true, // public clients have no credentials to get wrong
            ),
        }
    };

    for act in actions {
        let a = act["a"].as_str().unwrap_or("");
        let g = act["g"].as_u64().unwrap_or(0) as usize;
        match a {
            "tick" => {
                let d = act["d"].as_u64().unwrap_or(1);
                w.now += d;
                let st = w.st(user, sess, Some(parent_id)).await;
                tr.emit(&json!({"a":"tick","t":w.now,"d":d,"st":st}));
            }
            "exchange" => {
                let client = act["client"].as_str().unwrap_or("k1");
                let (cpa, authok) = client_auth(w, client, act["auth"].as_str().unwrap_or("ok"));
                let rd = act["redirect"].as_str().unwrap_or("same");
                let vf = act["verifier"].as_str().unwrap_or("right");
                let treq = AccessTokenRequest {
                    grant_type: GrantTypeReq::AuthorizationCode {
                        code: code.clone(),
                        redirect_uri: Url::parse(if rd == "same" { redirect_same } else { redirect_other }).expect("url"),
                        code_verifier: match vf {
                            "right" => Some(verifier.clone()),
                            "wrong" => Some(format!("wrong-{verifier}")),
                            _ => None,
                        },
                    },
                    client_post_auth: cpa,
                };
                let ct = w.ct();
                let mut pw = w.s.idms.proxy_write(ct).await.expect("w");
                let out = pw.check_oauth2_token_exchange(&no_authz(), &treq, ct);
                let (res, scopes, atexp) = match out {
                    Ok(resp) => {
                        pw.commit().expect("commit");
                        let sc: BTreeSet<String> = resp.scope.iter().cloned().collect();
                        let atexp = w.now + resp.expires_in as u64;
                        if toks.is_empty() {
                            sess = session_of(&resp.access_token);
                            toks.push(Tok { at: resp.access_token, rt: resp.refresh_token.unwrap_or_default(), scopes: sc.clone() });
                        }
                        ("ok".to_string(), sc.into_iter().collect::<Vec<_>>(), atexp)
                    }
                    Err(e) => {
                        if matches!(e, Oauth2Error::InvalidGrant) {
                            pw.commit().expect("commit");
                        } else {
                            drop(pw);
                        }
                        (o2err(&e), vec![], 0)
                    }
                };
                let st = w.st(user, sess, Some(parent_id)).await;
                tr.emit(&json!({"a":"exchange","t":w.now,"x":{"client":client,"authok":authok,"redirect":rd,"verifier": if vf == "none" {""} else {vf}},
                    "act":act,"res":res,"scopes":scopes,"atexp":atexp,"st":st}));
            }
            "refresh" => {
                if g == 0 || g > toks.len() {
                    continue;
                }
                let client = act["client"].as_str().unwrap_or("k1");
                let (cpa, authok) = client_auth(w, client, act["auth"].as_str().unwrap_or("ok"));
                let sk = act["scopes"].as_str().unwrap_or("none");
                let (req_scopes, logged): (Option<BTreeSet<String>>, Vec<String>) = match sk {
                    "none" => (None, vec!["*".to_string()]),
                    "same" => (Some(toks[g - 1].scopes.clone()), toks[g - 1].scopes.iter().cloned().collect()),
                    "narrow" => (Some(["openid".to_string()].into()), vec!["openid".to_string()]),
                    _ => (
                        Some(["openid".to_string(), "read".to_string(), "write".to_string()].into()),
                        vec!["openid".to_string(), "read".to_string(), "write".to_string()],
                    ),
                };
                let treq = AccessTokenRequest {
                    grant_type: GrantTypeReq::RefreshToken { refresh_token: toks[g - 1].rt.clone(), scope: req_scopes },
                    client_post_auth: cpa,
                };
                let ct = w.ct();
                let mut pw = w.s.idms.proxy_write(ct).await.expect("w");
                let out = pw.check_oauth2_token_exchange(&no_authz(), &treq, ct);
                let (res, scopes, atexp) = match out {
                    Ok(resp) => {
                        pw.commit().expect("commit");
                        let sc: BTreeSet<String> = resp.scope.iter().cloned().collect();
                        let atexp = w.now + resp.expires_in as u64;
                        toks.push(Tok { at: resp.access_token, rt: resp.refresh_token.unwrap_or_default(), scopes: sc.clone() });
                        ("ok".to_string(), sc.into_iter().collect::<Vec<_>>(), atexp)
                    }
                    Err(e) => {
                        // as the server's request handler does: a refused grant is committed (it may carry a revocation)
                        if matches!(e, Oauth2Error::InvalidGrant) {
                            pw.commit().expect("commit");
                        } else {
                            drop(pw);
                        }
                        (o2err(&e), vec![], 0)
                    }
                };
                // probe without side effects: would the newest refresh token still be accepted now?
                let alive = {
                    let (cpa, _) = client_auth(w, "k1", "ok");
                    let newest = toks.last().expect("tokens");
                    let treq = AccessTokenRequest {
                        grant_type: GrantTypeReq::RefreshToken { refresh_token: newest.rt.clone(), scope: None },
                        client_post_auth: cpa,
                    };
                    let mut pw = w.s.idms.proxy_write(ct).await.expect("w");
                    let r = pw.check_oauth2_token_exchange(&no_authz(), &treq, ct).is_ok();
                    drop(pw);
                    r
                };
                let st = w.st(user, sess, Some(parent_id)).await;
                tr.emit(&json!({"a":"refresh","t":w.now,"g":g,"x":{"client":client,"authok":authok,"scopes":logged},
                    "act":act,"res":res,"scopes":scopes,"atexp":atexp,"alive":alive,"st":st}));
            }
            "introspect" | "userinfo" => {
                if g == 0 || g > toks.len() {
                    continue;
                }
                let client = act["client"].as_str().unwrap_or("k1");
                let ct = w.ct();
                let mut r = w.s.idms.proxy_read().await.expect("r");
                let res = if a == "introspect" {
                    let ir = AccessTokenIntrospectRequest { token: toks[g - 1].at.clone(), token_type_hint: None, client_post_auth: ClientPostAuth::default() };
                    match r.check_oauth2_token_introspect(&ir, ct) {
                        Ok(resp) => (if resp.active { "active" } else { "inactive" }).to_string(),
                        Err(e) => o2err(&e),
                    }
                } else {
                    let name = if client == "k1" { k1 } else { "k2pub" };
                    let jws = JwsCompact::from_str(&toks[g - 1].at).expect("jws");
                    match r.oauth2_openid_userinfo(name, &jws, ct) {
                        Ok(_) => "active".to_string(),
                        Err(Oauth2Error::InvalidToken) | Err(Oauth2Error::InvalidRequest) => "inactive".to_string(),
                        Err(e) => o2err(&e),
                    }
                };
                drop(r);
                let st = w.st(user, sess, Some(parent_id)).await;
                tr.emit(&json!({"a":a,"t":w.now,"g":g,"client":client,"act":act,"res":res,"st":st}));
            }
            "revoke" => {
                if g == 0 || g > toks.len() {
                    continue;
                }
                let kind = act["kind"].as_str().unwrap_or("at");
                let token = if kind == "at" { toks[g - 1].at.clone() } else { toks[g - 1].rt.clone() };
                let rr = TokenRevokeRequest { token, token_type_hint: None, client_post_auth: ClientPostAuth::default() };
                let ct = w.ct();
                let mut pw = w.s.idms.proxy_write(ct).await.expect("w");
                let res = match pw.oauth2_token_revoke(&rr, ct) {
                    Ok(()) => {
                        pw.commit().expect("commit");
                        "ok".to_string()
                    }
                    Err(e) => o2err(&e),
                };
                let st = w.st(user, sess, Some(parent_id)).await;
                tr.emit(&json!({"a":"revoke","t":w.now,"g":g,"kind":kind,"act":act,"res":res,"st":st}));
            }
            "expire" | "restore" | "logout" | "notyet" => {
                let ct = w.ct();
                let mut pw = w.s.idms.proxy_write(ct).await.expect("w");
                let ml = match a {
                    "expire" => ModifyList::new_purge_and_set(Attribute::AccountExpire, Value::new_datetime_epoch(t(w.now - 1))),
                    "restore" => ModifyList::new_list(vec![Modify::Purged(Attribute::AccountExpire), Modify::Purged(Attribute::AccountValidFrom)]),
                    "notyet" => ModifyList::new_purge_and_set(Attribute::AccountValidFrom, Value::new_datetime_epoch(t(w.now + 1000))),
                    _ => ModifyList::new_list(vec![Modify::Removed(Attribute::UserAuthTokenSession, PartialValue::Refer(parent_id))]),
                };
                pw.qs_write.internal_modify_uuid(user_uuid(user), &ml).expect("admin change");
                pw.commit().expect("commit");
                if a == "logout" {
                    w.login[user as usize] = None;
                } else {
                    w.acct_dirty[user as usize] = true;
                }
                let st = w.st(user, sess, Some(parent_id)).await;
                tr.emit(&json!({"a":a,"t":w.now,"act":act,"st":st}));
            }
            _ => {}
        }
    }
    w.s.drain(w.ct()).await;
}

fn random_history(rng: &mut Rng, len: u64) -> (J, Vec<J>) {
    let ktype = *rng.pick(&["basic", "basicnopkce", "public"]);
    let pkce = ktype != "basicnopkce" || rng.chance(1, 2);
    let cfg = json!({"ktype": ktype, "pkce": pkce});
    let mut h = vec![];
    let mut gen = 0u64;
    let mut exchanged = false;
    for _ in 0..len {
        let k = rng.below(100);
        if !exchanged || k < 8 {
            // code exchange, mostly right
            let good = rng.chance(2, 3);
            let act = if good {
                json!({"a":"exchange","client":"k1","auth":"ok","redirect":"same","verifier": if pkce {"right"} else {"none"}})
            } else {
                json!({"a":"exchange","client": rng.pick(&["k1","k1","k2"]),"auth": rng.pick(&["ok","ok","bad"]),
                       "redirect": rng.pick(&["same","same","other"]),"verifier": rng.pick(&["right","wrong","none"])})
            };
            if good {
                exchanged = true;
                if gen == 0 {
                    gen = 1;
                }
            }
            h.push(act);
            if !good && rng.chance(1, 3) {
                h.push(json!({"a":"tick","d": rng.pick(&[1u64, 30, 59, 60, 61])}));
            }
            continue;
        }
        match k {
            8..=37 => {
                // refresh: mostly the newest token, sometimes an older (rotated) one
                let g = if rng.chance(2, 3) { gen } else { rng.range(1, gen) };
                let good = rng.chance(3, 4);
                let (client, auth) = if good { ("k1", "ok") } else { (*rng.pick(&["k1", "k2"]), *rng.pick(&["ok", "bad"])) };
                h.push(json!({"a":"refresh","g":g,"client":client,"auth":auth,"scopes": rng.pick(&["none","none","same","narrow","wide"])}));
                gen += 1; // optimistic: indexes beyond the real chain are skipped by the driver
            }
            38..=52 => h.push(json!({"a":"introspect","g": rng.range(1, gen),"client":"k1"})),
            53..=64 => h.push(json!({"a":"userinfo","g": rng.range(1, gen),"client": rng.pick(&["k1","k1","k1","k2"])})),
            65..=69 => h.push(json!({"a":"revoke","g": rng.range(1, gen),"kind": rng.pick(&["at","rt"])})),
            70..=72 => h.push(json!({"a":"expire"})),
            73..=74 => h.push(json!({"a":"notyet"})),
            75..=79 => h.push(json!({"a":"restore"})),
            80..=81 => h.push(json!({"a":"logout"})),
            _ => {
                let d = match rng.below(10) {
                    0..=3 => rng.range(1, 3),
                    4 => rng.range(58, 62),
                    5 => rng.range(298, 302),
                    6 => rng.range(898, 902),
                    7 => rng.range(57598, 57602),
                    _ => rng.range(4, 800),
                };
                h.push(json!({"a":"tick","d":d}));
            }
        }
    }
    (cfg, h)
}

pub fn run(o: &Opts) -> i32 {
    let out = o.str("out", "/verif/work/C39/obs.ndjson");
    let rt = runtime();
    rt.block_on(async {
        let mut tr = Tracer::create(&out);
        // (cfg, actions, source)
        let mut hs: Vec<(J, Vec<J>, &str)> = vec![];
        if let Some(rp) = o.get("replay") {
            let mut cur: Option<(J, Vec<J>)> = None;
            for l in read_ndjson(rp) {
                if l["a"] == "reset" {
                    if let Some((c, a)) = cur.take() {
                        hs.push((c, a, "replay"));
                    }
                    cur = Some((l["cfg"].clone(), vec![]));
                } else if let Some((_, acts)) = cur.as_mut() {
                    if l["a"] == "tick" {
                        acts.push(json!({"a":"tick","d":l["d"]}));
                    } else if l.get("act").is_some() {
                        acts.push(l["act"].clone());
                    }
                }
            }
            if let Some((c, a)) = cur.take() {
                hs.push((c, a, "replay"));
            }
        } else {
            if let Some(bp) = o.get("behaviours") {
                for b in read_ndjson(bp) {
                    let acts: Vec<J> = b["h"].as_array().cloned().unwrap_or_default();
                    hs.push((b["cfg"].clone(), acts, "model"));
                }
            }
            let mut rng = Rng::new(o.seed());
            let len = o.u64("len", 25);
            for _ in 0..o.u64("random", 0) {
                let (c, a) = random_history(&mut rng, len);
                hs.push((c, a, "random"));
            }
        }
        let mut w = World::new().await;
        let mut hno = 0u64;
        for (cfg, acts, src) in hs.iter() {
            if w.hist_on_server >= HISTORIES_PER_SERVER {
                w = World::new().await;
            }
            w.hist_on_server += 1;
            hno += 1;
            run_history(&mut w, &mut tr, hno, src, cfg, acts).await;
        }
        let lines = tr.finish();
        println!("OBSERVED lines={lines} histories={hno} out={out}");
    });
    let _ = strs(&json!([]));
    0
}
