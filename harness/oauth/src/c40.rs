//! C40: the LDAP gateway (`LdapServer::do_op`) on a real IdmServer.
//!
//! Every history starts with a `reset` line (fresh server + fixed population), followed by harness
//! `cfg` lines (admin changes) and LDAP operations.  Each LDAP operation is executed through the REAL
//! `LdapServer::do_op` with the connection's bound token handled as kanidmd_core's ldaps.rs does;
//! the line records the response class, a digest index of the FULL database before/after, the
//! effective identity (`validate_ldap_session`), and for searches the LDAP result, the native
//! `search_ext` result of the same identity/filter/mapped attribute request, and the result of the
//! identical search on a fresh anonymous bind.  The judging (attribute map, hidden classes, subset /
//! equality, decision table) is done by TLC on spec/KLdapTrace.tla.
use crate::common::*;
use crypto_glue::{s256::Sha256, traits::Digest};
use futures::FutureExt;
use kanidmd_lib::idm::application::GenerateApplicationPasswordEvent;
use kanidmd_lib::idm::event::UnixPasswordChangeEvent;
use kanidmd_lib::idm::ldap::{LdapBoundToken, LdapResponseState, LdapServer, LdapSession};
use kanidmd_lib::idm::server::IdmServerTransaction;
use kanidmd_lib::idm::serviceaccount::GenerateApiTokenEvent;
use kanidmd_lib::prelude::*;
use kanidmd_lib::verif::oauth::ldap as kl;
use kvc::srv::*;
use kvc::util::*;
use ldap3_proto::proto::{
    LdapAddRequest, LdapAttribute, LdapExtendedRequest, LdapModify, LdapModifyDNRequest, LdapModifyRequest,
    LdapModifyType, LdapOp, LdapSubstringFilter,
};
use ldap3_proto::simple::*;
use serde_json::{json, Value as J};
use std::collections::{BTreeMap, BTreeSet};
use std::net::{IpAddr, Ipv4Addr};
use std::time::Duration;

const BASEDN: &str = "dc=example,dc=com";
/// Simulated time of the one login whose user-auth-token must still be valid at the wall clock the
/// gateway reads (ldap.rs uses duration_from_epoch_now()): far in the future, constant.
const TF: u64 = 4_000_000_000;

// ------------------------------------------------------------------------------------------------
// population: fixed names <-> model uuids

const NAMES: &[(&str, u64)] = &[
    ("u1", 1), ("u2", 2), ("u3", 3), ("u4", 4), ("u5", 5), ("u6", 6), ("u7", 7),
    ("g1", 11), ("g2", 12), ("g3", 13),
    ("app1", 21), ("app2", 22),
    ("sa1", 31), ("sa2", 32),
    ("xa", 41), ("xc", 42),
];
fn uu(name: &str) -> Option<Uuid> {
    NAMES.iter().find(|(n, _)| *n == name).map(|(_, k)| uuid_e(*k))
}
fn nm(u: Uuid) -> String {
    NAMES.iter().find(|(_, k)| uuid_e(*k) == u).map(|(n, _)| n.to_string()).unwrap_or_else(|| u.to_string())
}

fn posix_person(name: &str, uuid: Uuid) -> EntryInitNew {
    let mut e = person(name, uuid);
    e.add_ava(Attribute::Class, EntryClass::PosixAccount.to_value());
    e
}
fn application(name: &str, uuid: Uuid, linked: Uuid) -> EntryInitNew {
    entry_init!(
        (Attribute::Class, EntryClass::Object.to_value()),
        (Attribute::Class, EntryClass::Account.to_value()),
        (Attribute::Class, EntryClass::ServiceAccount.to_value()),
        (Attribute::Class, EntryClass::Application.to_value()),
        (Attribute::DisplayName, Value::new_utf8s(name)),
        (Attribute::Name, Value::new_iname(name)),
        (Attribute::Uuid, Value::Uuid(uuid)),
        (Attribute::LinkedGroup, Value::Refer(linked))
    )
}
fn service_account(name: &str, uuid: Uuid) -> EntryInitNew {
    entry_init!(
        (Attribute::Class, EntryClass::Object.to_value()),
        (Attribute::Class, EntryClass::Account.to_value()),
        (Attribute::Class, EntryClass::ServiceAccount.to_value()),
        (Attribute::DisplayName, Value::new_utf8s(name)),
        (Attribute::Name, Value::new_iname(name)),
        (Attribute::Uuid, Value::Uuid(uuid))
    )
}

struct W {
    srv: Srv,
    ldaps: LdapServer,
    k: u64,
    secrets: BTreeMap<String, String>,
    conn: Option<LdapBoundToken>,
    dgs: Vec<String>,
    /// digest index taken at the end of the previous line; valid while nothing ran since
    dcache: Option<i64>,
    msgid: i32,
}

fn now() -> Duration {
    // the gateway itself reads the wall clock; the harness-side identity reconstruction mirrors it
    duration_from_epoch_now()
}
fn ip() -> IpAddr {
    IpAddr::V4(Ipv4Addr::new(127, 0, 0, 1))
}

impl W {
    fn tick(&mut self) -> Duration {
        self.k += 1;
        t(self.k)
    }

    async fn build(flag: &str) -> W {
        let srv = Srv::new().await;
        let mut secrets: BTreeMap<String, String> = BTreeMap::new();
        secrets.insert("".into(), "".into());
        secrets.insert("bad".into(), "this-is-not-the-password-9".into());
        secrets.insert("junk".into(), "not.a.jws".into());
        let u = |n: &str| uu(n).expect("name");
        // 1. entries
        {
            let mut w = srv.idms.proxy_write(t(1)).await.expect("pw");
            let mut u1 = posix_person("u1", u("u1"));
            u1.add_ava(Attribute::Mail, Value::new_email_address_primary_s("u1@example.com").expect("mail"));
            u1.add_ava(Attribute::Mail, Value::new_email_address_s("u1.alt@example.com").expect("mail"));
            let mut u2 = posix_person("u2", u("u2"));
            u2.add_ava(Attribute::Mail, Value::new_email_address_primary_s("u2@example.com").expect("mail"));
            let ents = vec![
                u1,
                u2,
                person("u3", u("u3")),
                posix_person("u4", u("u4")),
                posix_person("u5", u("u5")),
                person("u6", u("u6")),
                person("u7", u("u7")),
                group("g2", u("g2"), &[u("u6")]),
                group("g1", u("g1"), &[u("u1"), u("u3"), u("g2")]),
                group("g3", u("g3"), &[u("u2")]),
                application("app1", u("app1"), u("g1")),
                application("app2", u("app2"), u("g3")),
                service_account("sa1", u("sa1")),
                service_account("sa2", u("sa2")),
                // schema entries exist in the database only for custom schema: one attribute, one class
                entry_init!(
                    (Attribute::Class, EntryClass::Object.to_value()),
                    (Attribute::Class, EntryClass::AttributeType.to_value()),
                    (Attribute::Uuid, Value::Uuid(uuid_e(41))),
                    (Attribute::AttributeName, Value::new_iutf8("c40attr")),
                    (Attribute::Description, Value::new_utf8s("C40 custom attribute")),
                    (Attribute::MultiValue, Value::new_bool(false)),
                    (Attribute::Unique, Value::new_bool(false)),
                    (Attribute::Syntax, Value::new_syntaxs("UTF8STRING").expect("syntax"))
                ),
                entry_init!(
                    (Attribute::Class, EntryClass::Object.to_value()),
                    (Attribute::Class, EntryClass::ClassType.to_value()),
                    (Attribute::Uuid, Value::Uuid(uuid_e(42))),
                    (Attribute::ClassName, Value::new_iutf8("c40class")),
                    (Attribute::Description, Value::new_utf8s("C40 custom class"))
                ),
            ];
            w.qs_write.internal_create(ents).expect("create population");
            w.qs_write
                .internal_modify_uuid(UUID_IDM_ACCOUNT_MAIL_READ, &ModifyList::new_append(Attribute::Member, Value::Refer(u("sa1"))))
                .expect("sa1 mail read");
            for g in [UUID_IDM_SCHEMA_ADMINS, UUID_IDM_ACCESS_CONTROL_ADMINS] {
                w.qs_write
                    .internal_modify_uuid(g, &ModifyList::new_append(Attribute::Member, Value::Refer(u("sa2"))))
                    .expect("sa2 admin groups");
            }
            w.commit().expect("commit population");
        }
        // 2. unix passwords, application passwords, api tokens
        {
            let mut w = srv.idms.proxy_write(t(2)).await.expect("pw");
            for a in ["u1", "u2", "u5"] {
                let pw = format!("unix pw of {a} 7hx");
                let ev = UnixPasswordChangeEvent::from_parts(kl::internal_identity(), u(a), pw.clone()).expect("ev");
                w.set_unix_account_password(&ev).expect("set unix pw");
                secrets.insert(format!("ux:{a}"), pw);
            }
            for (a, app) in [("u1", "app1"), ("u2", "app1"), ("u6", "app1")] {
                let ev = GenerateApplicationPasswordEvent::new_internal(u(a), u(app), "lbl".to_string());
                let (clear, _) = w.generate_application_password(&ev).expect("app pw");
                secrets.insert(format!("ap:{a}:{app}"), clear);
            }
            for (sa, rw, key) in [("sa1", false, "tk:sa1"), ("sa2", false, "tk:sa2"), ("sa1", true, "tkw:sa1")] {
                let ev = GenerateApiTokenEvent {
                    ident: kl::internal_identity(),
                    target: u(sa),
                    label: key.replace(':', "-"),
                    expiry: None,
                    read_write: rw,
                    compact: false,
                };
                let tok = w.service_account_generate_api_token(&ev, t(2)).expect("api token");
                secrets.insert(key.to_string(), tok.to_string());
            }
            w.commit().expect("commit creds");
        }
        let mut srv = srv;
        // 3. user auth tokens: one issued at simulated "now" (expired at the gateway's wall clock),
        //    one issued in the far future (still valid at any wall clock this century)
        srv.set_password(u("u7"), "primary pw of u7 k2", t(3)).await;
        let old = srv.login("u7", Some("primary pw of u7 k2"), t(4)).await.expect("login u7");
        secrets.insert("ua0:u7".into(), old.to_string());
        drain_all(&mut srv, t(4)).await;
        // 4. domain flag
        if flag != "unset" {
            let mut w = srv.idms.proxy_write(t(5)).await.expect("pw");
            w.qs_write
                .internal_modify_uuid(
                    UUID_DOMAIN_INFO,
                    &ModifyList::new_purge_and_set(Attribute::LdapAllowUnixPwBind, Value::Bool(flag == "on")),
                )
                .expect("flag");
            w.commit().expect("commit flag");
        }
        let fut = srv.login("u7", Some("primary pw of u7 k2"), Duration::from_secs(TF)).await.expect("login u7 (future)");
        secrets.insert("ua:u7".into(), fut.to_string());
        drain_all(&mut srv, Duration::from_secs(TF)).await;
        let ldaps = LdapServer::new(&srv.idms).await.expect("ldap server");
        W { srv, ldaps, k: 10, secrets, conn: None, dgs: Vec::new(), dcache: None, msgid: 1 }
    }

    /// index (per history, in order of first appearance) of the sha256 of the full database dump
    /// digest before an operation: nothing has run since the digest taken at the end of the previous line
    /// (that one already covers the auxiliary anonymous operations), so it is reused.
    async fn digest_before(&mut self) -> i64 {
        match self.dcache {
            Some(d) => d,
            None => self.digest().await,
        }
    }

    async fn digest(&mut self) -> i64 {
        let hex = {
            let mut pr = self.srv.idms.proxy_read().await.expect("proxy_read");
            let all = search_all(&mut pr.qs_read);
            let mut h = Sha256::new();
            for e in all.iter() {
                h.update(serde_json::to_vec(&dump_entry(e)).expect("json"));
                h.update(b"\n");
            }
            hex::encode(h.finalize())
        };
        let i = match self.dgs.iter().position(|d| *d == hex) {
            Some(i) => i as i64,
            None => {
                self.dgs.push(hex);
                (self.dgs.len() - 1) as i64
            }
        };
        self.dcache = Some(i);
        i
    }

    fn tok_proj(t: &Option<LdapBoundToken>) -> (String, String) {
        match t {
            None => ("none".into(), "".into()),
            Some(lbt) => match &lbt.effective_session {
                LdapSession::UnixBind(u) => ("unix".into(), nm(*u)),
                LdapSession::ApplicationPasswordBind(_, u) => ("app".into(), nm(*u)),
                LdapSession::UserAuthToken(uat) => ("uat".into(), nm(uat.uuid)),
                LdapSession::ApiToken(a) => ("apit".into(), nm(a.account_id)),
            },
        }
    }

    /// Effective identity of a bound token: (entry uuid, scope)
    async fn ident_proj(&mut self, lbt: &LdapBoundToken, source: Source) -> (String, String) {
        let mut pr = match self.srv.idms.proxy_read().await {
            Ok(p) => p,
            Err(_) => return ("err".into(), "err".into()),
        };
        match pr.validate_ldap_session(&lbt.effective_session, source, now()) {
            Ok(id) => (nm(id.get_uuid()), scope_str(&id)),
            Err(_) => ("err".into(), "err".into()),
        }
    }

    async fn do_op(&mut self, op: ServerOps, tok: Option<LdapBoundToken>) -> Result<LdapResponseState, String> {
        let ev = Uuid::from_u128(0xc40);
        let fut = self.ldaps.do_op(&self.srv.idms, op, tok, ip(), ev);
        match std::panic::AssertUnwindSafe(fut).catch_unwind().await {
            Ok(Ok(r)) => Ok(r),
            Ok(Err(e)) => Err(format!("operr:{e:?}")),
            Err(_) => Err("panic".into()),
        }
    }

    async fn anon_token(&mut self) -> Option<LdapBoundToken> {
        let op = ServerOps::SimpleBind(SimpleBindRequest { msgid: 0, dn: "".into(), pw: "".into() });
        match self.do_op(op, None).await {
            Ok(LdapResponseState::Bind(lbt, _)) => Some(lbt),
            _ => None,
        }
    }
}

/// Process every queued delayed action as the server's background task does (one write transaction per
/// action).  Unlike a bare `recv_many(..).now_or_never()` this is not subject to tokio's cooperative
/// budget (which makes recv_many return Pending although an action is queued), so no action is left behind.
async fn drain_all(srv: &mut Srv, ct: Duration) -> usize {
    let mut n = 0;
    loop {
        let mut buf: Vec<kanidmd_lib::idm::delayed::DelayedAction> = Vec::with_capacity(16);
        match tokio::task::unconstrained(srv.delayed.recv_many(&mut buf)).now_or_never() {
            Some(k) if k > 0 => {
                for da in buf.iter() {
                    let mut pw = srv.idms.proxy_write(ct).await.expect("proxy_write");
                    pw.process_delayedaction(da, ct).expect("delayed action");
                    pw.commit().expect("commit delayed");
                    n += 1;
                }
            }
            _ => break,
        }
    }
    n + srv.drain(ct).await
}

fn scope_str(id: &Identity) -> String {
    match id.access_scope() {
        AccessScope::ReadOnly => "ro".into(),
        AccessScope::ReadWrite => "rw".into(),
        AccessScope::Synchronise => "sync".into(),
    }
}

fn short_dn(dn: &str) -> String {
    let suf = format!(",{BASEDN}");
    if dn.is_empty() {
        "".into()
    } else if let Some(s) = dn.strip_suffix(suf.as_str()) {
        s.to_string()
    } else {
        format!("!{dn}")
    }
}

fn code_str(c: &LdapResultCode) -> String {
    format!("{c:?}")
}

/// (result class, code, entries) of a search response
fn proj_search(msgs: &[LdapMsg]) -> (String, String, Vec<J>) {
    let mut ents = Vec::new();
    let mut code = "none".to_string();
    for m in msgs {
        match &m.op {
            LdapOp::SearchResultEntry(e) => {
                let mut at: Vec<String> = e.attributes.iter().map(|a| a.atype.to_lowercase()).collect();
                at.sort();
                ents.push(json!({"dn": short_dn(&e.dn), "at": at}));
            }
            LdapOp::SearchResultDone(r) => code = code_str(&r.code),
            _ => code = "unexpected".into(),
        }
    }
    ents.sort_by(|a, b| a["dn"].as_str().cmp(&b["dn"].as_str()));
    let res = if code == "Success" { "ok" } else { "err" };
    (res.to_string(), code, ents)
}

/// LDAP filter text -> LdapFilter (input building).  A small recursive-descent reader of the RFC 4515
/// shapes the pools use: (&..) (|..) (!..) (a=*) (a=v) (a=i*any*f) (a>=v) (a<=v).  Unlike ldap3_proto's
/// text parser it accepts kanidm attribute names with underscores and values containing '='.
fn parse_filter(ftxt: &str) -> LdapFilter {
    fn fail(t: &str, at: usize) -> ! {
        eprintln!("TOOL-ERROR filter text does not parse: {t} (at {at})");
        std::process::exit(2)
    }
    fn item(t: &str, b: &[u8], i: &mut usize) -> LdapFilter {
        if *i >= b.len() || b[*i] != b'(' {
            fail(t, *i);
        }
        *i += 1;
        let f = match b.get(*i) {
            Some(b'&') | Some(b'|') => {
                let and = b[*i] == b'&';
                *i += 1;
                let mut v = Vec::new();
                while *i < b.len() && b[*i] == b'(' {
                    v.push(item(t, b, i));
                }
                if and { LdapFilter::And(v) } else { LdapFilter::Or(v) }
            }
            Some(b'!') => {
                *i += 1;
                LdapFilter::Not(Box::new(item(t, b, i)))
            }
            _ => {
                let start = *i;
                while *i < b.len() && b[*i] != b')' {
                    *i += 1;
                }
                let body = &t[start..*i];
                let (attr, op, val) = if let Some((a, v)) = body.split_once(">=") {
                    (a, ">=", v)
                } else if let Some((a, v)) = body.split_once("<=") {
                    (a, "<=", v)
                } else if let Some((a, v)) = body.split_once('=') {
                    (a, "=", v)
                } else {
                    fail(t, start)
                };
                match op {
                    ">=" => LdapFilter::GreaterOrEqual(attr.to_string(), val.to_string()),
                    "<=" => LdapFilter::LessOrEqual(attr.to_string(), val.to_string()),
                    _ if val == "*" => LdapFilter::Present(attr.to_string()),
                    _ if val.contains('*') => {
                        let parts: Vec<&str> = val.split('*').collect();
                        let n = parts.len();
                        LdapFilter::Substring(
                            attr.to_string(),
                            LdapSubstringFilter {
                                initial: if parts[0].is_empty() { None } else { Some(parts[0].to_string()) },
                                any: parts[1..n - 1].iter().filter(|p| !p.is_empty()).map(|p| p.to_string()).collect(),
                                final_: if parts[n - 1].is_empty() { None } else { Some(parts[n - 1].to_string()) },
                            },
                        )
                    }
                    _ => LdapFilter::Equality(attr.to_string(), val.to_string()),
                }
            }
        };
        if *i >= b.len() || b[*i] != b')' {
            fail(t, *i);
        }
        *i += 1;
        f
    }
    let mut i = 0;
    let f = item(ftxt, ftxt.as_bytes(), &mut i);
    if i != ftxt.len() {
        fail(ftxt, i);
    }
    f
}

fn scope_of(s: &str) -> LdapSearchScope {
    match s {
        "base" => LdapSearchScope::Base,
        "one" => LdapSearchScope::OneLevel,
        "chi" => LdapSearchScope::Children,
        _ => LdapSearchScope::Subtree,
    }
}

fn bind_dn(k: &str, form: &str, ac: &str, ap: &str, lit: &str) -> String {
    let id = match form {
        "name" | "namedn" => format!("name={ac}"),
        "bare" | "baredn" => ac.to_string(),
        "spn" | "spndn" => format!("spn={ac}@example.com"),
        "spnbare" => format!("{ac}@example.com"),
        "uuid" | "uuiddn" => format!("uuid={}", uu(ac).map(|u| u.to_string()).unwrap_or_else(|| ac.to_string())),
        _ => format!("name={ac}"),
    };
    let suffix = if form.ends_with("dn") { format!(",{BASEDN}") } else { String::new() };
    match k {
        "anon" => "".into(),
        "tok" => if form == "dntoken" { "dn=token".into() } else { "".into() },
        "unix" | "anonname" => format!("{id}{suffix}"),
        "app" => format!("{id},app={ap}{suffix}"),
        _ => lit.to_string(),
    }
}

fn sec_class(k: &str, ac: &str, ap: &str, sy: &str) -> &'static str {
    if sy.is_empty() {
        return "empty";
    }
    let right = match k {
        "unix" => sy == format!("ux:{ac}"),
        "app" => sy == format!("ap:{ac}:{ap}"),
        "tok" => sy.starts_with("tk:") || sy.starts_with("tkw:") || sy.starts_with("ua:"),
        _ => false,
    };
    if right { "right" } else if k == "tok" && sy.starts_with("ua0:") { "expired" } else { "wrong" }
}

// ------------------------------------------------------------------------------------------------
// execution of one action record; emits exactly one line

async fn exec(w: &mut W, act: &J, tr: &mut Tracer) {
    let a = act["a"].as_str().unwrap_or("");
    let s = |k: &str| act[k].as_str().unwrap_or("").to_string();
    w.msgid += 1;
    let msgid = w.msgid;
    match a {
        "cfg" => {
            let ct = w.tick();
            w.dcache = None;
            let what = s("what");
            let mut pw = w.srv.idms.proxy_write(ct).await.expect("proxy_write");
            let r = match what.as_str() {
                "flag" => pw.qs_write.internal_modify_uuid(
                    UUID_DOMAIN_INFO,
                    &ModifyList::new_purge_and_set(Attribute::LdapAllowUnixPwBind, Value::Bool(act["val"].as_bool().unwrap_or(false))),
                ),
                "mem" => {
                    let g = uu(&s("g")).expect("group");
                    let m = uu(&s("ac")).expect("member");
                    let ml = if act["val"].as_bool().unwrap_or(false) {
                        ModifyList::new_append(Attribute::Member, Value::Refer(m))
                    } else {
                        ModifyList::new_remove(Attribute::Member, PartialValue::Refer(m))
                    };
                    pw.qs_write.internal_modify_uuid(g, &ml)
                }
                _ => Err(OperationError::InvalidState),
            };
            let res = match r.and_then(|_| pw.commit()) {
                Ok(()) => "ok".to_string(),
                Err(e) => format!("err:{e:?}"),
            };
            let mut o = act.clone();
            o["res"] = json!(res);
            o["dg"] = json!(w.digest().await);
            tr.emit(&o);
        }
        "bind" => {
            let (k, form, ac, ap, sy) = (s("k"), s("form"), s("ac"), s("ap"), s("sy"));
            let dn = bind_dn(&k, &form, &ac, &ap, &s("dn"));
            let pwd = w.secrets.get(&sy).cloned().unwrap_or_else(|| sy.clone());
            // context observed from the database
            let (flag, mem, ex) = {
                let mut pr = w.srv.idms.proxy_read().await.expect("proxy_read");
                let dom = pr.qs_read.internal_search_uuid(UUID_DOMAIN_INFO).expect("domain entry");
                let flag = match dom.get_ava_single_bool(Attribute::LdapAllowUnixPwBind) {
                    Some(true) => "on",
                    Some(false) => "off",
                    None => "unset",
                };
                let acc = uu(&ac).and_then(|u| pr.qs_read.internal_search_uuid(u).ok());
                let app = uu(&ap).and_then(|u| pr.qs_read.internal_search_uuid(u).ok());
                let mem = match (&acc, &app) {
                    (Some(acc), Some(app)) => match app.get_ava_single_refer(Attribute::LinkedGroup) {
                        Some(lg) => acc.get_ava_refer(Attribute::MemberOf).map(|s| s.contains(&lg)).unwrap_or(false),
                        None => false,
                    },
                    _ => false,
                };
                let ex = match k.as_str() {
                    "unix" | "anonname" => acc.is_some() || ac == "anonymous",
                    "app" => (acc.is_some() || ac == "anonymous") && app.is_some(),
                    _ => true,
                };
                (flag, mem, ex)
            };
            let hpw = match k.as_str() {
                "unix" => w.secrets.contains_key(&format!("ux:{ac}")),
                "app" => w.secrets.contains_key(&format!("ap:{ac}:{ap}")),
                _ => false,
            };
            // a secret symbol the world does not hold (e.g. the application password of an account that has none) is wrong
            let sec = if !sy.is_empty() && !w.secrets.contains_key(&sy) { "wrong" } else { sec_class(&k, &ac, &ap, &sy) };
            let (tk, tu) = W::tok_proj(&w.conn);
            let dg0 = w.digest_before().await;
            let op = ServerOps::SimpleBind(SimpleBindRequest { msgid, dn: dn.clone(), pw: pwd });
            let r = w.do_op(op, w.conn.clone()).await;
            let (res, code, newtok) = match r {
                Ok(LdapResponseState::Bind(lbt, _m)) => ("bound".to_string(), "Success".to_string(), Some(lbt)),
                Ok(LdapResponseState::Respond(m)) => match &m.op {
                    LdapOp::BindResponse(br) if br.res.code == LdapResultCode::InvalidCredentials => {
                        ("invalid".to_string(), code_str(&br.res.code), None)
                    }
                    LdapOp::BindResponse(br) => ("err".to_string(), code_str(&br.res.code), None),
                    _ => ("err".to_string(), "unexpected".to_string(), None),
                },
                Ok(_) => ("err".to_string(), "unexpected-state".to_string(), None),
                Err(e) => (if e == "panic" { "panic".to_string() } else { "err".to_string() }, e, None),
            };
            let dl = drain_all(&mut w.srv, t(w.k)).await;
            let (eid, sc) = match &newtok {
                Some(lbt) => w.ident_proj(lbt, Source::Ldaps(ip())).await,
                None => ("".into(), "".into()),
            };
            if let Some(lbt) = newtok {
                w.conn = Some(lbt); // kanidmd_core ldaps.rs: only a successful bind replaces the session
            }
            let (ns, nu) = W::tok_proj(&w.conn);
            let dg1 = w.digest().await;
            tr.emit(&json!({"a":"bind","k":k,"form":form,"ac":ac,"ap":ap,"sy":sy,"dn":dn,
                "sec":sec,"tokuat":sy.starts_with("ua"),"flag":flag,"mem":mem,"hpw":hpw,"ex":ex,
                "tk":tk,"tu":tu,"res":res,"code":code,"eid":eid,"sc":sc,"ns":ns,"nu":nu,
                "dg0":dg0,"dg1":dg1,"dl":dl}));
        }
        "search" => {
            let (base, scp, ftxt) = (s("base"), s("scp"), s("f"));
            let req: Vec<String> = act["req"].as_array().map(|v| v.iter().map(|x| x.as_str().unwrap_or("").to_string()).collect()).unwrap_or_default();
            let filter = parse_filter(&ftxt);
            let sr = SearchRequest { msgid, base: base.clone(), scope: scope_of(&scp), filter: filter.clone(), attrs: req.clone() };
            let (tk, tu) = W::tok_proj(&w.conn);
            let dg0 = w.digest_before().await;
            let r = w.do_op(ServerOps::Search(sr.clone()), w.conn.clone()).await;
            let mut ab = false;
            let (res, code, ents) = match r {
                Ok(LdapResponseState::MultiPartResponse(v)) => proj_search(&v),
                Ok(LdapResponseState::BindMultiPartResponse(lbt, v)) => {
                    ab = true;
                    w.conn = Some(lbt);
                    proj_search(&v)
                }
                Ok(LdapResponseState::Respond(m)) => {
                    let (_, c, _) = proj_search(std::slice::from_ref(&m));
                    ("err".to_string(), c, vec![])
                }
                Ok(_) => ("err".to_string(), "unexpected-state".to_string(), vec![]),
                Err(e) => (if e == "panic" { "panic".to_string() } else { "err".to_string() }, e, vec![]),
            };
            let dl = drain_all(&mut w.srv, t(w.k)).await;
            // mapped attribute request (input of the native search), as do_search computes it
            let lreq: Vec<String> = req.iter().map(|a| a.to_lowercase()).collect();
            let kall = req.is_empty() || lreq.iter().any(|a| a == "*" || a == "+") || (lreq.len() == 1 && lreq[0] == "1.1");
            let kset: BTreeSet<Attribute> = lreq.iter().filter(|a| *a != "*" && *a != "+" && *a != "1.1").map(|a| kl::map_req_attr(a)).collect();
            let mut kreq: Vec<String> = if kall { vec![] } else { kset.iter().map(|a| a.to_string()).collect() };
            kreq.sort();
            // native search by the same effective identity
            let source = if ab { Source::Internal } else { Source::Ldaps(ip()) };
            let (mut nres, mut nat, mut eid, mut sc) = ("skip".to_string(), Vec::<J>::new(), "".to_string(), "".to_string());
            if let Some(lbt) = w.conn.clone() {
                let mut pr = w.srv.idms.proxy_read().await.expect("proxy_read");
                match pr.validate_ldap_session(&lbt.effective_session, source, now()) {
                    Err(_) => {
                        nres = "iderr".into();
                        eid = "err".into();
                        sc = "err".into();
                    }
                    Ok(id) => {
                        eid = nm(id.get_uuid());
                        sc = scope_str(&id);
                        let attrs = if kall { None } else { Some(kset.clone()) };
                        match kl::native_search(&mut pr.qs_read, id, &filter, attrs) {
                            Err(e) => nres = format!("err:{e:?}").chars().take(60).collect(),
                            Ok(v) => {
                                nres = "ok".into();
                                for (u, names) in v {
                                    let rdn = pr.qs_read.uuid_to_rdn(u).unwrap_or_else(|_| format!("!{u}"));
                                    let cls: Vec<String> = pr
                                        .qs_read
                                        .internal_search_uuid(u)
                                        .ok()
                                        .map(|e| ava_strings(&e, Attribute::Class))
                                        .unwrap_or_default();
                                    nat.push(json!({"dn": rdn, "u": nm(u), "at": names, "c": cls}));
                                }
                                nat.sort_by(|a, b| a["dn"].as_str().cmp(&b["dn"].as_str()));
                            }
                        }
                    }
                }
            }
            // the identical search on a fresh anonymous bind
            let (mut ares, mut anon) = ("skip".to_string(), Vec::<J>::new());
            if let Some(at) = w.anon_token().await {
                let mut sr2 = sr.clone();
                sr2.msgid = 0;
                match w.do_op(ServerOps::Search(sr2), Some(at)).await {
                    Ok(LdapResponseState::MultiPartResponse(v)) => {
                        let (r2, _, e2) = proj_search(&v);
                        ares = r2;
                        anon = e2;
                    }
                    Ok(_) => ares = "err".into(),
                    Err(e) => ares = if e == "panic" { "panic".into() } else { "err".into() },
                }
                drain_all(&mut w.srv, t(w.k)).await;
            }
            let dg1 = w.digest().await;
            let bk = if base == BASEDN {
                "dom"
            } else if base.is_empty() {
                "root"
            } else if base.starts_with("app=") && base.matches(',').count() == 2 && base.ends_with(&format!(",{BASEDN}")) {
                "app"
            } else {
                "other"
            };
            tr.emit(&json!({"a":"search","base":base,"bk":bk,"scp":scp,"f":ftxt,"req":lreq,"kall":kall,"kreq":kreq,
                "tk":tk,"tu":tu,"ab":ab,"res":res,"code":code,"ents":ents,"eid":eid,"sc":sc,
                "nres":nres,"nat":nat,"ares":ares,"anon":anon,"dg0":dg0,"dg1":dg1,"dl":dl}));
        }
        "compare" => {
            let (dn, at, val) = (s("dn"), s("at"), s("val"));
            let cr = CompareRequest { msgid, entry: dn.clone(), atype: at.clone(), val: val.clone() };
            let (tk, tu) = W::tok_proj(&w.conn);
            let dg0 = w.digest_before().await;
            let r = w.do_op(ServerOps::Compare(cr.clone()), w.conn.clone()).await;
            let mut ab = false;
            let cls = |v: &[LdapMsg]| -> (String, String) {
                match v.first().map(|m| &m.op) {
                    Some(LdapOp::CompareResult(r)) => {
                        let c = code_str(&r.code);
                        let res = match r.code {
                            LdapResultCode::CompareTrue => "true",
                            LdapResultCode::CompareFalse => "false",
                            LdapResultCode::NoSuchObject => "nosuch",
                            _ => "err",
                        };
                        (res.to_string(), c)
                    }
                    _ => ("err".to_string(), "unexpected".to_string()),
                }
            };
            let (res, code) = match r {
                Ok(LdapResponseState::MultiPartResponse(v)) => cls(&v),
                Ok(LdapResponseState::BindMultiPartResponse(lbt, v)) => {
                    ab = true;
                    w.conn = Some(lbt);
                    cls(&v)
                }
                Ok(LdapResponseState::Respond(m)) => {
                    let (_, c) = cls(std::slice::from_ref(&m));
                    ("err".to_string(), c)
                }
                Ok(_) => ("err".to_string(), "unexpected-state".to_string()),
                Err(e) => (if e == "panic" { "panic".to_string() } else { "err".to_string() }, e),
            };
            let dl = drain_all(&mut w.srv, t(w.k)).await;
            let mut ares = "skip".to_string();
            if let Some(atok) = w.anon_token().await {
                ares = match w.do_op(ServerOps::Compare(cr), Some(atok)).await {
                    Ok(LdapResponseState::MultiPartResponse(v)) => cls(&v).0,
                    Ok(LdapResponseState::Respond(_)) => "err".into(),
                    Ok(_) => "err".into(),
                    Err(e) => if e == "panic" { "panic".into() } else { "err".into() },
                };
                drain_all(&mut w.srv, t(w.k)).await;
            }
            let dg1 = w.digest().await;
            tr.emit(&json!({"a":"compare","dn":dn,"at":at,"val":val,"tk":tk,"tu":tu,"ab":ab,"res":res,"code":code,
                "ares":ares,"dg0":dg0,"dg1":dg1,"dl":dl}));
        }
        "whoami" => {
            let (tk, tu) = W::tok_proj(&w.conn);
            let dg0 = w.digest_before().await;
            let r = w.do_op(ServerOps::Whoami(WhoamiRequest { msgid }), w.conn.clone()).await;
            let (res, who) = match r {
                Ok(LdapResponseState::Respond(m)) => match &m.op {
                    LdapOp::ExtendedResponse(x) if x.res.code == LdapResultCode::Success => (
                        "ok".to_string(),
                        x.value.as_ref().map(|v| String::from_utf8_lossy(v).to_string()).unwrap_or_default(),
                    ),
                    LdapOp::ExtendedResponse(x) if x.res.code == LdapResultCode::OperationsError => ("operr".to_string(), "".to_string()),
                    _ => ("err".to_string(), "".to_string()),
                },
                Ok(_) => ("err".to_string(), "".to_string()),
                Err(e) => (if e == "panic" { "panic".to_string() } else { "err".to_string() }, "".to_string()),
            };
            let dl = drain_all(&mut w.srv, t(w.k)).await;
            let dg1 = w.digest().await;
            tr.emit(&json!({"a":"whoami","tk":tk,"tu":tu,"res":res,"who":who,"dg0":dg0,"dg1":dg1,"dl":dl}));
        }
        "unbind" => {
            let (tk, tu) = W::tok_proj(&w.conn);
            let dg0 = w.digest_before().await;
            let r = w.do_op(ServerOps::Unbind(UnbindRequest), w.conn.clone()).await;
            let res = match r {
                Ok(LdapResponseState::Unbind) => {
                    w.conn = None; // connection closed; the next operation is on a new connection
                    "closed".to_string()
                }
                Ok(_) => "err".to_string(),
                Err(e) => if e == "panic" { "panic".to_string() } else { "err".to_string() },
            };
            let dl = drain_all(&mut w.srv, t(w.k)).await;
            let dg1 = w.digest().await;
            tr.emit(&json!({"a":"unbind","tk":tk,"tu":tu,"res":res,"dg0":dg0,"dg1":dg1,"dl":dl}));
        }
        "wop" => {
            // protocol operations that would change content: ldap3_proto's ServerOps has no variant for them
            let opn = s("op");
            let target = format!("name=u1,{BASEDN}");
            let lop = match opn.as_str() {
                "add" => LdapOp::AddRequest(LdapAddRequest {
                    dn: format!("name=evil,{BASEDN}"),
                    attributes: vec![LdapAttribute { atype: "class".into(), vals: vec![b"person".to_vec()] }],
                }),
                "modify" => LdapOp::ModifyRequest(LdapModifyRequest {
                    dn: target,
                    changes: vec![LdapModify {
                        operation: LdapModifyType::Replace,
                        modification: LdapPartialAttribute { atype: "displayname".into(), vals: vec![b"changed".to_vec()] },
                    }],
                }),
                "delete" => LdapOp::DelRequest(target),
                "moddn" => LdapOp::ModifyDNRequest(LdapModifyDNRequest { dn: target, newrdn: "name=u9".into(), deleteoldrdn: true, new_superior: None }),
                "passwd" => LdapOp::ExtendedRequest(LdapExtendedRequest { name: "1.3.6.1.4.1.4203.1.11.1".into(), value: Some(b"x".to_vec()) }),
                _ => LdapOp::AbandonRequest(1),
            };
            let (tk, tu) = W::tok_proj(&w.conn);
            let dg0 = w.digest_before().await;
            let msg = LdapMsg { msgid, op: lop, ctrl: vec![] };
            let res = match ServerOps::try_from(msg) {
                Err(()) => "noserverop".to_string(),
                Ok(op) => match w.do_op(op, w.conn.clone()).await {
                    Ok(_) => "served".to_string(),
                    Err(e) => e,
                },
            };
            let dl = drain_all(&mut w.srv, t(w.k)).await;
            let dg1 = w.digest().await;
            tr.emit(&json!({"a":"wop","op":opn,"tk":tk,"tu":tu,"res":res,"dg0":dg0,"dg1":dg1,"dl":dl}));
        }
        other => {
            eprintln!("TOOL-ERROR unknown action {other}");
            std::process::exit(2);
        }
    }
}

async fn reset(act: &J, tr: &mut Tracer) -> W {
    let flag = act["flag"].as_str().unwrap_or("unset").to_string();
    let mut w = W::build(&flag).await;
    let mut o = act.clone();
    o["a"] = json!("reset");
    o["dg"] = json!(w.digest().await);
    tr.emit(&o);
    w
}

// ------------------------------------------------------------------------------------------------
// action generators

fn bind(k: &str, form: &str, ac: &str, ap: &str, sy: &str) -> J {
    json!({"a":"bind","k":k,"form":form,"ac":ac,"ap":ap,"sy":sy,"dn":""})
}
fn bind_lit(dn: &str, sy: &str) -> J {
    json!({"a":"bind","k":"bad","form":"lit","ac":"","ap":"","sy":sy,"dn":dn})
}
fn search(base: &str, scp: &str, f: &str, req: &[&str]) -> J {
    json!({"a":"search","base":base,"scp":scp,"f":f,"req":req})
}
fn compare(dn: &str, at: &str, val: &str) -> J {
    json!({"a":"compare","dn":dn,"at":at,"val":val})
}
fn simple(a: &str) -> J {
    json!({"a":a})
}
fn cfg_flag(v: bool) -> J {
    json!({"a":"cfg","what":"flag","val":v})
}
fn cfg_mem(g: &str, ac: &str, v: bool) -> J {
    json!({"a":"cfg","what":"mem","g":g,"ac":ac,"val":v})
}

const FILTERS: &[&str] = &[
    "(objectclass=*)",
    "(class=person)",
    "(class=group)",
    "(name=u1)",
    "(uuid=e0000000-0000-4000-8000-000000000002)",
    "(&(class=account)(!(name=u1)))",
    "(|(name=u1)(name=g1))",
    "(!(class=person))",
    "(name=u*)",
    "(member=u1)",
    "(member=name=u1,dc=example,dc=com)",
    "(class=classtype)",
    "(class=attributetype)",
    "(class=access_control_profile)",
    "(mail=*)",
    "(primary_credential=*)",
    "(nonexistentattr=x)",
    "(cn=u2)",
    "(uid=u1)",
    "(entryuuid=e0000000-0000-4000-8000-000000000001)",
    "(&(objectclass=person)(mail=u1@example.com))",
    "(|(class=classtype)(name=u3))",
    "(!(name=u1))",
    "(&(class=application)(name=app1))",
    "(memberof=g1)",
    "(gidnumber=*)",
    "(name=domain_example.com)",
    "(uuid=00000000-0000-0000-0000-ffffff000025)",
    "(&(name=u1)(|(class=person)(!(class=group))))",
    "(attributename=name)",
];
const REQS: &[&[&str]] = &[
    &[],
    &["*"],
    &["+"],
    &["1.1"],
    &["cn", "uid", "entryuuid"],
    &["name", "class", "uuid"],
    &["dn"],
    &["mail", "mail;primary", "emailalternative"],
    &["objectclass", "uidnumber", "gecos", "homedirectory"],
    &["*", "cn", "homedirectory"],
    &["1.1", "name"],
    &["CN", "Uid"],
    &["entrydn", "memberof", "member"],
    &["keys", "sshpublickey", "pwdchangedtime", "email", "emailprimary", "mail;alternative", "emailaddress"],
    &["displayname", "spn", "nonexistentattr"],
];
const MANYREQ: &[&str] = &[
    "a1", "a2", "a3", "a4", "a5", "a6", "a7", "a8", "a9", "a10", "a11", "a12", "a13", "a14", "a15", "a16", "a17", "a18",
    "a19", "a20", "a21", "a22", "a23", "a24", "a25", "a26", "a27", "a28", "a29", "a30", "a31", "a32", "a33", "a34",
    "a35", "a36", "a37", "a38", "a39", "a40", "a41", "a42", "a43", "a44", "a45", "a46", "a47", "a48", "a49", "a50",
];

/// connection kinds used by the search histories: (label, bind action or None = no bind at all)
fn conn_kinds() -> Vec<(&'static str, Option<J>)> {
    vec![
        ("auto", None),
        ("anon", Some(bind("anon", "", "", "", ""))),
        ("unix", Some(bind("unix", "name", "u1", "", "ux:u1"))),
        ("app", Some(bind("app", "name", "u1", "app1", "ap:u1:app1"))),
        ("tok1", Some(bind("tok", "", "sa1", "", "tk:sa1"))),
        ("tok2", Some(bind("tok", "dntoken", "sa2", "", "tk:sa2"))),
        ("tokw", Some(bind("tok", "", "sa1", "", "tkw:sa1"))),
        ("uat", Some(bind("tok", "", "u7", "", "ua:u7"))),
    ]
}

/// H1: the bind matrix (kinds x DN forms x secrets x accounts) under the three flag settings, with
/// membership changes.  Unix binds with a wrong/empty secret go to u5 (and to accounts without a unix
/// password) only, so the wall-clock soft lock can never make a right-password bind nondeterministic.
fn matrix_history(flag0: &str) -> Vec<J> {
    let mut h = vec![json!({"a":"reset","flag":flag0,"kind":"matrix"})];
    let probe = |h: &mut Vec<J>| {
        h.push(simple("whoami"));
        h.push(search(BASEDN, "sub", "(name=u2)", &["name", "mail", "uuid"]));
        h.push(compare(&format!("name=u2,{BASEDN}"), "class", "person"));
    };
    let round = |h: &mut Vec<J>, full: bool| {
        // anonymous + token kinds
        for b in [
            bind("anon", "", "", "", ""),
            bind("tok", "", "sa1", "", "tk:sa1"),
            bind("tok", "dntoken", "sa2", "", "tk:sa2"),
            bind("tok", "", "sa1", "", "tkw:sa1"),
            bind("tok", "dntoken", "u7", "", "ua:u7"),
            bind("tok", "", "u7", "", "ua0:u7"),
            bind("tok", "", "", "", "junk"),
            bind("tok", "dntoken", "", "", "junk"),
            bind("tok", "dntoken", "", "", ""),
            bind("anonname", "name", "anonymous", "", "bad"),
            bind("anonname", "bare", "anonymous", "", ""),
        ] {
            h.push(b);
            if full {
                probe(h);
            }
            h.push(simple("unbind"));
        }
        // unix: right secrets on u1/u2 in every DN form
        for form in ["name", "bare", "spn", "spnbare", "uuid", "namedn", "baredn", "spndn", "uuiddn"] {
            h.push(bind("unix", form, "u1", "", "ux:u1"));
            if full || form == "name" {
                probe(h);
            }
            h.push(simple("unbind"));
        }
        h.push(bind("unix", "name", "u2", "", "ux:u2"));
        probe(h);
        h.push(simple("unbind"));
        // unix: wrong / empty / other account's secret
        for (ac, sy) in [("u5", "bad"), ("u5", ""), ("u5", "ux:u1"), ("u4", "bad"), ("u4", ""), ("u3", "bad"), ("u3", ""), ("u6", "ap:u6:app1"), ("sa1", "bad"), ("app1", "bad"), ("nobody", "bad"), ("nobody", "")] {
            h.push(bind("unix", "name", ac, "", sy));
            h.push(simple("whoami"));
            h.push(simple("unbind"));
        }
        // application binds: membership x has-password x secret
        for form in ["name", "bare", "spn", "namedn", "uuiddn"] {
            h.push(bind("app", form, "u1", "app1", "ap:u1:app1"));
            if full || form == "name" {
                probe(h);
            }
            h.push(simple("unbind"));
        }
        for (ac, ap, sy) in [
            ("u6", "app1", "ap:u6:app1"), // member through the nested group g2
            ("u2", "app1", "ap:u2:app1"), // has a password, not a member
            ("u2", "app1", "bad"),
            ("u2", "app1", ""),
            ("u2", "app2", "ap:u2:app1"), // member of app2's group, password belongs to app1
            ("u2", "app2", ""),
            ("u3", "app1", "bad"), // member, no password
            ("u3", "app1", ""),
            ("u3", "app1", "ap:u1:app1"),
            ("u4", "app1", "bad"), // neither
            ("u4", "app1", ""),
            ("u1", "app1", "bad"),
            ("u1", "app1", ""),
            ("u1", "app1", "ux:u1"), // the unix password is not an application password
            ("u1", "app2", "ap:u1:app1"),
            ("u1", "nosuchapp", "ap:u1:app1"),
            ("nobody", "app1", "bad"),
            ("nobody", "app1", ""),
            ("u1", "nosuchapp", ""),
            ("anonymous", "app1", "bad"),
        ] {
            h.push(bind("app", "name", ac, ap, sy));
            h.push(simple("whoami"));
            h.push(simple("unbind"));
        }
        // malformed / unknown
        for (dn, sy) in [
            ("name=nobody", "bad"),
            ("nobody", ""),
            (BASEDN, "bad"),
            (",dc=example,dc=com", "bad"),
            ("spn=u1@example.com,dc=clownshoes,dc=example,dc=com", "ux:u1"),
            ("name=u1,app=app1,dc=wrong", "ap:u1:app1"),
            ("name=u1,app=", "ap:u1:app1"),
        ] {
            h.push(bind_lit(dn, sy));
            h.push(simple("whoami"));
        }
        h.push(simple("unbind"));
    };
    round(&mut h, true);
    if flag0 == "unset" {
        // one world covers all three settings of the domain flag: unset -> off -> on
        h.push(cfg_flag(false));
        round(&mut h, false);
        h.push(cfg_flag(true));
        round(&mut h, false);
    } else {
        let other = flag0 != "off";
        h.push(cfg_flag(!other));
        round(&mut h, false);
        h.push(cfg_flag(other));
    }
    // a failed bind on a bound connection (core keeps the previous session)
    h.push(bind("tok", "", "sa1", "", "tk:sa1"));
    h.push(bind("unix", "name", "u5", "", "bad"));
    h.push(simple("whoami"));
    h.push(search(BASEDN, "sub", "(mail=*)", &["mail"]));
    h.push(simple("unbind"));
    // membership changes decide application binds; an existing session survives
    h.push(bind("app", "name", "u1", "app1", "ap:u1:app1"));
    h.push(cfg_mem("g1", "u1", false));
    h.push(search(BASEDN, "sub", "(name=u1)", &[]));
    h.push(simple("unbind"));
    h.push(bind("app", "name", "u1", "app1", "ap:u1:app1"));
    h.push(simple("whoami"));
    h.push(cfg_mem("g1", "u2", true));
    h.push(bind("app", "name", "u2", "app1", "ap:u2:app1"));
    probe(&mut h);
    h.push(simple("unbind"));
    h.push(cfg_mem("g1", "g2", false));
    h.push(bind("app", "name", "u6", "app1", "ap:u6:app1"));
    h.push(simple("whoami"));
    h.push(cfg_mem("g1", "u1", true));
    h.push(bind("app", "name", "u1", "app1", "ap:u1:app1"));
    probe(&mut h);
    h.push(simple("unbind"));
    for op in ["add", "modify", "delete", "moddn", "passwd", "abandon"] {
        h.push(json!({"a":"wop","op":op}));
    }
    h
}

/// H2: searches on every connection kind: filter pool x attribute requests (rotating in quick,
/// full product in thorough), scopes and bases, compares.
fn search_history(ci: usize, full: bool, flag0: &str) -> Vec<J> {
    let kinds = conn_kinds();
    let (label, b) = &kinds[ci % kinds.len()];
    let mut h = vec![json!({"a":"reset","flag":flag0,"kind":"search","conn":label})];
    if let Some(b) = b {
        h.push(b.clone());
    }
    h.push(simple("whoami"));
    for (fi, f) in FILTERS.iter().enumerate() {
        if full {
            for r in REQS {
                h.push(search(BASEDN, "sub", f, r));
            }
        } else {
            for j in 0..2 {
                let r = REQS[(fi * 2 + j + ci) % REQS.len()];
                h.push(search(BASEDN, "sub", f, r));
            }
        }
    }
    for (ri, r) in REQS.iter().enumerate() {
        let f = FILTERS[(ri + ci) % 10];
        h.push(search(BASEDN, "sub", f, r));
    }
    // scopes and bases
    for (base, scp) in [
        (BASEDN, "one"),
        (BASEDN, "chi"),
        (BASEDN, "base"),
        ("name=u1,dc=example,dc=com", "sub"),
        ("name=u1,dc=example,dc=com", "base"),
        ("name=u1,dc=example,dc=com", "one"),
        ("spn=u2@example.com,app=app1,dc=example,dc=com", "sub"),
        ("app=app1,dc=example,dc=com", "sub"),
        ("", "base"),
        ("", "sub"),
        ("dc=wrong,dc=com", "sub"),
        ("name=,dc=example,dc=com", "sub"),
    ] {
        h.push(search(base, scp, "(objectclass=*)", &["name", "uuid", "class"]));
        h.push(search(base, scp, "(class=person)", &[]));
    }
    h.push(search(BASEDN, "sub", "(name=u1)", MANYREQ));
    for (dn, at, val) in [
        ("name=u1,dc=example,dc=com", "class", "person"),
        ("name=u1,dc=example,dc=com", "class", "group"),
        ("name=u1,dc=example,dc=com", "mail", "u1@example.com"),
        ("name=u1,dc=example,dc=com", "primary_credential", "x"),
        ("name=nobody,dc=example,dc=com", "class", "person"),
        ("uuid=e0000000-0000-4000-8000-000000000002,dc=example,dc=com", "name", "u2"),
        ("attributename=name,dc=example,dc=com", "class", "attributetype"),
        ("name=idm_acp_account_mail_read,dc=example,dc=com", "class", "access_control_profile"),
        ("dc=example,dc=com", "class", "domain_info"),
        ("name=u1,dc=wrong", "class", "person"),
        ("name=u1,dc=example,dc=com", "nonexistentattr", "x"),
    ] {
        h.push(compare(dn, at, val));
    }
    h.push(simple("whoami"));
    h.push(simple("unbind"));
    h.push(simple("whoami"));
    h
}

fn rand_filter(rng: &mut Rng, depth: u32) -> String {
    const ATOMS: &[&str] = &[
        "(objectclass=*)", "(class=person)", "(class=group)", "(class=account)", "(class=service_account)", "(name=u1)",
        "(name=u2)", "(name=g1)", "(name=u*)", "(name=*1)", "(name=*pp*)", "(uuid=e0000000-0000-4000-8000-000000000003)",
        "(member=u1)", "(memberof=g1)", "(mail=*)", "(mail=u1@example.com)", "(class=classtype)", "(class=attributetype)",
        "(class=access_control_profile)", "(primary_credential=*)", "(unix_password=*)", "(displayname=u3)", "(cn=u4)",
        "(uid=u5)", "(gidnumber=*)", "(spn=u1@example.com)", "(spn=u1)", "(nonexistentattr=x)", "(name=anonymous)",
        "(class=domain_info)", "(attributename=mail)", "(classname=person)", "(name>=u3)", "(name<=u3)", "(linked_group=*)",
    ];
    if depth == 0 || rng.chance(2, 5) {
        return rng.pick(ATOMS).to_string();
    }
    match rng.below(3) {
        0 => format!("(!{})", rand_filter(rng, depth - 1)),
        1 => {
            let n = rng.range(1, 3);
            let parts: Vec<String> = (0..n).map(|_| rand_filter(rng, depth - 1)).collect();
            format!("(&{})", parts.join(""))
        }
        _ => {
            let n = rng.range(1, 3);
            let parts: Vec<String> = (0..n).map(|_| rand_filter(rng, depth - 1)).collect();
            format!("(|{})", parts.join(""))
        }
    }
}

fn rand_req(rng: &mut Rng) -> Vec<String> {
    const POOL: &[&str] = &[
        "*", "+", "1.1", "cn", "uid", "entryuuid", "name", "class", "uuid", "dn", "entrydn", "mail", "mail;primary",
        "mail;alternative", "emailalternative", "emailprimary", "email", "emailaddress", "objectclass", "uidnumber", "gecos",
        "homedirectory", "keys", "sshpublickey", "pwdchangedtime", "displayname", "spn", "member", "memberof", "gidnumber",
        "description", "primary_credential", "unix_password", "nonexistentattr", "linked_group", "attributename",
    ];
    if rng.chance(1, 4) {
        return REQS[rng.below(REQS.len() as u64) as usize].iter().map(|s| s.to_string()).collect();
    }
    let n = rng.below(5);
    let mut v: Vec<String> = (0..n).map(|_| rng.pick(POOL).to_string()).collect();
    v.dedup();
    v
}

/// H3: seeded random histories.
fn random_history(rng: &mut Rng, len: usize) -> Vec<J> {
    let flag0 = *rng.pick(&["on", "off", "unset"]);
    let mut h = vec![json!({"a":"reset","flag":flag0,"kind":"random"})];
    let forms = ["name", "bare", "spn", "spnbare", "uuid", "namedn", "baredn", "spndn", "uuiddn"];
    for _ in 0..len {
        let x = rng.below(100);
        let act = if x < 28 {
            match rng.below(10) {
                0 => bind("anon", "", "", "", ""),
                1 => {
                    let (ac, sy) = *rng.pick(&[("sa1", "tk:sa1"), ("sa2", "tk:sa2"), ("sa1", "tkw:sa1"), ("u7", "ua:u7"), ("u7", "ua0:u7"), ("", "junk")]);
                    bind("tok", *rng.pick(&["", "dntoken"]), ac, "", sy)
                }
                2 | 3 | 4 => {
                    // unix: the secret class is fixed per account (soft lock, see matrix_history)
                    let (ac, sy) = *rng.pick(&[
                        ("u1", "ux:u1"), ("u1", "ux:u1"), ("u2", "ux:u2"), ("u5", "bad"), ("u5", ""), ("u5", "ux:u2"), ("u4", "bad"),
                        ("u3", ""), ("u6", "bad"), ("sa1", "bad"), ("nobody", "bad"),
                    ]);
                    bind("unix", *rng.pick(&forms), ac, "", sy)
                }
                5 | 6 | 7 | 8 => {
                    let ac = *rng.pick(&["u1", "u2", "u3", "u4", "u6", "u1", "u6"]);
                    let ap = *rng.pick(&["app1", "app1", "app1", "app2", "nosuchapp"]);
                    let own = format!("ap:{ac}:{ap}");
                    let sy = match rng.below(6) {
                        0 => "bad".to_string(),
                        1 => "".to_string(),
                        2 => "ap:u1:app1".to_string(),
                        _ => own,
                    };
                    bind("app", *rng.pick(&forms), ac, ap, &sy)
                }
                _ => bind_lit(*rng.pick(&["name=nobody", BASEDN, "name=u1,app=", "x=y=z", "name=u1,dc=other"]), "bad"),
            }
        } else if x < 70 {
            let f = rand_filter(rng, 3);
            let req = rand_req(rng);
            let (base, scp) = match rng.below(12) {
                0 => (BASEDN, "one"),
                1 => (BASEDN, "base"),
                2 => (BASEDN, "chi"),
                3 => ("name=u1,dc=example,dc=com", "sub"),
                4 => ("app=app1,dc=example,dc=com", "sub"),
                5 => ("", "base"),
                _ => (BASEDN, "sub"),
            };
            json!({"a":"search","base":base,"scp":scp,"f":f,"req":req})
        } else if x < 80 {
            let dn = *rng.pick(&["name=u1,dc=example,dc=com", "name=u2,dc=example,dc=com", "name=g1,dc=example,dc=com", "name=nobody,dc=example,dc=com", "spn=u3@example.com,dc=example,dc=com", "dc=example,dc=com"]);
            let (at, val) = *rng.pick(&[("class", "person"), ("class", "group"), ("mail", "u1@example.com"), ("name", "u2"), ("member", "u1"), ("objectclass", "account"), ("primary_credential", "x")]);
            compare(dn, at, val)
        } else if x < 86 {
            simple("whoami")
        } else if x < 91 {
            simple("unbind")
        } else if x < 94 {
            cfg_flag(rng.chance(1, 2))
        } else if x < 98 {
            let (g, ac) = *rng.pick(&[("g1", "u1"), ("g1", "u2"), ("g1", "u4"), ("g2", "u6"), ("g1", "g2"), ("g3", "u2"), ("g3", "u1")]);
            cfg_mem(g, ac, rng.chance(1, 2))
        } else {
            json!({"a":"wop","op":*rng.pick(&["add", "modify", "delete", "moddn", "passwd", "abandon"])})
        };
        h.push(act);
    }
    h
}

async fn run_history(h: &[J], tr: &mut Tracer) {
    let mut w: Option<W> = None;
    for act in h {
        if act["a"] == "reset" {
            w = Some(reset(act, tr).await);
        } else {
            match w.as_mut() {
                Some(w) => exec(w, act, tr).await,
                None => {
                    eprintln!("TOOL-ERROR history does not start with a reset line");
                    std::process::exit(2);
                }
            }
        }
    }
}

pub fn run(o: &Opts) -> i32 {
    let out = o.str("out", "/verif/work/C40/obs.ndjson");
    let mut tr = Tracer::create(&out);
    let rt = runtime();
    let t0 = std::time::Instant::now();
    if let Some(rp) = o.get("replay") {
        let acts = read_ndjson(rp);
        rt.block_on(run_history(&acts, &mut tr));
        println!("OBSERVED lines={} out={out}", tr.finish());
        return 0;
    }
    if o.flag("debug-classes") {
        rt.block_on(async {
            let w = W::build("on").await;
            let mut pr = w.srv.idms.proxy_read().await.expect("pr");
            let mut h: BTreeMap<String, usize> = BTreeMap::new();
            for e in search_all(&mut pr.qs_read) {
                for c in ava_strings(&e, Attribute::Class) {
                    *h.entry(c).or_default() += 1;
                }
            }
            println!("{h:?}");
            let sa2 = pr.qs_read.internal_search_uuid(uu("sa2").expect("sa2")).expect("sa2");
            println!("sa2 memberof {:?}", ava_strings(&sa2, Attribute::MemberOf));
        });
        return 0;
    }
    let thorough = o.str("tier", "quick") == "thorough";
    let mut rng = Rng::new(o.seed());
    rt.block_on(async {
        let flags = ["unset", "on", "off"];
        let nmat = if thorough { 3 } else { 1 };
        for i in 0..nmat {
            run_history(&matrix_history(flags[i]), &mut tr).await;
        }
        let nk = conn_kinds().len();
        let rounds = if thorough { 1 } else { 1 };
        for r in 0..rounds {
            for ci in 0..nk {
                run_history(&search_history(ci, thorough, flags[(ci + r) % 3]), &mut tr).await;
            }
        }
        let nrand = o.u64("random", if thorough { 60 } else { 8 });
        let len = o.u64("len", 40) as usize;
        for _ in 0..nrand {
            let h = random_history(&mut rng, len);
            run_history(&h, &mut tr).await;
        }
    });
    let n = tr.finish();
    println!("OBSERVED lines={n} out={out} secs={:.1}", t0.elapsed().as_secs_f64());
    0
}
