#!/bin/sh
# Run once in /verif after a fresh restore, offline: build the framework from files on disk only.
set -e
cd /verif
export CARGO_NET_OFFLINE=true
mkdir -p work evidence
cp /repo/Cargo.lock harness/Cargo.lock
(cd harness && cargo build --offline --workspace 2>&1 | tail -3)
# syntax/semantic check of every specification
fail=0
for f in spec/*.tla; do
  case "$f" in *Proof.tla) continue;; esac   # TLAPS proof modules are checked by tlapm (C10 / C11), SANY has no TLAPS.tla
  if ! tla-sany "$f" >/dev/null 2>work/sany.err; then
    if ! (cd spec && tla-sany "$(basename $f)" > ../work/sany.out 2>&1); then echo "SANY failed: $f"; tail -5 work/sany.out; fail=1; fi
  fi
done
[ $fail = 0 ] && echo "setup ok"
exit $fail
