//! Group `auth` accessors (C27 C28 C29 C31 C35 C37): thin wrappers over crate-private items.
//! Compiled INSIDE kanidmd_lib (feature `verif-hooks`). No behaviour of their own.
#![allow(dead_code, unused_imports, clippy::unwrap_used, clippy::expect_used, clippy::panic, clippy::indexing_slicing, clippy::needless_pass_by_value, missing_docs)]

use crate::credential::softlock::{CredSoftLock, CredSoftLockPolicy};
use crate::credential::totp::{Totp, TotpAlgo, TotpDigits};
use crate::credential::{BackupCodes, Credential};
use crate::idm::account::Account;
use crate::idm::accountpolicy::{AccountPolicy, ResolvedAccountPolicy};
use crate::idm::server::IdmServer;
use crate::prelude::*;
use crate::value::IntentTokenState;
use std::sync::Arc;
use std::time::Duration;
use webauthn_rs::prelude::AttestationCaList;

// ------------------------------------------------------------------------------------ C28

/// Projection of a `CredSoftLock`: (kind, count, reset_at, unlock_at, last_expire_at), seconds.
/// kind is "init" | "locked" | "unlocked". Obtained from the derived `Debug` output because the
/// state enum and its fields are private to softlock.rs.
#[derive(Debug, Clone, PartialEq, Eq)]
pub struct SoftLockProj {
    pub kind: &'static str,
    pub count: u64,
    pub reset_at: u64,
    pub unlock_at: u64,
    pub last_expire_at: u64,
    pub valid: bool,
}

fn dur_secs(tok: &str) -> Option<u64> {
    // Debug of a whole-second Duration is "<n>s"; zero is "0ns".
    let t = tok.trim().trim_end_matches(',');
    if t == "0ns" {
        return Some(0);
    }
    let n = t.strip_suffix('s')?;
    if n.ends_with(|c: char| c.is_ascii_alphabetic()) || n.contains('.') {
        return None; // ms / µs / ns / fractional: not produced by whole-second drivers
    }
    n.parse().ok()
}

fn field<'a>(s: &'a str, name: &str) -> Option<&'a str> {
    let i = s.find(name)? + name.len();
    let rest = &s[i..];
    let end = rest.find(|c: char| c == ',' || c == '}' || c == ')').unwrap_or(rest.len());
    Some(rest[..end].trim())
}

fn proj_softlock(sl: &CredSoftLock) -> Option<SoftLockProj> {
    let d = format!("{sl:?}");
    let le = dur_secs(field(&d, "last_expire_at: ")?)?;
    let valid = sl.is_valid();
    // state: Init | Locked { count: N, reset_at: Ds, unlock_at: Ds } | Unlocked(N, Ds)
    let st = &d[d.find("state: ")? + 7..];
    if st.starts_with("Init") {
        Some(SoftLockProj { kind: "init", count: 0, reset_at: 0, unlock_at: 0, last_expire_at: le, valid })
    } else if st.starts_with("Locked") {
        Some(SoftLockProj {
            kind: "locked",
            count: field(st, "count: ")?.parse().ok()?,
            reset_at: dur_secs(field(st, "reset_at: ")?)?,
            unlock_at: dur_secs(field(st, "unlock_at: ")?)?,
            last_expire_at: le,
            valid,
        })
    } else if st.starts_with("Unlocked(") {
        let inner = &st[9..st.find(')')?];
        let (a, b) = inner.split_once(',')?;
        Some(SoftLockProj {
            kind: "unlocked",
            count: a.trim().parse().ok()?,
            reset_at: dur_secs(b)?,
            unlock_at: 0,
            last_expire_at: le,
            valid,
        })
    } else {
        None
    }
}

/// A real `CredSoftLock` driven directly.
#[derive(Clone)]
pub struct SoftLockH(CredSoftLock);

impl SoftLockH {
    /// policy: "password" | "totp" (with step)
    pub fn new(policy: &str, step: u64) -> Self {
        let p = match policy {
            "password" => CredSoftLockPolicy::Password,
            "totp" => CredSoftLockPolicy::Totp(step),
            "webauthn" => CredSoftLockPolicy::Webauthn,
            _ => CredSoftLockPolicy::Unrestricted,
        };
        SoftLockH(CredSoftLock::new(p))
    }
    pub fn time_step(&mut self, ct: u64, expire_at: Option<u64>) {
        self.0.apply_time_step(Duration::from_secs(ct), expire_at.map(Duration::from_secs))
    }
    pub fn fail(&mut self, ct: u64) {
        self.0.record_failure(Duration::from_secs(ct))
    }
    pub fn is_valid(&self) -> bool {
        self.0.is_valid()
    }
    pub fn proj(&self) -> Option<SoftLockProj> {
        proj_softlock(&self.0)
    }
}

/// The soft lock the server holds for credential `cred` (None: the server has none yet).
pub async fn server_softlock(idms: &IdmServer, cred: Uuid) -> Option<SoftLockProj> {
    let txn = idms.auth().await.ok()?;
    let slock_ref = {
        let r = txn.softlocks.read();
        r.get(&cred).cloned()
    }?;
    let g = slock_ref.lock().await;
    proj_softlock(&g)
}

// ------------------------------------------------------------------------------------ C35

#[derive(Debug, Clone)]
pub struct ResolvedOut {
    pub privilege_expiry: u32,
    pub authsession_expiry: u32,
    pub pw_min_length: u32,
    pub pw_max_length: u32,
    pub credential_policy: u16,
    /// None = no attestation list; Some(list of (ca key id hex, blanket_allow, device ids))
    pub ca_list: Option<CaProj>,
}

pub type CaProj = Vec<(String, bool, Vec<Uuid>)>;

fn ca_proj(l: &AttestationCaList) -> CaProj {
    l.cas()
        .iter()
        .map(|(kid, ca)| {
            let k: String = kid.iter().map(|b| format!("{b:02x}")).collect();
            (k, ca.blanket_allow(), ca.aaguids().keys().copied().collect())
        })
        .collect()
}

/// Build an attestation CA list value from (ca pem, None = blanket | Some(device ids)).
pub fn ca_list_value(cas: &[(String, Option<Vec<Uuid>>)]) -> Result<Value, String> {
    use webauthn_rs_core::proto::AttestationCaListBuilder;
    let mut acc = AttestationCaList::default();
    for (pem, devs) in cas {
        match devs {
            None => {
                let l = AttestationCaList::try_from(pem.as_bytes()).map_err(|e| format!("{e:?}"))?;
                acc.union(&l);
            }
            Some(ds) => {
                let mut b = AttestationCaListBuilder::new();
                for d in ds {
                    b.insert_device_pem(pem.as_bytes(), *d, d.to_string(), Default::default())
                        .map_err(|e| format!("{e:?}"))?;
                }
                acc.union(&b.build());
            }
        }
    }
    Ok(Value::WebauthnAttestationCaList(acc))
}

/// key id (hex) under which a CA certificate appears in lists
pub fn ca_kid(pem: &str) -> Result<String, String> {
    let l = AttestationCaList::try_from(pem.as_bytes()).map_err(|e| format!("{e:?}"))?;
    Ok(ca_proj(&l).into_iter().next().map(|x| x.0).unwrap_or_default())
}

fn resolved_out(r: &ResolvedAccountPolicy) -> ResolvedOut {
    ResolvedOut {
        privilege_expiry: r.privilege_expiry(),
        authsession_expiry: r.authsession_expiry(),
        pw_min_length: r.pw_min_length(),
        pw_max_length: r.pw_max_length(),
        credential_policy: r.credential_policy() as u16,
        ca_list: r.webauthn_attestation_ca_list().map(ca_proj),
    }
}

/// `ResolvedAccountPolicy::fold_from` over the group entries IN THE GIVEN ORDER, converting each
/// entry exactly as `idm::group::load_account_policy` does.
pub fn fold_policy_entries(entries: &[Arc<EntrySealedCommitted>]) -> ResolvedOut {
    let r = ResolvedAccountPolicy::fold_from(entries.iter().filter_map(|entry| {
        let acc_pol: Option<AccountPolicy> = entry.as_ref().into();
        acc_pol
    }));
    resolved_out(&r)
}

/// The policy the server resolves for an account entry (through its memberof), read side.
pub fn account_policy_read(
    qs: &mut QueryServerReadTransaction<'_>,
    entry: &EntrySealedCommitted,
) -> Result<ResolvedOut, OperationError> {
    Account::try_from_entry_with_policy(entry, qs).map(|(_, r)| resolved_out(&r))
}

// ------------------------------------------------------------------------------------ credentials (C27 C28 C31 C37)

pub fn totp_new(secret: Vec<u8>, step: u64, algo: &str, digits: u8) -> Totp {
    let a = match algo {
        "sha1" => TotpAlgo::Sha1,
        "sha256" => TotpAlgo::Sha256,
        _ => TotpAlgo::Sha512,
    };
    let d = if digits == 8 { TotpDigits::Eight } else { TotpDigits::Six };
    Totp::new(secret, step, a, d)
}

pub fn cred_uuid(c: &Credential) -> Uuid {
    c.uuid
}

pub fn cred_kind(c: &Credential) -> &'static str {
    use crate::credential::CredentialType as T;
    match &c.type_ {
        T::Password(_) => "password",
        T::GeneratedPassword(_) => "generated",
        T::PasswordMfa(_, totp, wan, bc) => match (totp.is_empty(), wan.is_empty(), bc.is_some()) {
            (false, _, true) => "pw_totp_backup",
            (false, _, false) => "pw_totp",
            (true, false, _) => "pw_seckey",
            (true, true, true) => "pw_backup",
            (true, true, false) => "pw_mfa_empty",
        },
        T::Webauthn(_) => "webauthn",
    }
}

/// password credential extended with a TOTP (label "t") and/or backup codes, as the credential
/// update session would build it.
pub fn cred_build(
    policy: &kanidm_lib_crypto::CryptoPolicy,
    pw: &str,
    totp: Option<Totp>,
    backup: Option<Vec<String>>,
    ts: Duration,
) -> Result<Credential, OperationError> {
    let odt = time::OffsetDateTime::UNIX_EPOCH + ts;
    let mut c = Credential::new_password_only(policy, pw, odt)?;
    if let Some(t) = totp {
        c = c.append_totp("t".to_string(), t, odt);
    }
    if let Some(codes) = backup {
        c = c.update_backup_code(BackupCodes::new(codes.into_iter().collect()), odt)?;
    }
    Ok(c)
}

/// (intent id, state name, session id if in progress) of every reset link stored on the entry.
pub fn intent_states(e: &EntrySealedCommitted) -> Vec<(String, &'static str, Option<Uuid>)> {
    e.get_ava_set(Attribute::CredentialUpdateIntentToken)
        .and_then(|vs| vs.as_intenttoken_map())
        .map(|m| {
            m.iter()
                .map(|(k, v)| match v {
                    IntentTokenState::Valid { .. } => (k.clone(), "valid", None),
                    IntentTokenState::InProgress { session_id, .. } => (k.clone(), "inprogress", Some(*session_id)),
                    IntentTokenState::Consumed { .. } => (k.clone(), "consumed", None),
                })
                .collect()
        })
        .unwrap_or_default()
}
