//! Group `txn` (C04 C05 C06 C07): accessors + the storage fault/crash injector (hook H2) and the
//! pause-point dispatcher (hook H3). Compiled INSIDE kanidmd_lib (feature `verif-hooks`).
//! Everything here is inert unless the harness arms it: `storage_point` returns Ok(()) and
//! `pause` returns immediately.
#![allow(dead_code, unused_imports, clippy::unwrap_used, clippy::expect_used, clippy::panic, clippy::indexing_slicing, clippy::needless_pass_by_value, missing_docs)]

use crate::be::BackendTransaction;
use crate::prelude::*;
use std::sync::atomic::{AtomicBool, AtomicU64, AtomicU8, Ordering};
use std::sync::{Arc, Mutex, RwLock};
use std::time::Duration;

// ------------------------------------------------------------------------------------ accessors

/// The change identifier assigned to an open write transaction (`QueryServer::write`).
pub fn txn_cid(w: &QueryServerWriteTransaction<'_>) -> Cid {
    w.get_txn_cid().clone()
}

/// Persisted maximum change timestamp as a WRITE transaction sees it (in-memory `op_ts_max` cell
/// first, then SQLite); `None` is reported as `default`.
pub fn write_ts_max(w: &mut QueryServerWriteTransaction<'_>, default: Duration) -> Result<Duration, OperationError> {
    w.get_be_txn().get_db_ts_max(default)
}

/// The server's own consistency check, through an existing read transaction, as strings.
pub fn verify(r: &mut QueryServerReadTransaction<'_>) -> Vec<String> {
    r.verify()
        .into_iter()
        .filter_map(|x| x.err())
        .map(|e| format!("{e:?}"))
        .collect()
}

/// Every index / lookup table that exists in the database with its size: (table name, number of
/// keys, total number of entry ids over all keys). Straight from SQLite (no cache).
pub fn index_tables(r: &mut QueryServerReadTransaction<'_>) -> Result<Vec<(String, usize, usize)>, OperationError> {
    let be = r.get_be_txn();
    let mut names = be.list_indexes()?;
    names.sort();
    let mut out = Vec::with_capacity(names.len());
    for n in names {
        // the lookup tables (name2uuid, uuid2spn, ...) have another shape: presence only (0, 0)
        match be.list_index_content(&n) {
            Ok(content) => {
                let ids: usize = content.iter().map(|(_, idl)| idl.len()).sum();
                out.push((n, content.len(), ids));
            }
            Err(_) => out.push((n, 0, 0)),
        }
    }
    Ok(out)
}

/// The BACKEND's own consistency check (allids / entry ids, `verify_indexes`: every index the
/// metadata expects exists and agrees with the entries, RUV) through an existing read
/// transaction; works on a bare reopened server because it involves no plugin and no schema.
pub fn be_verify(r: &mut QueryServerReadTransaction<'_>) -> Vec<String> {
    r.get_be_txn()
        .verify()
        .into_iter()
        .filter_map(|x| x.err())
        .map(|e| format!("{e:?}"))
        .collect()
}

/// The replication update vector as a READ transaction holds it: (number of change ids in it, greatest
/// change timestamp in it).
pub fn reader_ruv(r: &mut QueryServerReadTransaction<'_>) -> (usize, Duration) {
    use crate::repl::ruv::ReplicationUpdateVectorTransaction;
    let ruv = r.get_be_txn().get_ruv();
    let snap = ruv.ruv_snapshot();
    let mut n = 0usize;
    let mut max = Duration::ZERO;
    for (cid, _) in snap.iter() {
        n += 1;
        if cid.ts > max {
            max = cid.ts;
        }
    }
    (n, max)
}

/// The index metadata a READ transaction resolves filters with: (number of index keys, whether any
/// index on `attr` is among them).
pub fn reader_idxmeta(r: &mut QueryServerReadTransaction<'_>, attr: &str) -> (usize, bool) {
    let m = r.get_be_txn().get_idxmeta_ref();
    let has = m.idxkeys.keys().any(|k| k.attr.as_str() == attr);
    (m.idxkeys.len(), has)
}

// --------------------------------------------------------------------- H2: storage fault injector
//
// Call sites: `#[cfg(feature = "verif-hooks")] crate::verif::txn::storage_point("name")?;` before each
// SQLite write statement and before COMMIT. Modes:
//   OFF    inert
//   COUNT  count and record the names of the points passed (dry run)
//   FAULT  the N-th point returns Err(OperationError::SqliteError); later points pass
//   CRASH  the N-th point calls std::process::abort()
const OFF: u8 = 0;
const COUNT: u8 = 1;
const FAULT: u8 = 2;
const CRASH: u8 = 3;

static MODE: AtomicU8 = AtomicU8::new(OFF);
static SEEN: AtomicU64 = AtomicU64::new(0);
static TARGET: AtomicU64 = AtomicU64::new(0);
static FIRED: Mutex<Option<(u64, &'static str)>> = Mutex::new(None);
static NAMES: Mutex<Vec<&'static str>> = Mutex::new(Vec::new());

fn arm(mode: u8, target: u64) {
    SEEN.store(0, Ordering::SeqCst);
    TARGET.store(target, Ordering::SeqCst);
    *FIRED.lock().unwrap() = None;
    NAMES.lock().unwrap().clear();
    MODE.store(mode, Ordering::SeqCst);
}
/// Dry run: count storage points and remember their names.
pub fn arm_count() {
    arm(COUNT, 0)
}
/// The `n`-th (1-based) storage point from now on fails with `SqliteError`.
pub fn arm_fault(n: u64) {
    arm(FAULT, n)
}
/// The `n`-th (1-based) storage point from now on aborts the process.
pub fn arm_crash(n: u64) {
    arm(CRASH, n)
}
/// Disarm; returns (points seen, names of the points seen, the point that fired if any).
pub fn disarm() -> (u64, Vec<&'static str>, Option<(u64, &'static str)>) {
    MODE.store(OFF, Ordering::SeqCst);
    let names = std::mem::take(&mut *NAMES.lock().unwrap());
    (SEEN.load(Ordering::SeqCst), names, FIRED.lock().unwrap().take())
}

/// Number of points passed since arming (lets the harness split operation phase / commit phase).
pub fn seen() -> u64 {
    SEEN.load(Ordering::SeqCst)
}

pub fn storage_point(name: &'static str) -> Result<(), OperationError> {
    let mode = MODE.load(Ordering::Relaxed);
    if mode == OFF {
        return Ok(());
    }
    let k = SEEN.fetch_add(1, Ordering::SeqCst) + 1;
    NAMES.lock().unwrap().push(name);
    if k == TARGET.load(Ordering::SeqCst) {
        match mode {
            FAULT => {
                *FIRED.lock().unwrap() = Some((k, name));
                return Err(OperationError::SqliteError);
            }
            CRASH => {
                // the parent learns the point from the child's stderr
                eprintln!("VERIF-CRASH-AT {k} {name}");
                std::process::abort();
            }
            _ => {}
        }
    }
    Ok(())
}

/// A point where the process may die but no error can be returned (after the durable COMMIT,
/// before the in-memory publications): counted, and fatal in CRASH mode only.
pub fn crash_point(name: &'static str) {
    let mode = MODE.load(Ordering::Relaxed);
    if mode == OFF {
        return;
    }
    let k = SEEN.fetch_add(1, Ordering::SeqCst) + 1;
    NAMES.lock().unwrap().push(name);
    if mode == CRASH && k == TARGET.load(Ordering::SeqCst) {
        eprintln!("VERIF-CRASH-AT {k} {name}");
        std::process::abort();
    }
}

// ------------------------------------------------------------------------ H3: pause dispatcher
//
// Call sites: `#[cfg(feature = "verif-hooks")] crate::verif::txn::pause("label");` between snapshot
// acquisitions in read() and between publications in commit(). The harness installs a handler that
// blocks the calling thread until its schedule lets the step labelled `label` proceed.
type Handler = Arc<dyn Fn(&'static str) + Send + Sync>;
static PAUSE_ON: AtomicBool = AtomicBool::new(false);
static HANDLER: RwLock<Option<Handler>> = RwLock::new(None);

pub fn set_pause_handler(h: Option<Handler>) {
    let on = h.is_some();
    *HANDLER.write().unwrap() = h;
    PAUSE_ON.store(on, Ordering::SeqCst);
}

pub fn pause(label: &'static str) {
    if !PAUSE_ON.load(Ordering::Relaxed) {
        return;
    }
    let h = HANDLER.read().unwrap().clone();
    if let Some(h) = h {
        h(label)
    }
}
