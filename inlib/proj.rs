#![allow(dead_code, unused_imports, clippy::unwrap_used, clippy::expect_used, clippy::panic, clippy::indexing_slicing, missing_docs)]
use crate::prelude::*;
use crate::repl::entry::State;
use serde_json::{json, Map, Value as J};
use std::sync::Arc;

const MODEL_BASE: u128 = 0xe000_0000_0000_4000_8000_0000_0000_0000u128;

/// model entry number -> concrete uuid in the dynamic (user) range
pub fn uuid_e(n: u64) -> Uuid {
    Uuid::from_u128(MODEL_BASE + n as u128)
}
/// inverse of uuid_e for projection ("e<n>"), or the uuid text if it is not a model uuid
pub fn name_of(u: Uuid) -> String {
    let v = u.as_u128();
    if (MODEL_BASE..MODEL_BASE + 100_000).contains(&v) {
        format!("e{}", v - MODEL_BASE)
    } else {
        u.to_string()
    }
}

/// Liveness class of a stored entry as the models name it.
pub fn liveness(e: &EntrySealedCommitted) -> &'static str {
    match e.get_changestate().current() {
        State::Tombstone { .. } => "tombstone",
        State::Live { .. } => {
            if e.attribute_equality(Attribute::Class, &EntryClass::Tombstone.into()) {
                "tombstone"
            } else if e.attribute_equality(Attribute::Class, &EntryClass::Conflict.into()) {
                "conflict"
            } else if e.attribute_equality(Attribute::Class, &EntryClass::Recycled.into()) {
                "recycled"
            } else {
                "live"
            }
        }
    }
}

/// All values of an attribute in their proto string form, sorted.
pub fn ava_strings(e: &EntrySealedCommitted, a: Attribute) -> Vec<String> {
    let mut v: Vec<String> = e
        .get_ava_set(a)
        .map(|vs| vs.to_proto_string_clone_iter().collect())
        .unwrap_or_default();
    v.sort();
    v
}

/// Reference-valued attribute as model names ("e<n>") / uuid strings, sorted.
pub fn ava_refs(e: &EntrySealedCommitted, a: Attribute) -> Vec<String> {
    let mut v: Vec<String> = e
        .get_ava_as_refuuid(a)
        .map(|it| it.map(name_of).collect())
        .unwrap_or_default();
    v.sort();
    v
}

pub fn cid_json(c: &Cid) -> J {
    // nanoseconds do not fit TLC's 32-bit ints: split into seconds and nanos
    json!({"s": c.ts.as_secs(), "n": c.ts.subsec_nanos(), "srv": c.s_uuid.to_string()})
}

/// Full projection of one entry: liveness, every attribute (proto strings), change state.
pub fn dump_entry(e: &EntrySealedCommitted) -> J {
    let mut attrs = Map::new();
    for (a, vs) in e.get_ava_iter() {
        let mut v: Vec<String> = vs.to_proto_string_clone_iter().collect();
        v.sort();
        attrs.insert(a.to_string(), json!(v));
    }
    let cs = e.get_changestate();
    let (at, changes) = match cs.current() {
        State::Tombstone { at } => (cid_json(at), J::Null),
        State::Live { at, changes } => {
            let mut m = Map::new();
            for (a, c) in changes.iter() {
                m.insert(a.to_string(), cid_json(c));
            }
            (cid_json(at), J::Object(m))
        }
    };
    json!({"uuid": e.get_uuid().to_string(), "id": name_of(e.get_uuid()), "live": liveness(e),
           "attrs": attrs, "at": at, "cids": changes})
}

/// Every stored entry (live, recycled, conflict, tombstone): internal unmasked search.
pub fn search_all<'a, T: QueryServerTransaction<'a>>(txn: &mut T) -> Vec<Arc<EntrySealedCommitted>> {
    let f = filter_all!(f_pres(Attribute::Class));
    let mut v = txn.internal_search(f).expect("internal_search(all)");
    v.sort_by_key(|e| e.get_uuid());
    v
}

/// Stored entries whose uuid is in the model range (the harness's own population).
pub fn search_model<'a, T: QueryServerTransaction<'a>>(txn: &mut T) -> Vec<Arc<EntrySealedCommitted>> {
    search_all(txn)
        .into_iter()
        .filter(|e| (MODEL_BASE..MODEL_BASE + 100_000).contains(&e.get_uuid().as_u128()))
        .collect()
}

/// The internal (system) identity, as the server's own maintenance tasks use it.
pub fn internal_identity() -> Identity {
    Identity::from_internal()
}

/// Revive a recycled entry by uuid through the public revive_recycled path with the internal identity.
pub fn revive_uuid(wr: &mut QueryServerWriteTransaction<'_>, u: Uuid) -> Result<(), OperationError> {
    let f = filter_all!(f_eq(Attribute::Uuid, PartialValue::Uuid(u)));
    let re = crate::event::ReviveRecycledEvent::from_parts(Identity::from_internal(), &f, wr)?;
    wr.revive_recycled(&re)
}

pub fn cred_uuid(c: &crate::credential::Credential) -> Uuid {
    c.uuid
}
/// true for names produced by name_of for model uuids ("e<digits>")
pub fn is_model_name(s: &str) -> bool {
    s.len() > 1 && s.len() < 8 && s.starts_with('e') && s[1..].chars().all(|c| c.is_ascii_digit())
}
