//! Accessors for the `store` group drivers (C03 C12 C13 C15 C20 C21 C48). Thin, add-only.
#![allow(dead_code, unused_imports, clippy::unwrap_used, clippy::expect_used, clippy::panic, clippy::indexing_slicing, missing_docs)]
use crate::be::dbentry::{DbBackup, DbEntry};
use crate::be::dbrepl::DbReplMeta;
use crate::be::{Backend, BackendConfig, BackendReadTransaction, BackendTransaction, BackendWriteTransaction, IdList, IdxKey};
use crate::filter::FilterResolved;
use std::num::NonZeroU8;
use crate::prelude::*;
use crate::schema::{Schema, SchemaTransaction};
use crate::value::{IndexType, SyntaxType};
use crate::valueset::ValueSet;
use serde_json::{json, Map, Value as J};
use std::collections::{BTreeMap, BTreeSet};

// ------------------------------------------------------------------ hashing / canonical JSON

/// FNV-1a 64 bit, hex. Deterministic, only used to shorten long canonical strings.
pub fn fnv(s: &str) -> String {
    let mut h: u64 = 0xcbf2_9ce4_8422_2325;
    for b in s.as_bytes() {
        h ^= *b as u64;
        h = h.wrapping_mul(0x0000_0100_0000_01b3);
    }
    format!("{h:016x}")
}

/// Canonical form of a JSON value: object keys sorted (serde_json maps are BTreeMaps), arrays whose
/// elements are not all numbers are sorted by their canonical text (they encode sets / maps);
/// arrays of numbers (byte strings) keep their order.
pub fn canon(v: &J) -> String {
    match v {
        J::Array(a) => {
            let mut parts: Vec<String> = a.iter().map(canon).collect();
            if !a.iter().all(|x| x.is_number()) {
                parts.sort();
            }
            format!("[{}]", parts.join(","))
        }
        J::Object(m) => {
            let mut parts: Vec<String> = m.iter().map(|(k, x)| format!("{k:?}:{}", canon(x))).collect();
            parts.sort();
            format!("{{{}}}", parts.join(","))
        }
        other => other.to_string(),
    }
}

// ------------------------------------------------------------------ C12: Observe(value)

/// Cleartext probes used to observe password behaviour (the two cleartexts the sample hashes were made
/// from, a case variant and an unrelated one).
pub const PROBES: [&str; 4] = ["password", "eicieY7ahchaoCh0eeTa", "Password", "wrong horse"];

thread_local! {
    /// verdicts per password MATERIAL (keyed by the material's own DB form, which is a 1:1 image of it):
    /// the same material is only verified once per run, KDFs are slow in debug builds.
    static VERDICTS: std::cell::RefCell<BTreeMap<String, String>> = const { std::cell::RefCell::new(BTreeMap::new()) };
}

pub fn password_verdicts(pw: &kanidm_lib_crypto::Password) -> String {
    let key = serde_json::to_string(&pw.to_dbpasswordv1()).unwrap_or_default();
    if let Some(v) = VERDICTS.with(|m| m.borrow().get(&key).cloned()) {
        return v;
    }
    let v: String = PROBES
        .iter()
        .map(|p| match pw.verify(p) {
            Ok(true) => '1',
            Ok(false) => '0',
            Err(_) => 'E',
        })
        .collect();
    VERDICTS.with(|m| m.borrow_mut().insert(key, v.clone()));
    v
}

/// Behavioural facets of a credential valueset: per tag, the stored password kind and the verdicts on PROBES.
pub fn cred_behaviour(vs: &ValueSet) -> Option<String> {
    if vs.syntax() != SyntaxType::Credential {
        return None;
    }
    let m = vs.as_credential_map()?;
    let mut out = Vec::new();
    for (tag, c) in m.iter() {
        let (kind, verdicts) = match c.password_ref() {
            Ok(pw) => (format!("{:?}", pw.to_dbpasswordv1()), password_verdicts(pw)),
            Err(_) => ("none".to_string(), "-".to_string()),
        };
        out.push(format!("{tag}:{kind}:{verdicts}:mfa={}", c.is_mfa()));
    }
    Some(out.join(";"))
}

/// Observation of one stored valueset: syntax, canonical DB form (hashed), proto strings (hashed),
/// behaviour where the value has behaviour of its own (passwords).
pub fn observe_vs(vs: &ValueSet) -> String {
    let db = serde_json::to_value(vs.to_db_valueset_v2()).unwrap_or(J::Null);
    let mut proto: Vec<String> = vs.to_proto_string_clone_iter().collect();
    proto.sort();
    let beh = cred_behaviour(vs).unwrap_or_default();
    format!("{:?}|{}|{}|{}|{}", vs.syntax(), vs.len(), fnv(&canon(&db)), fnv(&proto.join("\u{1}")), beh)
}

pub fn observe_vs_verbose(vs: &ValueSet) -> J {
    let db = serde_json::to_value(vs.to_db_valueset_v2()).unwrap_or(J::Null);
    let mut proto: Vec<String> = vs.to_proto_string_clone_iter().collect();
    proto.sort();
    json!({"syntax": format!("{:?}", vs.syntax()), "db": canon(&db), "proto": proto, "beh": cred_behaviour(vs)})
}

/// Keyed multi-values (maps of collections / maps whose members share an outer key): the stored form as a set of
/// (outer key, inner identity) pairs.  `None` for syntaxes that are plain sets of scalars.
///   application passwords   (application uuid, password uuid : label : verdicts)   several per application
///   oauth2 sessions         (parent session, id) and (resource server, id)        several per parent / per client
///   sessions                (credential id, session id : state kind)              several per credential
///   api tokens              (issuer, token id : label)
///   ssh keys                (tag, tag)                                            map by tag
///   credentials             (tag, credential uuid)
pub fn keyed_pairs(vs: &ValueSet) -> Option<Vec<(String, String)>> {
    let mut v: Vec<(String, String)> = match vs.syntax() {
        SyntaxType::ApplicationPassword => vs
            .as_application_password_map()?
            .iter()
            .flat_map(|(app, l)| l.iter().map(move |ap| (app.to_string(), format!("{}:{}:{}", ap.uuid, ap.label, password_verdicts(&ap.password)))))
            .collect(),
        SyntaxType::Oauth2Session => vs
            .as_oauth2session_map()?
            .iter()
            .flat_map(|(id, s)| {
                vec![
                    (format!("parent:{}", s.parent.map(|p| p.to_string()).unwrap_or_else(|| "-".into())), id.to_string()),
                    (format!("rs:{}", s.rs_uuid), id.to_string()),
                ]
            })
            .collect(),
        SyntaxType::Session => vs
            .as_session_map()?
            .iter()
            .map(|(id, s)| {
                let k = match &s.state {
                    crate::value::SessionState::RevokedAt(_) => "revoked",
                    crate::value::SessionState::ExpiresAt(_) => "expires",
                    crate::value::SessionState::NeverExpires => "never",
                };
                (format!("cred:{}", s.cred_id), format!("{id}:{k}"))
            })
            .collect(),
        SyntaxType::ApiToken => vs.as_apitoken_map()?.iter().map(|(id, t)| (format!("{:?}", t.issued_by), format!("{id}:{}", t.label))).collect(),
        SyntaxType::SshKey => vs.as_sshkey_map()?.keys().map(|t| (t.clone(), t.clone())).collect(),
        SyntaxType::Credential => vs.as_credential_map()?.iter().map(|(t, c)| (t.clone(), c.uuid.to_string())).collect(),
        _ => return None,
    };
    v.sort();
    Some(v)
}

/// keyed pairs of every attribute of an entry that has them
pub fn entry_pairs(e: &EntrySealedCommitted) -> BTreeMap<String, Vec<(String, String)>> {
    e.get_ava_iter().filter_map(|(a, vs)| keyed_pairs(vs).map(|p| (a.to_string(), p))).collect()
}

/// Observation of a whole stored entry, split into replicated and non-replicated attributes
/// (by the server's own schema), plus its liveness class.
pub fn observe_entry(e: &EntrySealedCommitted, schema: &impl SchemaTransaction) -> (BTreeMap<String, String>, BTreeMap<String, String>) {
    let mut r = BTreeMap::new();
    let mut n = BTreeMap::new();
    for (a, vs) in e.get_ava_iter() {
        let o = observe_vs(vs);
        if schema.is_replicated(a) {
            r.insert(a.to_string(), o);
        } else {
            n.insert(a.to_string(), o);
        }
    }
    (r, n)
}

/// Valueset-level codec round trip (DB valueset v2 through its JSON text): observation after decode.
pub fn codec_roundtrip(vs: &ValueSet) -> Result<String, String> {
    let db = vs.to_db_valueset_v2();
    let txt = serde_json::to_string(&db).map_err(|e| format!("ser:{e}"))?;
    let back: crate::be::dbvalue::DbValueSetV2 = serde_json::from_str(&txt).map_err(|e| format!("de:{e}"))?;
    let vs2 = crate::valueset::from_db_valueset_v2(back).map_err(|e| format!("from:{e:?}"))?;
    Ok(observe_vs(&vs2))
}

// ------------------------------------------------------------------ C03: raw index access

/// IDs of an equality / presence index key read THROUGH the idl cache (the path searches use):
/// `filter2idl` of a single resolved term. `None` when the term is not answered from an index.
pub fn idl_cached_eq<B: BackendTransaction>(be: &mut B, attr: &Attribute, pv: &PartialValue) -> Result<Option<Vec<u64>>, OperationError> {
    let f = FilterResolved::Eq(attr.clone(), pv.clone(), NonZeroU8::new(1));
    idl_of(be, &f)
}
pub fn idl_cached_pres<B: BackendTransaction>(be: &mut B, attr: &Attribute) -> Result<Option<Vec<u64>>, OperationError> {
    let f = FilterResolved::Pres(attr.clone(), NonZeroU8::new(1));
    idl_of(be, &f)
}
fn idl_of<B: BackendTransaction>(be: &mut B, f: &FilterResolved) -> Result<Option<Vec<u64>>, OperationError> {
    let (idl, _plan) = be.filter2idl(f, 0)?;
    Ok(match idl {
        IdList::Indexed(i) => Some(i.into_iter().collect()),
        _ => None,
    })
}
pub fn pv_eq_key(pv: &PartialValue) -> String {
    pv.get_idx_eq_key()
}

/// The index keys the backend maintains (attr, type).
pub fn idxmeta<B: BackendTransaction>(be: &B) -> Vec<(Attribute, IndexType)> {
    let mut v: Vec<(Attribute, IndexType)> = be.get_idxmeta_ref().idxkeys.keys().map(|k| (k.attr.clone(), k.itype)).collect();
    v.sort();
    v
}

pub fn itype_str(i: IndexType) -> String {
    i.as_idx_str().to_string()
}

/// Stored entries with their backend ids (all liveness classes) decoded from the raw id2entry rows
/// (no index, no entry cache involved): rows as `backup` reads them, ids as `list_id2entry` reports them
/// (both are `get_identry_raw(AllIds)` on the same transaction; the uuid is cross-checked).
pub fn be_all_entries(be: &mut BackendReadTransaction<'_>) -> Result<Vec<EntrySealedCommitted>, OperationError> {
    let rows = be.list_id2entry()?;
    let mut buf: Vec<u8> = Vec::new();
    be.backup(&mut buf, kanidm_proto::backup::BackupCompression::NoCompression)?;
    let bak: DbBackup = serde_json::from_slice(&buf).map_err(|_| OperationError::SerdeJsonError)?;
    let DbBackup::V5 { entries, .. } = bak else {
        return Err(OperationError::InvalidDbState);
    };
    if entries.len() != rows.len() {
        return Err(OperationError::InvalidDbState);
    }
    let mut out = Vec::new();
    for ((id, summary), dbe) in rows.into_iter().zip(entries.into_iter()) {
        let e = EntrySealedCommitted::from_dbentry(dbe, id).ok_or(OperationError::CorruptedEntry(id))?;
        if !summary.contains(&e.get_uuid().to_string()) {
            return Err(OperationError::InvalidDbState);
        }
        out.push(e);
    }
    out.sort_by_key(|e| e.get_id());
    Ok(out)
}

pub fn entry_id(e: &EntrySealedCommitted) -> u64 {
    e.get_id()
}

/// Index keys a stored valueset generates (the backend's own key definition per index type).
pub fn vs_idx_keys(vs: &ValueSet, itype: IndexType) -> Vec<String> {
    match itype {
        IndexType::Equality => vs.generate_idx_eq_keys(),
        IndexType::Presence => vec!["_".to_string()],
        IndexType::SubString => vs.generate_idx_sub_keys(),
        IndexType::Ordering => vs.generate_idx_ord_keys(),
    }
}

/// Server-level consistency check (crate-private on the read transaction).
pub fn qs_verify(txn: &mut QueryServerReadTransaction<'_>) -> Vec<String> {
    txn.verify().into_iter().filter_map(|r| r.err()).map(|r| format!("{r:?}")).collect()
}

pub fn be_verify<B: BackendTransaction>(be: &mut B) -> Vec<String> {
    let mut v: Vec<String> = be.verify().into_iter().filter_map(|r| r.err()).map(|r| format!("{r:?}")).collect();
    v.extend(be.verify_indexes().into_iter().filter_map(|r| r.err()).map(|r| format!("{r:?}")));
    v
}

// ------------------------------------------------------------------ C13: db identity / RUV

pub fn db_ids(be: &mut BackendWriteTransaction<'_>) -> Result<J, OperationError> {
    let s = be.get_db_s_uuid()?;
    let d = be.get_db_d_uuid()?;
    let t = be.get_db_ts_max(std::time::Duration::ZERO)?;
    Ok(json!({
        "s_uuid": s.to_string(),
        "d_uuid": d.to_string(),
        "ts_max_s": t.as_secs(),
        "ts_max_n": t.subsec_nanos(),
    }))
}

/// The RUV as the backup stores it: the set of change ids, as strings "secs.nanos@server".
pub fn ruv_cids<B: BackendTransaction>(be: &mut B) -> Vec<String> {
    use crate::repl::ruv::ReplicationUpdateVectorTransaction;
    let DbReplMeta::V1 { ruv } = be.get_ruv().to_db_backup_ruv();
    let mut v: Vec<String> = ruv
        .into_iter()
        .map(|c| {
            let c: Cid = c.into();
            format!("{}.{:09}@{}", c.ts.as_secs(), c.ts.subsec_nanos(), c.s_uuid)
        })
        .collect();
    v.sort();
    v
}

// ------------------------------------------------------------------ misc crate-private helpers

pub fn uuid_to_gid_u32(u: Uuid) -> u32 {
    crate::utils::uuid_to_gid_u32(u)
}

/// Fresh schema + index metadata, as every server start does before opening the backend.
pub fn schema_and_idxmeta() -> (Schema, Vec<IdxKey>) {
    let schema = Schema::new().expect("schema");
    let idxmeta = {
        let w = schema.write();
        w.reload_idxmeta()
    };
    (schema, idxmeta)
}

pub fn value_proto_string(v: &Value) -> String {
    v.to_proto_string_clone()
}

/// Revive a recycled entry by uuid as the internal identity (what the test-only `internal_revive_uuid` does).
pub fn revive_uuid(w: &mut QueryServerWriteTransaction<'_>, u: Uuid) -> Result<(), OperationError> {
    let filter = Filter::new_recycled(f_eq(Attribute::Uuid, PartialValue::Uuid(u)));
    let f_valid = filter.validate(w.get_schema()).map_err(OperationError::SchemaViolation)?;
    let re = crate::event::ReviveRecycledEvent { ident: Identity::from_internal(), filter: f_valid };
    w.revive_recycled(&re)
}

pub fn internal_identity() -> Identity {
    Identity::from_internal()
}

// ------------------------------------------------------------------ C48: the migration data of the target level

/// The entries the upgrade to DOMAIN_TGT_LEVEL asserts with `internal_migrate_or_create` (phases 3-7 of the
/// target level's migration data), with the level they belong to.  TRUSTED INPUT of C48: the driver only uses
/// it to choose WHICH stored values of built-in entries it removes before the upgrade.
pub fn migration_templates_target() -> (DomainVersion, Vec<EntryInitNew>) {
    use crate::migration_data::dl_1_12 as dl_target;
    let mut v = dl_target::phase_3_key_provider();
    v.extend(dl_target::phase_4_system_entries());
    v.extend(dl_target::phase_5_builtin_admin_entries().expect("phase 5"));
    v.extend(dl_target::phase_6_builtin_non_admin_entries().expect("phase 6"));
    v.extend(dl_target::phase_7_builtin_access_control_profiles());
    (DOMAIN_LEVEL_1_12, v)
}
