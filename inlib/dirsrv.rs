//! Accessors for the `dirsrv` group (C16 C17 C18 C22 C26): projection of directory entries into the
//! JSON shape the KMemberOf / KRefint / KDynGroup / KSpn / KRecycle trace specs read. Thin, no behaviour.
#![allow(dead_code, unused_imports, clippy::unwrap_used, clippy::expect_used, clippy::panic, clippy::indexing_slicing, clippy::needless_pass_by_value, missing_docs)]

use crate::event::ReviveRecycledEvent;
use crate::prelude::*;
use crate::schema::SchemaTransaction;
use crate::verif::proj::{liveness, name_of};
use serde_json::{json, Map, Value as J};
use std::collections::BTreeSet;
use std::sync::Arc;

/// Attributes whose SYNTAX says they hold entry references (read from the attribute definitions,
/// not from the schema's reference cache that the refint plugin itself uses).
pub fn ref_attrs<'a, T: QueryServerTransaction<'a>>(txn: &mut T) -> Vec<Attribute> {
    let mut v: Vec<Attribute> = txn
        .get_schema()
        .get_attributes()
        .values()
        .filter(|a| {
            matches!(
                a.syntax,
                SyntaxType::ReferenceUuid | SyntaxType::OauthScopeMap | SyntaxType::OauthClaimMap
            )
        })
        .map(|a| a.name.clone())
        .collect();
    v.sort_by_key(|a| a.to_string());
    v
}

pub fn domain_name<'a, T: QueryServerTransaction<'a>>(txn: &mut T) -> String {
    txn.get_domain_name().to_string()
}

fn refs_of(e: &EntrySealedCommitted, a: &Attribute) -> Vec<String> {
    let mut v: Vec<String> = e
        .get_ava_set(a)
        .and_then(|vs| vs.as_ref_uuid_iter().map(|it| it.map(name_of).collect()))
        .unwrap_or_default();
    v.sort();
    v
}

fn strs(e: &EntrySealedCommitted, a: Attribute) -> Vec<String> {
    let mut v: Vec<String> = e
        .get_ava_set(a)
        .map(|vs| vs.to_proto_string_clone_iter().collect())
        .unwrap_or_default();
    v.sort();
    v
}

/// ProtoFilter -> compact JSON tree {"t":"eq","a":..,"v":..} | {"t":"pres","a":..} |
/// {"t":"and"|"or","s":[..]} | {"t":"not","s":[x]} | {"t":"other"}
pub fn filter_json(f: &ProtoFilter) -> J {
    match f {
        ProtoFilter::Eq(a, v) => json!({"t":"eq","a":a,"v":v,"s":[]}),
        ProtoFilter::Pres(a) => json!({"t":"pres","a":a,"v":"","s":[]}),
        ProtoFilter::And(l) => json!({"t":"and","a":"","v":"","s":l.iter().map(filter_json).collect::<Vec<_>>()}),
        ProtoFilter::Or(l) => json!({"t":"or","a":"","v":"","s":l.iter().map(filter_json).collect::<Vec<_>>()}),
        ProtoFilter::AndNot(x) => json!({"t":"not","a":"","v":"","s":[filter_json(x)]}),
        _ => json!({"t":"other","a":"","v":"","s":[]}),
    }
}

pub fn kind(e: &EntrySealedCommitted) -> &'static str {
    let has = |c: EntryClass| e.attribute_equality(Attribute::Class, &c.into());
    if has(EntryClass::DynGroup) {
        "dyn"
    } else if has(EntryClass::Group) {
        "grp"
    } else if has(EntryClass::Person) {
        "usr"
    } else if has(EntryClass::ServiceAccount) {
        "svc"
    } else if has(EntryClass::ClientCertificate) {
        "cert"
    } else if has(EntryClass::OAuth2ResourceServer) {
        "oa2"
    } else if has(EntryClass::DomainInfo) {
        "dom"
    } else {
        "oth"
    }
}

/// seconds (relative to `t0`) of the entry's last-modified change id
pub fn last_mod_secs(e: &EntrySealedCommitted, t0: u64) -> i64 {
    e.get_ava_set(Attribute::LastModifiedCid)
        .and_then(|vs| vs.to_cid_single())
        .map(|c| c.ts.as_secs() as i64 - t0 as i64)
        .unwrap_or(-1)
}

/// One entry as the dirsrv trace specs read it. Every field is always present.
pub fn proj_entry(e: &EntrySealedCommitted, ref_attrs: &[Attribute], t0: u64) -> J {
    let has = |c: EntryClass| e.attribute_equality(Attribute::Class, &c.into());
    let mut refs = Map::new();
    for a in ref_attrs {
        let v = refs_of(e, a);
        if !v.is_empty() {
            refs.insert(a.to_string(), json!(v));
        }
    }
    let f = e
        .get_ava_single_protofilter(Attribute::DynGroupFilter)
        .map(filter_json)
        .unwrap_or_else(|| json!({"t":"none","a":"","v":"","s":[]}));
    let cd: Vec<String> = e
        .get_ava_single_uuid(Attribute::CascadeDeleted)
        .map(|u| vec![name_of(u)])
        .unwrap_or_default();
    json!({
        "lv": liveness(e),
        "k": kind(e),
        "acct": has(EntryClass::Account),
        "isg": has(EntryClass::Group),
        "n": strs(e, Attribute::Name),
        "spn": strs(e, Attribute::Spn),
        "refs": refs,
        "cd": cd,
        "f": f,
        "av": {"name": strs(e, Attribute::Name), "description": strs(e, Attribute::Description),
               "class": strs(e, Attribute::Class), "displayname": strs(e, Attribute::DisplayName)},
        "lm": last_mod_secs(e, t0),
    })
}

/// uuids visible to an ordinary (hidden-ignoring) internal search / to a recycle-bin search
pub fn visible_normal<'a, T: QueryServerTransaction<'a>>(txn: &mut T) -> BTreeSet<Uuid> {
    txn.internal_search(filter!(f_pres(Attribute::Class)))
        .expect("search")
        .iter()
        .map(|e| e.get_uuid())
        .collect()
}
pub fn visible_recycled<'a, T: QueryServerTransaction<'a>>(txn: &mut T) -> BTreeSet<Uuid> {
    txn.internal_search(filter_rec!(f_pres(Attribute::Class)))
        .expect("search")
        .iter()
        .map(|e| e.get_uuid())
        .collect()
}

/// Revive one recycled entry through the public `revive_recycled` with the internal identity.
pub fn revive_uuid(txn: &mut QueryServerWriteTransaction, u: Uuid) -> Result<(), OperationError> {
    let f = filter_all!(f_eq(Attribute::Uuid, PartialValue::Uuid(u)));
    let re = ReviveRecycledEvent::from_parts(Identity::from_internal(), &f, txn)?;
    txn.revive_recycled(&re)
}

/// Revive a SET of entries with ONE `revive_recycled` operation (an or-filter over the uuids, as a
/// recycle-bin administrator's multi-match revive filter would): everything recycled among them comes back
/// in the same operation, together with their cascade-deleted dependents.
pub fn revive_uuids(txn: &mut QueryServerWriteTransaction, us: &[Uuid]) -> Result<(), OperationError> {
    let f = filter_all!(f_or(
        us.iter().map(|u| f_eq(Attribute::Uuid, PartialValue::Uuid(*u))).collect()
    ));
    let re = ReviveRecycledEvent::from_parts(Identity::from_internal(), &f, txn)?;
    txn.revive_recycled(&re)
}

/// Revive as a given (real) identity: recycle-bin administrators go through access controls.
pub fn revive_uuid_as(
    txn: &mut QueryServerWriteTransaction,
    ident: Identity,
    u: Uuid,
) -> Result<(), OperationError> {
    let f = filter_all!(f_eq(Attribute::Uuid, PartialValue::Uuid(u)));
    let re = ReviveRecycledEvent::from_parts(ident, &f, txn)?;
    txn.revive_recycled(&re)
}

/// Identity of a stored account entry with read-write scope (what the server builds after a
/// privileged login), for user-identity operations.
pub fn ident_rw(e: Arc<EntrySealedCommitted>) -> Identity {
    Identity::from_impersonate_entry_readwrite(e)
}

/// Search as a user identity (access controls applied), hidden entries ignored.
pub fn search_as_normal<'a, T: QueryServerTransaction<'a>>(
    txn: &mut T,
    ident: &Identity,
    u: Uuid,
) -> Result<usize, OperationError> {
    let f = filter!(f_eq(Attribute::Uuid, PartialValue::Uuid(u)));
    let fv = f.validate(txn.get_schema()).map_err(OperationError::SchemaViolation)?;
    txn.impersonate_search_ext_valid(fv.clone(), fv, ident).map(|v| v.len())
}
/// Search as a user identity inside the recycle bin.
pub fn search_as_recycled<'a, T: QueryServerTransaction<'a>>(
    txn: &mut T,
    ident: &Identity,
    u: Uuid,
) -> Result<usize, OperationError> {
    let f = filter_rec!(f_eq(Attribute::Uuid, PartialValue::Uuid(u)));
    let fv = f.validate(txn.get_schema()).map_err(OperationError::SchemaViolation)?;
    txn.impersonate_search_ext_valid(fv.clone(), fv, ident).map(|v| v.len())
}
