//! Accessors for the replication drivers (group `repl`).
#![allow(dead_code, unused_imports, clippy::unwrap_used, clippy::expect_used, clippy::panic, clippy::indexing_slicing, missing_docs)]
use crate::be::BackendTransaction;
use crate::prelude::*;
use crate::repl::proto::{ConsumerState, ReplIncrementalContext, ReplRuvRange};
use crate::repl::ruv::ReplicationUpdateVectorTransaction;
use std::collections::BTreeMap;

pub fn server_uuid(txn: &QueryServerWriteTransaction<'_>) -> Uuid {
    txn.get_server_uuid()
}

/// Complete RUV ranges of this replica: server -> (min, max) in whole seconds + nanos.
pub fn ruv_ranges<'a, T: QueryServerTransaction<'a>>(txn: &mut T) -> BTreeMap<Uuid, ((u64, u32), (u64, u32))> {
    txn.get_be_txn()
        .get_ruv()
        .current_ruv_range()
        .expect("ruv range")
        .into_iter()
        .map(|(k, v)| {
            (
                k,
                (
                    (v.ts_min.as_secs(), v.ts_min.subsec_nanos()),
                    (v.ts_max.as_secs(), v.ts_max.subsec_nanos()),
                ),
            )
        })
        .collect()
}

/// The ranges a consumer reports (consumer_get_state), plain.
pub fn consumer_ranges(r: &ReplRuvRange) -> BTreeMap<Uuid, ((u64, u32), (u64, u32))> {
    match r {
        ReplRuvRange::V1 { ranges, .. } => ranges
            .iter()
            .map(|(k, v)| {
                (
                    *k,
                    (
                        (v.ts_min.as_secs(), v.ts_min.subsec_nanos()),
                        (v.ts_max.as_secs(), v.ts_max.subsec_nanos()),
                    ),
                )
            })
            .collect(),
    }
}

/// The ranges the supplier compares against (filtered by its trim cid), as supplier_provide_changes does.
pub fn supplier_ranges(txn: &mut QueryServerReadTransaction<'_>) -> BTreeMap<Uuid, ((u64, u32), (u64, u32))> {
    let trim = txn.trim_cid().clone();
    txn.get_be_txn()
        .get_ruv()
        .filter_ruv_range(&trim)
        .expect("ruv range")
        .into_iter()
        .map(|(k, v)| {
            (
                k,
                (
                    (v.ts_min.as_secs(), v.ts_min.subsec_nanos()),
                    (v.ts_max.as_secs(), v.ts_max.subsec_nanos()),
                ),
            )
        })
        .collect()
}

pub fn ctx_kind(c: &ReplIncrementalContext) -> &'static str {
    match c {
        ReplIncrementalContext::DomainMismatch => "domain_mismatch",
        ReplIncrementalContext::NoChangesAvailable => "no_changes",
        ReplIncrementalContext::RefreshRequired => "refresh_required",
        ReplIncrementalContext::UnwillingToSupply => "unwilling",
        ReplIncrementalContext::V1 { .. } => "changes",
    }
}
/// number of (non schema/meta) entries carried and, per entry uuid, the attribute names sent
pub fn ctx_entries(c: &ReplIncrementalContext) -> Vec<(Uuid, Vec<String>)> {
    use crate::repl::proto::ReplStateV1;
    match c {
        ReplIncrementalContext::V1 { entries, .. } => entries
            .iter()
            .map(|e| {
                let names = match &e.st {
                    ReplStateV1::Live { attrs, .. } => attrs.keys().map(|a| a.to_string()).collect(),
                    ReplStateV1::Tombstone { .. } => vec!["<tombstone>".to_string()],
                };
                (e.uuid, names)
            })
            .collect(),
        _ => vec![],
    }
}
pub fn consumer_state_kind(c: &ConsumerState) -> &'static str {
    match c {
        ConsumerState::Ok => "ok",
        ConsumerState::RefreshRequired => "refresh_required",
    }
}
