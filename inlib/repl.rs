//! Accessors for the replication drivers (group `repl`).
#![allow(dead_code, unused_imports, clippy::unwrap_used, clippy::expect_used, clippy::panic, clippy::indexing_slicing, missing_docs)]
use crate::be::BackendTransaction;
use crate::prelude::*;
use crate::repl::proto::{ConsumerState, ReplIncrementalContext, ReplRuvRange};
use crate::repl::ruv::ReplicationUpdateVectorTransaction;
use std::collections::BTreeMap;

pub fn server_uuid(txn: &QueryServerWriteTransaction<'_>) -> Uuid {
    txn.get_server_uuid()
}

/// Complete RUV ranges of this replica: server -> (min, max) in whole seconds + nanos.
pub fn ruv_ranges<'a, T: QueryServerTransaction<'a>>(txn: &mut T) -> BTreeMap<Uuid, ((u64, u32), (u64, u32))> {
    txn.get_be_txn()
        .get_ruv()
        .current_ruv_range()
        .expect("ruv range")
        .into_iter()
        .map(|(k, v)| {
            (
                k,
                (
                    (v.ts_min.as_secs(), v.ts_min.subsec_nanos()),
                    (v.ts_max.as_secs(), v.ts_max.subsec_nanos()),
                ),
            )
        })
        .collect()
}

/// The ranges a consumer reports (consumer_get_state), plain.
pub fn consumer_ranges(r: &ReplRuvRange) -> BTreeMap<Uuid, ((u64, u32), (u64, u32))> {
    match r {
        ReplRuvRange::V1 { ranges, .. } => ranges
            .iter()
            .map(|(k, v)| {
                (
                    *k,
                    (
                        (v.ts_min.as_secs(), v.ts_min.subsec_nanos()),
                        (v.ts_max.as_secs(), v.ts_max.subsec_nanos()),
                    ),
                )
            })
            .collect(),
    }
}

/// The ranges the supplier compares against (filtered by its trim cid), as supplier_provide_changes does.
pub fn supplier_ranges(txn: &mut QueryServerReadTransaction<'_>) -> BTreeMap<Uuid, ((u64, u32), (u64, u32))> {
    let trim = txn.trim_cid().clone();
    txn.get_be_txn()
        .get_ruv()
        .filter_ruv_range(&trim)
        .expect("ruv range")
        .into_iter()
        .map(|(k, v)| {
            (
                k,
                (
                    (v.ts_min.as_secs(), v.ts_min.subsec_nanos()),
                    (v.ts_max.as_secs(), v.ts_max.subsec_nanos()),
                ),
            )
        })
        .collect()
}

pub fn ctx_kind(c: &ReplIncrementalContext) -> &'static str {
    match c {
        ReplIncrementalContext::DomainMismatch => "domain_mismatch",
        ReplIncrementalContext::NoChangesAvailable => "no_changes",
        ReplIncrementalContext::RefreshRequired => "refresh_required",
        ReplIncrementalContext::UnwillingToSupply => "unwilling",
        ReplIncrementalContext::V1 { .. } => "changes",
    }
}
/// number of (non schema/meta) entries carried and, per entry uuid, the attribute names sent
pub fn ctx_entries(c: &ReplIncrementalContext) -> Vec<(Uuid, Vec<String>)> {
    use crate::repl::proto::ReplStateV1;
    match c {
        ReplIncrementalContext::V1 { entries, .. } => entries
            .iter()
            .map(|e| {
                let names = match &e.st {
                    ReplStateV1::Live { attrs, .. } => attrs.keys().map(|a| a.to_string()).collect(),
                    ReplStateV1::Tombstone { .. } => vec!["<tombstone>".to_string()],
                };
                (e.uuid, names)
            })
            .collect(),
        _ => vec![],
    }
}
pub fn consumer_state_kind(c: &ConsumerState) -> &'static str {
    match c {
        ConsumerState::Ok => "ok",
        ConsumerState::RefreshRequired => "refresh_required",
    }
}

// ------------------------------------------------------------------ C11: valueset merges
use crate::server::keys::KeyId;
use crate::value::{AuthType, KeyStatus, KeyUsage, Oauth2Session, Session, SessionState};
use crate::valueset::{KeyInternalData, ValueSet, ValueSetKeyInternal, ValueSetOauth2Session, ValueSetSession};
use serde_json::{json, Value as J};
use time::OffsetDateTime;

fn mcid(ts: u64, srv: u64) -> Cid {
    Cid::new(Uuid::from_u128(0x5e5e_0000_0000_4000_8000_0000_0000_0000u128 + srv as u128), Duration::from_secs(ts))
}
fn cid_back(c: &Cid) -> (u64, u64) {
    (c.ts.as_secs(), (c.s_uuid.as_u128() & 0xffff) as u64)
}
fn st_from(v: &J) -> SessionState {
    match v["st"].as_str().unwrap_or("never") {
        "rev" => SessionState::RevokedAt(mcid(v["v"].as_u64().unwrap_or(0), v["s"].as_u64().unwrap_or(0))),
        "exp" => SessionState::ExpiresAt(OffsetDateTime::UNIX_EPOCH + Duration::from_secs(1_000_000 + v["v"].as_u64().unwrap_or(0))),
        _ => SessionState::NeverExpires,
    }
}
fn st_back(id: u64, s: &SessionState) -> J {
    match s {
        SessionState::RevokedAt(c) => { let (t, sv) = cid_back(c); json!({"id": id, "st": "rev", "v": t, "s": sv}) }
        SessionState::ExpiresAt(o) => json!({"id": id, "st": "exp", "v": (o.unix_timestamp() - 1_000_000) as u64, "s": 0}),
        SessionState::NeverExpires => json!({"id": id, "st": "never", "v": 0, "s": 0}),
    }
}
fn kuuid(k: u64) -> Uuid {
    Uuid::from_u128(0x5e55_1111_0000_4000_8000_0000_0000_0000u128 + k as u128)
}

/// Build a valueset of `kind` ("session" | "oauth2" | "key") from a JSON list of {id, st, v, s}.
pub fn build_vs(kind: &str, items: &J) -> Option<ValueSet> {
    let items = items.as_array()?;
    match kind {
        "session" => ValueSetSession::from_iter(items.iter().map(|v| {
            (kuuid(v["id"].as_u64().unwrap_or(0)), Session {
                label: "l".to_string(), state: st_from(v), issued_at: OffsetDateTime::UNIX_EPOCH,
                issued_by: IdentityId::Internal(UUID_SYSTEM), cred_id: kuuid(999), scope: SessionScope::ReadOnly,
                type_: AuthType::Password, ext_metadata: Default::default(),
            })
        })).map(|b| b as ValueSet),
        "oauth2" => ValueSetOauth2Session::from_iter(items.iter().map(|v| {
            (kuuid(v["id"].as_u64().unwrap_or(0)), Oauth2Session {
                parent: Some(kuuid(500)), state: st_from(v), issued_at: OffsetDateTime::UNIX_EPOCH, rs_uuid: kuuid(600),
            })
        })).map(|b| b as ValueSet),
        "key" => {
            let it = items.iter().map(|v| {
                let status = match v["st"].as_str().unwrap_or("valid") { "rev" => KeyStatus::Revoked, "ret" => KeyStatus::Retained, _ => KeyStatus::Valid };
                (KeyId::from(format!("{:08x}", v["id"].as_u64().unwrap_or(0))), KeyInternalData {
                    usage: KeyUsage::JwsEs256, valid_from: 0, status,
                    status_cid: mcid(v["v"].as_u64().unwrap_or(0), v["s"].as_u64().unwrap_or(0)),
                    der: Vec::new().into(),
                })
            });
            if items.is_empty() { None } else { Some(ValueSetKeyInternal::from_key_iter(it).ok()?) }
        }
        _ => None,
    }
}

/// Project a valueset of `kind` back to the JSON list shape (sorted by id).
pub fn proj_vs(kind: &str, vs: &ValueSet) -> J {
    let mut out: Vec<J> = vec![];
    match kind {
        "session" => if let Some(m) = vs.as_session_map() {
            for (k, s) in m.iter() { out.push(st_back((k.as_u128() & 0xffff) as u64, &s.state)); }
        },
        "oauth2" => if let Some(m) = vs.as_oauth2session_map() {
            for (k, s) in m.iter() { out.push(st_back((k.as_u128() & 0xffff) as u64, &s.state)); }
        },
        "key" => if let Some(m) = vs.as_key_internal_map() {
            for (k, d) in m.iter() {
                let id = u64::from_str_radix(&k.to_string(), 16).unwrap_or(0);
                let st = match d.status { KeyStatus::Revoked => "rev", KeyStatus::Retained => "ret", KeyStatus::Valid => "valid" };
                let (t, sv) = cid_back(&d.status_cid);
                out.push(json!({"id": id, "st": st, "v": t, "s": sv}));
            }
        },
        _ => {}
    }
    out.sort_by_key(|v| v["id"].as_u64().unwrap_or(0));
    J::Array(out)
}

/// newer.repl_merge_valueset(older, trim) exactly as merge_state calls it; None = "take newer as is".
pub fn merge_vs(kind: &str, newer: &J, older: &J, trim: (u64, u64)) -> J {
    // a valueset emptied by trim cannot be rebuilt through the public constructors: merging with an empty
    // map equals merging the other side with itself (insert all, then trim), which uses the real code
    let ne = newer.as_array().map(|a| a.is_empty()).unwrap_or(true);
    let oe = older.as_array().map(|a| a.is_empty()).unwrap_or(true);
    if ne && oe {
        return json!([]);
    }
    let (newer, older) = if ne { (older, older) } else if oe { (newer, newer) } else { (newer, older) };
    let (Some(n), Some(o)) = (build_vs(kind, newer), build_vs(kind, older)) else {
        return json!([]);
    };
    match n.repl_merge_valueset(&o, &mcid(trim.0, trim.1)) {
        Some(m) => proj_vs(kind, &m),
        None => proj_vs(kind, &n),
    }
}
