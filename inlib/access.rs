//! Accessors for the `access` group (C23 C24 C25 C50): identity constructors that are crate-private.
//! Thin, no behaviour of their own.
#![allow(dead_code, unused_imports, clippy::unwrap_used, clippy::expect_used, clippy::panic, clippy::indexing_slicing, missing_docs)]
use crate::prelude::*;
use std::sync::Arc;

/// The internal (system) identity, as `Identity::from_internal()`.
pub fn ident_internal() -> Identity {
    Identity::from_internal()
}

/// A user identity over a real stored account entry with the given session scope
/// (what `Identity::from_impersonate_entry_readonly/_readwrite` build; the read-only one is cfg(test)).
pub fn ident_user(entry: Arc<EntrySealedCommitted>, scope: AccessScope) -> Identity {
    Identity::new(
        IdentType::User(IdentUser { entry }),
        Source::Internal,
        UUID_INTERNAL_SESSION_ID,
        scope,
        Limits::unlimited(),
        None,
    )
}

/// A synchronisation-agreement identity (`IdentType::Synch`) as token validation builds it.
pub fn ident_synch(sync_uuid: Uuid, scope: AccessScope) -> Identity {
    Identity::new(
        IdentType::Synch(sync_uuid),
        Source::Internal,
        UUID_INTERNAL_SESSION_ID,
        scope,
        Limits::unlimited(),
        None,
    )
}

/// An internal-role identity other than System.
pub fn ident_role(role: &str) -> Identity {
    match role {
        "migration" => Identity::migration(),
        "account_request" => Identity::account_request(),
        "message_queue" => Identity::message_queue(),
        _ => Identity::from_internal(),
    }
}
