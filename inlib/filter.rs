//! Accessors for the `filter` property group (C01 C02 C41): index-metadata override, filter
//! resolution with chosen index metadata, and the raw candidate set of `filter2idl`.
//! Thin wrappers only: every decision is taken by the kanidm code that is called.
#![allow(dead_code, unused_imports, clippy::unwrap_used, clippy::expect_used, clippy::panic, clippy::indexing_slicing, clippy::needless_pass_by_value, missing_docs)]

use crate::be::{BackendTransaction, IdList, IdxKey, IdxMeta, IdxSlope};
use crate::filter::{Filter, FilterInvalid, FilterResolved, FilterValid, FilterValidResolved};
use crate::prelude::*;
use crate::schema::SchemaTransaction;
use crate::value::IndexType;
use hashbrown::HashMap;

pub fn itype_from(s: &str) -> Option<IndexType> {
    match s {
        "eq" => Some(IndexType::Equality),
        "pres" => Some(IndexType::Presence),
        "sub" => Some(IndexType::SubString),
        "ord" => Some(IndexType::Ordering),
        _ => None,
    }
}

pub fn itype_name(i: &IndexType) -> &'static str {
    match i {
        IndexType::Equality => "eq",
        IndexType::Presence => "pres",
        IndexType::SubString => "sub",
        IndexType::Ordering => "ord",
    }
}

/// The internal (system) identity used by `internal_search`.
pub fn internal_identity() -> Identity {
    Identity::from_internal()
}

/// Override the backend index metadata for the `managed` attributes: they get exactly the
/// (attribute, index type) pairs in `keys`; every other attribute keeps what the schema says.
/// Then rebuild all index tables from the stored entries (`reindex`). With `reload_slopes`
/// the metadata is loaded a second time so that the slopes analysed by the reindex are used
/// (what a restarted server would see); otherwise the default / previous slopes stay.
pub fn set_index_layout(
    wr: &mut QueryServerWriteTransaction<'_>,
    managed: &[Attribute],
    keys: &[(Attribute, IndexType)],
    reload_slopes: bool,
) -> Result<(), OperationError> {
    let mut idxkeys: Vec<IdxKey> = wr
        .get_schema()
        .reload_idxmeta()
        .into_iter()
        .filter(|k| !managed.contains(&k.attr))
        .collect();
    for (a, i) in keys {
        idxkeys.push(IdxKey::new(a.clone(), *i));
    }
    wr.get_be_txn().update_idxmeta(idxkeys.clone())?;
    wr.get_be_txn().reindex(false)?;
    if reload_slopes {
        wr.get_be_txn().update_idxmeta(idxkeys)?;
    }
    Ok(())
}

/// Current backend index metadata restricted to `attrs`: (attribute, index type, slope).
pub fn index_layout<'a, T: QueryServerTransaction<'a>>(
    txn: &mut T,
    attrs: &[Attribute],
) -> Vec<(String, &'static str, u8)> {
    let mut v: Vec<(String, &'static str, u8)> = txn
        .get_be_txn()
        .get_idxmeta_ref()
        .idxkeys
        .iter()
        .filter(|(k, _)| attrs.contains(&k.attr))
        .map(|(k, s)| (k.attr.to_string(), itype_name(&k.itype), *s))
        .collect();
    v.sort();
    v
}

/// Validate against the live schema, then `Filter::resolve` with the given index metadata
/// (attribute, index type, slope) -- `None` takes the no-index-metadata path
/// (resolve_no_idx + fast_optimise). No resolve cache.
pub fn resolve_with<'a, T: QueryServerTransaction<'a>>(
    txn: &mut T,
    f: &Filter<FilterInvalid>,
    ident: &Identity,
    idx: Option<&[(Attribute, IndexType, u8)]>,
) -> Result<Filter<FilterValidResolved>, OperationError> {
    let fv = f
        .validate(txn.get_schema())
        .map_err(OperationError::SchemaViolation)?;
    match idx {
        Some(keys) => {
            let m: HashMap<IdxKey, IdxSlope> = keys
                .iter()
                .map(|(a, i, s)| (IdxKey::new(a.clone(), *i), *s))
                .collect();
            let meta = IdxMeta::new(m);
            fv.resolve(ident, Some(&meta), None)
        }
        None => fv.resolve(ident, None, None),
    }
}

/// Validate + resolve with the backend's CURRENT index metadata, bypassing the resolve cache.
pub fn resolve_be<'a, T: QueryServerTransaction<'a>>(
    txn: &mut T,
    f: &Filter<FilterInvalid>,
    ident: &Identity,
) -> Result<Filter<FilterValidResolved>, OperationError> {
    let fv = f
        .validate(txn.get_schema())
        .map_err(OperationError::SchemaViolation)?;
    let meta = txn.get_be_txn().get_idxmeta_ref().clone();
    fv.resolve(ident, Some(&meta), None)
}

/// Raw result of `BackendTransaction::filter2idl`: candidate-set class and entry ids.
pub fn filter2idl<'a, T: QueryServerTransaction<'a>>(
    txn: &mut T,
    f: &Filter<FilterValidResolved>,
    thres: usize,
) -> Result<(&'static str, Vec<u64>), OperationError> {
    let (idl, _plan) = txn.get_be_txn().filter2idl(f.to_inner(), thres)?;
    Ok(match idl {
        IdList::AllIds => ("allids", Vec::new()),
        IdList::Partial(i) => ("partial", i.into_iter().collect()),
        IdList::PartialThreshold(i) => ("pthres", i.into_iter().collect()),
        IdList::Indexed(i) => ("indexed", i.into_iter().collect()),
    })
}
