//! In-lib accessors for the `oauth` property group (C38, C39, C40). Thin, add-only.
#![allow(dead_code, unused_imports, clippy::unwrap_used, clippy::expect_used, clippy::panic, clippy::indexing_slicing, clippy::needless_pass_by_value, missing_docs)]

use crate::prelude::*;

/// C40 (LDAP gateway) accessors live in their own file.
#[path = "/verif/inlib/oauth_ldap.rs"]
pub mod ldap;
