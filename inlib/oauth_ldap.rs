//! In-lib accessors for C40 (LDAP gateway). Thin, add-only.
#![allow(dead_code, unused_imports, clippy::unwrap_used, clippy::expect_used, clippy::panic, clippy::indexing_slicing, clippy::needless_pass_by_value, missing_docs)]

use crate::prelude::*;
use crate::event::SearchEvent;
use crate::idm::ldap::{ldap_all_vattrs, ldap_vattr_map};
use ldap3_proto::simple::LdapFilter;
use std::collections::BTreeSet;

/// The real LDAP virtual attribute map (`ldap_vattr_map`, crate-private). Input building only:
/// the map that JUDGES lives in spec/KLdap.tla (`Kani`).
pub fn vattr_map(lower: &str) -> Option<String> {
    ldap_vattr_map(lower).map(|s| s.to_string())
}

/// The real list of virtual attributes added for a "+" request (`ldap_all_vattrs`).
pub fn all_vattrs() -> Vec<String> {
    ldap_all_vattrs()
}

/// requested LDAP attribute name (already lower-cased) -> kanidm Attribute, as do_search maps it.
pub fn map_req_attr(lower: &str) -> Attribute {
    Attribute::from(ldap_vattr_map(lower).unwrap_or(lower))
}

/// The native search the gateway is compared with: the SAME constructor do_search uses
/// (`SearchEvent::new_ext_impersonate_uuid`: Filter::from_ldap_ro + validate + into_ignore_hidden)
/// followed by the public `search_ext`, with the caller's filter only.
pub fn native_search(
    qs: &mut QueryServerReadTransaction<'_>,
    ident: Identity,
    lf: &LdapFilter,
    attrs: Option<BTreeSet<Attribute>>,
) -> Result<Vec<(Uuid, Vec<String>)>, OperationError> {
    let se = SearchEvent::new_ext_impersonate_uuid(qs, ident, lf, attrs)?;
    let res = qs.search_ext(&se)?;
    Ok(res
        .into_iter()
        .map(|e| {
            let mut names: Vec<String> = e.get_ava_names().map(|s| s.to_string()).collect();
            names.sort();
            (e.get_uuid(), names)
        })
        .collect())
}

/// The internal identity (for harness-side administrative events).
pub fn internal_identity() -> Identity {
    Identity::from_internal()
}
