//! Verification accessors compiled INSIDE kanidmd_lib (feature `verif-hooks`, hook H1).
//! Thin, add-only: exposes crate-private items to the /verif harness. No behaviour.
#![allow(dead_code, unused_imports, clippy::unwrap_used, clippy::expect_used, clippy::panic, clippy::indexing_slicing, clippy::needless_pass_by_value, missing_docs)]

use crate::prelude::*;
use crate::repl::proto::ReplCidRange;

/// Crate-private types the harness needs to name.
pub mod reexport {
    pub use crate::entry::{
        Entry, EntryCommitted, EntryInit, EntryInitNew, EntryInvalid, EntryNew, EntryReduced,
        EntrySealed, EntrySealedCommitted, EntryValid,
    };
    pub use crate::repl::cid::Cid;
    pub use crate::repl::entry::{EntryChangeState, State};
    pub use crate::valueset::ValueSet;
}

/// Projection (`Proj`) of stored entries into the JSON shapes the TLA+ trace specs read.
#[path = "/verif/inlib/proj.rs"]
pub mod proj;

#[path = "/verif/inlib/filter.rs"]
pub mod filter;

#[path = "/verif/inlib/repl.rs"]
pub mod repl;

#[path = "/verif/inlib/txn.rs"]
pub mod txn;

#[path = "/verif/inlib/oauth.rs"]
pub mod oauth;

#[path = "/verif/inlib/dirsrv.rs"]
pub mod dirsrv;

#[path = "/verif/inlib/token.rs"]
pub mod token;

#[path = "/verif/inlib/auth.rs"]
pub mod auth;

#[path = "/verif/inlib/access.rs"]
pub mod access;

use crate::repl::ruv::{RangeDiffStatus, ReplicationUpdateVector};
use std::collections::BTreeMap;
use std::time::Duration;

/// Result of `ReplicationUpdateVector::range_diff` in a public, plain shape.
/// maps are server -> (ts_min, ts_max) in seconds.
pub struct RangeDiffOut {
    pub status: &'static str,
    pub ok: BTreeMap<Uuid, (u64, u64)>,
    pub lag: BTreeMap<Uuid, (u64, u64)>,
    pub adv: BTreeMap<Uuid, (u64, u64)>,
}

fn conv(m: &BTreeMap<Uuid, ReplCidRange>) -> BTreeMap<Uuid, (u64, u64)> {
    m.iter()
        .map(|(k, v)| (*k, (v.ts_min.as_secs(), v.ts_max.as_secs())))
        .collect()
}

pub fn range_diff(
    consumer: &BTreeMap<Uuid, (u64, u64)>,
    supplier: &BTreeMap<Uuid, (u64, u64)>,
) -> RangeDiffOut {
    let f = |m: &BTreeMap<Uuid, (u64, u64)>| -> BTreeMap<Uuid, ReplCidRange> {
        m.iter()
            .map(|(k, (a, b))| {
                (
                    *k,
                    ReplCidRange {
                        ts_min: Duration::from_secs(*a),
                        ts_max: Duration::from_secs(*b),
                    },
                )
            })
            .collect()
    };
    let c = f(consumer);
    let s = f(supplier);
    let e = BTreeMap::new();
    match ReplicationUpdateVector::range_diff(&c, &s) {
        RangeDiffStatus::Ok(d) => RangeDiffOut { status: "ok", ok: conv(&d), lag: e.clone(), adv: e },
        RangeDiffStatus::Refresh { lag_range } => RangeDiffOut { status: "refresh", ok: e.clone(), lag: conv(&lag_range), adv: e },
        RangeDiffStatus::Unwilling { adv_range } => RangeDiffOut { status: "unwilling", ok: e.clone(), lag: e, adv: conv(&adv_range) },
        RangeDiffStatus::Critical { lag_range, adv_range } => RangeDiffOut { status: "critical", ok: e, lag: conv(&lag_range), adv: conv(&adv_range) },
        RangeDiffStatus::NoRUVOverlap => RangeDiffOut { status: "nooverlap", ok: e.clone(), lag: e.clone(), adv: e },
    }
}

#[path = "/verif/inlib/store.rs"]
pub mod store;
