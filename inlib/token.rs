//! In-lib accessors for the `token` group (C32 C33 C34 C36 C49). Thin, add-only, no behaviour:
//! they expose crate-private readers / constructors to the harness driver `kv-token`.
#![allow(dead_code, unused_imports, clippy::unwrap_used, clippy::expect_used, clippy::panic, clippy::indexing_slicing, clippy::needless_pass_by_value, missing_docs)]

use crate::idm::delayed::DelayedAction;
use crate::idm::server::IdmServerDelayed;
use crate::prelude::*;
use crate::server::keys::KeyProvidersTransaction;
use crate::value::{KeyStatus, KeyUsage, SessionState};
use compact_jwt::compact::JweCompact;
use compact_jwt::jwe::JweBuilder;
use compact_jwt::jws::JwsBuilder;
use compact_jwt::traits::JwsVerifiable;
use compact_jwt::JwsCompact;
use std::str::FromStr;
use std::time::Duration;

/// `Identity::from_internal()` (crate-private constructor).
pub fn ident_internal() -> Identity {
    Identity::from_internal()
}

/// Non-blocking receive from the delayed-action queue (the server task does `recv_many`).
pub fn delayed_try_recv(d: &mut IdmServerDelayed) -> Option<DelayedAction> {
    d.async_rx.try_recv().ok()
}

fn secs(odt: &time::OffsetDateTime) -> i64 {
    odt.unix_timestamp()
}

/// One login-session record of an account, plain.
pub struct SessRec {
    pub id: Uuid,
    /// "exp" | "never" | "rev"
    pub state: &'static str,
    /// expiry (unix seconds) for "exp", else -1
    pub exp: i64,
    pub cred_id: Uuid,
    /// time of revocation (seconds of the revoking change id) for "rev", else -1
    pub rev_at: i64,
    pub issued_at: i64,
    /// "ro" | "rw" | "pc" | "sync"
    pub scope: &'static str,
}

pub fn uat_sessions(e: &Entry<EntrySealed, EntryCommitted>) -> Vec<SessRec> {
    e.get_ava_as_session_map(Attribute::UserAuthTokenSession)
        .map(|m| {
            m.iter()
                .map(|(id, s)| {
                    let (state, exp, rev_at) = match &s.state {
                        SessionState::ExpiresAt(o) => ("exp", secs(o), -1),
                        SessionState::NeverExpires => ("never", -1, -1),
                        SessionState::RevokedAt(c) => ("rev", -1, c.ts.as_secs() as i64),
                    };
                    SessRec {
                        id: *id,
                        state,
                        exp,
                        rev_at,
                        cred_id: s.cred_id,
                        issued_at: secs(&s.issued_at),
                        scope: match s.scope {
                            SessionScope::ReadOnly => "ro",
                            SessionScope::ReadWrite => "rw",
                            SessionScope::PrivilegeCapable => "pc",
                            SessionScope::Synchronise => "sync",
                        },
                    }
                })
                .collect()
        })
        .unwrap_or_default()
}

/// (token id, expiry or -1, issued_at, "ro"|"rw"|"sync")
pub fn api_sessions(e: &Entry<EntrySealed, EntryCommitted>) -> Vec<(Uuid, i64, i64, &'static str)> {
    e.get_ava_as_apitoken_map(Attribute::ApiTokenSession)
        .map(|m| {
            m.iter()
                .map(|(id, a)| {
                    (
                        *id,
                        a.expiry.as_ref().map(secs).unwrap_or(-1),
                        secs(&a.issued_at),
                        match a.scope {
                            ApiTokenScope::ReadOnly => "ro",
                            ApiTokenScope::ReadWrite => "rw",
                            ApiTokenScope::Synchronise => "sync",
                        },
                    )
                })
                .collect()
        })
        .unwrap_or_default()
}

/// (session id, parent, state, expiry or -1, issued_at, rs uuid)
pub fn oauth2_sessions(
    e: &Entry<EntrySealed, EntryCommitted>,
) -> Vec<(Uuid, Option<Uuid>, &'static str, i64, i64, Uuid)> {
    e.get_ava_as_oauth2session_map(Attribute::OAuth2Session)
        .map(|m| {
            m.iter()
                .map(|(id, s)| {
                    let (state, exp) = match &s.state {
                        SessionState::ExpiresAt(o) => ("exp", secs(o)),
                        SessionState::NeverExpires => ("never", -1),
                        SessionState::RevokedAt(_) => ("rev", -1),
                    };
                    (*id, s.parent, state, exp, secs(&s.issued_at), s.rs_uuid)
                })
                .collect()
        })
        .unwrap_or_default()
}

/// Credential ids the session-consistency plugin considers present on the account:
/// (kind, uuid) with kind "primary" | "passkey" | "attested" | "oauth2".
pub fn cred_ids(e: &Entry<EntrySealed, EntryCommitted>) -> Vec<(&'static str, Uuid)> {
    let mut v = Vec::new();
    if let Some(c) = e.get_ava_single_credential(Attribute::PrimaryCredential) {
        v.push(("primary", c.uuid));
    }
    if let Some(pks) = e.get_ava_passkeys(Attribute::PassKeys) {
        v.extend(pks.keys().map(|u| ("passkey", *u)));
    }
    if let Some(pks) = e.get_ava_attestedpasskeys(Attribute::AttestedPasskeys) {
        v.extend(pks.keys().map(|u| ("attested", *u)));
    }
    if let Some(u) = e.get_ava_single_uuid(Attribute::OAuth2AccountCredentialUuid) {
        v.push(("oauth2", u));
    }
    v
}

/// (validfrom, expire) in unix seconds, -1 when absent.
pub fn validity(e: &Entry<EntrySealed, EntryCommitted>) -> (i64, i64) {
    (
        e.get_ava_single_datetime(Attribute::AccountValidFrom)
            .as_ref()
            .map(secs)
            .unwrap_or(-1),
        e.get_ava_single_datetime(Attribute::AccountExpire)
            .as_ref()
            .map(secs)
            .unwrap_or(-1),
    )
}

fn usage_str(u: &KeyUsage) -> &'static str {
    match u {
        KeyUsage::JwsEs256 => "es256",
        KeyUsage::JwsHs256 => "hs256",
        KeyUsage::JwsRs256 => "rs256",
        KeyUsage::JweA128GCM => "jwe",
        KeyUsage::HkdfS256 => "hkdf",
    }
}

/// Stored key set of a key-object entry: (kid, usage, status, valid_from, seconds of the status change id).
pub fn key_states(e: &Entry<EntrySealed, EntryCommitted>) -> Vec<(String, &'static str, &'static str, u64, u64)> {
    e.get_ava_set(Attribute::KeyInternalData)
        .and_then(|vs| vs.as_key_internal_map())
        .map(|m| {
            m.iter()
                .map(|(kid, d)| {
                    (
                        kid.as_str().to_string(),
                        usage_str(&d.usage),
                        match d.status {
                            KeyStatus::Valid => "valid",
                            KeyStatus::Retained => "retained",
                            KeyStatus::Revoked => "revoked",
                        },
                        d.valid_from,
                        d.status_cid.ts.as_secs(),
                    )
                })
                .collect()
        })
        .unwrap_or_default()
}

/// Sign / encrypt `payload` with the LOADED (in-memory) key object `obj` as the server would at
/// time `ct`. usage: es256 | hs256 | rs256 | jwe. Returns (compact token, kid).
pub fn key_produce(
    qs: &QueryServerReadTransaction<'_>,
    obj: Uuid,
    usage: &str,
    payload: &[u8],
    ct: Duration,
) -> Result<(String, String), String> {
    let ko = qs
        .get_key_providers()
        .get_key_object_handle(obj)
        .ok_or_else(|| "nokeyobject".to_string())?;
    match usage {
        "es256" | "hs256" | "rs256" => {
            let jws = JwsBuilder::from(payload.to_vec()).build();
            let r = match usage {
                "es256" => ko.jws_es256_sign(&jws, ct),
                "hs256" => ko.jws_hs256_sign(&jws, ct),
                _ => ko.jws_rs256_sign(&jws, ct),
            };
            r.map(|c| {
                let kid = c.kid().unwrap_or("").to_string();
                (c.to_string(), kid)
            })
            .map_err(|e| format!("{e:?}"))
        }
        "jwe" => {
            let jwe = JweBuilder::from(payload.to_vec()).build();
            ko.jwe_a128gcm_encrypt(&jwe, ct)
                .map(|c| {
                    let kid = c.kid().unwrap_or("").to_string();
                    (c.to_string(), kid)
                })
                .map_err(|e| format!("{e:?}"))
        }
        _ => Err("badusage".to_string()),
    }
}

/// Verify / decrypt a compact token with the LOADED key object. Ok(payload) or Err(error name).
pub fn key_consume(
    qs: &QueryServerReadTransaction<'_>,
    obj: Uuid,
    usage: &str,
    token: &str,
) -> Result<Vec<u8>, String> {
    let ko = qs
        .get_key_providers()
        .get_key_object_handle(obj)
        .ok_or_else(|| "nokeyobject".to_string())?;
    if usage == "jwe" {
        let c = JweCompact::from_str(token).map_err(|e| format!("parse:{e:?}"))?;
        ko.jwe_decrypt(&c)
            .map(|j| j.payload().to_vec())
            .map_err(|e| format!("{e:?}"))
    } else {
        let c = JwsCompact::from_str(token).map_err(|e| format!("parse:{e:?}"))?;
        ko.jws_verify(&c)
            .map(|j| j.payload().to_vec())
            .map_err(|e| format!("{e:?}"))
    }
}
