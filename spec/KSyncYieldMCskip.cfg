CONSTANTS
  PublishEmpty = FALSE
INIT Init
NEXT Next
INVARIANT Inv
CHECK_DEADLOCK FALSE
