------------------------------ MODULE KDirUuidMC ------------------------------
(* Exhaustive: every request of the alphabet applied (by the L2 decision table) to a small abstract
   store must satisfy L1; every request is printed as a CASE for the harness (direction A). *)
EXTENDS KDirUuid
VARIABLES st, last

U(res, n) == IF res THEN <<0, 0, 0, 0, 0, n>> ELSE <<0, 0, 0, 1, 0, n>>
S0 == [i \in 1..4 |-> CASE i = 1 -> [u |-> U(TRUE, 1), live |-> "live"]       \* built-in
                          [] i = 2 -> [u |-> U(TRUE, 2), live |-> "live"]       \* built-in (anonymous)
                          [] i = 3 -> [u |-> U(FALSE, 3), live |-> "live"]      \* user entry
                          [] i = 4 -> [u |-> U(FALSE, 4), live |-> "recycled"]] \* recycled user entry

\* L2 transition on the abstract store
Effect(s, r) ==
  IF L2Result(r) # "ok" THEN s
  ELSE IF r.op = "create" THEN [i \in DOMAIN s \cup {Cardinality(DOMAIN s) + 1} |->
                                  IF i \in DOMAIN s THEN s[i] ELSE [u |-> U(FALSE, 10 + i), live |-> "live"]]
  ELSE IF r.op = "delete" THEN [s EXCEPT ![3].live = "recycled"]
  ELSE s

Init == st = S0 /\ last = [op |-> "none"]
Next == \E r \in Alphabet : Cardinality(DOMAIN st) < 6 /\ st' = Effect(st, r) /\ last' = r
Spec == Init /\ [][Next]_<<st, last>>
\* action property as invariant over (pre = S0-reachable, post): check every step
StepOk == [][L1Step(st, st') /\ L2Step(st, st', last', L2Result(last'))]_<<st, last>>
ASSUME PrintT(<<"ALPHABET", Cardinality(Alphabet)>>)
=============================================================================
