--------------------------- MODULE KUnixRadiusMC ---------------------------
(* C46, exhaustive: every required-group list over ReqIds x every ORDERED group list (length <= MaxLen, with
   repetition iff Rep) over GroupKeys x every VLAN mapping subset, plus the "no such user" cases. Each case is
   one initial state; the transcription of Module::authorise (L2) is checked against the property (L1) and
   against the two-sided reading. With Emit = TRUE every case is printed (direction A). *)
EXTENDS KUnix, Json
CONSTANTS GroupKeys, ReqIds, MaxLen, Rep, Dflt, Emit
VARIABLE c

Groups == {RadGroup(k) : k \in GroupKeys}
Lists  == {s \in SeqsUpTo(Groups, MaxLen) : Rep \/ Cardinality(SeqToSet(s)) = Len(s)}
\* VLAN of group k is 10*k when mapped (distinct, different from the default)
VlanOf(sid) == CHOOSE v \in {10, 20, 30, 40} : \E k \in GroupKeys : sid = "s" \o k /\ v = 10 * (CHOOSE n \in 1..4 : ToString(n) = k)
MapSets == SUBSET {"s" \o k : k \in GroupKeys}
Cases ==
  {[present |-> TRUE, req |-> r, groups |-> g, maps |-> [s \in m |-> VlanOf(s)], dflt |-> Dflt] :
      r \in SUBSET ReqIds, g \in Lists, m \in MapSets}
  \cup
  {[present |-> FALSE, req |-> r, groups |-> <<>>, maps |-> [s \in m |-> VlanOf(s)], dflt |-> Dflt] :
      r \in SUBSET ReqIds, m \in {{}, {"s1"}}}

Init == c \in Cases
Next == UNCHANGED c
Spec == Init /\ [][Next]_c

Out(x) == RadAuthorise(x.present, x.req, x.groups, x.maps, x.dflt)
Exact(x) == (Out(x).res = "release") <=> (x.present /\ RadMember(x.req, x.groups))
Inv ==
  /\ RadL1(c.present, c.req, c.groups, c.maps, c.dflt, Out(c).res, Out(c).vlan, Out(c).secret)
  /\ Exact(c)
  /\ (Emit => PrintT(<<"CASE", ToJson(c)>>))

Count(r) == Cardinality({x \in Cases : Out(x).res = r})
\* vacuity: releases whose VLAN comes from a mapping that is NOT the last group's, from the default, ...
NonLast == Cardinality({x \in Cases : Out(x).res = "release" /\ Len(x.groups) >= 2
                                      /\ RadMapped(x.groups, x.maps) # {}
                                      /\ Len(x.groups) \notin RadMapped(x.groups, x.maps)})
Post == /\ TLCGet("stats").distinct = Cardinality(Cases)
        /\ Count("release") > 0 /\ Count("reject") > 0 /\ Count("notfound") > 0 /\ NonLast > 0
        /\ PrintT(<<"SPACE", Cardinality(Cases), Count("release"), Count("reject"), Count("notfound"), NonLast>>)
=============================================================================
