--------------------------- MODULE KUnixOfflineMC ---------------------------
(* C44. Two uses:
   (1) Hist = FALSE: exhaustive exploration of the offline-cache machine (L2) against the property (L1), the L1
       bookkeeping B being driven by the results L2 produces; all reachable states, every offline attempt in each.
   (2) Hist = TRUE: the behaviour so far is part of the state; every behaviour of length Depth that is canonical
       (passwords and machines named in order of first use) and contains an offline login is printed as a CASE
       (direction A: replayed on the real provider / resolver / cache helpers). *)
EXTENDS KUnix, Json
CONSTANTS Machines, Pws, Depth, Hist, Emit, NoRollback
VARIABLES S, B, h
vars == <<S, B, h>>

Init == S = OffInit(Machines) /\ B = OffB0(Machines) /\ h = <<>>
Rec(a, m, p, m2, res) == [a |-> a, m |-> m, p |-> p, m2 |-> m2, res |-> res]
Log(r) == h' = IF Hist THEN Append(h, r) ELSE h
Online(m, p) == LET o == OffOnline(S, m, p) r == Rec("online", m, p, "-", o.res)
                IN  S' = o.S /\ B' = OffBNext(B, r) /\ Log(r)
PwChange(p) == p # S.srv /\ S' = OffPwChange(S, p) /\ UNCHANGED B /\ Log(Rec("pwchange", "-", p, "-", "ok"))
Offline(m, p) == LET r == Rec("offline", m, p, "-", OffOffline(S, m, p))
                 IN  Hist /\ UNCHANGED <<S, B>> /\ Log(r)
Swap(m1, m2) == LET r == Rec("swap", m1, "-", m2, "ok")
                \* environment assumption: a record is never copied back onto the machine whose key sealed it
                \* (rolling a machine's own cache back to an older record is outside the stated quantifier;
                \*  without it the model shows the older password accepted again -- see notes/unix.md)
                IN  m1 # m2 /\ (NoRollback => S.cache[m1].key # m2) /\ S' = OffSwap(S, m1, m2) /\ B' = OffBNext(B, r) /\ Log(r)
Next == /\ (Hist => Len(h) < Depth)
        /\ \/ \E m \in Machines, p \in Pws : Online(m, p) \/ Offline(m, p)
           \/ \E p \in Pws : PwChange(p)
           \/ \E m1, m2 \in Machines : Swap(m1, m2)
Spec == Init /\ [][Next]_vars

\* L1 on what L2 answers, in every reachable state, for every possible offline attempt
Safe == \A m \in Machines, p \in Pws : OffL1(B, m, p, OffOffline(S, m, p))
\* the two-sided reading
Exact == \A m \in Machines, p \in Pws : (OffOffline(S, m, p) = "accept") <=> (B.last[m] = p /\ B.prov[m] = m)

\* canonical naming: first use order
FirstUse(seq, x) == CHOOSE i \in 1..Len(seq) : seq[i] = x /\ \A j \in 1..(i - 1) : seq[j] # x
Ordered(seq, names) == \A i \in 1..Len(names) : \A j \in 1..Len(names) :
                         (i < j /\ \E k \in 1..Len(seq) : seq[k] = names[j]) =>
                           (\E k \in 1..Len(seq) : seq[k] = names[i]) /\ FirstUse(seq, names[i]) < FirstUse(seq, names[j])
MOf(r) == (IF r.m # "-" THEN <<r.m>> ELSE <<>>) \o (IF r.m2 # "-" THEN <<r.m2>> ELSE <<>>)
POf(r) == IF r.p # "-" THEN <<r.p>> ELSE <<>>
RECURSIVE MFrom(_), PFrom(_)
MFrom(i) == IF i > Len(h) THEN <<>> ELSE MOf(h[i]) \o MFrom(i + 1)
PFrom(i) == IF i > Len(h) THEN <<>> ELSE POf(h[i]) \o PFrom(i + 1)
MSeq == MFrom(1)
PSeq == <<"p1">> \o PFrom(1)
Canon == Ordered(MSeq, <<"mA", "mB">>) /\ Ordered(PSeq, <<"p1", "p2", "p3">>)
EmitInv == (Hist /\ Emit /\ Len(h) = Depth /\ Canon /\ h[Depth].a = "offline" /\ \E i \in 1..Depth : h[i].a = "online")
             => PrintT(<<"CASE", ToJson([steps |-> h])>>)
ReachAccept == ~(\E m \in Machines, p \in Pws : OffOffline(S, m, p) = "accept" /\ \E m2 \in Machines : S.cache[m2] # OffNone /\ S.cache[m2].key # m2)
=============================================================================
