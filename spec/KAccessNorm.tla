----------------------------- MODULE KAccessNorm -----------------------------
(* Normalisation of the JSON projection logged by the drivers (arrays -> sets) into the L0 vocabulary
   of KAccess. Shared by the trace specifications and by the model that reads the extracted defaults. *)
EXTENDS KAccess
NEnt(x, r) == [id |-> x, live |-> r.live, sys |-> r.sys,
               attrs |-> [a \in DOMAIN r.attrs |-> Range(r.attrs[a])], o2g |-> Range(r.o2g)]
NEnts(o) == [x \in DOMAIN o |-> NEnt(x, o[x])]
NProf(r) == [rk |-> r.rk, rg |-> Range(r.rg), tgt |-> r.tgt, srch |-> r.srch, sa |-> Range(r.sa),
             mod |-> r.mod, pa |-> Range(r.pa), ra |-> Range(r.ra), pc |-> Range(r.pc), rc |-> Range(r.rc),
             cre |-> r.cre, ca |-> Range(r.ca), cc |-> Range(r.cc), del |-> r.del]
NProfs(s) == {NProf(s[i]) : i \in DOMAIN s}
NId(r) == [u |-> r.u, mo |-> Range(r.mo), scope |-> r.scope, origin |-> r.origin, anon |-> r.anon,
           cls |-> Range(r.cls), spu |-> Range(r.spu)]
NMl(s) == [i \in DOMAIN s |-> [k |-> s[i].k, a |-> s[i].a, v |-> Range(s[i].v)]]
\* sync agreements that yield authority over attributes
Yield(E) == [x \in {y \in DOMAIN E : "sync_account" \in Classes(E[y]) /\ "sync_yield_authority" \in DOMAIN E[y].attrs}
               |-> E[x].attrs["sync_yield_authority"]]
=============================================================================
