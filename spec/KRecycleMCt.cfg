CONSTANTS
  RMax = 2
  CMax = 2
  MaxLen = 6
  TMax = 10
  Sample = 2000
INIT Init
NEXT Next
VIEW View
INVARIANT Soft
CHECK_DEADLOCK FALSE
