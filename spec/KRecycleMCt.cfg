CONSTANTS
  RMax = 2
  CMax = 2
  MaxLen = 6
  TMax = 12
  Sample = 150
INIT Init
NEXT Next
VIEW View
INVARIANT Soft
CHECK_DEADLOCK FALSE
