CONSTANTS
  RMax = 2
  CMax = 2
  MaxLen = 5
  TMax = 10
  Sample = 400
INIT Init
NEXT Next
VIEW View
INVARIANT Soft
CHECK_DEADLOCK FALSE
