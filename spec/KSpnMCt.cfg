CONSTANTS
  MaxLen = 7
  Sample = 40
INIT Init
NEXT Next
VIEW View
INVARIANT Soft
CHECK_DEADLOCK FALSE
