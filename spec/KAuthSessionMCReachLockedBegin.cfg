CONSTANTS
  MaxLen = 5
SPECIFICATION Spec
INVARIANT ReachLockedBegin
CHECK_DEADLOCK FALSE
