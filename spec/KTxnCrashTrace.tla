--------------------------- MODULE KTxnCrashTrace ---------------------------
(* C05: validates crash-enumeration observations of the REAL server. One line per case:
   {"a":"ref","kind":K,"n":N,"before":D,"after":D}
   {"a":"crash","kind":K,"k":n,"point":P,"crashed":0|1,"before":D,"after":D,"rec":D,
    "verify":[...], "nextc":T, "cmax":T, "srv":U}
   D = projection of everything stored, read from the file after the child process died:
       ent   every data entry with all attributes and per-attribute change identifiers
       n     number of entries in the database,  tsmax  persisted maximum change timestamp
       idx   answers of the name -> uuid lookup table
       idxt  number of idx_* tables present,  idxc  keys / ids they hold (+ digest of the per-table sizes)
       bev   the backend's own consistency check on the file as found (verify_indexes, allids, RUV)
   before / after = the same projection from fault-free runs (start-up only / start-up + commit)
   verify = errors of the restarted server's own consistency check
   nextc  = identifier stamped by a probe write on the restarted server (clock set BACK)
   cmax   = greatest identifier of this server found anywhere in the recovered database        *)
EXTENDS KTxn, Json, IOUtils
Rec == ndJsonDeserialize(IOEnv.TRACE)
VARIABLE l
r == Rec[l]
T(o) == Ts(o.s, o.n)

L1Line == r.a = "ref" \/ CrashOk(r.rec, r.before, r.after, r.verify, T(r.nextc), T(r.cmax))
L1Sig  == IF ~BeforeOrAfter(r.rec, r.before, r.after) THEN "mixed-state"
          ELSE IF r.verify # <<>> THEN "verify-errors" ELSE "identifier-not-above-committed"

\* L2: SQLite makes the transaction durable at COMMIT and not before; everything else is rebuilt
CommitPos == StepPos("sql_commit")
L2Line == IF r.a = "ref" THEN r.before # r.after
          ELSE IF r.crashed = 0 THEN r.rec = r.after
          ELSE /\ r.point \in DOMAIN StepOfPoint
               /\ r.rec = (IF StepPos(StepOfPoint[r.point]) <= CommitPos THEN r.before ELSE r.after)

Init == l = 1
Next == l <= Len(Rec) /\ l' = l + 1
Spec == Init /\ [][Next]_l
Judge == l <= Len(Rec) =>
           /\ (L1Line \/ PrintT(<<"L1FAIL", "C05", l, L1Sig>>))
           /\ (L2Line \/ PrintT(<<"L2DRIFT", "C05", l>>))
Consumed == TLCGet("stats").distinct = Len(Rec) + 1 \/ PrintT(<<"NOTCONSUMED", TLCGet("stats").distinct, Len(Rec)>>)
=============================================================================
