CONSTANTS
  MaxPriv = 3600
  MaxSess = 2000000000
  MfaMin = 10
  SfaMin = 15
  MaxLen = 128
  Mfa = 10
  N = 2
  PeDom = {}
  SeDom = {}
  MlDom = {12}
  CtDom = {10}
INIT InitProd
NEXT Next
INVARIANT ReachSfaBump
CHECK_DEADLOCK FALSE
