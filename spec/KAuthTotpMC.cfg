CONSTANTS
  Steps = {2, 3}
  TMul = 5
  KMax = 6
INIT Init
NEXT Next
INVARIANT Inv
INVARIANT Emit
CHECK_DEADLOCK FALSE
