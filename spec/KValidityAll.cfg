CONSTANTS
  T = 4
INIT Init
NEXT Next
INVARIANT InvAll
CHECK_DEADLOCK FALSE
