CONSTANTS
  Before = TRUE
  T = 4
INIT Init
NEXT Next
INVARIANT Inv
CHECK_DEADLOCK FALSE
