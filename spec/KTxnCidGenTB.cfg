CONSTANTS
  CommitOrder = "publish_first"
  NanoMax = 1000000000
  Secs = {0}
  Nanos = {0, 1, 2}
  Depth = 5
  Emit = TRUE
  MaxInit = 1
  MaxBare = 5
  NoRR = TRUE
INIT Init
NEXT Next
INVARIANT L1CidFresh
INVARIANT EmitCase
CHECK_DEADLOCK FALSE
