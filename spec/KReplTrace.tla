------------------------------ MODULE KReplTrace ------------------------------
(***************************************************************************)
(* Judges observed histories of 2-3 REAL kanidm servers (driver            *)
(* harness/repl/src/hist.rs) against the L1 properties of KRepl:           *)
(*   C08 Converged        at every quiescent full mesh all replicas agree  *)
(*   C09 NoResurrection   deleted entries never come back; refused         *)
(*                        exchanges change nothing; lagging consumers are  *)
(*                        refused (decision table of KRange on the logged  *)
(*                        ranges)                                          *)
(*   C19 UniqueLive       no two live entries share uuid, name or spn      *)
(* One line = one operation with the projected state of every replica      *)
(* after it. "init" lines start a new history.                             *)
(***************************************************************************)
EXTENDS Naturals, FiniteSets, Sequences, TLC, Json, IOUtils, KRange

Rec == ndJsonDeserialize(IOEnv.TRACE)

VARIABLES l,      \* next line to judge
          del,    \* ids successfully deleted in this history
          rev,    \* ids successfully revived in this history (exempt from NoResurrection)
          cre,    \* ids created successfully, as a sequence (an id created twice = uuid conflict, exempt)
          seen,   \* [replica -> ids ever observed present there]
          skewed, \* some write of this history was stamped earlier than a change its replica had already received
          trimmed,\* a purge_tombstones (RUV trim) succeeded in this history
          revoked,\* <<entry, session>> pairs some replica has shown as revoked in this history
          dead,   \* [replica -> ids observed deleted (present and not live, or gone after being present)]
          dirty,  \* (unused)
          aged,   \* the clock jumped by (nearly) a whole changelog window earlier in this history
          lost    \* ids whose deletion was known only to a replica that was then refreshed (discarded by the refresh)
vars == <<l, del, rev, cre, seen, skewed, trimmed, revoked, dead, dirty, aged, lost>>

\* ------------------------------------------------------------------ projection helpers
Get(f, r) == IF r \in DOMAIN f THEN f[r] ELSE {}
St(i)        == Rec[i].st
Reps(i)      == DOMAIN St(i)
Ents(i, r)   == St(i)[r].ents
Present(i, r, x) == x \in DOMAIN Ents(i, r)
LiveAt(i, r, x)  == Present(i, r, x) /\ Ents(i, r)[x].live = "live"
SeqSet(s)    == {s[k] : k \in 1..Len(s)}
AttrVals(e, a) == IF a \in DOMAIN e.attrs THEN SeqSet(e.attrs[a]) ELSE {}
\* attributes every replica derives locally (not replicated)
Derived      == {"memberof", "directmemberof"}
ModelIds     == {"e" \o ToString(k) : k \in 0..99}
Without(f, S) == [a \in (DOMAIN f) \ S |-> f[a]]
SubFun(f, g) == DOMAIN f \subseteq DOMAIN g /\ \A a \in DOMAIN f : f[a] = g[a]
\* Core of an entry: liveness class always; all attributes when live; replicated attributes when recycled /
\* tombstone; for entries in the CONFLICT state only the class (their attributes are judged separately)
CoreAttrs(e) == IF e.live = "live" THEN e.attrs
                ELSE IF e.live = "conflict" THEN <<>>
                ELSE Without(e.attrs, Derived)
Core(e)      == [live |-> e.live, attrs |-> CoreAttrs(e)]
EntsCore(i, r) == [x \in DOMAIN Ents(i, r) |-> Core(Ents(i, r)[x])]
RecycledDerived(i, r) == [x \in {y \in DOMAIN Ents(i, r) : Ents(i, r)[y].live \notin {"live", "conflict"}} |->
                            [a \in (DOMAIN Ents(i, r)[x].attrs) \cap Derived |-> Ents(i, r)[x].attrs[a]]]
\* sessions of entries that are not in the conflict state (a conflict copy's sessions are one more of its attributes
\* and are judged with them by CnfFlavour)
SesOf(i, r)  == [x \in {y \in DOMAIN Ents(i, r) : Ents(i, r)[y].live # "conflict"} |-> Ents(i, r)[x].ses]
AttrsS(e)    == IF DOMAIN e.ses = {} THEN e.attrs ELSE [a \in {"user_auth_token_session"} |-> e.ses] @@ e.attrs
\* attribute disagreement on an entry that is in the conflict state on both replicas, by flavour
CnfFlavour(a0, b0) ==
  LET a == [attrs |-> AttrsS(a0)]  b == [attrs |-> AttrsS(b0)] IN
  IF a.attrs = b.attrs THEN "none"
  ELSE IF Without(a.attrs, Derived) = Without(b.attrs, Derived) THEN "conflict-entry-stale-memberof"
  ELSE IF Without(a.attrs, Derived \cup {"source_uuid"}) = Without(b.attrs, Derived \cup {"source_uuid"}) THEN "conflict-entry-source-uuid-set"
  ELSE IF SubFun(Without(a.attrs, Derived), Without(b.attrs, Derived)) \/ SubFun(Without(b.attrs, Derived), Without(a.attrs, Derived))
       THEN "conflict-entry-partial-attrs"
  ELSE "conflict-entry-attrs-diverged"
CnfFlavours(i) == {CnfFlavour(Ents(i, r1)[x], Ents(i, r2)[x]) :
                     <<r1, r2, x>> \in {t \in Reps(i) \X Reps(i) \X (UNION {DOMAIN Ents(i, r) : r \in Reps(i)}) :
                        /\ t[3] \in DOMAIN Ents(i, t[1]) /\ t[3] \in DOMAIN Ents(i, t[2])
                        /\ Ents(i, t[1])[t[3]].live = "conflict" /\ Ents(i, t[2])[t[3]].live = "conflict"}} \ {"none"}

IsInit(i)    == Rec[i].op = "init"
OkRes(i)     == Rec[i].res = "ok"
IdOf(i)      == "e" \o ToString(Rec[i].e)

\* history sets including the line being judged
Del2 == IF IsInit(l) THEN {} ELSE del \cup (IF Rec[l].op = "delete" /\ OkRes(l) THEN {IdOf(l)} ELSE {})
Rev2 == IF IsInit(l) THEN {} ELSE rev \cup (IF Rec[l].op = "revive" /\ OkRes(l) THEN {IdOf(l)} ELSE {})
Cre2 == IF IsInit(l) THEN <<>> ELSE IF Rec[l].op = "create" /\ OkRes(l) THEN Append(cre, IdOf(l)) ELSE cre
Skew2 == IF IsInit(l) THEN FALSE ELSE skewed \/ ("skew" \in DOMAIN Rec[l] /\ Rec[l].skew)
Trim2 == IF IsInit(l) THEN FALSE ELSE trimmed \/ (Rec[l].op \in {"purge_ts", "trim"} /\ OkRes(l))
\* C08 speaks about the state "once every replica has received every other replica's changes".  The replayed model
\* histories map model time t to 1000 + t * tscale + rank seconds, but a `purge` needs the recycle-bin age of real
\* builds and makes the driver jump the clock by 7 days; writes of other replicas that are undelivered at that moment,
\* and later writes the model stamped with a smaller t, are then older than the changelog window (CHANGELOG_MAX_AGE,
\* 7 days) and can be lost for good: a supplier no longer lists its own aged change ids, so a quiescent mesh is reached
\* without the consumer ever receiving them (DESIGN 12.2, observation (a)).  For the rest of such a history quiescence
\* is no evidence that everything was received, and the convergence clauses (C08, and C11's "until the changelog
\* window expires") are not evaluated; C09's clauses, which are about exactly these lags, still are.
ChangelogWindow == 604800
Jump(i)  == i > 1 /\ ~IsInit(i) /\ Rec[i].now - Rec[i - 1].now >= ChangelogWindow - 3600
Dirty2 == FALSE
Aged2  == IF IsInit(l) THEN FALSE ELSE aged \/ Jump(l)
Multi(c) == {c[k] : k \in {j \in 1..Len(c) : \E m \in 1..Len(c) : m # j /\ c[m] = c[j]}}
\* A refresh replaces the consumer's whole database with the supplier's: changes the consumer had not yet supplied to
\* anyone are discarded with it.  C09 itself prescribes the refresh for a replica that was out of contact for longer
\* than the changelog window, so a deletion that only such a replica knew (after the refresh the entry is live on the
\* refreshed replica and NO replica holds it deleted any more) is not a deletion the property can still speak about.
\* (LiveAt / Present are defined above; evaluated on the line being judged.)
LostNow == IF Rec[l].op = "refresh" /\ OkRes(l)
           THEN {x \in Del2 : /\ x \in Get(dead, Rec[l].to) /\ LiveAt(l, Rec[l].to, x)
                              /\ \A q \in Reps(l) : ~(Present(l, q, x) /\ ~LiveAt(l, q, x))}
           ELSE {}
Lost2 == IF IsInit(l) THEN {} ELSE lost \cup LostNow
Tracked == Del2 \ (Rev2 \cup Multi(Cre2) \cup Lost2)      \* deletions the property speaks about unconditionally

\* ------------------------------------------------------------------ C19
UniqueOn(i, r) ==
  /\ St(i)[r].dup = 0
  /\ \A x, y \in DOMAIN Ents(i, r) :
       (x # y /\ Ents(i, r)[x].live = "live" /\ Ents(i, r)[y].live = "live") =>
          /\ AttrVals(Ents(i, r)[x], "name") \cap AttrVals(Ents(i, r)[y], "name") = {}
          /\ AttrVals(Ents(i, r)[x], "spn")  \cap AttrVals(Ents(i, r)[y], "spn")  = {}
UniqueLive(i) == \A r \in Reps(i) : UniqueOn(i, r)

\* ------------------------------------------------------------------ C16 (replicated): no dangling member references
\* every member / memberof / directmemberof value of a live entry that names a model entry names one that is live
\* on the same replica (references to built-in groups are outside the projection)
RefAttrs == {"member", "memberof", "directmemberof"}
NoDanglingRef(i) ==
  \A r \in Reps(i) : \A x \in DOMAIN Ents(i, r) :
     Ents(i, r)[x].live = "live" =>
        \A a \in RefAttrs : \A m \in (AttrVals(Ents(i, r)[x], a) \cap ModelIds) : LiveAt(i, r, m)

\* ------------------------------------------------------------------ C08
IsQuiescentMesh(i) == Rec[i].op = "mesh" /\ Rec[i].res.q
ConvergedCore(i)    == \A r1, r2 \in Reps(i) : EntsCore(i, r1) = EntsCore(i, r2)
ConvergedSes(i)     == \A r1, r2 \in Reps(i) : SesOf(i, r1) = SesOf(i, r2)
ConvergedDerived(i) == \A r1, r2 \in Reps(i) : RecycledDerived(i, r1) = RecycledDerived(i, r2)
Q(i, P) == (IsQuiescentMesh(i) /\ ~Aged2) => P

\* classification of a session-only divergence: one replica's session map is pointwise at least as
\* advanced as the other's (it absorbed the other's content but the other never received it back)
TsLt(a, b) == a[1] < b[1] \/ (a[1] = b[1] /\ a[2] < b[2])
SGt(x, y) == IF x.st = 2 /\ y.st = 2 THEN TsLt(x.c, y.c) ELSE x.st > y.st
Dominates(m1, m2) == \A k \in DOMAIN m2 : k \in DOMAIN m1 /\ ~SGt(m2[k], m1[k])
SesDominated(i) == \A r1, r2 \in Reps(i) : \A x \in (DOMAIN Ents(i, r1)) \cap (DOMAIN Ents(i, r2)) :
                      LET a == Ents(i, r1)[x].ses  b == Ents(i, r2)[x].ses IN Dominates(a, b) \/ Dominates(b, a)
SesSig(i) == IF ConvergedCore(i) /\ SesDominated(i) THEN "session-merge-not-propagated" ELSE "session-diverged"

\* ------------------------------------------------------------------ C11 (system level)
RevokedNow(i) == {<<x, k>> \in UNION {{<<y, j>> : j \in DOMAIN Ents(i, r)[y].ses} : <<r, y>> \in
                       {p \in Reps(i) \X UNION {DOMAIN Ents(i, q) : q \in Reps(i)} : p[2] \in DOMAIN Ents(i, p[1])}} :
                    \E r \in Reps(i) : x \in DOMAIN Ents(i, r) /\ k \in DOMAIN Ents(i, r)[x].ses /\ Ents(i, r)[x].ses[k].st = 2}
Revoked2 == IF IsInit(l) THEN {} ELSE revoked \cup RevokedNow(l)
\* a session any replica has revoked is not usable anywhere once the replicas are quiescent
RevocationSticky(i) == (IsQuiescentMesh(i) /\ ~Aged2) =>   \* the statement holds "until the changelog window expires"
   \A p \in Revoked2 : \A r \in Reps(i) :
      (p[1] \in DOMAIN Ents(i, r) /\ p[2] \in DOMAIN Ents(i, r)[p[1]].ses) => Ents(i, r)[p[1]].ses[p[2]].st = 2

\* ------------------------------------------------------------------ C09
\* (a) on a replica that has shown the entry deleted, it never becomes live again
NoResurrectionStep(i) == \A r \in Reps(i) : \A x \in (Get(dead, r) \cap Tracked) : ~LiveAt(i, r, x)
\* (b) once every pair reports nothing left to supply, a deleted entry is live nowhere
NoLiveDeletedAtQuiescence(i) == IsQuiescentMesh(i) => \A r \in Reps(i) : \A x \in Tracked : ~LiveAt(i, r, x)

\* a tombstone is terminal: no incremental exchange or local write turns it into anything else (a refresh replaces
\* the consumer's whole database with the supplier's and is exempt)
TombstoneTerminal(i) ==
  (i > 1 /\ ~IsInit(i) /\ Rec[i].op # "refresh") =>
     \A r \in Reps(i) : \A x \in DOMAIN Ents(i - 1, r) :
        Ents(i - 1, r)[x].live = "tombstone" => (x \notin DOMAIN Ents(i, r) \/ Ents(i, r)[x].live = "tombstone")

Refused(i) == Rec[i].op = "repl" /\ Rec[i].res.sup \in {"refresh_required", "unwilling", "domain_mismatch"}
RefusalInert(i) == (Refused(i) /\ i > 1 /\ ~IsInit(i)) => Ents(i, Rec[i].to) = Ents(i - 1, Rec[i].to)

\* decision table on the logged (rank-compressed) windows: consumer's reported ranges vs the supplier's
AsMap(o) == [x \in DOMAIN o |-> Win(o[x].min, o[x].max)]
RangeDecision(i) ==
  (Rec[i].op = "repl" /\ "crk" \in DOMAIN Rec[i].res) =>
     LET exp == L1Status(AsMap(Rec[i].res.crk), AsMap(Rec[i].res.srk)) IN
       /\ (exp = "ok")      <=> (Rec[i].res.sup \in {"changes", "no_changes"})
       /\ (exp = "refresh") <=> (Rec[i].res.sup = "refresh_required")

\* ------------------------------------------------------------------ stepping
Init == l = 1 /\ del = {} /\ rev = {} /\ cre = <<>> /\ seen = <<>> /\ dead = <<>> /\ skewed = FALSE /\ revoked = {} /\ trimmed = FALSE
        /\ dirty = FALSE /\ aged = FALSE /\ lost = {}

Next ==
  /\ l <= Len(Rec)
  /\ l' = l + 1
  /\ del' = Del2 /\ rev' = Rev2 /\ cre' = Cre2 /\ skewed' = Skew2 /\ revoked' = Revoked2 /\ trimmed' = Trim2
  /\ dirty' = Dirty2 /\ aged' = Aged2 /\ lost' = Lost2
  /\ seen' = [r \in Reps(l) |-> (IF IsInit(l) THEN {} ELSE Get(seen, r)) \cup DOMAIN Ents(l, r)]
  /\ dead' = [r \in Reps(l) |->
                (IF IsInit(l) THEN {} ELSE Get(dead, r))
                \cup {x \in Del2 : Present(l, r, x) /\ ~LiveAt(l, r, x)}
                \cup {x \in Del2 : ~Present(l, r, x) /\ x \in Get(seen, r) /\ ~IsInit(l)}]
Spec == Init /\ [][Next]_vars

Judge == l <= Len(Rec) =>
  /\ (Q(l, ConvergedCore(l))    \/ PrintT(<<"L1FAIL", "C08", l, IF Skew2 THEN "state-diverged-under-clock-skew" ELSE "state-diverged">>))
  /\ \A f \in {"conflict-entry-stale-memberof", "conflict-entry-source-uuid-set", "conflict-entry-partial-attrs", "conflict-entry-attrs-diverged"} :
        (Q(l, f \notin CnfFlavours(l)) \/ PrintT(<<"L1FAIL", "C08", l, f>>))
  \* sessions and derived attributes of recycled entries are classes of their own only where the core state agrees
  \* (where it does not, the line above has already reported the divergence they are a consequence of)
  /\ (Q(l, ConvergedCore(l) => ConvergedSes(l))     \/ PrintT(<<"L1FAIL", "C08", l, SesSig(l)>>))
  /\ (Q(l, ConvergedCore(l) => ConvergedDerived(l)) \/ PrintT(<<"L1FAIL", "C08", l, "recycled-entry-stale-memberof">>))
  /\ (NoResurrectionStep(l) \/ PrintT(<<"L1FAIL", "C09", l, "resurrected">>))
  /\ (NoLiveDeletedAtQuiescence(l) \/ PrintT(<<"L1FAIL", "C09", l,
          IF Trim2 THEN "deletion-never-delivered-after-trim"
          ELSE IF Aged2 THEN "deletion-dropped-after-lag-beyond-window" ELSE "deleted-entry-live-at-quiescence">>))
  /\ (TombstoneTerminal(l)  \/ PrintT(<<"L1FAIL", "C09", l, "tombstone-changed">>))
  /\ (RefusalInert(l)       \/ PrintT(<<"L1FAIL", "C09", l, "refusal-changed-consumer">>))
  /\ (RangeDecision(l)      \/ PrintT(<<"L1FAIL", "C09", l, "range-decision">>))
  /\ (RevocationSticky(l)   \/ PrintT(<<"L1FAIL", "C11", l, "revocation-not-propagated">>))
  /\ (NoDanglingRef(l)      \/ PrintT(<<"L1FAIL", "C16", l, "dangling-reference-after-replication">>))
  /\ (UniqueLive(l)         \/ PrintT(<<"L1FAIL", "C19", l, "duplicate">>))
  /\ ((Rec[l].op = "mesh" => Rec[l].res.q) \/ PrintT(<<"NOTQUIESCENT", l>>))
  /\ (~(IsQuiescentMesh(l) /\ Aged2) \/ PrintT(<<"AGED", l>>))

Consumed == TLCGet("stats").distinct = Len(Rec) + 1 \/ PrintT(<<"NOTCONSUMED", TLCGet("stats").distinct, Len(Rec)>>)
=============================================================================
