--------------------------- MODULE KAuthSessionTrace ---------------------------
(* Validates observed step sequences of the REAL IdmServerAuthTransaction::auth (C27).  Lines:
   {"a":"reset","cfg":C,"w":W, ...}                       a fresh account / session history
   {"a":"init"|"begin"|"cred","x":X,"t":0|1,"res":R,"mechs":[...],"tok":0|1}
   x = mechanism (begin) / credential kind (cred) / "" (init); t = 1 once the clock was advanced;
   res = class of the AuthState answered (choose/continue/denied/success) or "err";
   mechs = mechanisms offered (choose) or factors allowed next (continue); tok = token returned. *)
EXTENDS KAuthSession, Json, IOUtils, TLC
Rec == ndJsonDeserialize(IOEnv.TRACE)
VARIABLES l, cfg, w, S, H, adv
RangeOf(s) == {s[i] : i \in 1..Len(s)}
StepOf(r) == [a |-> r.a, x |-> r.x]
Res(r) == IF r.res \in {"choose", "continue", "denied", "success"} THEN r.res ELSE "err"

LineL1(r) == L1Step(cfg, w, r.t = 1, H, StepOf(r), Res(r), RangeOf(r.mechs), r.tok)
L2Out(r) == LET S1 == IF r.t = 1 /\ ~adv THEN L2Advance(S) ELSE S IN L2Step(cfg, w, r.t = 1, S1, StepOf(r))
LineL2(r) == LET o == L2Out(r) IN o.res = Res(r) /\ o.tok = r.tok /\ (Res(r) \in {"choose", "continue"} => o.mechs = RangeOf(r.mechs))

Init == l = 1 /\ cfg = "none" /\ w = "in" /\ S = S0 /\ H = H0 /\ adv = FALSE
Next == /\ l <= Len(Rec)
        /\ l' = l + 1
        /\ LET r == Rec[l] IN
           IF r.a = "reset"
           THEN cfg' = r.cfg /\ w' = r.w /\ S' = S0 /\ H' = H0 /\ adv' = FALSE
           ELSE /\ UNCHANGED <<cfg, w>>
                /\ adv' = (r.t = 1)
                /\ H' = HNext(H, StepOf(r), Res(r), RangeOf(r.mechs))
                \* follow the implementation-shaped state only while it explains the trace
                /\ S' = L2Out(r).S
Sig(r) == IF Res(r) = "success" /\ ~Valid(w, r.t = 1) THEN "success-outside-window-" \o w
          ELSE r.a \o "-" \o r.x \o "-" \o Res(r)
Judge == (l <= Len(Rec) /\ Rec[l].a # "reset") =>
           /\ (LineL1(Rec[l]) \/ PrintT(<<"L1FAIL", "C27", l, Sig(Rec[l])>>))
           /\ (LineL2(Rec[l]) \/ PrintT(<<"L2DRIFT", "C27", l>>))
Consumed == TLCGet("stats").distinct = Len(Rec) + 1 \/ PrintT(<<"NOTCONSUMED", TLCGet("stats").distinct, Len(Rec)>>)
=============================================================================
