CONSTANTS
  Mode = "str"
  Lim = 2
  MaxLen = 6
INIT Init
NEXT Next
INVARIANT MCInv
POSTCONDITION Census
CHECK_DEADLOCK FALSE
