CONSTANTS
  Mode = "str"
  Lim = 3
  MaxLen = 6
INIT Init
NEXT Next
INVARIANT MCInv
POSTCONDITION Census
CHECK_DEADLOCK FALSE
