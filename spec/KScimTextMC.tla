----------------------------- MODULE KScimTextMC -----------------------------
(* Exhaustive, with the depth limit scaled to Lim:
   mode "ast": every AST of connective depth <= 2 over collapsed leaves: the peg transcription parses the
               printed form back to the same AST iff its nesting is within the limit, and the reference
               reading agrees;
   mode "str": every token string up to MaxLen over {A, B, and, or, not, (, )}: the peg transcription and
               the reference reading (split at the lowest-precedence operator) accept the same strings
               within the limit and build the same tree; nothing deeper than the limit is accepted. *)
EXTENDS KScimText
CONSTANTS Mode, Lim, MaxLen
VARIABLES x

Atoms == {"A", "B"}
L0s == {[k |-> "atom", s |-> "A"], [k |-> "atom", s |-> "B"], [k |-> "leaf", p |-> "c.d", op |-> "eq", v |-> "1"]}
C0s == {[k |-> "leaf", p |-> "s", op |-> "pr", v |-> ""], [k |-> "leaf", p |-> "s", op |-> "co", v |-> "2"]}
Comb(S) == {[k |-> "and", l |-> a, r |-> b] : a \in S, b \in S} \cup {[k |-> "or", l |-> a, r |-> b] : a \in S, b \in S}
           \cup {[k |-> "not", e |-> a] : a \in S}
C1s == C0s \cup Comb(C0s)
T1 == L0s \cup Comb(L0s) \cup {[k |-> "cx", a |-> "m", e |-> c] : c \in C0s}
T2 == L0s \cup Comb(T1) \cup {[k |-> "cx", a |-> "m", e |-> c] : c \in C1s}
Alphabet == {W("A"), W("B"), W("and"), W("or"), W("not"), LP, RP}
Strings == UNION {[1..n -> Alphabet] : n \in 1..MaxLen}

\* mode "lex": every string value over LexAlphabet up to MaxLen characters, printed, followed by every trailer
LexAlphabet == {"a", " ", "(", ")", "[", "]", BSL, QUOTE, "\t"}
LexStrings(n) == UNION {[1..k -> LexAlphabet] : k \in 0..n}
Trailers == {<<>>, <<")">>, <<")", " ", "a">>, <<"]">>, <<")", QUOTE>>, <<" ", QUOTE, ")">>}
Init == x \in (IF Mode = "ast" THEN T2 ELSE IF Mode = "lex" THEN LexStrings(MaxLen) ELSE Strings)
Next == UNCHANGED x
Count(r) == TLCSet(r, TLCGet(r) + 1)
Bad(tag) == PrintT(<<tag, x>>) /\ FALSE
InvAst == LET s == Show(x) p == PegParse(s, Lim, Atoms)
          IN /\ Count(1)
             /\ (IF Nest(s) <= Lim THEN Count(2) /\ (p = x \/ Bad("ROUNDTRIP")) ELSE Count(3) /\ (p = Err \/ Bad("LIMIT")))
             /\ (RefTree(s, Atoms) = x \/ Bad("REFPRINT"))
InvStr == LET p == PegParse(x, Lim, Atoms) r == RefTree(x, Atoms)
          IN /\ Count(1)
             /\ (p = Err \/ Count(2))
             /\ (p = Err \/ p = r \/ Bad("PRECEDENCE"))
             /\ (Nest(x) <= Lim \/ p = Err \/ Bad("LIMIT"))
             /\ (r = Err \/ Nest(x) > Lim \/ p = r \/ Bad("INCOMPLETE"))
             /\ ((r # Err /\ Nest(x) > Lim) => Count(3))
InvLex == LET q == JsonQuote(x)
          IN /\ Count(1)
             /\ \A tr \in Trailers : LET t == q \o tr
                                   IN /\ (RefQuotedEnd(t) = Len(q) + 1 \/ Bad("LEXREF"))
                                      /\ (ScanQuoted(t) = RefQuotedEnd(t) \/ Bad("LEXSCAN"))
             /\ (IF Len(x) >= 1 /\ x[Len(x)] = BSL THEN Count(2) ELSE Count(3))
MCInv == IF Mode = "ast" THEN InvAst ELSE IF Mode = "lex" THEN InvLex ELSE InvStr
ASSUME \A r \in 1..3 : TLCSet(r, 0)
\* CENSUS: cases, accepted, rejected only because of the limit
Census == PrintT(<<"CENSUS", TLCGet(1), TLCGet(2), TLCGet(3)>>)
=============================================================================
