CONSTANTS
  Sups = {"s0", "s1", "s2"}
  Acts = {"a1", "a2"}
  Root = "s0"
  Env = "behaved"
  SupPar <- SupParDef
  ActPar <- ActParDef
  MaxReady = 0
SPECIFICATION FairSpec
PROPERTY StopLive
PROPERTY ExecLive
CHECK_DEADLOCK FALSE
