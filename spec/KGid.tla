--------------------------------- MODULE KGid ---------------------------------
(***************************************************************************)
(* POSIX id allocation (property C21), gidnumber plugin.                    *)
(*                                                                         *)
(* L0  gid numbers and uuid tails are naturals below 2^32                   *)
(* L1  the property: generated and accepted numbers are never in a range    *)
(*     RESERVED by the operating system, systemd, nobody, the 16-bit        *)
(*     sentinel (exactly the ranges of the property statement);             *)
(*     generation is a function of the uuid; a supplied reserved number is  *)
(*     rejected                                                             *)
(* L2  transcription of apply_gidnumber (plugins/gidnumber.rs): mask+prefix *)
(*     generation, six accepted intervals                                   *)
(* Typed for Apalache (the arithmetic statements are discharged over the    *)
(* full 32-bit ranges there); TLC-only definitions live in KGidMC.          *)
(***************************************************************************)
EXTENDS Integers

\* ----------------------------- L0 ---------------------------------------
\* (the constant 2^32-1 itself lives in KGidApa: TLC integers are 32 bit signed)

\* ----------------------------- L1 ---------------------------------------
\* Reserved ranges of the property statement and nothing more (DESIGN C21).
\* @type: (Int) => Bool;
Reserved(g) ==
  \/ (0 <= g /\ g <= 999)              \* operating system
  \/ (60001 <= g /\ g <= 60577)        \* systemd-homed
  \/ (61184 <= g /\ g <= 65519)        \* systemd dynamic service users
  \/ g = 65534                         \* nobody
  \/ g = 65535                         \* 16 bit (uid_t) -1 sentinel

\* ----------------------------- L2 ---------------------------------------
\* uuid_to_gid_u32 takes the last 4 bytes of the uuid (u); apply_gidnumber masks and prefixes.
\* @type: (Int) => Int;
Gen(u) == 1879048192 + (u % 268435456)       \* 0x70000000 | (u & 0x0fffffff)

\* @type: (Int) => Bool;
Accept(g) ==
  \/ (1000 <= g /\ g <= 60000)           \* GID_REGULAR_USER
  \/ (60578 <= g /\ g <= 61183)          \* GID_UNUSED_A
  \/ (65520 <= g /\ g <= 65533)          \* GID_UNUSED_B
  \/ (65536 <= g /\ g <= 524287)         \* GID_UNUSED_C
  \/ (524288 <= g /\ g <= 1879048191)    \* GID_NSPAWN (accepted for imports)
  \/ (1879048192 <= g /\ g <= 2147483647)\* GID_UNUSED_D

\* L2 meets L1 (the two arithmetic statements)
\* @type: (Int) => Bool;
GenSafe(u) == ~Reserved(Gen(u))
\* @type: (Int) => Bool;
AcceptSafe(g) == Accept(g) => ~Reserved(g)

\* ---- L1 on one observation of the real plugin ----
\* The observation is abstracted to the facts the property speaks about (the trace module computes
\* them from the logged numbers with Reserved above):
\*   posix       the entry is a posix account / group after the request
\*   hasSup      a gid number was supplied by the requester;  supRes  it lies in a reserved range
\*   res         result class of the operation ("ok" or an error)
\*   hasSto      the entry holds a gid number afterwards;     stoRes  it lies in a reserved range
\*   same        the same request repeated on the same uuid (through another path) stored the same number
\* @type: (Bool, Bool, Bool, Str, Bool, Bool, Bool) => Bool;
L1Obs(posix, hasSup, supRes, res, hasSto, stoRes, same) ==
  /\ (res = "ok" /\ posix) => (hasSto /\ ~stoRes)       \* ends up with a number outside the reserved ranges
  /\ (res = "ok" /\ hasSto) => ~stoRes                    \* nothing reserved is ever stored
  /\ (hasSup /\ supRes) => res # "ok"                      \* a supplied reserved number is rejected
  /\ (res = "ok" /\ ~hasSup) => same                       \* generation is a function of the uuid
=============================================================================
