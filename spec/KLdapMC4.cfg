CONSTANTS
  MaxDepth = 4
  ReqPool <- MCReqSmall
INIT Init
NEXT Next
INVARIANT L1Inv
PROPERTY L1Step
CHECK_DEADLOCK FALSE
