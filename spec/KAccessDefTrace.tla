---------------------------- MODULE KAccessDefTrace ----------------------------
(* Trace validation for C25: REAL modify attempts by a real user placed in built-in role groups on a
   default server (driver `kv-access c25`). Line 1 is the extracted configuration (same object the
   exhaustive model reads); every other line is one attempt:
   {"a":"op","roles":[..],"t":target,"id":{..},"f":filter,"ml":[..],"m":[..],"res":..,"post":{..}} *)
EXTENDS KAccessDef, Json, IOUtils
Rec == ndJsonDeserialize(IOEnv.TRACE)
VARIABLES l
D == Rec[1]
S == NProfs(D.acps)
E == NEnts(D.ents)

\* L1: a user outside the high-privilege group never succeeds in changing a sensitive attribute of a
\* (non-delegated) high-privilege target
LineL1(r) ==
  LET id == NId(r.id)  ml == NMl(r.ml) IN
  (r.res = "ok" /\ HpFree(D, id.mo) /\ r.t \in Range(D.thp) /\ ~Delegated(D, E[r.t]))
     => NamedAttrs(ml) \cap Sens(E[r.t]) = {}
LineSig(r) == IF "group" \in Classes(E[r.t]) THEN "hp-group-membership-changed" ELSE "hp-account-changed"

\* L2: the transcription over the extracted profiles predicts the result class, and the real user's
\* memberships are what the group graph says
Pass(res) == res \notin {"nomatch", "denied"}
LineL2(r) ==
  LET id == NId(r.id)  ml == NMl(r.ml)
      modok(x) == L2ModifyAllowed(S, NoY, id, ml, E[x])
      pred == L2WriteClass(S, NoY, E, id, CodeAttrs(r.f), Range(r.m), modok)
  IN  /\ id.mo = Mo(D, Range(r.roles))
      /\ Range(r.m) \subseteq DOMAIN E
      /\ CASE pred = "nomatch" -> r.res = "nomatch"
           [] pred = "denied" -> r.res = "denied"
           [] OTHER -> Pass(r.res)

Init == l = 1
Next == l <= Len(Rec) /\ l' = l + 1
Spec == Init /\ [][Next]_l
Judge == (l <= Len(Rec) /\ Rec[l].a = "op") =>
           /\ (LineL1(Rec[l]) \/ PrintT(<<"L1FAIL", "C25", l, LineSig(Rec[l])>>))
           /\ (LineL2(Rec[l]) \/ PrintT(<<"L2DRIFT", "C25", l>>))
Consumed == TLCGet("stats").distinct = Len(Rec) + 1 \/ PrintT(<<"NOTCONSUMED", TLCGet("stats").distinct, Len(Rec)>>)
=============================================================================
