CONSTANTS
  T = 2
  MaxKeys = 3
  Servers = {"A"}
  MaxAge = 2
  StampOnRevoke = TRUE
  ReloadOnCommit = TRUE
INIT Init
NEXT Next
INVARIANT InvVerify
INVARIANT InvSign
INVARIANT InvSignNow
INVARIANT InvNoUnrevoke
INVARIANT InvMemIsStored
CHECK_DEADLOCK FALSE
