CONSTANTS
  CommitOrder = "publish_first"
  NanoMax = 1000000000
INIT Init
NEXT Next
INVARIANT Judge
POSTCONDITION Consumed
CHECK_DEADLOCK FALSE
