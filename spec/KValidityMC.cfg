CONSTANTS
  Before = FALSE
  T = 4
INIT Init
NEXT Next
INVARIANT Inv
CHECK_DEADLOCK FALSE
