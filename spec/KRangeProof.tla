---------------------------- MODULE KRangeProof ----------------------------
(***************************************************************************)
(* Unbounded statement of C10 at the design level: for ANY two window maps *)
(* over ANY sets of servers and ANY natural timestamps (windows well       *)
(* formed: min <= max) the transcription of range_diff (L2) meets the      *)
(* decision table (L1).  TLC checks the same statement exhaustively for    *)
(* 2-3 servers and times 0..3 (KRangeMC); this module proves it with TLAPS *)
(* for all sizes.  Checked by `tlapm KRangeProof.tla` (thorough tier).     *)
(***************************************************************************)
EXTENDS KRange, TLAPS

WF(f) == \A x \in DOMAIN f : f[x] \in [min : Nat, max : Nat] /\ f[x].min <= f[x].max

LEMMA LagSame == \A c, s : L2LagSet(c, s) = Lag(c, s)
  BY DEF L2LagSet, Lag, Shared

LEMMA AdvSame == \A c, s : WF(c) /\ WF(s) => L2AdvSet(c, s) = Adv(c, s)
  <1> SUFFICES ASSUME NEW c, NEW s, WF(c), WF(s) PROVE L2AdvSet(c, s) = Adv(c, s)
    OBVIOUS
  <1>1. \A x \in DOMAIN s \cap DOMAIN c : s[x].max < c[x].min => ~(c[x].max < s[x].min)
    BY DEF WF
  <1> QED BY <1>1 DEF L2AdvSet, Adv, Shared

THEOREM StatusAgrees == \A c, s : WF(c) /\ WF(s) => RangeDiff(c, s).status = L1Status(c, s)
  <1> SUFFICES ASSUME NEW c, NEW s, WF(c), WF(s) PROVE RangeDiff(c, s).status = L1Status(c, s)
    OBVIOUS
  <1>1. L2LagSet(c, s) = Lag(c, s) BY LagSame
  <1>2. L2AdvSet(c, s) = Adv(c, s) BY AdvSame
  <1>3. Shared(c, s) = DOMAIN s \cap DOMAIN c BY DEF Shared
  <1> QED BY <1>1, <1>2, <1>3 DEF RangeDiff, L1Status

THEOREM SuppliedExact == \A c, s : WF(c) /\ WF(s) /\ L1Status(c, s) = "ok" =>
      LET sup == RangeDiff(c, s).ok IN
        /\ MustSupply(c, s) \subseteq DOMAIN sup
        /\ DOMAIN sup \subseteq DOMAIN s
        /\ \A x \in DOMAIN sup : sup[x] = ExactWindow(c, s, x)
  <1> SUFFICES ASSUME NEW c, NEW s, WF(c), WF(s), L1Status(c, s) = "ok"
               PROVE /\ MustSupply(c, s) \subseteq DOMAIN RangeDiff(c, s).ok
                     /\ DOMAIN RangeDiff(c, s).ok \subseteq DOMAIN s
                     /\ \A x \in DOMAIN RangeDiff(c, s).ok : RangeDiff(c, s).ok[x] = ExactWindow(c, s, x)
    OBVIOUS
  <1>1. RangeDiff(c, s).status = "ok" BY StatusAgrees
  <1>2. Shared(c, s) # {} /\ Lag(c, s) = {} /\ Adv(c, s) = {}
    BY DEF L1Status
  <1>3. L2LagSet(c, s) = {} /\ L2AdvSet(c, s) = {} BY <1>2, LagSame, AdvSame
  <1>4. RangeDiff(c, s).ok = L2Diff(c, s)
    BY <1>2, <1>3 DEF RangeDiff, Shared
  <1>5. DOMAIN L2Diff(c, s) = L2DiffSet(c, s) BY DEF L2Diff
  <1>6. L2DiffSet(c, s) \subseteq DOMAIN s BY DEF L2DiffSet
  <1>7. MustSupply(c, s) \subseteq L2DiffSet(c, s)
    BY <1>2 DEF MustSupply, L2DiffSet, Shared, Lag, Adv
  <1>8. \A x \in L2DiffSet(c, s) : L2Diff(c, s)[x] = ExactWindow(c, s, x)
    BY DEF L2Diff, ExactWindow
  <1> QED BY <1>4, <1>5, <1>6, <1>7, <1>8

THEOREM NothingWhenRefused == \A c, s : WF(c) /\ WF(s) /\ L1Status(c, s) # "ok" => DOMAIN RangeDiff(c, s).ok = {}
  <1> SUFFICES ASSUME NEW c, NEW s, WF(c), WF(s), L1Status(c, s) # "ok" PROVE DOMAIN RangeDiff(c, s).ok = {}
    OBVIOUS
  <1>1. RangeDiff(c, s).status # "ok" BY StatusAgrees
  <1>2. DOMAIN EmptyMap = {} BY DEF EmptyMap
  <1> QED BY <1>1, <1>2 DEF RangeDiff

THEOREM C10Unbounded == \A c, s : WF(c) /\ WF(s) => L2MeetsL1(c, s)
  BY StatusAgrees, SuppliedExact, NothingWhenRefused DEF L2MeetsL1, L1Ok
=============================================================================
