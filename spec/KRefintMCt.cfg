CONSTANTS
  MaxLen = 5
  Sample = 300
INIT Init
NEXT Next
VIEW View
INVARIANT Soft
CHECK_DEADLOCK FALSE
