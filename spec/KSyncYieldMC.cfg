CONSTANTS
  PublishEmpty = TRUE
INIT Init
NEXT Next
INVARIANT Inv
INVARIANT Complete
CHECK_DEADLOCK FALSE
