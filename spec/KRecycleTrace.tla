---------------------------- MODULE KRecycleTrace ----------------------------
(* Validates observations of the REAL server against the recycle-bin lifecycle (L1) and reports lines
   the delete / revive / purge transcription (L2) does not explain.  The retention constants are the
   ones of the build under test (logged on the reset line).  The history summary `h` (when an entry
   entered the bin / was tombstoned, which groups must take it back, which dependents went with it)
   is carried in a variable and updated from consecutive observed states only. *)
EXTENDS KDir, Json, IOUtils
Rec == ndJsonDeserialize(IOEnv.TRACE)
INSTANCE KRecycle WITH RMax <- Rec[1].c.rmax, CMax <- Rec[1].c.cmax
VARIABLES l, h
Starts(r) == r.a = "reset" \/ ("first" \in DOMAIN r /\ r.first)

G(f, x, d) == IF x \in DOMAIN f THEN f[x] ELSE d
Abs(st, I, now) ==
  LET M == {x \in I : x \in Ids(st)}
      val(x, v, d) == IF x \in M THEN v ELSE d IN
  [ids |-> I, grp |-> {x \in M : st.e[x].k = "grp"},
   lv  |-> [x \in I |-> Lv(st, x)], now |-> now,
   lm  |-> [x \in I |-> IF x \in M THEN st.e[x].lm ELSE 0],
   at  |-> [x \in I |-> 0],
   refers |-> [x \in I |-> IF x \in M THEN Refs(st, x, "refers") ELSE {}],
   casc   |-> [x \in I |-> IF x \in M THEN Range(st.e[x].cd) ELSE {}],
   member |-> [x \in I |-> IF x \in M THEN Member(st, x) ELSE {}],
   rdmo   |-> [x \in I |-> IF x \in M THEN Rdmo(st, x) ELSE {}],
   name   |-> [x \in I |-> IF x \in M /\ Len(st.e[x].n) = 1 THEN st.e[x].n[1] ELSE ""],
   dmo    |-> [x \in I |-> IF x \in M THEN Dmo(st, x) ELSE {}]]
HX(I) == [del |-> [x \in I |-> G(h.del, x, 0)], ts |-> [x \in I |-> G(h.ts, x, 0)],
          want |-> [x \in I |-> G(h.want, x, {})], dep |-> [x \in I |-> G(h.dep, x, {})],
          rf |-> [x \in I |-> G(h.rf, x, {})], dm |-> [x \in I |-> G(h.dm, x, {})]]
H0 == [del |-> <<>>, ts |-> <<>>, want |-> <<>>, dep |-> <<>>, rf |-> <<>>, dm |-> <<>>]
EmptySt == [e |-> <<>>, lvx |-> <<>>]

IdsOf(r, pst) == ModelIds(r.st) \cup (IF Starts(r) THEN {} ELSE ModelIds(pst))

\* ------------------------------------------ L1 on a line ------------------------------------------
VisOk(st) == \A x \in ModelIds(st) :
   LET v == x \in Range(st.vis)  rv == x \in Range(st.rvis) IN
   CASE st.e[x].lv = "live" -> v
     [] st.e[x].lv = "recycled" -> ~v /\ rv
     [] st.e[x].lv = "tombstone" -> ~v
     [] OTHER -> TRUE
Parts(r, pst) ==   \* the conjuncts of L1 with a name each
  LET I == IdsOf(r, pst)
      p == Abs(IF Starts(r) THEN EmptySt ELSE pst, I, 0)
      q == Abs(r.st, I, r.t)
      hx == HX(I)
      X   == IF r.a = "revive" THEN {x \in Range(r.ids) \cap I : p.lv[x] = "recycled"} ELSE {}
      rev == ~Starts(r) /\ r.a = "revive" /\ X # {}
  IN  <<
    <<"visibility", VisOk(r.st)>>,
    <<"lifecycle", Starts(r) \/ LifecycleOk(p, q, hx)>>,
    <<"revive-incomplete", (rev /\ r.res = "ok") => ReviveOkSet(p, q, hx, X)>>,
    <<"revive-refused", (rev /\ X = Range(r.ids) /\ Unobstructed(p, hx, X)) => r.res = "ok">> >>
LineL1(r, pst) == \A i \in 1..4 : Parts(r, pst)[i][2]
\* a revive that restored exactly the memberships the entry's stored directmemberof listed when it was
\* deleted, but not a group that listed it as member: the inexactness is upstream (property C17)
Unrecorded(r, pst) ==
  LET I == IdsOf(r, pst)  p == Abs(pst, I, 0)  q == Abs(r.st, I, r.t)  hx == HX(I)
      X == {x \in Range(r.ids) \cap I : p.lv[x] = "recycled"}
      miss(x) == {g \in hx.want[x] : q.lv[g] = "live" /\ x \notin q.member[g]}
  IN  /\ \E x \in X : miss(x) # {}
      /\ \A x \in X :
            /\ q.lv[x] = "live" /\ miss(x) \cap hx.dm[x] = {}
            /\ \A d \in hx.dep[x] : (p.lv[d] = "recycled" /\ p.casc[d] = {x}) => (q.lv[d] = "live" /\ x \in q.refers[d])
Sig(r, pst) == LET P == Parts(r, pst) i == CHOOSE j \in 1..4 : ~P[j][2] IN
  IF i = 3 /\ Unrecorded(r, pst) THEN "revive-incomplete membership-unrecorded"
  ELSE P[i][1] \o " after=" \o r.a

\* ------------------------------------------ L2 on a line ------------------------------------------
Predict(r, p0, q, hx) ==
  LET p == [p0 EXCEPT !.at = hx.ts]  a == r.a  now == r.t IN
  IF a = "delete" THEN Delete(p, Range(r.ids) \cap p.ids, now)
  ELSE IF a = "revive" THEN Revive(p, Range(r.ids) \cap p.ids, now)
  ELSE IF a = "purge_recycled" THEN R(PurgeRecycled(p, now), "ok")
  ELSE IF a = "purge_tombstones" THEN R(PurgeTombstones(p, now), "ok")
  ELSE IF a \in {"create_group", "create_dyn", "create_person", "create_svc", "create_cert", "create_oa2", "create_batch"} THEN
       R([p EXCEPT !.lv = [x \in p.ids |-> IF @[x] = "absent" /\ q.lv[x] = "live" THEN "live" ELSE @[x]]], r.res)
  ELSE R(p, r.res)
LineL2(r, pst) ==
  Starts(r) \/
  LET I == IdsOf(r, pst)
      p == Abs(pst, I, 0)  q == Abs(r.st, I, r.t)
      m == Predict(r, p, q, HX(I))
  IN  IF r.res = "ok" THEN m.res = "ok" /\ m.st.lv = q.lv ELSE p.lv = q.lv

\* ------------------------------------------ behaviour ------------------------------------------
Upd(r, pst) ==
  IF Starts(r) THEN
       LET I == ModelIds(r.st)  q == Abs(r.st, I, r.t)  e == Abs(EmptySt, I, 0)
       IN  Hist([del |-> [x \in I |-> 0], ts |-> [x \in I |-> 0], want |-> [x \in I |-> {}], dep |-> [x \in I |-> {}], rf |-> [x \in I |-> {}], dm |-> [x \in I |-> {}]], e, q)
  ELSE LET I == IdsOf(r, pst) IN Hist(HX(I), Abs(pst, I, 0), Abs(r.st, I, r.t))

Init == l = 1 /\ h = H0
Prev == IF l > 1 THEN Rec[l - 1].st ELSE Rec[l].st
Next == l <= Len(Rec) /\ l' = l + 1 /\ h' = Upd(Rec[l], Prev)
Spec == Init /\ [][Next]_<<l, h>>
Judge == l <= Len(Rec) =>
  /\ (LineL1(Rec[l], Prev) \/ PrintT(<<"L1FAIL", "C26", l, Sig(Rec[l], Prev)>>))
  /\ (LineL2(Rec[l], Prev) \/ PrintT(<<"L2DRIFT", "C26", l>>))
Consumed == TLCGet("stats").distinct = Len(Rec) + 1 \/ PrintT(<<"NOTCONSUMED", TLCGet("stats").distinct, Len(Rec)>>)
=============================================================================
