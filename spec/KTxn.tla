------------------------------- MODULE KTxn -------------------------------
(***************************************************************************)
(* Write / read transactions of one kanidm server (properties C04 C05 C06  *)
(* C07).  Operator-style module: no VARIABLES here; the MC and Trace       *)
(* modules KTxnCidMC/Trace, KTxnFaultMC/Trace, KTxnSnapMC/Trace declare    *)
(* the state and use these definitions.  Sections:                         *)
(*   A. time and change identifiers                     (C07)             *)
(*   B. commit as an ordered list of steps, faults      (C04, C05)        *)
(*   C. reader snapshot acquisition vs publication      (C06)             *)
(* Each section is split into L0 (vocabulary + JSON projection contract),  *)
(* L1 (the property, nothing else) and L2 (transcription of the code).     *)
(***************************************************************************)
EXTENDS Naturals, Sequences, FiniteSets, TLC

CONSTANT NanoMax      \* nanoseconds per second: 1000000000 for real traces, small in MC

(***************************************************************************)
(* A. TIME AND CHANGE IDENTIFIERS (C07)                                    *)
(***************************************************************************)
\* ----------------------------- A / L0 -----------------------------------
\* A timestamp is [s |-> seconds, n |-> nanoseconds], projected by the driver as
\* {"s": secs - T0, "n": subsec_nanos} (both fit TLC's 32-bit integers).  On ONE server the
\* change identifier of a transaction is its timestamp (Cid orders by ts first, then server
\* uuid; the uuid is constant on one server and is logged as "srv").
Ts(s, n)    == [s |-> s, n |-> n]
TsLt(a, b)  == a.s < b.s \/ (a.s = b.s /\ a.n < b.n)
TsLe(a, b)  == a = b \/ TsLt(a, b)
TsMax(a, b) == IF TsLt(a, b) THEN b ELSE a
TsSucc(a)   == IF a.n + 1 >= NanoMax THEN Ts(a.s + 1, 0) ELSE Ts(a.s, a.n + 1)   \* + 1 ns

\* ----------------------------- A / L1 -----------------------------------
\* C07: a write transaction's identifier is strictly greater than the identifier of every
\* transaction the server committed before (maxc = greatest committed so far).
CidFresh(c, maxc) == TsLt(maxc, c)

\* ----------------------------- A / L2 -----------------------------------
\* Cid::new_lamport (repl/cid.rs): the clock if it is ahead of the maximum, else maximum + 1ns.
Lamport(now, max) == IF TsLt(max, now) THEN now ELSE TsSucc(max)

\* Server state for C07: mem = committed content of the cid_max cell, disk = persisted ts_max.
\* QueryServer::write(now): cid := new_lamport(now, cid_max) in the WRITE half of the cell.
BeginCid(now, mem)   == Lamport(now, mem)
\* commit(): set_db_ts_max(cid.ts); cid.commit()   ->  mem = disk = cid
\* drop without commit: the write half is discarded   ->  mem, disk unchanged
\* QueryServer::new(now) on an existing database: cid_max := new_lamport(now, persisted ts_max)
BootMem(now, disk)   == Lamport(now, disk)
\* kanidmd start-up = QueryServer::new(now) followed by initialise_helper(now), which is ONE
\* committed write transaction at `now`.
BootInitCid(now, disk) == BeginCid(now, BootMem(now, disk))
=============================================================================
