------------------------------- MODULE KTxn -------------------------------
(***************************************************************************)
(* Write / read transactions of one kanidm server (properties C04 C05 C06  *)
(* C07).  Operator-style module: no VARIABLES here; the MC and Trace       *)
(* modules KTxnCidMC/Trace, KTxnFaultMC/Trace, KTxnSnapMC/Trace declare    *)
(* the state and use these definitions.  Sections:                         *)
(*   A. time and change identifiers                     (C07)             *)
(*   B. commit as an ordered list of steps, faults      (C04, C05)        *)
(*   C. reader snapshot acquisition vs publication      (C06)             *)
(* Each section is split into L0 (vocabulary + JSON projection contract),  *)
(* L1 (the property, nothing else) and L2 (transcription of the code).     *)
(***************************************************************************)
EXTENDS Naturals, Sequences, FiniteSets, TLC

CONSTANT NanoMax      \* nanoseconds per second: 1000000000 for real traces, small in MC
CONSTANT CommitOrder  \* which commit the code under test has (sections B and C; the checks read it off the
                      \* order in which the real commit passes its H3 pause points):
                      \*   "publish_first"  in-memory publications, then the database (tree up to hook H3)
                      \*   "storage_first"  database first, publications afterwards (repair of finding C04)

(***************************************************************************)
(* A. TIME AND CHANGE IDENTIFIERS (C07)                                    *)
(***************************************************************************)
\* ----------------------------- A / L0 -----------------------------------
\* A timestamp is [s |-> seconds, n |-> nanoseconds], projected by the driver as
\* {"s": secs - T0, "n": subsec_nanos} (both fit TLC's 32-bit integers).  On ONE server the
\* change identifier of a transaction is its timestamp (Cid orders by ts first, then server
\* uuid; the uuid is constant on one server and is logged as "srv").
Ts(s, n)    == [s |-> s, n |-> n]
TsLt(a, b)  == a.s < b.s \/ (a.s = b.s /\ a.n < b.n)
TsLe(a, b)  == a = b \/ TsLt(a, b)
TsMax(a, b) == IF TsLt(a, b) THEN b ELSE a
TsSucc(a)   == IF a.n + 1 >= NanoMax THEN Ts(a.s + 1, 0) ELSE Ts(a.s, a.n + 1)   \* + 1 ns

\* ----------------------------- A / L1 -----------------------------------
\* C07: a write transaction's identifier is strictly greater than the identifier of every
\* transaction the server committed before (maxc = greatest committed so far).
CidFresh(c, maxc) == TsLt(maxc, c)

\* ----------------------------- A / L2 -----------------------------------
\* Cid::new_lamport (repl/cid.rs): the clock if it is ahead of the maximum, else maximum + 1ns.
Lamport(now, max) == IF TsLt(max, now) THEN now ELSE TsSucc(max)

\* Server state for C07: mem = committed content of the cid_max cell, disk = persisted ts_max.
\* QueryServer::write(now): cid := new_lamport(now, cid_max) in the WRITE half of the cell.
BeginCid(now, mem)   == Lamport(now, mem)
\* commit(): set_db_ts_max(cid.ts); cid.commit()   ->  mem = disk = cid
\* drop without commit: the write half is discarded   ->  mem, disk unchanged
\* QueryServer::new(now) on an existing database: cid_max := new_lamport(now, persisted ts_max)
BootMem(now, disk)   == Lamport(now, disk)
\* kanidmd start-up = QueryServer::new(now) followed by initialise_helper(now), which is ONE
\* committed write transaction at `now`.
BootInitCid(now, disk) == BeginCid(now, BootMem(now, disk))

(***************************************************************************)
(* B. COMMIT AS AN ORDERED LIST OF STEPS; FAULTS, CRASHES, ABANDON          *)
(*    (C04, C05)                                                           *)
(***************************************************************************)
\* ----------------------------- B / L0 -----------------------------------
\* What a reader can see of the representative transactions, as the driver projects it
\* (record of strings).  Three groups of fields:
\*   DiskFields  derived from stored entries only (also readable on a reopened server):
\*               ent  = "<id>/<name>/<liveness>/<description>" of every data entry
\*               sche / acpe / oae = the attribute-type / access-profile / OAuth2-client ENTRY exists
\*               dne  = display name stored in the domain entry
\*   BeFields    answered by indexes and lookup tables (name->uuid, equality index): idx
\*   MemFields   server-wide settings held in memory:
\*               sch = schema knows the attribute      acp = the access decision the profile grants
\*               dn  = domain display name in use      oa  = OAuth2 client known to the IDM layer
\*               ruv = the replication update vector the reader holds (number of change ids, greatest one)
\*               ixm = the index metadata the reader resolves filters with (number of keys, new attribute indexed)
DiskFields == {"ent", "sche", "acpe", "oae", "dne"}
BeFields   == {"idx"}
MemFields  == {"sch", "acp", "dn", "oa", "ruv", "ixm"}
DiskPart(v) == [f \in DiskFields |-> v[f]]
DiffFields(a, b) == {f \in DOMAIN a : a[f] # b[f]}

\* ----------------------------- B / L1 -----------------------------------
\* C04: a transaction that did not report success leaves everything readers use exactly as it
\* was - on the live server (pre = observation at Begin) and on a server reopened on the file.
\* ... and nothing of it surfaces later: after one following SUCCESSFUL transaction readers see exactly
\* what that transaction alone would have produced (follow = the same follow-up after a dropped
\* transaction), and so does a server reopened on the file afterwards.
NoTrace(pre, live, live2, follow, reopen) == live = pre /\ live2 = follow /\ reopen = DiskPart(follow)
\* C05: after a crash at any point the reopened server shows the complete before state or the
\* complete after state (never a mixture), passes its own consistency check, and the next change
\* identifier is above every identifier it had committed (cmax = greatest stamped identifier
\* found in the recovered database).
\* (the projection of the stored state includes the index state: which idx_* tables exist and how much
\*  they hold, so "before or after" covers a purge / rebuild of the indexes inside the transaction)
BeforeOrAfter(rec, before, after) == rec = before \/ rec = after
CrashOk(rec, before, after, verify, nextc, cmax) ==
  /\ BeforeOrAfter(rec, before, after)
  /\ verify = <<>>
  /\ CidFresh(nextc, cmax)

\* ----------------------------- B / L2 -----------------------------------
\* IdmServerProxyWriteTransaction::commit followed by QueryServerWriteTransaction::commit,
\* BackendWriteTransaction::commit and IdlArcSqliteWriteTransaction::commit, in program order.
\* t = "P" publication of an in-memory cell (CowCell / ARCache commit, cannot fail)
\* t = "S" storage point (may fail: returns an error, the remaining steps are skipped, every
\*         unpublished write half is dropped and SQLite rolls back)
\* t = "C" crash-only point (nothing can fail there, the process can die)
St(t, c) == [t |-> t, c |-> c]
CommitStepsPublishFirst == <<
  \* index purge + rebuild (be reindex): as an operation of the transaction (explicit reindex, restore) or
  \* inside qs_write.reload() at commit when the schema changed. Several storage steps, all inside the ONE
  \* SQL transaction: drop every idx_* table, re-create them, (the rebuilt lists go through the caches and
  \* are flushed below as "idl" / "names"), store the slope analysis, set the index version.
  St("S", "idx_purge"), St("S", "idx_create"), St("S", "idx_slopes"), St("S", "idx_version"),
  St("P", "apps"), St("P", "oauth2"), St("P", "credsess"), St("P", "o2prov"),   \* idm/server.rs commit
  St("S", "ts_max"),                       \* be_txn.set_db_ts_max(cid.ts)
  St("P", "cid"), St("P", "fcache"), St("P", "schema"), St("P", "dinfo"), St("P", "syscfg"),
  St("P", "feature"), St("P", "phase"), St("P", "dyngroup"), St("P", "keys"), St("P", "acp"),
  St("S", "ruv_del"), St("S", "ruv_add"),  \* be commit: write_db_ruv
  St("S", "entries"), St("S", "idl"), St("S", "names"),     \* idl_arc_sqlite commit: flush dirty caches
  St("S", "sql_commit"),
  St("C", "post_commit"),
  St("P", "be"),                           \* op_ts_max, name, idx_exists, idl, allids, maxid, keyhandles, entry caches
  St("P", "ruv"), St("P", "idxmeta") >>
\* repaired order: qs_write.commit() runs before the IDM publications, and inside it be_txn.commit()
\* runs right after set_db_ts_max, before cid / filter cache / schema ... access controls
CommitStepsStorageFirst == <<
  St("S", "idx_purge"), St("S", "idx_create"), St("S", "idx_slopes"), St("S", "idx_version"),
  St("S", "ts_max"),
  St("S", "ruv_del"), St("S", "ruv_add"),
  St("S", "entries"), St("S", "idl"), St("S", "names"),
  St("S", "sql_commit"),
  St("C", "post_commit"),
  St("P", "be"), St("P", "ruv"), St("P", "idxmeta"),
  St("P", "cid"), St("P", "fcache"), St("P", "schema"), St("P", "dinfo"), St("P", "syscfg"),
  St("P", "feature"), St("P", "phase"), St("P", "dyngroup"), St("P", "keys"), St("P", "acp"),
  St("P", "apps"), St("P", "oauth2"), St("P", "credsess"), St("P", "o2prov") >>
CommitSteps == IF CommitOrder = "storage_first" THEN CommitStepsStorageFirst ELSE CommitStepsPublishFirst
NSteps == Len(CommitSteps)
StepPos(c) == CHOOSE i \in 1..NSteps : CommitSteps[i].c = c
PublishedBefore(i) == {CommitSteps[j].c : j \in {j \in 1..(i - 1) : CommitSteps[j].t = "P"}}

\* name of an H2 storage point -> the step it belongs to
StepOfPoint ==
  [ purge_idxs |-> "idx_purge", create_table |-> "idx_create", create_idx |-> "idx_create",
    store_idx_slopes |-> "idx_slopes", set_db_version |-> "idx_version",
    set_db_ts_max |-> "ts_max", write_db_ruv |-> "ruv_del", write_db_ruv_add |-> "ruv_add",
    write_identry |-> "entries", delete_identry |-> "entries", write_idl |-> "idl",
    write_name2uuid_add |-> "names", write_name2uuid_rem |-> "names",
    write_externalid2uuid_add |-> "names", write_externalid2uuid_rem |-> "names",
    write_uuid2spn |-> "names", write_uuid2rdn |-> "names",
    sql_commit |-> "sql_commit", post_sql_commit |-> "post_commit" ]

\* components a transaction kind changes (besides the data itself = "be")
Kinds == {"create", "modify", "delete", "schema", "schemaidx", "acp", "oauth2", "domain", "reindex"}
\* kinds whose transaction purges and rebuilds every index table
Reindexing(kind) == kind \in {"schema", "schemaidx", "reindex"}
Changed(kind) == CASE kind \in {"schema", "schemaidx"} -> {"schema", "cid", "be", "ruv", "idxmeta"}
                   [] kind = "acp"    -> {"acp", "cid", "be", "ruv"}
                   [] kind = "oauth2" -> {"oauth2", "cid", "be", "ruv"}
                   [] kind = "domain" -> {"dinfo", "cid", "be", "ruv"}
                   [] OTHER           -> {"cid", "be", "ruv"}
\* the settings the property lists, and the observation field that probes each
\* (key material has no probe in this driver; cid / filter cache / phase are not reader-visible settings)
VisibleComps == {"schema", "acp", "dinfo", "oauth2", "ruv", "idxmeta"}
FieldOf == [schema |-> "sch", acp |-> "acp", dinfo |-> "dn", oauth2 |-> "oa", ruv |-> "ruv", idxmeta |-> "ixm"]

\* components already published when storage step number i fails
AheadAt(kind, i) == Changed(kind) \cap PublishedBefore(i) \cap VisibleComps
\* predicted observation on the live server after a failure at point `pt`
PredictLive(kind, phase, pt, pre, post) ==
  IF phase # "commit" \/ pt \notin DOMAIN StepOfPoint THEN pre
  ELSE LET ahead == {FieldOf[c] : c \in AheadAt(kind, StepPos(StepOfPoint[pt]))}
       IN  [f \in DOMAIN pre |-> IF f \in ahead THEN post[f] ELSE pre[f]]

(***************************************************************************)
(* C. READER SNAPSHOT ACQUISITION vs WRITER PUBLICATION (C06)              *)
(***************************************************************************)
\* ----------------------------- C / L0 -----------------------------------
\* Every piece of state a read transaction holds is a snapshot of one component; the writer's
\* commit publishes each component separately.  Version 0 = before the writer's transaction,
\* 1 = after it.  The driver projects what the reader SAW as a record probe -> version
\* (0, 1, or 9 when the answer matches neither state), each probe evaluated twice:
\*   sch  schema knows the new attribute           (component schema)
\*   dn   domain display name                      (component dinfo)
\*   acp  access decision of the new profile       (component acp)
\*   oa   OAuth2 client known                      (component oauth2)
\*   ea   description of entry A, resident in the entry cache    (entry_cache, else sqlite)
\*   eb   description of entry B, NOT resident in the entry cache (sqlite, unless published to the cache)
\*   n2u  name -> uuid lookup of A's new name      (name_cache, else sqlite)
\*   idx  equality-index search for A's new name   (idl_cache, else sqlite)
Probes == {"sch", "dn", "acp", "oa", "ea", "eb", "n2u", "idx"}

\* ----------------------------- C / L1 -----------------------------------
\* C06: everything one read transaction observes comes from ONE committed state, and asking
\* twice gives the same answer.
SnapshotConsistent(o) == \A p, q \in DOMAIN o : o[p] = o[q]
RepeatableRead(o1, o2) == o1 = o2

\* ----------------------------- C / L2 -----------------------------------
\* Steps of IdmServer::proxy_read -> QueryServer::read -> Backend::read -> IdlArcSqlite::read in
\* program order, at the granularity of the H3 pause points: each step is the label the thread is
\* paused at and the components it acquires when released (it then runs to the next label).
\* SQLite: BEGIN DEFERRED takes no snapshot; the snapshot is fixed by the first statement that
\* reads ("q.sql" = the reader's first query).
Rs(l, c) == [l |-> l, c |-> c]
ReaderSteps == <<
  Rs("r.schema", {"schema"}), Rs("r.cid", {"cid"}), Rs("r.be", {}),
  Rs("r.entry_cache", {"entry_cache"}), Rs("r.sqlite_begin", {}), Rs("r.idl_cache", {"idl_cache"}),
  Rs("r.name_cache", {"name_cache"}), Rs("r.idx_exists", {"idx_exists"}), Rs("r.allids", {"allids"}),
  Rs("r.be_meta", {"idxmeta", "ruv"}),
  Rs("r.cfg", {"dinfo", "syscfg", "feature", "acp", "keys", "fcache"}),
  Rs("r.oauth2", {"oauth2"}),
  Rs("q.sql", {"sqlite"}) >>
\* Steps of IdmServerProxyWriteTransaction::commit -> QueryServerWriteTransaction::commit ->
\* BackendWriteTransaction::commit -> IdlArcSqliteWriteTransaction::commit (same convention).
WriterStepsPublishFirst == <<
  Rs("w.apps", {"apps"}), Rs("w.oauth2", {"oauth2"}), Rs("w.credsess", {}), Rs("w.o2prov", {}),
  Rs("w.qs", {}), Rs("w.ts_max", {}), Rs("w.cid", {"cid"}), Rs("w.fcache", {"fcache"}),
  Rs("w.cfg", {"schema", "dinfo", "syscfg", "feature", "phase", "dyngroup", "keys", "acp"}),
  Rs("w.ruv_flush", {}), Rs("w.flush", {}), Rs("w.sql_commit", {"sqlite"}),
  Rs("w.op_ts_max", {}), Rs("w.name_cache", {"name_cache"}), Rs("w.idx_exists", {"idx_exists"}),
  Rs("w.idl_cache", {"idl_cache"}), Rs("w.allids", {"allids"}), Rs("w.maxid", {}), Rs("w.keyhandles", {}),
  Rs("w.entry_cache", {"entry_cache"}), Rs("w.ruv", {"ruv"}), Rs("w.idxmeta", {"idxmeta"}) >>
WriterStepsStorageFirst == <<
  Rs("w.qs", {}), Rs("w.ts_max", {}),
  Rs("w.ruv_flush", {}), Rs("w.flush", {}), Rs("w.sql_commit", {"sqlite"}),
  Rs("w.op_ts_max", {}), Rs("w.name_cache", {"name_cache"}), Rs("w.idx_exists", {"idx_exists"}),
  Rs("w.idl_cache", {"idl_cache"}), Rs("w.allids", {"allids"}), Rs("w.maxid", {}), Rs("w.keyhandles", {}),
  Rs("w.entry_cache", {"entry_cache"}), Rs("w.ruv", {"ruv"}), Rs("w.idxmeta", {"idxmeta"}),
  Rs("w.cid", {"cid"}), Rs("w.fcache", {"fcache"}),
  Rs("w.cfg", {"schema", "dinfo", "syscfg", "feature", "phase", "dyngroup", "keys", "acp"}),
  Rs("w.apps", {"apps"}), Rs("w.oauth2", {"oauth2"}), Rs("w.credsess", {}), Rs("w.o2prov", {}) >>
WriterSteps == IF CommitOrder = "storage_first" THEN WriterStepsStorageFirst ELSE WriterStepsPublishFirst
SnapComps == UNION {ReaderSteps[i].c : i \in 1..Len(ReaderSteps)}
                \cup UNION {WriterSteps[i].c : i \in 1..Len(WriterSteps)}

\* what each probe answers from, given the reader's snapshot vector rd (component -> 0/1):
\* a cache that already holds the item answers; otherwise the SQLite snapshot answers.
\* A is resident in the entry cache before the experiment, B is not; the writer's commit puts the
\* new versions of everything it touched into the caches it publishes.
ProbeVersion(rd) ==
  [ sch |-> rd["schema"], dn |-> rd["dinfo"], acp |-> rd["acp"], oa |-> rd["oauth2"],
    ea  |-> rd["entry_cache"],
    eb  |-> IF rd["entry_cache"] = 1 THEN 1 ELSE rd["sqlite"],
    n2u |-> IF rd["name_cache"] = 1 THEN 1 ELSE rd["sqlite"],
    idx |-> IF rd["idl_cache"] = 1 THEN 1 ELSE rd["sqlite"] ]

\* The same two programs at the granularity of the individual statements: the struct-literal
\* acquisitions in Backend::read / QueryServer::read and the publication chain in
\* QueryServerWriteTransaction::commit have no pause point between them (the hooks are add-only
\* statements), so the vectors only these finer lists reach are hypotheses of the model that the
\* driver cannot replay.
Split(l, cs) == [i \in 1..Len(cs) |-> Rs(l, {cs[i]})]
RECURSIVE Flat(_)
Flat(ss) == IF ss = <<>> THEN <<>> ELSE Head(ss) \o Flat(Tail(ss))
ReaderStepsFine == Flat([i \in 1..Len(ReaderSteps) |->
    IF ReaderSteps[i].l = "r.be_meta" THEN Split("r.be_meta", <<"idxmeta", "ruv">>)
    ELSE IF ReaderSteps[i].l = "r.cfg" THEN Split("r.cfg", <<"dinfo", "syscfg", "feature", "acp", "keys", "fcache">>)
    ELSE <<ReaderSteps[i]>>])
WriterStepsFine == Flat([i \in 1..Len(WriterSteps) |->
    IF WriterSteps[i].l = "w.cfg"
    THEN Split("w.cfg", <<"schema", "dinfo", "syscfg", "feature", "phase", "dyngroup", "keys", "acp">>)
    ELSE <<WriterSteps[i]>>])
=============================================================================
