\* C19: renames / creates into a shared 2-name pool on 2 replicas; attrunique conflict resolution after replication
CONSTANTS
  N = 2
  Ids = {1}
  NewIds = {2, 3}
  Sids = {1}
  MaxTs = 3
  MaxRepl = 3
  MaxWrites = 3
  RecycleAge = 0
  Window = 0
  MergeRestamp = TRUE
  NoSkew = TRUE
  ArmQuota = 2
  EnableRename = TRUE
  EnableClear = FALSE
INIT Init
NEXT Next
VIEW View
INVARIANT InvConvergedButSessions
INVARIANT InvUniqueLive
INVARIANT ArmExport
CHECK_DEADLOCK FALSE
