CONSTANTS
  MaxLen = 5
  Sample = 60
INIT Init
NEXT Next
VIEW View
INVARIANT Soft
CHECK_DEADLOCK FALSE
