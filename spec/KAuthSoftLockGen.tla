--------------------------- MODULE KAuthSoftLockGen ---------------------------
(* Generates replay behaviours at the REAL constants (spec -> impl): from every start state
   "k recorded failures at time T0" (k around each threshold of the policy) every sequence of
   D events whose times are chosen around the moments that matter in the current model state
   (now, unlock_at, reset_at, each also +1).  Each behaviour is printed once as
   <<"CASE", json>> and replayed on the real CredSoftLock by `kv-auth c28 --behaviours`.     *)
EXTENDS KAuthSoftLock, Json, TLC
CONSTANTS D, Day, Step, PwPrefix, TotpPrefix, Rich
PwTh == <<3, 9, 25, 100>>
PwDl == <<1, 3, 5, 10>>
TotpTh == <<3>>
TotpDl == <<1>>
Pol(name) == IF name = "password" THEN [w |-> Day, th |-> PwTh, dl |-> PwDl] ELSE [w |-> Step, th |-> TotpTh, dl |-> TotpDl]

\* start times: mid-window, and 4 s before the end of a window (delays cross the boundary)
Base == 1700000000
T0s(name) == {Base, WindowEnd(Pol(name), Base) - 4}

RECURSIVE FailN(_, _, _, _)
FailN(p, st, ct, k) == IF k = 0 THEN st ELSE FailN(p, L2Fail(p, st, ct), ct, k - 1)

VARIABLES pol, k0, t0, st, now, hist
vars == <<pol, k0, t0, st, now, hist>>

Init == /\ pol \in {"password", "totp"}
        /\ k0 \in (IF pol = "password" THEN PwPrefix ELSE TotpPrefix)
        /\ t0 \in T0s(pol)
        /\ st = FailN(Pol(pol), Init0, t0, k0)
        /\ now = t0
        /\ hist = <<>>

Times == {x \in ({now, st.u, st.u + 1, st.r, st.r + 1} \cup (IF Rich THEN {now + 1, now + Pol(pol).w + 1} ELSE {})) : x >= now}

Ev(e, ct, exp, wrong) == [e |-> e, ct |-> ct, exp |-> exp, wrong |-> wrong]
Next == /\ Len(hist) < D
        /\ \E ct \in Times :
             /\ now' = ct
             /\ \/ /\ st' = L2Attempt(Pol(pol), st, ct, None, 1)[2]
                   /\ hist' = Append(hist, Ev("attempt", ct, None, 1))
                \/ \E exp \in {None, ct - 1, ct + 1000} :
                     /\ st' = L2Attempt(Pol(pol), st, ct, exp, 0)[2]
                     /\ hist' = Append(hist, Ev("attempt", ct, exp, 0))
                \/ /\ st' = L2Fail(Pol(pol), st, ct)
                   /\ hist' = Append(hist, Ev("fail", ct, None, 0))
        /\ UNCHANGED <<pol, k0, t0>>
Spec == Init /\ [][Next]_vars
Emit == Len(hist) = D => PrintT(<<"CASE", ToJson([pol |-> pol, w |-> Pol(pol).w, k0 |-> k0, t0 |-> t0, evs |-> hist])>>)
=============================================================================
