------------------------------- MODULE KRecycle -------------------------------
(***************************************************************************)
(* Recycle bin lifecycle (property C26).                                    *)
(*                                                                         *)
(* L0  s = [ids, grp, lv, now, lm, at, refers, casc, member, rdmo, name]    *)
(*       lv[x]   "absent" | "live" | "recycled" | "tombstone"               *)
(*       lm[x]   time of the entry's last modification (last_modified_cid)   *)
(*       at[x]   time the entry became a tombstone                           *)
(*       refers / casc   dependent -> target  ( `refers`, cascade_deleted )  *)
(*       member[g] static members, rdmo[x] recycled_directmemberof            *)
(*     history (what L1 needs to remember about the past, kept beside s):    *)
(*       h = [del, ts, want, dep, rf, dm]                                    *)
(*       del[x]  time x entered the recycle bin;  ts[x] time it was          *)
(*               tombstoned;  want[x] static groups that listed x when it    *)
(*               was deleted and have been live ever since;  dep[x] the      *)
(*               dependents that were cascade-deleted with x;  rf[x] the     *)
(*               `refers` x still held right after it entered the bin;       *)
(*               dm[x] its stored directmemberof when it was deleted          *)
(*               (s.dmo, used only to classify a failing revive)              *)
(* L1  the lifecycle as stated: visibility; Recycled -> Tombstone only      *)
(*     after RMax, Tombstone -> gone only after CMax, tombstones never come  *)
(*     back; a successful revive returns the entry, its cascade-deleted     *)
(*     dependents (pointing at it again) and its memberships of groups that  *)
(*     still exist - for EVERY entry of a multi-entry revive; an            *)
(*     unobstructed revive succeeds.                                         *)
(* L2  transcription of server/delete.rs, server/recycle.rs and              *)
(*     be reap_tombstones: cascade over `refers`, purge_recycled compares    *)
(*     LAST MODIFICATION with now - RMax, purge_tombstones compares the      *)
(*     tombstone time with now - CMax.                                       *)
(***************************************************************************)
EXTENDS Naturals, FiniteSets, TLC
CONSTANTS RMax, CMax

\* ----------------------------------- L1 -----------------------------------
\* liveness transition of one entry between two consecutive committed states (t.now = time of the commit)
TransOk(s, t, h, x) ==
  LET a == s.lv[x]  b == t.lv[x] IN
  \/ a = b
  \/ a = "absent"    /\ b = "live"
  \/ a = "live"      /\ b = "recycled"
  \/ a = "recycled"  /\ b = "live"
  \/ a = "recycled"  /\ b = "tombstone" /\ t.now >= h.del[x] + RMax
  \/ a = "tombstone" /\ b = "absent"    /\ t.now >= h.ts[x] + CMax
LifecycleOk(s, t, h) == \A x \in s.ids : TransOk(s, t, h, x)

\* what a successful revive of recycled x must bring back
ReviveOk(s, t, h, x) ==
  /\ t.lv[x] = "live"
  /\ \A d \in h.dep[x] : (s.lv[d] = "recycled" /\ s.casc[d] = {x}) => (t.lv[d] = "live" /\ x \in t.refers[d])
  /\ \A g \in h.want[x] : t.lv[g] = "live" => x \in t.member[g]
\* ONE revive operation over the set X of recycled entries (a multi-match revive filter): every entry of
\* the set is owed its own memberships and dependents
ReviveOkSet(s, t, h, X) == \A x \in X : s.lv[x] = "recycled" => ReviveOk(s, t, h, x)
\* nothing stands in the way of reviving the recycled entries X together: none was cascade-deleted behind
\* an entry outside the set, each still holds the `refers` it had when it entered the bin (a dependent
\* whose target was deleted afterwards has lost a mandatory reference and is legitimately refused, see
\* C16), and the names that come back are used neither by a live entry nor twice within the set
Unobstructed(s, h, X) ==
  LET Rv == X \cup {d \in s.ids : s.lv[d] = "recycled" /\ s.casc[d] # {} /\ s.casc[d] \subseteq X} IN
  /\ X # {} /\ \A x \in X : s.lv[x] = "recycled" /\ s.casc[x] \subseteq X /\ s.refers[x] = h.rf[x]
  /\ \A y \in Rv : s.name[y] # "" =>
        /\ \A z \in s.ids \ Rv : ~(s.lv[z] = "live" /\ s.name[z] = s.name[y])
        /\ \A z \in Rv \ {y} : s.name[z] # s.name[y]

\* ----------------------------------- L2 -----------------------------------
R(st, res) == [st |-> st, res |-> res]
Deps(s, D) == {d \in s.ids \ D : s.lv[d] = "live" /\ s.refers[d] \cap D # {}}
Delete(s, D0, now) ==
  LET D == {x \in D0 : s.lv[x] = "live"}
      all == D \cup Deps(s, D)
      \* every entry losing a reference is modified (refint): groups that listed a deleted entry, dependents
      touched == {g \in s.ids : s.member[g] \cap all # {} \/ s.rdmo[g] \cap all # {}}
  IN  IF D = {} THEN R(s, "err")
      ELSE R([s EXCEPT !.now = now,
                       !.lv = [x \in s.ids |-> IF x \in all THEN "recycled" ELSE @[x]],
                       !.casc = [x \in s.ids |-> IF x \in Deps(s, D) THEN s.refers[x] ELSE @[x]],
                       !.refers = [x \in s.ids |-> @[x] \ all],
                       !.rdmo = [x \in s.ids |-> IF x \in all THEN {g \in s.grp : s.lv[g] = "live" /\ x \in s.member[g]} \ all ELSE @[x] \ all],
                       !.member = [g \in s.ids |-> @[g] \ all],
                       !.lm = [x \in s.ids |-> IF x \in all \cup touched THEN now ELSE @[x]]], "ok")

\* ONE revive_recycled over the ids X0: the recycled ones among them and every entry cascade-deleted behind
\* one of them; the memberships to restore are collected PER GROUP over all revived entries (one modify
\* per group adding every entry whose recycled_directmemberof names it)
Revive(s, X0, now) ==
  LET X  == {x \in X0 : s.lv[x] = "recycled"}
      Rv == X \cup {d \in s.ids : s.lv[d] = "recycled" /\ s.casc[d] # {} /\ s.casc[d] \subseteq X}
      refok == \A y \in Rv : \A v \in s.casc[y] : v \in Rv \/ s.lv[v] = "live"
      nameok == \A y \in Rv : s.name[y] # "" =>
                   /\ \A z \in s.ids \ Rv : ~(s.lv[z] = "live" /\ s.name[z] = s.name[y])
                   /\ \A z \in Rv \ {y} : s.name[z] # s.name[y]
      gs == UNION {s.rdmo[y] : y \in Rv}
  IN  IF X = {} THEN R([s EXCEPT !.now = now], "ok")
      ELSE IF ~refok \/ ~nameok THEN R(s, "err")
      ELSE R([s EXCEPT !.now = now,
                       !.lv = [y \in s.ids |-> IF y \in Rv THEN "live" ELSE @[y]],
                       !.refers = [y \in s.ids |-> IF y \in Rv /\ s.casc[y] # {} THEN s.casc[y] ELSE @[y]],
                       !.casc = [y \in s.ids |-> IF y \in Rv THEN {} ELSE @[y]],
                       !.rdmo = [y \in s.ids |-> IF y \in Rv THEN {} ELSE @[y]],
                       !.member = [g \in s.ids |-> IF g \in gs THEN @[g] \cup {y \in Rv : g \in s.rdmo[y]} ELSE @[g]],
                       !.lm = [y \in s.ids |-> IF y \in Rv \cup gs THEN now ELSE @[y]]], "ok")

\* purge_recycled: f_lt(last_modified_cid, now - RMax); purge_tombstones: tombstone time < now - CMax
PurgeRecycled(s, now) ==
  LET P == {x \in s.ids : s.lv[x] = "recycled" /\ s.lm[x] + RMax < now}
  IN  [s EXCEPT !.now = now, !.lv = [x \in s.ids |-> IF x \in P THEN "tombstone" ELSE @[x]],
                !.at = [x \in s.ids |-> IF x \in P THEN now ELSE @[x]],
                !.casc = [x \in s.ids |-> IF x \in P THEN {} ELSE @[x]],
                !.rdmo = [x \in s.ids |-> IF x \in P THEN {} ELSE @[x]],
                !.member = [x \in s.ids |-> IF x \in P THEN {} ELSE @[x]],
                !.name = [x \in s.ids |-> IF x \in P THEN "" ELSE @[x]]]
PurgeTombstones(s, now) ==
  LET P == {x \in s.ids : s.lv[x] = "tombstone" /\ s.at[x] + CMax < now}
  IN  [s EXCEPT !.now = now, !.lv = [x \in s.ids |-> IF x \in P THEN "absent" ELSE @[x]]]

\* history bookkeeping (pure observation of consecutive states)
Hist(h, s, t) ==
  [del  |-> [x \in s.ids |-> IF t.lv[x] = "recycled" /\ s.lv[x] # "recycled" THEN t.now ELSE h.del[x]],
   ts   |-> [x \in s.ids |-> IF t.lv[x] = "tombstone" /\ s.lv[x] # "tombstone" THEN t.now ELSE h.ts[x]],
   want |-> [x \in s.ids |-> IF t.lv[x] = "recycled" /\ s.lv[x] = "live"
                             THEN {g \in s.grp : s.lv[g] = "live" /\ t.lv[g] = "live" /\ x \in s.member[g]}
                             ELSE IF t.lv[x] = "recycled" THEN {g \in h.want[x] : t.lv[g] = "live"} ELSE {}],
   dm   |-> [x \in s.ids |-> IF t.lv[x] = "recycled" /\ s.lv[x] = "live" THEN s.dmo[x]
                             ELSE IF t.lv[x] = "recycled" THEN h.dm[x] ELSE {}],
   rf   |-> [x \in s.ids |-> IF t.lv[x] = "recycled" /\ s.lv[x] = "live" THEN t.refers[x]
                             ELSE IF t.lv[x] = "recycled" THEN h.rf[x] ELSE {}],
   dep  |-> [x \in s.ids |-> IF t.lv[x] = "recycled" /\ s.lv[x] = "live"
                             THEN {d \in s.ids : s.lv[d] = "live" /\ x \in s.refers[d] /\ t.lv[d] = "recycled" /\ t.casc[d] = {x}}
                             ELSE IF t.lv[x] = "recycled" THEN h.dep[x] ELSE {}]]
=============================================================================
