CONSTANTS
  Servers = {s1, s2, s3}
  T = 2
INIT Init
NEXT Next
INVARIANT Inv
CHECK_DEADLOCK FALSE
