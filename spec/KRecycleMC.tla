------------------------------ MODULE KRecycleMC ------------------------------
(* Exhaustive exploration of the delete / revive / purge transcription (L2) against the lifecycle
   property (L1) with scaled constants (RMax, CMax in model time units): entries 1 and 4 users (both members of
   group 2; 1 is the target of dependent 3), 2 group, 3 dependent. Delete and revive are ONE operation over a
   set of 1..2 entries (argument = set code).  Every edit happens dt in 1..2 after the
   previous one (dt >= 1: one transaction per simulated second, so whole-second arithmetic is exact).  L1 is evaluated on every transition (ok' records it); CEX / BEH as in KRefintMC,
   each edit is <<kind, arg, dt>>. *)
EXTENDS KRecycle, Sequences
CONSTANTS MaxLen, Sample, TMax
I3 == 1..4
VARIABLES s, hs, h, ok
Nm(x) == <<"n1", "n2", "", "n4">>[x]
Init == /\ s = [ids |-> I3, grp |-> {2}, lv |-> [x \in I3 |-> "live"], now |-> 0,
                lm |-> [x \in I3 |-> 0], at |-> [x \in I3 |-> 0],
                refers |-> [x \in I3 |-> IF x = 3 THEN {1} ELSE {}], casc |-> [x \in I3 |-> {}],
                member |-> [x \in I3 |-> IF x = 2 THEN {1, 4} ELSE {}], rdmo |-> [x \in I3 |-> {}],
                name |-> [x \in I3 |-> Nm(x)], dmo |-> [x \in I3 |-> {}]]
        /\ hs = [del |-> [x \in I3 |-> 0], ts |-> [x \in I3 |-> 0], want |-> [x \in I3 |-> {}], dep |-> [x \in I3 |-> {}], rf |-> [x \in I3 |-> {}], dm |-> [x \in I3 |-> {}]]
        /\ h = <<>> /\ ok = TRUE
\* L1 on one transition (operation kind k on x with result res)
L1(t, k, X, res) ==
  /\ LifecycleOk(s, t, hs)
  /\ (k = 2 /\ res = "ok") => ReviveOkSet(s, t, hs, X)
  /\ (k = 2 /\ Unobstructed(s, hs, X)) => res = "ok"
SetCode(M) == LET RECURSIVE Sum(_)
                  Sum(P) == IF P = {} THEN 0 ELSE LET p == CHOOSE q \in P : TRUE IN 2 ^ (p - 1) + Sum(P \ {p})
              IN  Sum(M)
\* X: the set of entries the edit names (delete / revive work on SETS: one operation)
Step(k, X, dt, r) == /\ s' = r.st /\ h' = h \o <<k, SetCode(X), dt>> /\ hs' = Hist(hs, s, r.st) /\ ok' = L1(r.st, k, X, r.res)
Next == /\ ok /\ Len(h) < 3 * MaxLen
        /\ \E dt \in 1..2 : LET now == s.now + dt IN now <= TMax /\
           \/ \E D \in SUBSET {x \in I3 : s.lv[x] = "live"} : Cardinality(D) \in {1, 2} /\ Step(1, D, dt, Delete(s, D, now))
           \/ \E X \in SUBSET {x \in I3 : s.lv[x] = "recycled"} : Cardinality(X) \in {1, 2} /\ Step(2, X, dt, Revive(s, X, now))
           \/ \E x \in I3 : s.lv[x] = "tombstone" /\ Step(2, {x}, dt, Revive(s, {x}, now))
           \/ Step(3, {}, dt, R(PurgeRecycled(s, now), "ok"))
           \/ Step(4, {}, dt, R(PurgeTombstones(s, now), "ok"))
           \/ s.lv[2] = "live" /\ s.lv[1] = "live" /\ 1 \in s.member[2]
                /\ Step(5, {}, dt, R([s EXCEPT !.now = now, !.member[2] = {}, !.lm[2] = now], "ok"))
           \/ s.lv[2] = "live" /\ s.lv[1] = "live" /\ 1 \notin s.member[2]
                /\ Step(6, {}, dt, R([s EXCEPT !.now = now, !.member[2] = {1}, !.lm[2] = now], "ok"))
Spec == Init /\ [][Next]_<<s, hs, h, ok>>
Pad(q) == q \o [i \in 1..(18 - Len(q)) |-> 0]
Tup(tag) == LET p == Pad(h) IN
  <<tag, Len(h) \div 3, p[1], p[2], p[3], p[4], p[5], p[6], p[7], p[8], p[9], p[10], p[11], p[12], p[13], p[14], p[15], p[16], p[17], p[18]>>
Fold == LET RECURSIVE G(_) G(i) == IF i = 0 THEN 0 ELSE (h[i] * (i + 7) + G(i - 1)) % 100003 IN G(Len(h))
Soft == /\ ok \/ PrintT(Tup("CEX"))
        /\ (Len(h) = 3 * MaxLen /\ ok /\ Fold % Sample = 0) => PrintT(Tup("BEH"))
View == IF ok /\ Len(h) < 3 * MaxLen THEN <<s, hs, <<>> >> ELSE <<s, hs, h>>
\* vacuity guards
ReachGone == ~(\E x \in I3 : s.lv[x] = "absent")
ReachLatePurge == ~(\E x \in I3 : s.lv[x] = "recycled" /\ s.lm[x] > hs.del[x])
=============================================================================
