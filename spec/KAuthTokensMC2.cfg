CONSTANTS
  Grace = 2
  MaxAge = 100
  T = 3
  SessLen = 3
  ApiLen = 2
  MaxSess = 1
  MaxApi = 1
  MaxKeys = 1
  MaxCreds = 1
  MaxGrants = 0
  VFs <- NoneOr1
  EXs <- NoneOr2
  SimDepth = 0
INIT Init
NEXT Next
VIEW View
INVARIANT InvC32
INVARIANT InvO2
PROPERTY PropC36
CHECK_DEADLOCK FALSE
