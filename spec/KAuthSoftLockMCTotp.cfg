CONSTANTS
  W = 6
  Th <- ThTotp
  Dl <- DlTotp
  TMax = 13
  NMax = 4
  Exps = {2, 6}
SPECIFICATION Spec
CONSTRAINT Bound
PROPERTY L1Action
INVARIANT WindowBound
CHECK_DEADLOCK FALSE
