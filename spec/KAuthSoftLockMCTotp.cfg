CONSTANTS
  W = 4
  Th <- ThTotp
  Dl <- DlTotp
  TMax = 13
  NMax = 5
  Exps = {2, 6}
SPECIFICATION Spec
CONSTRAINT Bound
PROPERTY L1Action
INVARIANT WindowBound
CHECK_DEADLOCK FALSE
