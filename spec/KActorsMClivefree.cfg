CONSTANTS
  Sups = {"s0", "s1", "s2"}
  Acts = {"a1", "a2"}
  Root = "s0"
  Env = "free"
  SupPar <- SupParDef
  ActPar <- ActParDef
  MaxReady = 0
SPECIFICATION FairSpec
PROPERTY StopLive
PROPERTY ExecLive
CHECK_DEADLOCK FALSE
