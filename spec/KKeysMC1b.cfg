CONSTANTS
  T = 1
  MaxKeys = 2
  Servers = {"A", "B"}
  ReloadOnCommit = TRUE
INIT Init
NEXT Next
INVARIANT InvVerify
INVARIANT InvSign
INVARIANT InvSignNow
INVARIANT InvNoUnrevoke
INVARIANT InvMemIsStored
CHECK_DEADLOCK FALSE
