------------------------------- MODULE KOAuth2 -------------------------------
(***************************************************************************)
(* OAuth2 authorisation decision (property C38) and code / access /        *)
(* refresh token lifecycle (property C39) of kanidm (idm/oauth2.rs).       *)
(*                                                                         *)
(* L0  vocabulary  : client facts, request facts, observation records      *)
(* L1  properties  : AuthzL1 (C38), TokL1.. (C39) - over L0 only            *)
(* L2  transcription of check_oauth2_authorisation +                       *)
(*     process_requested_scopes_for_identity + check_oauth2_authorise_     *)
(*     permit (Authorise), and of the token endpoint / introspection /     *)
(*     userinfo / revoke paths (Tok..).                                    *)
(* Operator style: no VARIABLES here; KOAuth2MC / KOAuth2TokMC add them.   *)
(***************************************************************************)
EXTENDS Naturals, FiniteSets, Sequences, TLC

Range(s) == {s[i] : i \in DOMAIN s}

(***************************************************************************)
(*                      ----  A U T H O R I S E  ----                      *)
(* L0.  An authorisation "fact record" f has the fields                    *)
(*   type      "basic" | "public"                                          *)
(*   lh        localhost redirects allowed (public clients only)           *)
(*   pkceReq   client requires PKCE (public: always; basic: unless the     *)
(*             insecure-disable flag is set)                               *)
(*   consentOn consent prompt enabled (public: always)                     *)
(*   secureReq at least one registered URI is https                        *)
(*   uReg      request URI is exactly one of the registered http(s) URIs   *)
(*   uApp      request URI is exactly one of the registered app URIs       *)
(*   uLoop     request URI host is loopback / localhost                    *)
(*   uHttps    request URI scheme is https                                 *)
(*   pkce      "none" | "s256" | "plain"                                   *)
(*   prompt    "" | "none" | "login" | "consent"                           *)
(*   ident     "none" | "anon" | "user"                                    *)
(*   scopes    requested scopes (set)                                      *)
(*   bad       requested scopes with invalid syntax (set)                  *)
(*   avail     scopes the identity holds through the scope maps            *)
(*   sup       supplementary scopes the identity holds                     *)
(*   prevEq    a previously recorded consent equals scopes \cup sup        *)
(* An observation o has: code (BOOLEAN, a code was issued directly or      *)
(* after the consent permit), res (result class), xchg ("ok"|"fail"|"na"), *)
(* granted (scopes recovered by exchanging the code).                      *)
(***************************************************************************)

\* ----------------------------- L1 (C38) ---------------------------------
UriOk(f)   == f.uReg \/ f.uApp \/ (f.uLoop /\ f.type = "public" /\ f.lh)
UserOk(f)  == f.ident = "user" /\ f.scopes \subseteq f.avail
PkceOk(f)  == f.pkceReq => f.pkce = "s256"
Granted(f) == f.scopes \cup f.sup

\* one-sided: only an issued code is constrained
AuthzL1(f, o) ==
  o.code =>
    /\ UriOk(f)
    /\ UserOk(f)
    /\ PkceOk(f)
    /\ (o.xchg = "ok" => o.granted = Granted(f))

\* which clause fails (for the signature of a violation)
AuthzL1Clause(f, o) ==
  IF ~o.code THEN "ok"
  ELSE IF ~UriOk(f) THEN "uri"
  ELSE IF f.ident # "user" THEN "ident"
  ELSE IF ~(f.scopes \subseteq f.avail) THEN "scope"
  ELSE IF ~PkceOk(f) THEN "pkce"
  ELSE IF o.xchg = "ok" /\ o.granted # Granted(f) THEN "granted"
  ELSE "ok"

\* ----------------------------- L2 (C38) ---------------------------------
\* Result classes: "code" (Permitted), "consent" (ConsentRequested; the permit then issues
\* the code with the same scopes), "authreq", "reauth", "err:<oauth2 error>".
Authorise(f) ==
  LET loopM    == f.uLoop /\ f.type = "public" /\ f.lh
      matched  == loopM \/ f.uReg \/ f.uApp
      secureOK == f.uApp \/ f.uLoop \/ f.uHttps
      granted  == f.scopes \cup f.sup
      consentRequired == (~f.prevEq \/ (f.type # "basic" /\ loopM)) /\ f.consentOn
      \* a challenge with a method other than S256 does not deserialise into the flattened optional
      \* PkceRequest of the typed request: the request is processed as if no challenge was sent
  IN  IF ~matched THEN [res |-> "err:invalid_origin", granted |-> {}]
      ELSE IF f.secureReq /\ ~secureOK THEN [res |-> "err:invalid_origin", granted |-> {}]
      ELSE IF f.pkce # "s256" /\ f.pkceReq THEN [res |-> "err:invalid_request", granted |-> {}]
      ELSE IF f.ident = "none" THEN
             IF f.prompt = "none" THEN [res |-> "err:login_required", granted |-> {}]
             ELSE [res |-> "authreq", granted |-> {}]
      ELSE IF f.prompt = "login" THEN [res |-> "reauth", granted |-> {}]
      ELSE IF f.ident = "anon" THEN [res |-> "err:access_denied", granted |-> {}]
      ELSE IF f.scopes = {} THEN [res |-> "err:invalid_request", granted |-> {}]
      ELSE IF f.bad # {} THEN [res |-> "err:invalid_scope", granted |-> {}]
      ELSE IF ~(f.scopes \subseteq f.avail) THEN [res |-> "err:access_denied", granted |-> {}]
      ELSE IF ~consentRequired THEN [res |-> "code", granted |-> granted]
      ELSE IF f.prompt = "none" THEN [res |-> "err:interaction_required", granted |-> {}]
      ELSE [res |-> "consent", granted |-> granted]

\* The observation L2 predicts (the harness always permits a consent request and exchanges the code).
ObsOf(r) ==
  LET c == r.res \in {"code", "consent"}
  IN  [code |-> c, res |-> r.res, xchg |-> IF c THEN "ok" ELSE "na", granted |-> r.granted]
AuthoriseObs(f) == ObsOf(Authorise(f))

L2MeetsL1Authz(f) == AuthzL1(f, AuthoriseObs(f))

\* Path signature of a case: the facts the decision branches on, the result of the transcription
\* and the truth of every L1 clause (so that every single-clause failure has a representative).
ScopeClass(f) == IF f.scopes = {} THEN "empty" ELSE IF f.bad # {} THEN "bad"
                 ELSE IF f.scopes \subseteq f.avail THEN "held" ELSE "notheld"
AuthzSigR(f, res) ==
  <<f.type, f.lh, f.secureReq, f.pkceReq, f.pkce, f.ident, ScopeClass(f), f.uReg, f.uApp, f.uLoop, f.uHttps, res,
    UriOk(f), UserOk(f), PkceOk(f),
    IF res \in {"code", "consent"} THEN <<f.sup = {}, f.prevEq, f.consentOn>> ELSE <<>>,
    IF res \in {"authreq", "reauth", "err:login_required", "err:interaction_required"} THEN f.prompt ELSE "">>
AuthzSig(f) == AuthzSigR(f, Authorise(f).res)

(***************************************************************************)
(*                         ----  T O K E N S  ----                         *)
(* L0.  Model time is whole seconds.  Handles are small strings.           *)
(*  code  record: [client, redirect, pkce (BOOLEAN), verifier, scopes,     *)
(*                 t (issue time), acct]                                   *)
(*  token record: [kind "at"|"rt", sess, client, scopes, iat, exp,         *)
(*                 rot (BOOLEAN: a refresh token already used), acct]      *)
(*  sess  record: [client, orig (scopes of the original grant), acct]      *)
(*  revoked : set of session handles revoked by the revoke endpoint or by  *)
(*            refresh-reuse detection                                      *)
(*  acct  : account validity window [from, until] (until = 0: open)        *)
(***************************************************************************)
CONSTANTS CodeLife,      \* lifetime of an authorisation code (real: 60 s)
          AccessLife,    \* lifetime of an access token        (real: 900 s)
          RefreshLife    \* lifetime of a refresh token        (real: 57600 s)

\* kanidm treats the expiry instant itself as still valid (ct <= expire); 0 = unbounded
AcctValid(a, t) == (a.from = 0 \/ a.from <= t) /\ (a.until = 0 \/ t <= a.until)

\* ----------------------------- L1 (C39) ---------------------------------
\* (1) code exchange: succeeds only at the issuing client (authenticated), before expiry,
\*     with the same redirect URI, and with the matching verifier when a challenge was recorded.
\*     `x` = [client, authok, redirect, verifier (or "" if none)], t = time of the request.
CodeExchangeAllowed(c, x, t) ==
  /\ x.client = c.client
  /\ x.authok
  /\ t <= c.t + CodeLife
  /\ x.redirect = c.redirect
  /\ (c.pkce => x.verifier = c.verifier)
TokL1Exchange(c, x, t, ok) == ok => CodeExchangeAllowed(c, x, t)

\* (2) refresh never widens: scopes of the newly issued tokens are within the original grant.
TokL1RefreshScopes(orig, ok, newscopes) == ok => newscopes \subseteq orig

\* (3) an already rotated refresh token is never accepted again, and when it is presented in an
\*     otherwise valid way (by its authenticated client, unexpired, account valid) the session is
\*     revoked: `aliveAfter` is the OBSERVED answer to "would the newest refresh token of the
\*     session still be accepted right after the call" (probed without side effects).
TokL1Reuse(tok, ok, aliveAfter, otherwiseValid) == tok.rot => (~ok /\ (otherwiseValid => ~aliveAfter))

\* (4) a token whose session was revoked, whose account is outside its validity window, or which
\*     has itself expired is rejected by the token endpoint (refresh), introspection, userinfo.
TokDead(tok, revoked, a, t) == tok.sess \in revoked \/ ~AcctValid(a, t) \/ t >= tok.exp
TokL1Dead(tok, revoked, a, t, ok) == TokDead(tok, revoked, a, t) => ~ok

\* ----------------------------- L2 (C39) ---------------------------------
\* Server-side session record as kanidm keeps it: [issued (time of the last issue), state
\* "absent" | "live" | "revoked", parent "live" | "revoked" | "absent" (the user's login session)].
\* check_oauth2_token_exchange_authorization_code
L2Exchange(c, x, t) ==
  IF x.client # c.client \/ ~x.authok THEN "err"      \* wrong key / failed client authentication
  ELSE IF c.t + CodeLife <= t THEN "err"
  ELSE IF c.pkce /\ x.verifier # c.verifier THEN "err"
  ELSE IF ~c.pkce /\ x.pkceReq THEN "err"
  ELSE IF ~c.pkce /\ x.verifier # "" THEN "err"
  ELSE IF x.redirect # c.redirect THEN "err"
  ELSE "ok"

\* check_oauth2_account_uuid_valid
L2SessionValid(tok, srec, a, t, Grace) ==
  IF ~AcctValid(a, t) THEN FALSE
  ELSE IF srec.state = "absent" THEN t < tok.iat + Grace
  ELSE IF srec.state = "revoked" THEN FALSE
  ELSE IF srec.parent = "revoked" THEN FALSE
  ELSE IF srec.parent = "absent" THEN t < tok.iat + Grace
  ELSE TRUE

\* check_oauth2_token_refresh; x = [client, authok, scopes ({"*"} = none requested)]
\* result: "ok" | "err" | "reuse" (refused and the session record is revoked)
L2Refresh(tok, x, srec, a, t, Grace) ==
  IF x.client # tok.client \/ ~x.authok THEN "err"
  ELSE IF tok.kind # "rt" THEN "err"
  ELSE IF tok.exp <= t THEN "err"
  ELSE IF ~L2SessionValid(tok, srec, a, t, Grace) THEN "err"
  ELSE IF srec.state = "absent" THEN "err"      \* the record is needed to compare issue times
  ELSE IF tok.iat < srec.issued THEN "reuse"
  ELSE IF x.scopes # {"*"} /\ ~(x.scopes \subseteq tok.scopes) THEN "err"
  ELSE "ok"

\* introspection / userinfo of an access token
L2Use(tok, srec, a, t, Grace) ==
  IF tok.kind # "at" THEN "inactive"
  ELSE IF tok.exp <= t THEN "inactive"
  ELSE IF ~L2SessionValid(tok, srec, a, t, Grace) THEN "inactive"
  ELSE "active"
=============================================================================
