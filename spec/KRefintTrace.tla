----------------------------- MODULE KRefintTrace -----------------------------
(* Validates observations of the REAL server (dirsrv history driver) against NoDangling (L1) and
   reports lines the refint transcription (L2) does not explain.  Scope of an observation: every
   projected entry (model entries, entries referencing them, member ancestors), with the liveness of
   every referenced id looked up (st.lvx); on `full` lines additionally every reference of every
   other live entry of the database (st.refx, target liveness looked up by the driver). *)
EXTENDS KRefint, KDir, Json, IOUtils
Rec == ndJsonDeserialize(IOEnv.TRACE)
VARIABLES l, seen

Starts(r) == r.a = "reset" \/ ("first" \in DOMAIN r /\ r.first)

\* ------------------------------------------ L1 on a line ------------------------------------------
\* dangling references of the observed state: <<holder, attribute, target>>
DanglingObs(st) ==
  {<<x, a, v>> \in {<<x, a, v>> \in UNION {UNION {{<<x, a, v>> : v \in Refs(st, x, a)} : a \in DOMAIN st.e[x].refs} : x \in LiveIds(st)} : TRUE} :
      Lv(st, v) # "live"}
  \cup {<<st.refx[i].h, st.refx[i].a, st.refx[i].t>> : i \in {j \in DOMAIN st.refx : st.refx[j].tl # "live"}}
LineL1(r) == DanglingObs(r.st) = {}
\* references stored by ANY projected holder (whatever its liveness) whose target is not live: a dangling
\* reference that was reported once stays "known" only while it is still stored like that
Latent(st) ==
  {<<x, a, v>> \in UNION {UNION {{<<x, a, v>> : v \in Refs(st, x, a)} : a \in DOMAIN st.e[x].refs} : x \in Ids(st)} :
      Lv(st, v) # "live"}
\* new dangling references of this line (not reported earlier in this history), classified
NewDangling(r) == DanglingObs(r.st) \ (IF Starts(r) THEN {} ELSE seen)
IsDynLeak(st, t) == /\ t[2] = "dynmember" /\ t[1] \in Ids(st) /\ st.e[t[1]].k = "dyn"
                    /\ Lv(st, t[3]) \in {"recycled", "tombstone"}
\* every reference value this operation ADDED to a live holder, over all attributes that a write sets
\* (the derived memberof / directmemberof / dynmember / recycled_directmemberof are other plugins' output):
\* refint checks exactly this union with one query
Derived == {"memberof", "directmemberof", "dynmember", "recycled_directmemberof"}
NewAll(r, pst) ==
  UNION {UNION {Refs(r.st, x, a) \ (IF ~Starts(r) /\ x \in Ids(pst) THEN Refs(pst, x, a) ELSE {})
                : a \in DOMAIN r.st.e[x].refs \ Derived} : x \in LiveIds(r.st)}
\* the new dangling value was added by this operation together with at least one live target
IsMixed(r, pst, t) ==
  LET new == NewAll(r, pst) IN
  /\ t[2] \notin Derived /\ t[3] \in new /\ r.res = "ok" /\ Lv(r.st, t[3]) # "absent"
  /\ \E w \in new : Lv(r.st, w) = "live"
\* the holder already referenced this very target (reported earlier, still stored): refint only checks
\* uuids that are new to the ENTRY, so the same target can be added to another attribute unchecked
IsRepeat(t) == \E u \in seen : u[1] = t[1] /\ u[3] = t[3]
Sig(r, pst) ==
  LET N  == NewDangling(r)
      N1 == IF Starts(r) THEN N ELSE {t \in N : ~IsRepeat(t)} IN
  IF N = {} THEN "persist"
  ELSE IF N1 = {} THEN "persist-repeat"
  ELSE IF \A t \in N1 : IsDynLeak(r.st, t) THEN "dangling dynmember->nonlive"
  ELSE IF \A t \in N1 : IsDynLeak(r.st, t) \/ IsMixed(r, pst, t) THEN "dangling mixed-new-targets"
  ELSE LET t == CHOOSE u \in N1 : ~IsDynLeak(r.st, u) /\ ~IsMixed(r, pst, u)
       IN  "dangling attr=" \o t[2] \o " target=" \o Lv(r.st, t[3])

\* ------------------------------------------ L2 on a line ------------------------------------------
A0 == {"member", "entry_managed_by", "refers", "oauth2_rs_scope_map", "key_provider", "dynmember"}
Abs(st, I) ==
  [ids |-> I, attrs |-> A0,
   lv  |-> [x \in I |-> Lv(st, x)],
   ref |-> [x \in I |-> [a \in A0 |-> IF x \in Ids(st) THEN Refs(st, x, a) ELSE {}]],
   casc |-> [x \in I |-> IF x \in Ids(st) THEN Range(st.e[x].cd) ELSE {}]]
EmptySt == [e |-> <<>>, lvx |-> <<>>]

Same(u, v, I) == \A x \in I : /\ u.lv[x] = v.lv[x]
                              /\ \A a \in A0 \ {"dynmember"} : (u.lv[x] # "absent" => u.ref[x][a] = v.ref[x][a])
                              /\ (u.lv[x] = "recycled" => u.casc[x] = v.casc[x])

\* predicted outcome [st, res] of one logged operation on abstract state p; q is the observed post state
\* (used only for what the reference layer does not decide: which ids a create made, which entries a purge took)
Predict(r, p, q, pst) ==
  LET a == r.a
      one(x, at, V) == IF x \in p.ids THEN SetRef(p, x, at, V) ELSE [st |-> p, res |-> "ok"]
      cur(x, at) == IF x \in p.ids THEN p.ref[x][at] ELSE {}
  IN
  IF a = "add_member" THEN one(r.g, "member", cur(r.g, "member") \cup {r.x})
  ELSE IF a = "remove_member" THEN one(r.g, "member", cur(r.g, "member") \ {r.x})
  ELSE IF a = "set_members" THEN one(r.g, "member", Range(r.xs))
  ELSE IF a = "set_emb" THEN one(r.id, "entry_managed_by", {r.x})
  ELSE IF a = "clear_emb" THEN one(r.id, "entry_managed_by", {})
  ELSE IF a = "add_scope" THEN one(r.o, "oauth2_rs_scope_map", cur(r.o, "oauth2_rs_scope_map") \cup {r.g})
  ELSE IF a = "rm_scope" THEN one(r.o, "oauth2_rs_scope_map", cur(r.o, "oauth2_rs_scope_map") \ {r.g})
  ELSE IF a = "set_refers" THEN one(r.c, "refers", {r.x})
  ELSE IF a = "delete" THEN
       LET D == {x \in Range(r.ids) \cap p.ids : p.lv[x] = "live"}
       IN  IF D = {} THEN [st |-> p, res |-> "err"] ELSE [st |-> Delete(p, D), res |-> "ok"]
  ELSE IF a = "revive" THEN
       IF Range(r.ids) \cap p.ids = {} THEN [st |-> p, res |-> "ok"]
       ELSE LET v == Revive(p, Range(r.ids))
                R == {x \in p.ids : p.lv[x] = "recycled" /\ v.st.lv[x] = "live"}
                \* direct memberships restored from recycled_directmemberof (one modify per group)
                back(g) == {x \in R : x \in Ids(pst) /\ g \in Rdmo(pst, x)}
            IN  [st |-> [v.st EXCEPT !.ref = [g \in p.ids |-> [v.st.ref[g] EXCEPT !["member"] = @ \cup back(g)]]], res |-> v.res]
  ELSE IF a \in {"purge_recycled", "purge_tombstones"} THEN
       [st |-> Reap(Purge(p, {x \in p.ids : p.lv[x] = "recycled" /\ q.lv[x] # "recycled"}),
                    {x \in p.ids : p.lv[x] = "tombstone" /\ q.lv[x] = "absent"}), res |-> "ok"]
  ELSE IF a \in {"create_group", "create_dyn", "create_person", "create_svc", "create_cert", "create_oa2", "create_batch"} THEN
       LET C  == {x \in p.ids : p.lv[x] = "absent" /\ q.lv[x] = "live"}
           s1 == [p EXCEPT !.lv = [x \in p.ids |-> IF x \in C THEN "live" ELSE @[x]],
                           !.ref = [x \in p.ids |-> IF x \in C THEN q.ref[x] ELSE @[x]]]
           new == UNION {UNION {s1.ref[x][at] : at \in A0 \ {"dynmember"}} : x \in C}
       IN  IF NewOk(s1, new) THEN [st |-> s1, res |-> "ok"] ELSE [st |-> p, res |-> "err"]
  ELSE [st |-> p, res |-> "ok"]

LineL2(r, pst0) ==
  LET pst == IF Starts(r) THEN EmptySt ELSE pst0
      I == Ids(r.st) \cup Ids(pst) \cup DOMAIN r.st.lvx \cup DOMAIN pst.lvx
      q == Abs(r.st, I)
      p0 == Abs(pst, I)
      \* built-in entries that the previous projection did not mention: their liveness is what it is now
      p == [p0 EXCEPT !.lv = [x \in I |-> IF p0.lv[x] = "unknown" THEN q.lv[x] ELSE p0.lv[x]]]
      m == Predict(r, p, q, pst)
      \* compare entries that are fully projected (or absent) on both sides
      J == {x \in I : (x \in Ids(r.st) \/ q.lv[x] = "absent") /\ (x \in Ids(pst) \/ p.lv[x] = "absent" \/ Starts(r))}
  IN  IF r.a = "reset" THEN TRUE
      ELSE IF r.res = "ok" THEN m.res = "ok" /\ Same(m.st, q, J)
      ELSE Same(p, q, J)      \* a refused operation leaves the references alone (other layers may refuse more)

Prev == IF l > 1 THEN Rec[l - 1].st ELSE Rec[l].st
Init == l = 1 /\ seen = {}
Next == /\ l <= Len(Rec) /\ l' = l + 1
        /\ seen' = ((IF Starts(Rec[l]) THEN {} ELSE seen) \cup DanglingObs(Rec[l].st)) \cap Latent(Rec[l].st)
Spec == Init /\ [][Next]_<<l, seen>>
Judge == l <= Len(Rec) =>
  /\ (LineL1(Rec[l]) \/ PrintT(<<"L1FAIL", "C16", l, Sig(Rec[l], Prev)>>))
  /\ (LineL2(Rec[l], Prev) \/ PrintT(<<"L2DRIFT", "C16", l>>))
Consumed == TLCGet("stats").distinct = Len(Rec) + 1 \/ PrintT(<<"NOTCONSUMED", TLCGet("stats").distinct, Len(Rec)>>)
=============================================================================
