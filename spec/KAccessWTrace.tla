---------------------------- MODULE KAccessWTrace ----------------------------
(* Trace validation for C24: every create / modify / delete / revive attempted against the REAL
   server (driver `kv-access c24`) is judged by the write-grant model L1 of KAccess; L2 (transcription
   of apply_modify_access / apply_create_access / apply_delete_access behind an impersonated search)
   must predict the result class (else conformance drift).
   Lines:  {"a":"cfg","acps":[..],"ents":{id:entry}}       configuration in force = pre-state
           {"a":"op","op":..,"id":..,"f":filter,"ml":[{"k","a","v":[..]}],"new":entry,
            "m":[candidate ids],"res":..,"post":{id: entry changed or created}}
           op "batch" carries "mods":{id:[items]} instead of one "ml"; items may have k = "set" *)
EXTENDS KAccessNorm, Json, IOUtils
Rec == ndJsonDeserialize(IOEnv.TRACE)
VARIABLES l, c

ReviveMl == <<[k |-> "rem", a |-> "class", v |-> {"recycled"}]>>

PostOf(Pre, r) == [x \in DOMAIN Pre \cup DOMAIN r.post |-> IF x \in DOMAIN r.post THEN NEnt(x, r.post[x]) ELSE Pre[x]]
Mods(r) == [x \in DOMAIN r.mods |-> NMl(r.mods[x])]
\* signature of a failed batch: judged like a modify of its first offending entry
BatchMl(r) == LET bad == {x \in DOMAIN r.mods : TRUE} IN NMl(r.mods[CHOOSE x \in bad : TRUE])

LineL1(C, r) ==
  LET S == NProfs(C.acps)  Pre == NEnts(C.ents)  id == NId(r.id)  Post == PostOf(Pre, r) IN
  r.res = "ok" =>
    CASE r.op = "modify" -> L1Modify(S, id, "modify", NMl(r.ml), Range(r.m) \cap DOMAIN r.post, Pre, Post)
      [] r.op = "batch" -> L1Batch(S, id, Mods(r), Pre, Post)
      [] r.op = "revive" -> L1Modify(S, id, "revive", ReviveMl, Range(r.m) \cap DOMAIN r.post, Pre, Post)
      [] r.op = "create" -> L1Create(S, id, NEnt(r.new.id, r.new), Pre, Post)
      [] r.op = "delete" -> L1Delete(S, id, Pre, Post)
      [] OTHER -> FALSE

LineSig(C, r) ==
  LET S == NProfs(C.acps)  Pre == NEnts(C.ents)  id == NId(r.id)  Post == PostOf(Pre, r) IN
  IF r.op = "create"
  THEN (IF ~CanWrite(id) THEN "scope-or-origin"
        ELSE IF Range(r.new.attrs["class"]) \cap ProtectedPres # {} THEN "protected-class-created"
        ELSE "not-granted")
  ELSE IF r.op = "batch" THEN (IF ~CanWrite(id) THEN "scope-or-origin"
                               ELSE IF \E x \in DOMAIN Pre \cap DOMAIN Post : ~RegardlessOk("modify", Pre[x], Post[x]) THEN "protected-rule"
                               ELSE "not-granted")
  ELSE WriteSig(S, id, r.op, IF r.op = "revive" THEN ReviveMl ELSE NMl(r.ml), Pre, Post)

Pass(res) == res \notin {"nomatch", "denied"}
LineL2(C, r) ==
  LET S == NProfs(C.acps)  E == NEnts(C.ents)  id == NId(r.id)  Y == Yield(E)
      m == Range(r.m)
      cls(allowed(_), fa) == L2WriteClass(S, Y, E, id, fa, m, allowed)
      modok(x) == L2ModifyAllowed(S, Y, id, NMl(r.ml), E[x])
      revok(x) == L2ModifyAllowed(S, Y, id, ReviveMl, E[x])
      delok(x) == L2DeleteAllowed(S, id, E[x])
      pred == CASE r.op = "modify" -> cls(modok, CodeAttrs(r.f))
                [] r.op = "revive" -> cls(revok, CodeAttrs(r.f) \cup {"class"})
                [] r.op = "delete" -> cls(delok, CodeAttrs(r.f))
                [] r.op = "batch" -> L2BatchClass(S, Y, E, id, m, Mods(r))
                [] r.op = "create" -> IF L2CreateAllowed(S, id, NEnt(r.new.id, r.new)) THEN "pass" ELSE "denied"
                [] OTHER -> "none"
  IN  /\ m \subseteq DOMAIN E
      /\ CASE pred = "nomatch" -> r.res = "nomatch"
           [] pred = "denied" -> r.res = "denied"
           [] pred = "missing" -> r.res = "err_MissingEntries"
           [] OTHER -> Pass(r.res)

Init == l = 1 /\ c = 0
Next == /\ l <= Len(Rec)
        /\ l' = l + 1
        /\ c' = IF Rec[l].a = "cfg" THEN l ELSE c
Spec == Init /\ [][Next]_<<l, c>>

Judge == (l <= Len(Rec) /\ Rec[l].a = "op") =>
           /\ (LineL1(Rec[c], Rec[l]) \/ PrintT(<<"L1FAIL", "C24", l, LineSig(Rec[c], Rec[l])>>))
           /\ (LineL2(Rec[c], Rec[l]) \/ PrintT(<<"L2DRIFT", "C24", l>>))
Consumed == TLCGet("stats").distinct = Len(Rec) + 1 \/ PrintT(<<"NOTCONSUMED", TLCGet("stats").distinct, Len(Rec)>>)
=============================================================================
