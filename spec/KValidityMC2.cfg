CONSTANTS
  Before = FALSE
  T = 8
INIT Init
NEXT Next
INVARIANT Inv
CHECK_DEADLOCK FALSE
