\* quick tier: 2 replicas, small budget
CONSTANTS
  N = 2
  Ids = {1}
  NewIds = {2}
  Sids = {1}
  MaxTs = 2
  MaxRepl = 3
  MaxWrites = 2
  RecycleAge = 0
  Window = 0
  MergeRestamp = TRUE
  NoSkew = TRUE
  ArmQuota = 2
  EnableRename = FALSE
  EnableClear = FALSE
INIT Init
NEXT Next
VIEW View
INVARIANT InvConvergedButSessions
INVARIANT InvConvergedSessions
INVARIANT InvUniqueLive
PROPERTY NoResurrection
INVARIANT ArmExport
CHECK_DEADLOCK FALSE
