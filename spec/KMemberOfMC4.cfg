CONSTANTS
  NG = 3
  NL = 1
  Sample = 1000
  MaxLen = 3
INIT Init
NEXT Next
VIEW View
INVARIANT Soft
CHECK_DEADLOCK FALSE
