-------------------------- MODULE KAuthSoftLockTrace --------------------------
(* Validates observed histories of the REAL CredSoftLock (driven directly, or consulted by the
   server's auth / unix / reauth paths) against C28.  Lines:
   {"a":"reset","pol":"password"|"totp","w":W,"proto":0|1,"st":S}   start of a history; S = state the
        driver built (prefix of recorded failures), proto=1: only protocol attempts follow
   {"a":"time","ct":T,"exp":E,"st":S,"v":0|1}        apply_time_step(T, E)      (E=-1: none)
   {"a":"fail","ct":T,"st":S,"v":0|1}                record_failure(T)
   {"a":"attempt","path":P,"ct":T,"exp":E,"wrong":0|1,"res":R,"st":S,"v":0|1}
        one attempt through path P in {"direct","auth","unix","ldap","reauth"}; E = the account's admin
        soft-lock expiry; R in {"ok","fail","refused","none"}
   S = {k,n,r,u,le} projection of the lock AFTER the step; v = is_valid() after the step.      *)
EXTENDS KAuthSoftLock, Json, IOUtils, TLC
CONSTANTS Day
PwTh == <<3, 9, 25, 100>>
PwDl == <<1, 3, 5, 10>>
TotpTh == <<3>>
TotpDl == <<1>>
Rec == ndJsonDeserialize(IOEnv.TRACE)
VARIABLES l, s, p, wc, free, proto
vars == <<l, s, p, wc, free, proto>>

St(o) == [k |-> o.k, n |-> o.n, r |-> o.r, u |-> o.u, le |-> o.le]
\* server histories name the credential kind ("ckind"): the judging policy is DERIVED from it
\* (Credential::softlock_policy), whichever path created the server's lock object
PolName(r) == IF "ckind" \in DOMAIN r THEN (IF r.ckind = "pwtotp" THEN "totp" ELSE "password") ELSE r.pol
PolOf(r) == IF PolName(r) = "password" THEN [w |-> Day, th |-> PwTh, dl |-> PwDl] ELSE [w |-> r.w, th |-> TotpTh, dl |-> TotpDl]
\* the reauth path never passes the admin expiry to the lock
L2Exp(r) == IF r.path = "reauth" THEN None ELSE r.exp
L2Res(r, x) == IF r.path \in {"unix", "ldap"} /\ x # "ok" THEN "none" ELSE x

IsFail(r) == r.a = "attempt" /\ CountsAsFailure(s, r.res, St(r.st))
NewFree(r) == free /\ ~(r.a \in {"time", "attempt"} /\ r.exp # None) /\ r.a # "fail"
NewWc(r) == IF ~NewFree(r) THEN [w |-> 0, c |-> 0]
            ELSE IF IsFail(r) THEN (IF wc.w = WindowEnd(p, r.ct) THEN [wc EXCEPT !.c = @ + 1] ELSE [w |-> WindowEnd(p, r.ct), c |-> 1])
            ELSE wc

LineL1(r) ==
  CASE r.a = "reset"   -> TRUE
    [] r.a = "time"    -> TimeLike(s, r.ct, r.exp, St(r.st))
    [] r.a = "fail"    -> FailRaw(p, s, r.ct, St(r.st))
    [] r.a = "attempt" -> L1Attempt(p, s, r.ct, r.exp, r.res, r.wrong, St(r.st))
    [] OTHER -> FALSE
LineValid(r)  == r.a = "reset" \/ (r.st.k = "locked" => r.v = 0)
LineBound(r)  == r.a = "reset" \/ ((proto = 1 /\ NewFree(r)) => NewWc(r).c <= MaxFail(p))
LineL2(r) ==
  CASE r.a = "reset"   -> TRUE
    [] r.a = "time"    -> St(r.st) = L2Time(s, r.ct, r.exp) /\ (r.v = 1) = L2Valid(St(r.st))
    [] r.a = "fail"    -> St(r.st) = L2Fail(p, s, r.ct)
    [] r.a = "attempt" -> LET a == L2Attempt(p, s, r.ct, L2Exp(r), r.wrong) IN St(r.st) = a[2] /\ r.res = L2Res(r, a[1])
    [] OTHER -> FALSE

Init == l = 1 /\ s = Init0 /\ p = [w |-> 1, th |-> <<1>>, dl |-> <<1>>] /\ wc = [w |-> 0, c |-> 0] /\ free = TRUE /\ proto = 0
Next == /\ l <= Len(Rec)
        /\ l' = l + 1
        /\ LET r == Rec[l] IN
           IF r.a = "reset"
           THEN s' = St(r.st) /\ p' = PolOf(r) /\ wc' = [w |-> 0, c |-> 0] /\ free' = TRUE /\ proto' = r.proto
           ELSE s' = St(r.st) /\ p' = p /\ wc' = NewWc(r) /\ free' = NewFree(r) /\ proto' = proto
Sig(r) == IF r.a = "attempt" THEN r.path \o "-" \o r.res ELSE r.a
Judge == l <= Len(Rec) =>
           /\ (LineL1(Rec[l])    \/ PrintT(<<"L1FAIL", "C28", l, Sig(Rec[l])>>))
           /\ (LineValid(Rec[l]) \/ PrintT(<<"L1FAIL", "C28", l, "valid-while-locked">>))
           /\ (LineBound(Rec[l]) \/ PrintT(<<"L1FAIL", "C28", l, "window-bound">>))
           /\ (LineL2(Rec[l])    \/ PrintT(<<"L2DRIFT", "C28", l>>))
Consumed == TLCGet("stats").distinct = Len(Rec) + 1 \/ PrintT(<<"NOTCONSUMED", TLCGet("stats").distinct, Len(Rec)>>)
=============================================================================
