------------------------------- MODULE KUpgradeMC -------------------------------
(* Exhaustive small model: two built-in entries (one defined with a single-valued and a multi-valued attribute,
   one new at the target level), one user entry; before the upgrade the user may add values to the multi-valued
   attribute of the built-in entry, REMOVE a proper non-empty subset of its defined values (RemoveSome), replace its
   single-valued attribute, create / edit / recycle the user entry;
   the upgrade asserts every target definition (L2).  L1 must hold for every pre-state. *)
EXTENDS KUpgrade
VARIABLES db, phase

DefPrev == [b \in {"b1", "b3"} |-> IF b = "b1" THEN [x \in {"s", "m"} |-> IF x = "s" THEN <<"p">> ELSE <<"d0", "d1">>]
                                     ELSE [x \in {"k"} |-> <<"k0", "k1">>]]
\* b1: single-valued attribute changes, multi-valued one gains d2; b2 is new; b3 is defined exactly as before
DefTgt  == [b \in {"b1", "b2", "b3"} |-> IF b = "b1" THEN [x \in {"s", "m"} |-> IF x = "s" THEN <<"q">> ELSE <<"d0", "d1", "d2">>]
                                     ELSE IF b = "b2" THEN [x \in {"s"} |-> <<"n">>] ELSE [x \in {"k"} |-> <<"k0", "k1">>]]
Single == {"s"}
User == [u \in {"u1"} |-> <<"m", "s">>]

Init == db = [b \in {"b1", "b3"} |-> [live |-> "live", attrs |-> DefPrev[b]]] /\ phase = "pre"
AddMember == phase = "pre" /\ \E v \in {"u1", "x"} : v \notin Range(db["b1"].attrs["m"])
               /\ db' = [db EXCEPT !["b1"].attrs["m"] = Append(@, v)] /\ UNCHANGED phase
\* an administrator removes some - not all - of the defined values (user-added ones stay)
RemoveSome == phase = "pre" /\ \E ba \in {<<"b1", "m">>, <<"b3", "k">>} : LET b == ba[1]  x == ba[2]  D == Range(DefPrev[b][x]) IN
                 \E S \in (SUBSET D) \ {{}, D} :
                    /\ S \subseteq Range(db[b].attrs[x])
                    /\ (Range(db[b].attrs[x]) \ S) \cap D # {}
                    /\ db' = [db EXCEPT ![b].attrs[x] = SelectSeq(@, LAMBDA v : v \notin S)] /\ UNCHANGED phase
SetSingle == phase = "pre" /\ db' = [db EXCEPT !["b1"].attrs["s"] = <<"custom">>] /\ UNCHANGED phase
CreateUser == phase = "pre" /\ "u1" \notin DOMAIN db
               /\ db' = [x \in DOMAIN db \cup {"u1"} |-> IF x = "u1" THEN [live |-> "live", attrs |-> [a \in {"m", "s"} |-> <<"v">>]] ELSE db[x]]
               /\ UNCHANGED phase
EditUser == phase = "pre" /\ "u1" \in DOMAIN db /\ Len(db["u1"].attrs["m"]) < 2
               /\ db' = [db EXCEPT !["u1"].attrs["m"] = Append(@, "w")] /\ UNCHANGED phase
RecycleUser == phase = "pre" /\ "u1" \in DOMAIN db /\ db["u1"].live = "live" /\ db' = [db EXCEPT !["u1"].live = "recycled"] /\ UNCHANGED phase
RECURSIVE AssertAll(_, _)
AssertAll(d, us) == IF us = {} THEN d ELSE LET u == CHOOSE x \in us : TRUE IN AssertAll(AssertDef(d, DefTgt[u], u, Single), us \ {u})
Upgrade == phase = "pre" /\ db' = AssertAll(db, DOMAIN DefTgt) /\ phase' = "post"
Next == AddMember \/ RemoveSome \/ SetSingle \/ CreateUser \/ EditUser \/ RecycleUser \/ Upgrade
Spec == Init /\ [][Next]_<<db, phase>>
\* vacuity guard: the same upgrade with the "one value per attribute is enough" shortcut
RECURSIVE AssertAllSkip(_, _)
AssertAllSkip(d, us) == IF us = {} THEN d ELSE LET u == CHOOSE x \in us : TRUE IN AssertAllSkip(AssertDefSkipAny(d, DefTgt[u], u, Single), us \ {u})
UpgradeSkip == phase = "pre" /\ db' = AssertAllSkip(db, DOMAIN DefTgt) /\ phase' = "post"
SpecSkip == Init /\ [][AddMember \/ RemoveSome \/ SetSingle \/ CreateUser \/ EditUser \/ RecycleUser \/ UpgradeSkip]_<<db, phase>>
UserOf(d) == [u \in DOMAIN User \cap DOMAIN d |-> User[u]]
UpgradeOk == [][phase' = "post" /\ phase = "pre" => L1Upgrade(db, db', UserOf(db), DefTgt, "ok", <<>>)]_<<db, phase>>
=============================================================================
