---------------------------- MODULE KProtoFilterMC ----------------------------
(* Exhaustive: every LDAP / SCIM filter of the bounded space x index layout, on the 16 entry shapes.
   The answer predicted for the real path (translation, gateway wrappers, rewrite, index-driven search)
   is compared with the standard's meaning; every divergence must fall in a signed class. *)
EXTENDS KProtoFilter, TLCExt, Json
CONSTANTS Kind,       \* "ldap" | "scim"
          LeafSet,    \* "full" | "small"
          Depth,      \* 1 | 2
          LayoutIds,
          CaseCap
VARIABLES pf, lay

\* ---- LDAP filters
Sub3(i, any, f) == [k |-> "substr", a |-> "a", i |-> i, any |-> any, f |-> f]
LdapLeaves == {[k |-> "eq", a |-> "a", v |-> 1], [k |-> "eq", a |-> "b", v |-> 1], [k |-> "pres", a |-> "b"],
               Sub3(0, <<>>, NoNeedle), Sub3(NoNeedle, <<>>, 1), Sub3(0, <<>>, 1), Sub3(NoNeedle, <<0>>, NoNeedle),
               Sub3(2, <<>>, 0), Sub3(NoNeedle, <<0, 1>>, NoNeedle), [k |-> "ge", a |-> "b", v |-> 1]}
LdapLeavesSmall == {[k |-> "eq", a |-> "a", v |-> 1], [k |-> "pres", a |-> "b"], Sub3(0, <<>>, 1), Sub3(NoNeedle, <<0>>, NoNeedle),
                    [k |-> "ge", a |-> "b", v |-> 1]}
LL == IF LeafSet = "full" THEN LdapLeaves ELSE LdapLeavesSmall
LComb(S) == {[k |-> "and", fs |-> <<x, y>>] : x \in S, y \in S} \cup {[k |-> "or", fs |-> <<x, y>>] : x \in S, y \in S}
            \cup {[k |-> "not", f |-> x] : x \in S} \cup {[k |-> "and", fs |-> <<x>>] : x \in S}
\* (operators with a parameter: TLC evaluates zero-arity constant definitions eagerly, needed or not)
L1s(d) == LL \cup LComb(LL)
L2s(d) == LL \cup LComb(L1s(d))
\* ---- SCIM filters
SCmp(op, a, v) == [k |-> "cmp", op |-> op, a |-> a, v |-> v]
ScimLeaves == {[k |-> "pr", a |-> "a"], [k |-> "pr", a |-> "b"], SCmp("eq", "a", 1), SCmp("co", "a", 0), SCmp("sw", "a", 0), SCmp("ew", "a", 1),
               SCmp("gt", "a", 1), SCmp("ge", "a", 2), SCmp("lt", "a", 2), SCmp("le", "a", 1), SCmp("eq", "b", 1), SCmp("ne", "a", 1)}
ScimLeavesSmall == {[k |-> "pr", a |-> "a"], SCmp("eq", "a", 1), SCmp("sw", "a", 0), SCmp("gt", "a", 1), SCmp("le", "a", 1), SCmp("eq", "b", 1)}
SL == IF LeafSet = "full" THEN ScimLeaves ELSE ScimLeavesSmall
SComb(S) == {[k |-> "and", l |-> x, r |-> y] : x \in S, y \in S} \cup {[k |-> "or", l |-> x, r |-> y] : x \in S, y \in S}
            \cup {[k |-> "not", e |-> x] : x \in S}
S1s(d) == SL \cup SComb(SL)
S2s(d) == SL \cup SComb(S1s(d))
Filters(d) == IF Kind = "ldap" THEN (IF d = 1 THEN L1s(d) ELSE L2s(d)) ELSE (IF d = 1 THEN S1s(d) ELSE S2s(d))

\* ---- layouts (as KFilterMC) and the database of all 16 shapes, every entry an extensibleobject
SlopeOfKey == [k \in {"a.eq", "b.eq"} |-> 2] @@ [k \in {"a.pres", "a.sub", "b.pres"} |-> 4]
              @@ [k \in {"b.ord"} |-> 5] @@ [k \in {"class.eq"} |-> 3] @@ [k \in {"uuid.eq"} |-> 1] @@ [k \in {"class.pres"} |-> 6]
Base == {"class.eq", "class.pres", "uuid.eq"}
ABKeys == <<"a.eq", "a.pres", "b.eq", "b.pres">>
Bit(n, i) == (n \div (2 ^ (i - 1))) % 2 = 1
KeysOf(n) == LET m == (n - 1) % 16
             IN Base \cup {ABKeys[i] : i \in {j \in 1..4 : Bit(m, j)}} \cup (IF n <= 16 THEN {"a.sub", "b.ord"} ELSE {})
Layout(n) == [k \in KeysOf(n) |-> SlopeOfKey[k]]
Db == [i \in 1..16 |-> [a |-> {j \in {1, 2} : Bit(i - 1, j)}, b |-> {j \in {1, 2} : Bit(i - 1, j + 2)}, class |-> {90, 93}, uuid |-> {i}]]

Init == pf \in Filters(Depth) /\ lay \in LayoutIds
Next == UNCHANGED <<pf, lay>>
Count(r) == TLCSet(r, TLCGet(r) + 1)
Fail(tag) == PrintT(<<tag, pf, lay>>) /\ FALSE
CaseJson == ToJson([kind |-> Kind, pf |-> pf, keys |-> KeysOf(lay)])
EmitClass(c) == IF c \in TLCGet(10) THEN TRUE ELSE TLCSet(10, TLCGet(10) \cup {c}) /\ PrintT(<<"CASE", CaseJson>>)
EmitCex == IF TLCGet(11) >= CaseCap THEN TRUE ELSE TLCSet(11, TLCGet(11) + 1) /\ PrintT(<<"CASE", CaseJson>>)
SigReg(s) == CASE s = "ldap-substring-split" -> 3 [] s = "scim-order-string" -> 4 [] s = "andnot-isolated" -> 5
               [] s = "andnot-partial" -> 6 [] OTHER -> 7
(* Current code = repaired filter layer (commit b91e119).  Divergences from the standards must fall in the two
   TRANSLATION classes; the pre-repair code is evaluated too: where only it diverges, the state is a regression
   witness of the C01 classes (census registers 5, 6). *)
MCInv ==
  LET idx   == Layout(lay)
      c     == Cfg(0, TRUE, PresAttrs(idx))
      co    == Cfg(0, FALSE, PresAttrs(idx))
      wr    == IF Kind = "ldap" THEN LdapWrapped(pf) ELSE ScimWrapped(pf)
      truth == IF Kind = "ldap" THEN LdapTruth(pf, Db) ELSE ScimTruth(pf, Db)
      ans   == L2Answer(wr, Db, idx, c, Kind = "ldap")
      anso  == L2Answer(wr, Db, idx, co, Kind = "ldap")
      sig   == ProtoSig(Kind, pf, wr, Db, idx, co)
      trans == sig \in {"ldap-substring-split", "scim-order-string"}
  IN /\ Count(1)
     /\ (IF ans.rej THEN Count(2)
         ELSE /\ (ans.s = truth \/ Count(SigReg(sig)))
              /\ (ans.s = truth \/ trans \/ Fail("UNEXPLAINED"))
              /\ (ans.s = truth \/ EmitCex))
     /\ ((~anso.rej /\ anso.s # truth /\ ~trans) => (Count(SigReg(sig)) /\ EmitCex /\ (sig # "none" \/ Fail("OLDUNEXPLAINED"))))
     /\ EmitClass(<<IF ans.rej THEN "rej" ELSE IF ans.s = truth THEN "ok" ELSE "div", sig, pf.k>>)
ASSUME (\A r \in 1..9 : TLCSet(r, 0)) /\ TLCSet(10, {}) /\ TLCSet(11, 0)
\* CENSUS: states, rejected, diverging by class (substring split, scim order on strings; pre-repair code only: andnot isolated, andnot partial), unexplained
Census == PrintT(<<"CENSUS", TLCGet(1), TLCGet(2), TLCGet(3), TLCGet(4), TLCGet(5), TLCGet(6), TLCGet(7)>>)
=============================================================================
