CONSTANTS
  MaxLen = 5
SPECIFICATION Spec
INVARIANT ReachCrossWindow
CHECK_DEADLOCK FALSE
