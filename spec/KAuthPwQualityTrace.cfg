CONSTANTS
  MaxPriv = 3600
  MaxSess = 2000000000
  MfaMin = 10
  SfaMin = 15
  MaxLen = 128
  Mfa = 10
  FixMin = 15
INIT Init
NEXT Next
INVARIANT Judge
POSTCONDITION Consumed
CHECK_DEADLOCK FALSE
