\* attribute presence: set / purge of a last-writer-wins attribute racing on two replicas; every arm of the
\* per-attribute merge (incoming unsent/some/none x local some/none x winner) is exported for replay
CONSTANTS
  N = 2
  Ids = {1}
  NewIds = {}
  Sids = {}
  MaxTs = 3
  MaxRepl = 3
  MaxWrites = 3
  RecycleAge = 0
  Window = 0
  MergeRestamp = TRUE
  NoSkew = TRUE
  ArmQuota = 3
  EnableRename = FALSE
  EnableClear = TRUE
INIT Init
NEXT Next
VIEW View
INVARIANT InvConvergedButSessions
INVARIANT InvConvergedSessions
INVARIANT InvUniqueLive
PROPERTY NoResurrection
INVARIANT ArmExport
CHECK_DEADLOCK FALSE
