CONSTANTS
  Grace = 300
  MaxAge = 604800
  PrivMax = 3600
  LimExp = 3600
INIT Init
NEXT Next
INVARIANT Judge
POSTCONDITION Consumed
CHECK_DEADLOCK FALSE
