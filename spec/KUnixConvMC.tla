----------------------------- MODULE KUnixConvMC -----------------------------
(* C44, overlapping conversations: all interleavings of two PAM conversations (init and step separate), provider
   online/offline switches and server password changes, bounded by MaxEnv environment steps; history kept in the
   state so that every complete behaviour (both conversations finished) is printed as a CASE for replay on the real
   Resolver. Invariant ProbeSafe: in every reachable state a fresh offline login accepts exactly the last password
   verified online. StaleOpen is a reachability witness (expected violated): an offline conversation still open whose
   snapshot is not the last verified password while the server is unreachable -- completing it with the old password
   is accepted by the transcription (hypothesis replayed on the real code). *)
EXTENDS KUnix, Json
CONSTANTS MaxEnv, FirstInit, Emit
VARIABLES C, h, env, on0
vars == <<C, h, env, on0>>
Pws == {"p1", "p2"}

Init == C \in {ConvInit0(on) : on \in (IF FirstInit THEN {FALSE} ELSE BOOLEAN)} /\ h = <<>> /\ env = 0 /\ on0 = C.on
Toggle == env < MaxEnv /\ C' = ConvToggle(C) /\ env' = env + 1 /\ h' = Append(h, [a |-> "toggle", c |-> "-", p |-> "-"])
PwChange == env < MaxEnv /\ C' = ConvPwChange(C) /\ env' = env + 1 /\ h' = Append(h, [a |-> "pwchange", c |-> "-", p |-> ConvOther(C.srv)])
Open(c) == /\ C.conv[c].st = "none" /\ (c = "c2" => C.conv["c1"].st # "none")
           /\ C' = ConvOpen(C, c) /\ UNCHANGED env /\ h' = Append(h, [a |-> "cinit", c |-> c, p |-> "-"])
Step(c, p) == /\ C.conv[c].st = "open"
              /\ C' = ConvStep(C, c, p) /\ UNCHANGED env /\ h' = Append(h, [a |-> "cstep", c |-> c, p |-> p])
Done == \A c \in ConvIds : C.conv[c].st = "done"
Next == /\ ~Done /\ UNCHANGED on0
        /\ IF FirstInit /\ h = <<>> THEN Open("c1")
           ELSE \/ Toggle \/ PwChange
                \/ \E c \in ConvIds : Open(c) \/ \E p \in Pws : Step(c, p)
Spec == Init /\ [][Next]_vars

ProbeSafe == \A p \in Pws : (ConvProbe(C, p) = "accept") <=> (p = C.last)
\* conversations overlap: c2 was opened while c1 was still open
Overlap == \E i, j \in 1..Len(h) : i < j /\ h[i].a = "cinit" /\ h[i].c = "c2" /\ h[j].a = "cstep" /\ h[j].c = "c1"
EmitInv == (Emit /\ Done /\ Overlap) => PrintT(<<"CASE", ToJson([on0 |-> on0, steps |-> h])>>)
StaleOpen == ~(\E c \in ConvIds : C.conv[c].st = "open" /\ C.conv[c].mode = "offline" /\ C.conv[c].snap # C.last /\ ~C.on)
=============================================================================
