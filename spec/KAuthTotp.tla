------------------------------ MODULE KAuthTotp ------------------------------
(***************************************************************************)
(* TOTP acceptance window (property C29).                                  *)
(*                                                                         *)
(* L0  time t and step S in seconds, counters k, Code(k) the one-time code *)
(*     of counter k (abstract here; concretised in trace validation by a   *)
(*     table computed by an independent RFC 6238 implementation).          *)
(* L1  the property: accepted exactly when the code is the code of the     *)
(*     time step containing t, or of the step immediately before it.       *)
(* L2  transcription of Totp::verify (totp.rs): counter = secs / step,     *)
(*     digest(counter) = chal or digest(counter - 1) = chal.               *)
(***************************************************************************)
EXTENDS Integers

\* ----------------------------- L1 ---------------------------------------
\* the step containing t: the k with k*S <= t < (k+1)*S  (no division)
StepOf(t, S) == CHOOSE k \in 0..t : k * S <= t /\ t < (k + 1) * S
L1Accept(Code(_), c, t, S) == c = Code(StepOf(t, S)) \/ c = Code(StepOf(t, S) - 1)

\* ----------------------------- L2 ---------------------------------------
L2Verify(Code(_), c, t, S) ==
  LET counter == t \div S
  IN  Code(counter) = c \/ Code(counter - 1) = c
\* (Until commit 01e16a2 TotpAlgo::digest refused secrets longer than the HMAC block; it now keys
\* HMAC as RFC 2104 does, so the secret's length plays no role in the window decision.)
=============================================================================
