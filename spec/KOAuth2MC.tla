------------------------------ MODULE KOAuth2MC ------------------------------
(* C38: exhaustive check of the transcription of the authorisation decision (L2) against the
   property (L1) over the product  client configuration x request class.  Initial states are
   the client configurations; each Next step picks one request (a terminal state).  The run
   also CHOOSES THE COVERING SET that is replayed on the real code: the first request reaching
   a new path signature (branch outcomes + truth of every L1 clause + URI class) is printed as
   a CASE line (single worker => deterministic). *)
EXTENDS KOAuth2, Json

CONSTANTS Prompts,      \* prompt values explored
          PrevKinds,    \* previous-consent situations explored
          Regs, SMaps, Sups,  \* registered-URI / scope-map / supplementary-map variants explored
          Full          \* TRUE: all identities / scope sets / PKCE kinds; FALSE: the quick-tier subset

VARIABLES cfg, req

\* ---- client configurations -------------------------------------------------------------
\* regs: which URIs are registered: "https" (https landing + https callback + app URI),
\*       "http" (only http URIs: secure origins not required), "mixed" (https landing, http callback, app URI)
\* smap: scope-map variant, sup: supplementary-scope-map variant
Cfgs ==
  {[type |-> "basic", lh |-> FALSE, pkceReq |-> p, consentOn |-> c, regs |-> r, smap |-> m, sup |-> s] :
      p \in BOOLEAN, c \in BOOLEAN, r \in Regs, m \in SMaps, s \in Sups}
  \cup
  {[type |-> "public", lh |-> l, pkceReq |-> TRUE, consentOn |-> TRUE, regs |-> r, smap |-> m, sup |-> s] :
      l \in BOOLEAN, r \in Regs, m \in SMaps, s \in Sups}

\* scope maps: group -> scopes.  m1: all->{openid}, g1->{read}, g2->{write};  m2: g1->{openid, read}
SMap(m) == IF m = "m1" THEN [all |-> {"openid"}, g1 |-> {"read"}, g2 |-> {"write"}]
           ELSE [all |-> {}, g1 |-> {"openid", "read"}, g2 |-> {}]
SupMap(s) == IF s = "none" THEN [all |-> {}, g1 |-> {}, g2 |-> {}]
             ELSE IF s = "g1" THEN [all |-> {}, g1 |-> {"extra"}, g2 |-> {}]
             ELSE [all |-> {"extra"}, g1 |-> {}, g2 |-> {}]
Held(map, groups) == UNION {map[g] : g \in groups}

\* ---- requests --------------------------------------------------------------------------
\* URI classes (concretised by the harness): exact registered https / http callback, near-miss
\* mutations of a registered URI, loopback, registered loopback, near-loopback, app URIs, foreign.
\* Real loopback: loop (localhost), loophttps, loopip (127.0.0.0/8 literal other than 127.0.0.1), loopv6 ([::1]).
\* Loopback LOOK-ALIKES (not loopback, not registered): looknot (notlocalhost), lookdash (evil-localhost),
\* looksub (app.localhost), looksuffix (localhost.evil.example), lookx (localhostx), lookhttps (https://notlocalhost),
\* ipsuffix (127.0.0.1.evil.example), ipnear (128.0.0.1, 126.255.255.255), v6near ([::2], [::ffff:127.0.0.1]),
\* loopuser (http://localhost@evil.example/), loopnear (older mixed pool).
LoopClasses == {"loop", "loophttps", "loopip", "loopv6"}
LookAlikes  == {"looknot", "lookdash", "looksub", "looksuffix", "lookx", "lookhttps", "ipsuffix", "ipnear", "v6near", "loopuser", "loopnear"}
UriClasses == {"exact", "exacthttp", "path", "query", "port", "scheme", "frag", "userinfo", "hostsuffix",
               "appreg", "appunreg", "foreign"} \cup LoopClasses \cup LookAlikes
Idents == IF Full THEN {"none", "anon", "u0", "u1", "u12"} ELSE {"none", "anon", "u0", "u12"}
GroupsOf(i) == IF i = "u0" THEN {"all"} ELSE IF i = "u1" THEN {"all", "g1"}
               ELSE IF i = "u12" THEN {"all", "g1", "g2"} ELSE IF i = "anon" THEN {"all"} ELSE {}
ScopeSets == IF Full THEN {{}, {"openid"}, {"read"}, {"openid", "read"}, {"read", "write"}, {"openid", "bad scope"}, {"nomap"}}
             ELSE {{}, {"openid"}, {"openid", "read"}, {"read", "write"}, {"openid", "bad scope"}}
PkceKinds == IF Full THEN {"none", "s256", "plain"} ELSE {"none", "s256"}
ReqsFull ==
  {[u |-> u, scopes |-> sc, pkce |-> pk, prompt |-> pr, ident |-> i, prev |-> pv] :
      u \in UriClasses, sc \in ScopeSets, pk \in PkceKinds, pr \in Prompts,
      i \in Idents, pv \in PrevKinds}
\* quick tier: prompt / previous-consent are varied only for the URI classes on which a code can
\* be issued at all (for the others the transcription answers before looking at them)
CodeCapable == {"exact", "exacthttp", "loop", "loopip", "loopv6", "appreg"}
ReqsQuick == {r \in ReqsFull : r.u \in CodeCapable \/ (r.prompt = "" /\ r.prev = "no")}
Reqs == IF Full THEN ReqsFull ELSE ReqsQuick

\* ---- facts of a (cfg, req) pair --------------------------------------------------------
HasHttps(c) == c.regs \in {"https", "mixed"}
HasApp(c)   == c.regs \in {"https", "mixed"}
Facts(c, r) ==
  LET groups == GroupsOf(r.ident)
      avail  == Held(SMap(c.smap), groups)
      sup    == Held(SupMap(c.sup), groups)
      uReg   == \/ r.u = "exact" /\ c.regs \in {"https", "mixed"}      \* the https callback
                \/ r.u = "exacthttp" /\ c.regs \in {"http", "mixed"}   \* the http callback
      uHttps == \/ r.u \in {"exact", "foreign", "loophttps", "lookhttps"}
                \/ r.u \in {"path", "query", "port", "frag", "userinfo", "hostsuffix"} /\ HasHttps(c)
                \/ r.u = "scheme" /\ ~HasHttps(c)                      \* scheme flip of the base URI
  IN [type |-> c.type, lh |-> c.lh, pkceReq |-> c.pkceReq, consentOn |-> c.consentOn,
      secureReq |-> HasHttps(c),
      uReg |-> uReg, uApp |-> (r.u = "appreg" /\ HasApp(c)),
      uLoop |-> r.u \in LoopClasses, uHttps |-> uHttps,
      pkce |-> r.pkce, prompt |-> r.prompt,
      ident |-> IF r.ident \in {"none", "anon"} THEN r.ident ELSE "user",
      scopes |-> r.scopes, bad |-> r.scopes \cap {"bad scope"},
      avail |-> avail, sup |-> sup,
      prevEq |-> (r.prev = "same" /\ r.ident \notin {"none"})]

NoReq == [u |-> "-"]
Init == TLCSet(1, {}) /\ TLCSet(2, {}) /\ cfg \in Cfgs /\ req = NoReq
Next == req = NoReq /\ req' \in Reqs /\ UNCHANGED cfg
Spec == Init /\ [][Next]_<<cfg, req>>

\* One invariant evaluates everything on a terminal state (facts and transcription computed once):
\*  - L2 against L1 (the model-checking claim),
\*  - covering-set choice: register 1 holds the signatures already printed,
\*  - vacuity data: register 2 collects <<result, URI ground of an issued code>>.
Ground(f) == IF f.uReg THEN "reg" ELSE IF f.uApp THEN "app" ELSE IF f.uLoop THEN "loop" ELSE "-"
Inv == req # NoReq =>
  LET f == Facts(cfg, req)
      r == Authorise(f)
      s == <<req.u>> \o AuthzSigR(f, r.res)
      g == <<r.res, IF r.res \in {"code", "consent"} THEN Ground(f) ELSE "-">>
  IN  /\ AuthzL1(f, ObsOf(r))
      /\ (g \in TLCGet(2) \/ TLCSet(2, TLCGet(2) \cup {g}))
      /\ (s \in TLCGet(1) \/
            (/\ TLCSet(1, TLCGet(1) \cup {s})
             /\ PrintT(<<"CASE", ToJson([cfg |-> cfg, req |-> req, exp |-> r.res])>>)))

MustReach == {<<"code", "reg">>, <<"code", "app">>, <<"consent", "reg">>, <<"consent", "app">>, <<"consent", "loop">>,
              <<"authreq", "-">>, <<"reauth", "-">>, <<"err:invalid_origin", "-">>,
              <<"err:invalid_request", "-">>, <<"err:login_required", "-">>, <<"err:access_denied", "-">>,
              <<"err:invalid_scope", "-">>, <<"err:interaction_required", "-">>}
Vacuity == (MustReach \subseteq TLCGet(2)) \/ PrintT(<<"VACUOUS", ToJson(MustReach \ TLCGet(2))>>)
=============================================================================
