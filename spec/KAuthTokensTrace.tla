--------------------------- MODULE KAuthTokensTrace ---------------------------
(* Validates observed histories of a REAL kanidm IdmServer (driver `kv-token hist`) against
   KAuthTokens: C32 (every presentation of every issued token, judged by L1Accept on the state
   projected from the real account / domain-key entries), C36 (every observed change of an account,
   judged by L1CredRemoval; OAuth2 tokens by L1O2Usable).  L2 (implementation-shaped) predicts the
   exact result class and the exact next account state; a mismatch is reported as drift only.

   Line shapes (one JSON object per line):
     {"a":"reset","st":S}
     {"a":"present","t":T,"tok":"k1","tk":{kind,acct,sid,exp,iat,kid,anon},"res":"ok"|"expired"|"notauth"|...}
     {"a":"o2present","t":T,"o":{acct,oid,parent,iat},"res":"active"|"inactive"|...}
     {"a":<event>,"t":T,"acct":"p1",...args,"res":R,"st":S}      S = state AFTER the event
   `cur` is the state after the last line that carried one. *)
EXTENDS KAuthTokens, Json, IOUtils

Rec == ndJsonDeserialize(IOEnv.TRACE)
VARIABLES l, cur

Has(r, f) == f \in DOMAIN r

\* the part of an account record the model talks about
NormAcct(a) ==
  [vf |-> a.vf, ex |-> a.ex, creds |-> a.creds,
   sess |-> [s \in DOMAIN a.sess |-> [st |-> a.sess[s].st, exp |-> a.sess[s].exp, cred |-> a.sess[s].cred, rt |-> a.sess[s].rt]],
   api  |-> [s \in DOMAIN a.api |-> [exp |-> a.api[s].exp]],
   o2   |-> [o \in DOMAIN a.o2 |-> [st |-> a.o2[o].st, exp |-> a.o2[o].exp, iat |-> a.o2[o].iat, parent |-> a.o2[o].parent]]]

Events == {"login", "apply", "apiissue", "apidestroy", "revoke", "cred", "setvalid",
           "keyrotate", "keyrevoke", "delete", "tick", "o2grant", "o2refresh", "other"}

\* ---- L1 on one line
C36Bad(r) == {x \in DOMAIN cur.accts \cap DOMAIN r.st.accts : ~L1CredRemoval(cur.accts[x], r.st.accts[x])}

\* ---- L2: expected account state after an event that reported success
Expected(r, a) ==
  CASE r.a = "apply"      -> DoApply(a, r.s, r.exp, r.cred, r.t)
    [] r.a = "revoke"     -> IF r.s \in DOMAIN a.sess THEN DoRevoke(a, r.s, r.t) ELSE a   \* no record: nothing is modified
    [] r.a = "cred"       -> DoSetCreds(a, r.st.accts[r.acct].creds, r.t)
    [] r.a = "setvalid"   -> DoSetValid(a, r.vf, r.ex, r.t)
    [] r.a = "apiissue"   -> DoApiAdd(a, r.s, r.exp, r.t)
    [] r.a = "apidestroy" -> DoApiDel(a, r.s, r.t)
    [] OTHER              -> a

L2State(r) ==
  IF r.a \in {"o2grant", "o2refresh", "other"} THEN TRUE      \* not transcribed
  ELSE IF r.a = "delete" /\ r.res = "ok"
  THEN DOMAIN r.st.accts = DOMAIN cur.accts \ {r.acct}
       /\ \A x \in DOMAIN r.st.accts : NormAcct(r.st.accts[x]) = NormAcct(cur.accts[x])
  ELSE /\ DOMAIN r.st.accts = DOMAIN cur.accts
       /\ \A x \in DOMAIN cur.accts :
            NormAcct(r.st.accts[x]) =
              IF Has(r, "acct") /\ x = r.acct /\ r.res = "ok" /\ r.a \notin {"login", "tick", "keyrotate", "keyrevoke"}
              THEN Expected(r, NormAcct(cur.accts[x]))
              ELSE NormAcct(cur.accts[x])

Init == l = 1 /\ cur = [accts |-> <<>>, keys |-> <<>>]
Next == /\ l <= Len(Rec)
        /\ l' = l + 1
        /\ cur' = IF Has(Rec[l], "st") THEN Rec[l].st ELSE cur
Spec == Init /\ [][Next]_<<l, cur>>

JudgeLine(r) ==
  CASE r.a = "reset" -> TRUE
    [] r.a = "present" ->
         /\ (L1PresentOk(r.tk, cur, r.t, r.res) \/ PrintT(<<"L1FAIL", "C32", l, L1Why(r.tk, cur, r.t)>>))
         /\ (r.res = L2Present(r.tk, cur, r.t)  \/ PrintT(<<"L2DRIFT", "C32", l>>))
    [] r.a = "o2present" ->
         (L1O2Usable(r.o, cur, r.t, r.res) \/ PrintT(<<"L1FAIL", "C36", l, "o2">>))
    [] r.a \in Events ->
         /\ (C36Bad(r) = {} \/ PrintT(<<"L1FAIL", "C36", l, "cred">>))
         /\ (L2State(r) \/ PrintT(<<"L2DRIFT", "C36", l>>))
    [] OTHER -> PrintT(<<"L2DRIFT", "C32", l>>)

Judge == l <= Len(Rec) => JudgeLine(Rec[l])
Consumed == TLCGet("stats").distinct = Len(Rec) + 1 \/ PrintT(<<"NOTCONSUMED", TLCGet("stats").distinct, Len(Rec)>>)
=============================================================================
