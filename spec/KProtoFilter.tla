----------------------------- MODULE KProtoFilter -----------------------------
(***************************************************************************)
(* LDAP and SCIM search filters (property C41) on top of KFilter.          *)
(*                                                                         *)
(* L0  LDAP filter AST (RFC 4511) and SCIM filter AST (RFC 7644)           *)
(* L1  LdapMatch / ScimMatch: the standards' meaning on one entry (a       *)
(*     multi-valued attribute matches when any ONE value satisfies the     *)
(*     whole assertion), ProtoExact on an observed result                  *)
(* L2  the translations FilterComp::from_ldap_ro / from_scim_ro            *)
(*     (server/lib/src/filter.rs), the wrappers added by the LDAP gateway  *)
(*     and the SCIM search path, then KFilter's Rewrite + Search           *)
(*                                                                         *)
(* LDAP: [k|->"and"|"or",fs] [k|->"not",f] [k|->"eq",a,v] [k|->"pres",a]   *)
(*       [k|->"substr",a,i,any,f] (i, f: needle id or 9 = absent; any: seq)*)
(*       [k|->"ge"|"le"|"approx",a,v] [k|->"ext"]                          *)
(* SCIM: [k|->"and"|"or",l,r] [k|->"not",e] [k|->"pr",a]                   *)
(*       [k|->"cmp",op,a,v]  op in eq ne co sw ew gt ge lt le              *)
(*       [k|->"complex"] (attr[...] and sub-attribute paths)               *)
(* Value / needle ids as in KFilter (order of ids = order of the strings). *)
(***************************************************************************)
EXTENDS KFilter

NoNeedle == 9
\* class value ids: 91 recycled, 92 tombstone, 93 extensibleobject, 94 classtype, 95 attributetype, 96 access_control_profile

\* ----------------------------- L1: LDAP ----------------------------------
(* RFC 4511 / X.520 substring assertion on ONE value: the value is partitioned into initial, any..., final
   in order, without overlap. *)
RECURSIVE AnysFrom(_, _, _, _, _)
AnysFrom(s, pos, anys, k, fin) ==
  IF k > Len(anys)
  THEN fin = NoNeedle \/ (EndsS(s, NeedleOf(fin)) /\ Len(s) - Len(NeedleOf(fin)) + 1 >= pos)
  ELSE \E p \in pos..Len(s) : OccursAt(s, NeedleOf(anys[k]), p) /\ AnysFrom(s, p + Len(NeedleOf(anys[k])), anys, k + 1, fin)
SubstrValue(s, lf) ==
  /\ (lf.i = NoNeedle \/ StartsS(s, NeedleOf(lf.i)))
  /\ AnysFrom(s, IF lf.i = NoNeedle THEN 1 ELSE Len(NeedleOf(lf.i)) + 1, lf.any, 1, lf.f)
LdapUnsupported == {"ge", "le", "approx", "ext"}
RECURSIVE LdapMatch(_, _)
LdapMatch(lf, e) ==
  CASE lf.k = "eq"     -> lf.v \in Vals(e, lf.a)
    [] lf.k = "pres"   -> Vals(e, lf.a) # {}
    [] lf.k = "substr" -> lf.a \in StrAttrs /\ \E v \in Vals(e, lf.a) : SubstrValue(StrOf(v), lf)
    [] lf.k = "and"    -> \A i \in DOMAIN lf.fs : LdapMatch(lf.fs[i], e)
    [] lf.k = "or"     -> \E i \in DOMAIN lf.fs : LdapMatch(lf.fs[i], e)
    [] lf.k = "not"    -> ~LdapMatch(lf.f, e)
    [] OTHER -> FALSE

\* ----------------------------- L1: SCIM ----------------------------------
ScimValue(op, a, x, v) ==
  CASE op = "eq" -> x = v
    [] op = "ne" -> x # v
    [] op = "co" -> a \in StrAttrs /\ ContainsS(StrOf(x), NeedleOf(v))
    [] op = "sw" -> a \in StrAttrs /\ StartsS(StrOf(x), NeedleOf(v))
    [] op = "ew" -> a \in StrAttrs /\ EndsS(StrOf(x), NeedleOf(v))
    \* ordering: numeric for numbers, lexicographic for strings (ids are order preserving)
    [] op = "gt" -> x > v
    [] op = "ge" -> x >= v
    [] op = "lt" -> x < v
    [] op = "le" -> x <= v
RECURSIVE ScimMatch(_, _)
ScimMatch(sf, e) ==
  CASE sf.k = "pr"  -> Vals(e, sf.a) # {}
    [] sf.k = "cmp" -> \E x \in Vals(e, sf.a) : ScimValue(sf.op, sf.a, x, sf.v)
    [] sf.k = "and" -> ScimMatch(sf.l, e) /\ ScimMatch(sf.r, e)
    [] sf.k = "or"  -> ScimMatch(sf.l, e) \/ ScimMatch(sf.r, e)
    [] sf.k = "not" -> ~ScimMatch(sf.e, e)
    [] OTHER -> FALSE

\* the property on an observation: rejected, or exactly the live entries of the population that satisfy the filter
Live(e) == Vals(e, "class") \cap {91, 92} = {}
LdapTruth(lf, db) == {i \in DOMAIN db : Live(db[i]) /\ LdapMatch(lf, db[i])}
ScimTruth(sf, db) == {i \in DOMAIN db : Live(db[i]) /\ ScimMatch(sf, db[i])}

\* ----------------------------- L2: translations ---------------------------
Rej == [k |-> "rej"]
RECURSIVE HasRej(_)
HasRej(f) == CASE f.k = "rej" -> TRUE
               [] f.k \in {"and", "or"} -> \E i \in DOMAIN f.fs : HasRej(f.fs[i])
               [] f.k = "not" -> HasRej(f.f)
               [] OTHER -> FALSE
RECURSIVE FromLdap(_)
FromLdap(lf) ==
  CASE lf.k \in {"and", "or"} -> [k |-> lf.k, fs |-> [i \in DOMAIN lf.fs |-> FromLdap(lf.fs[i])]]
    [] lf.k = "not"  -> Not(FromLdap(lf.f))
    [] lf.k = "eq"   -> Eq(lf.a, lf.v)
    [] lf.k = "pres" -> Pres(lf.a)
    \* one AND of starts-with / contains... / ends-with terms, each free to pick its own value
    [] lf.k = "substr" -> And((IF lf.i = NoNeedle THEN <<>> ELSE <<Stw(lf.a, lf.i)>>)
                              \o [j \in DOMAIN lf.any |-> Sub(lf.a, lf.any[j])]
                              \o (IF lf.f = NoNeedle THEN <<>> ELSE <<Enw(lf.a, lf.f)>>))
    [] OTHER -> Rej
RECURSIVE FromScim(_)
FromScim(sf) ==
  CASE sf.k = "pr" -> Pres(sf.a)
    [] sf.k = "cmp" ->
         \* resolve_scim_json_get has no case for the integer / date syntaxes: every comparison on them is refused
         IF sf.a \notin StrAttrs THEN Rej
         ELSE CASE sf.op = "eq" -> Eq(sf.a, sf.v)
                [] sf.op = "co" -> Sub(sf.a, sf.v)
                [] sf.op = "sw" -> Stw(sf.a, sf.v)
                [] sf.op = "ew" -> Enw(sf.a, sf.v)
                [] sf.op = "gt" -> And(<<Pres(sf.a), Not(Or(<<LessT(sf.a, sf.v), Eq(sf.a, sf.v)>>))>>)
                [] sf.op = "lt" -> LessT(sf.a, sf.v)
                [] sf.op = "ge" -> And(<<Pres(sf.a), Not(LessT(sf.a, sf.v))>>)
                [] sf.op = "le" -> Or(<<LessT(sf.a, sf.v), Eq(sf.a, sf.v)>>)
                [] OTHER -> Rej
    [] sf.k = "and" -> And(<<FromScim(sf.l), FromScim(sf.r)>>)
    [] sf.k = "or"  -> Or(<<FromScim(sf.l), FromScim(sf.r)>>)
    [] sf.k = "not" -> Not(FromScim(sf.e))
    [] OTHER -> Rej

\* an empty AND / OR does not pass schema validation (EmptyFilter)
RECURSIVE HasEmpty(_)
HasEmpty(f) == CASE f.k \in {"and", "or"} -> f.fs = <<>> \/ \E i \in DOMAIN f.fs : HasEmpty(f.fs[i])
                 [] f.k = "not" -> HasEmpty(f.f)
                 [] OTHER -> FALSE

HiddenW == Not(Or(<<Eq("class", 92), Eq("class", 91)>>))
\* LdapServer::do_search (subtree at the base dn) + SearchEvent::new_ext_impersonate_uuid
LdapSchemaMask == Not(Or(<<Eq("class", 94), Eq("class", 95), Eq("class", 96)>>))
LdapWrapped(lf) == And(<<HiddenW, And(<<FromLdap(lf), LdapSchemaMask>>)>>)
\* scim_search_ext (endpoint class filter AND user filter) + scim_search_filter_ext (ignore hidden)
ScimWrapped(sf) == And(<<HiddenW, And(<<Eq("class", 93), FromScim(sf)>>)>>)

\* predicted answer of the real path: rejected, or a set of ids.  `limited`: the search runs with an account's
\* default resource limits (the LDAP session does; the impersonated identity the driver uses for SCIM is
\* unlimited): a fully unindexed candidate set (AllIds) is then refused (ResourceLimit), never scanned.
L2Answer(wrapped, db, idx, c, limited) ==
  IF HasRej(wrapped) \/ HasEmpty(wrapped) THEN [rej |-> TRUE, s |-> {}]
  ELSE LET rf == IF c.fix THEN RewriteFixed(wrapped, idx, 0) ELSE Rewrite(wrapped, idx, 0)
           idl == F2I(rf, db, c)
       IN IF limited /\ idl.k = "allids" THEN [rej |-> TRUE, s |-> {}]
          ELSE [rej |-> FALSE, s |-> SearchIdl(rf, db, 0, idl)]

\* request limits of the translations: DEFAULT_LIMIT_FILTER_DEPTH_MAX and (for an account's default limits)
\* DEFAULT_LIMIT_FILTER_MAX_ELEMENTS, every protocol node counts, the gateway's own wrapper nodes included
FilterMaxDepth == 12
FilterMaxElements == 32
Max2(x, y) == IF x > y THEN x ELSE y
RECURSIVE SeqSum(_, _), SeqMax(_, _)
SeqSum(s, i) == IF i > Len(s) THEN 0 ELSE s[i] + SeqSum(s, i + 1)
SeqMax(s, i) == IF i > Len(s) THEN 0 ELSE Max2(s[i], SeqMax(s, i + 1))
RECURSIVE LdapNodes(_), LdapDepth(_), ScimDepth(_)
LdapNodes(lf) == CASE lf.k \in {"and", "or"} -> 1 + SeqSum([i \in DOMAIN lf.fs |-> LdapNodes(lf.fs[i])], 1)
                   [] lf.k = "not" -> 1 + LdapNodes(lf.f)
                   [] OTHER -> 1
LdapDepth(lf) == CASE lf.k \in {"and", "or"} -> 1 + SeqMax([i \in DOMAIN lf.fs |-> LdapDepth(lf.fs[i])], 1)
                   [] lf.k = "not" -> 1 + LdapDepth(lf.f)
                   [] OTHER -> 1
ScimDepth(sf) == CASE sf.k \in {"and", "or"} -> 1 + Max2(ScimDepth(sf.l), ScimDepth(sf.r))
                   [] sf.k = "not" -> 1 + ScimDepth(sf.e)
                   [] OTHER -> 1
\* LDAP: AND(user filter, NOT(OR(3 class terms))) = 6 wrapper nodes, one wrapper level
LdapTooBig(lf) == LdapNodes(lf) + 6 > FilterMaxElements \/ LdapDepth(lf) + 1 > FilterMaxDepth
\* SCIM (unlimited element count for the impersonated identity): AND(class filter, user filter) = one wrapper level
ScimTooBig(sf) == ScimDepth(sf) + 1 > FilterMaxDepth

\* ----------------------------- divergence classes -------------------------
RECURSIVE LdapSplit(_)
LdapSplit(lf) == CASE lf.k = "substr" -> (IF lf.i = NoNeedle THEN 0 ELSE 1) + Len(lf.any) + (IF lf.f = NoNeedle THEN 0 ELSE 1) >= 2
                   [] lf.k \in {"and", "or"} -> \E i \in DOMAIN lf.fs : LdapSplit(lf.fs[i])
                   [] lf.k = "not" -> LdapSplit(lf.f)
                   [] OTHER -> FALSE
RECURSIVE ScimOrder(_, _)
\* an ordering operator on an attribute of kind `attrs`
ScimOrder(sf, attrs) == CASE sf.k = "cmp" -> sf.op \in {"gt", "ge", "lt", "le"} /\ sf.a \in attrs
                          [] sf.k \in {"and", "or"} -> ScimOrder(sf.l, attrs) \/ ScimOrder(sf.r, attrs)
                          [] sf.k = "not" -> ScimOrder(sf.e, attrs)
                          [] OTHER -> FALSE
(* Why may the real answer differ from the standard's?  In this order:
   ldap-substring-split : a substring assertion with two or more parts is split into independent terms
   scim-order-string    : lt/le/gt/ge on a string attribute (LessThan is always false on strings)
   andnot-isolated / andnot-partial : the two filter2idl defects of C01 on the translated, wrapped, optimised filter *)
ProtoSig(kind, pf, wrapped, db, idx, c) ==   \* c: the PRE-repair configuration (fix = FALSE) for the C01 classes
  IF kind = "ldap" /\ LdapSplit(pf) THEN "ldap-substring-split"
  ELSE IF kind = "scim" /\ ScimOrder(pf, StrAttrs) THEN "scim-order-string"
  ELSE IF HasRej(wrapped) \/ HasEmpty(wrapped) THEN "none"
  ELSE DefectSig(Rewrite(wrapped, idx, 0), db, c)
=============================================================================
