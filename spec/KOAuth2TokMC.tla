---------------------------- MODULE KOAuth2TokMC ----------------------------
(* C39: exhaustive exploration of the transcription of kanidm's token endpoint / introspection /
   userinfo / revocation paths (L2, KOAuth2 Tokens section) as a state machine over ONE grant:
   an authorisation code issued to client k1, its exchange with mutated parameters, a refresh
   chain of up to MaxGen generations with mutated client / scopes, introspection, userinfo,
   revocation, account expiry, logout, and time jumps to the interesting instants.
   Every transition is judged by the L1 predicates of KOAuth2:
     * an L1 failure of the transcription is a HYPOTHESIS about the code: the first behaviour
       reaching each failure signature is printed as a CEX line and replayed on the real server;
     * the first behaviour reaching each new transition signature is printed as a BEH line: the
       covering set of behaviours that is replayed on the real server (direction A).
   REAL lifetimes are used (60 s code, 900 s access, 57600 s refresh, 300 s grace) with a coarse
   alphabet of time jumps, so printed behaviours are directly executable.  `hist` is excluded
   from the fingerprint by the VIEW. *)
EXTENDS KOAuth2, Json, Integers

CONSTANTS Grace,       \* AUTH_TOKEN_GRACE_WINDOW
          Deltas,      \* time jumps explored
          MaxTicks,    \* number of time jumps per behaviour
          MaxGen,      \* length of the refresh chain
          KTypes,      \* client kinds of k1: "basic" (PKCE required), "basicnopkce", "public"
          ClientAuth,  \* <<presented client, client authentication>> combinations explored
          ScopeKinds   \* scope requests explored on refresh

VARIABLES now, cfg, code, gen, iat, sc, rot, srec, parent, revoked, acct, ticks, hist
vars == <<now, cfg, code, gen, iat, sc, rot, srec, parent, revoked, acct, ticks, hist>>
view == <<now, cfg, code, gen, iat, sc, rot, srec, parent, revoked, acct, ticks>>

T0m   == 10                                   \* model time of the authorisation
Orig  == {"openid", "read"}                    \* scopes of the grant
Scopes(k) == IF k = "full" THEN Orig ELSE {"openid"}
Gens  == 1..MaxGen

PkceReq(c) == c.ktype \in {"basic", "public"}
IsBasic(c) == c.ktype \in {"basic", "basicnopkce"}

Init ==
  /\ TLCSet(1, {}) /\ TLCSet(2, {})
  /\ now = T0m
  /\ cfg \in {c \in [ktype : KTypes, pkce : BOOLEAN] : PkceReq(c) => c.pkce}   \* a code without challenge exists only if PKCE is not required
  /\ code = [t |-> T0m, used |-> FALSE]
  /\ gen = 0
  /\ iat = [g \in Gens |-> 0] /\ sc = [g \in Gens |-> "full"] /\ rot = [g \in Gens |-> FALSE]
  /\ srec = [issued |-> 0, state |-> "absent"] /\ parent = "live" /\ revoked = FALSE
  /\ acct = [from |-> 0, until |-> 0]
  /\ ticks = 0
  /\ hist = <<>>

CodeRec == [client |-> "k1", redirect |-> "same", pkce |-> cfg.pkce, verifier |-> "right", scopes |-> Orig, t |-> code.t]
Tok(g, kind) == [kind |-> kind, sess |-> "s1", client |-> "k1", scopes |-> Scopes(sc[g]), iat |-> iat[g],
                 exp |-> iat[g] + (IF kind = "at" THEN AccessLife ELSE RefreshLife), rot |-> rot[g]]
SRec == [issued |-> srec.issued, state |-> srec.state, parent |-> parent]
RevokedSet == IF revoked THEN {"s1"} ELSE {}

\* ---- reporting (registers: 1 = failure signatures printed, 2 = transition signatures printed) ----
\* (IF-THEN-ELSE, not disjunction: inside an action TLC explores every disjunct)
Report(sig, h) == IF sig = "" THEN TRUE ELSE IF sig \in TLCGet(1) THEN TRUE
                  ELSE TLCSet(1, TLCGet(1) \cup {sig}) /\ PrintT(<<"CEX", sig, ToJson([cfg |-> cfg, h |-> h])>>)
Cover(sig, h)  == IF sig \in TLCGet(2) THEN TRUE
                  ELSE TLCSet(2, TLCGet(2) \cup {sig}) /\ PrintT(<<"BEH", ToJson([cfg |-> cfg, h |-> h])>>)

Tick(d) ==
  /\ ticks < MaxTicks
  /\ now' = now + d /\ ticks' = ticks + 1
  /\ hist' = Append(hist, [a |-> "tick", d |-> d])
  /\ UNCHANGED <<cfg, code, gen, iat, sc, rot, srec, parent, revoked, acct>>

\* ---- code exchange -------------------------------------------------------------------------
Exchange(cl, au, rd, vf) ==
  /\ ~code.used
  /\ LET x   == [client |-> cl, authok |-> (au = "ok" \/ (cl = "k1" /\ ~IsBasic(cfg)) \/ cl = "k2"), redirect |-> rd,
                 verifier |-> IF vf = "none" THEN "" ELSE vf, pkceReq |-> PkceReq(cfg)]
         res == L2Exchange(CodeRec, x, now)
         ok  == res = "ok"
         act == [a |-> "exchange", client |-> cl, auth |-> au, redirect |-> rd, verifier |-> vf, res |-> res]
         l1  == IF TokL1Exchange(CodeRec, x, now, ok) THEN "" ELSE "exchange"
     IN  /\ Report(l1, Append(hist, act))
         /\ l1 = ""
         /\ Cover(<<"exchange", cl = "k1", x.authok, rd, vf, cfg.pkce, PkceReq(cfg), now <= code.t + CodeLife, res>>, Append(hist, act))
         /\ hist' = Append(hist, act)
         /\ IF ok
            THEN /\ code' = [code EXCEPT !.used = TRUE]
                 /\ gen' = 1
                 /\ iat' = [iat EXCEPT ![1] = now]
                 /\ srec' = [issued |-> now, state |-> "live"]
                 /\ UNCHANGED <<sc, rot>>
            ELSE UNCHANGED <<code, gen, iat, sc, rot, srec>>
  /\ UNCHANGED <<now, cfg, parent, revoked, acct, ticks>>

\* ---- refresh -------------------------------------------------------------------------------
ReqScopes(kind, tokscopes) ==
  IF kind = "none" THEN {"*"} ELSE IF kind = "same" THEN tokscopes
  ELSE IF kind = "narrow" THEN {"openid"} ELSE Orig \cup {"write"}

Refresh(g, cl, au, sk) ==
  /\ g \in 1..gen
  /\ LET tok == Tok(g, "rt")
         x   == [client |-> cl, authok |-> (au = "ok" \/ (cl = "k1" /\ ~IsBasic(cfg)) \/ cl = "k2"), scopes |-> ReqScopes(sk, tok.scopes)]
         res == L2Refresh(tok, x, SRec, acct, now, Grace)
         ok  == res = "ok"
         newscopes == IF x.scopes = {"*"} THEN tok.scopes ELSE x.scopes
         othValid  == cl = "k1" /\ x.authok /\ now < tok.exp /\ AcctValid(acct, now)
         \* would the newest refresh token still be accepted after this (refused) call?
         alive     == res = "err" /\ L2Refresh(Tok(gen, "rt"), [client |-> "k1", authok |-> TRUE, scopes |-> {"*"}], SRec, acct, now, Grace) = "ok"
         act == [a |-> "refresh", g |-> g, client |-> cl, auth |-> au, scopes |-> sk, res |-> res]
         l1  == IF ~TokL1RefreshScopes(Orig, ok, newscopes) THEN "refresh-scope"
                ELSE IF ~TokL1Reuse(tok, ok, alive, othValid) THEN (IF tok.iat = srec.issued THEN "reuse-samesec" ELSE "reuse")
                ELSE IF ~TokL1Dead(tok, RevokedSet, acct, now, ok) THEN "dead"
                ELSE ""
     IN  /\ (ok => gen < MaxGen)     \* the chain is bounded: do not explore a refresh that cannot be recorded
         /\ Report(l1, Append(hist, act))
         /\ l1 = ""                  \* a behaviour ends at its first L1 failure
         /\ Cover(<<"refresh", cl = "k1", x.authok, sk, tok.rot, revoked, AcctValid(acct, now), now >= tok.exp,
                    parent, srec.state, tok.iat < srec.issued, tok.iat = srec.issued, res>>,
                  Append(hist, act))
         /\ hist' = Append(hist, act)
         /\ IF ok
            THEN /\ gen' = gen + 1
                 /\ iat' = [iat EXCEPT ![gen + 1] = now]
                 /\ sc' = [sc EXCEPT ![gen + 1] = IF newscopes = Orig THEN "full" ELSE "narrow"]
                 /\ rot' = [rot EXCEPT ![g] = TRUE]
                 /\ srec' = [issued |-> now, state |-> "live"]
                 /\ UNCHANGED revoked
            ELSE IF res = "reuse"
            THEN /\ srec' = [srec EXCEPT !.state = "revoked"]
                 /\ revoked' = TRUE
                 /\ UNCHANGED <<gen, iat, sc, rot>>
            ELSE /\ revoked' = (revoked \/ (tok.rot /\ othValid))     \* an otherwise valid reuse has (observably) revoked the session
                 /\ UNCHANGED <<gen, iat, sc, rot, srec>>
  /\ UNCHANGED <<now, cfg, code, parent, acct, ticks>>

\* ---- introspection / userinfo ----------------------------------------------------------------
Use(kind, g, cl) ==
  /\ g \in 1..gen
  /\ LET tok == Tok(g, "at")
         res == IF kind = "userinfo" /\ cl # "k1" THEN "inactive" ELSE L2Use(tok, SRec, acct, now, Grace)
         ok  == res = "active"
         act == [a |-> kind, g |-> g, client |-> cl, res |-> res]
         l1  == IF TokL1Dead(tok, RevokedSet, acct, now, ok) THEN "" ELSE "dead"
     IN  /\ Report(l1, Append(hist, act))
         /\ l1 = ""
         /\ Cover(<<kind, cl = "k1", revoked, AcctValid(acct, now), now >= tok.exp, parent,
                    srec.state, res>>, Append(hist, act))
         /\ hist' = Append(hist, act)
  /\ UNCHANGED <<now, cfg, code, gen, iat, sc, rot, srec, parent, revoked, acct, ticks>>

\* ---- revoke endpoint ---------------------------------------------------------------------------
Revoke(kind, g) ==
  /\ g \in 1..gen
  /\ LET tok  == Tok(g, kind)
         live == now < tok.exp                      \* an expired token is accepted and ignored
         act  == [a |-> "revoke", g |-> g, kind |-> kind, res |-> IF live THEN "revoked" ELSE "ignored"]
     IN  /\ hist' = Append(hist, act)
         /\ Cover(<<"revoke", kind, live, srec.state>>, Append(hist, act))
         /\ IF live /\ srec.state # "absent"
            THEN srec' = [srec EXCEPT !.state = "revoked"] /\ revoked' = TRUE
            ELSE UNCHANGED <<srec, revoked>>
  /\ UNCHANGED <<now, cfg, code, gen, iat, sc, rot, parent, acct, ticks>>

\* ---- account expiry / restore, logout -------------------------------------------------------
Expire ==
  /\ acct.until = 0
  /\ acct' = [acct EXCEPT !.until = now - 1]
  /\ hist' = Append(hist, [a |-> "expire"])
  /\ UNCHANGED <<now, cfg, code, gen, iat, sc, rot, srec, parent, revoked, ticks>>
Restore ==
  /\ acct.until # 0
  /\ acct' = [acct EXCEPT !.until = 0]
  /\ hist' = Append(hist, [a |-> "restore"])
  /\ UNCHANGED <<now, cfg, code, gen, iat, sc, rot, srec, parent, revoked, ticks>>
Logout ==
  /\ parent = "live"
  /\ parent' = "revoked"
  /\ hist' = Append(hist, [a |-> "logout"])
  /\ UNCHANGED <<now, cfg, code, gen, iat, sc, rot, srec, revoked, acct, ticks>>

CAOf == [k1ok |-> <<"k1", "ok">>, k1bad |-> <<"k1", "bad">>, k2ok |-> <<"k2", "ok">>, k2bad |-> <<"k2", "bad">>]
Next ==
  \/ \E d \in Deltas : Tick(d)
  \/ \E ca \in ClientAuth, rd \in {"same", "other"}, vf \in {"right", "wrong", "none"} : Exchange(CAOf[ca][1], CAOf[ca][2], rd, vf)
  \/ \E g \in Gens, ca \in ClientAuth, sk \in ScopeKinds : Refresh(g, CAOf[ca][1], CAOf[ca][2], sk)
  \/ \E g \in Gens, cl \in {"k1", "k2"} : Use("userinfo", g, cl)
  \/ \E g \in Gens : Use("introspect", g, "k1")
  \/ \E g \in Gens, k \in {"at", "rt"} : Revoke(k, g)
  \/ Expire \/ Restore \/ Logout

Spec == Init /\ [][Next]_vars

\* type sanity, cheap
TypeOK == gen \in 0..MaxGen /\ ticks \in 0..MaxTicks
=============================================================================
