-------------------------------- MODULE KMerge --------------------------------
(***************************************************************************)
(* Mergeable valuesets (property C11): login sessions, OAuth2 sessions and *)
(* key objects are maps key -> state that replicas merge instead of taking *)
(* the newest writer's value.                                              *)
(* L0  state records [st, v, s]: sessions st in {"never","exp","rev"}      *)
(*     (v = expiry time, or revocation change id <<v, s>>); keys st in     *)
(*     {"valid","ret","rev"} with status change id <<v, s>>.               *)
(* L1  order/grouping independence, idempotence, revocation absorbing      *)
(*     until trim (earliest revocation kept for sessions).                 *)
(* L2  transcription of ValueSetSession / ValueSetOauth2Session /          *)
(*     ValueSetKeyInternal ::repl_merge_valueset + trim.                   *)
(***************************************************************************)
EXTENDS Naturals, FiniteSets, Sequences, TLC

CidLt(a, b) == a[1] < b[1] \/ (a[1] = b[1] /\ a[2] < b[2])
CidOf(x) == <<x.v, x.s>>

\* ------------------------------------------------------------------ L2
\* value.rs Ord for SessionState: RevokedAt (earlier greater) > ExpiresAt (later greater) > NeverExpires
SesRank(x) == IF x.st = "rev" THEN 2 ELSE IF x.st = "exp" THEN 1 ELSE 0
SesGt(x, y) == IF SesRank(x) # SesRank(y) THEN SesRank(x) > SesRank(y)
               ELSE IF x.st = "rev" THEN CidLt(CidOf(x), CidOf(y))
               ELSE IF x.st = "exp" THEN x.v > y.v ELSE FALSE
KeyRank(x) == IF x.st = "rev" THEN 2 ELSE IF x.st = "ret" THEN 1 ELSE 0
KeyGt(x, y) == KeyRank(x) > KeyRank(y)
Gt(kind, x, y) == IF kind = "key" THEN KeyGt(x, y) ELSE SesGt(x, y)

Trim(kind, m, trim) == [k \in {j \in DOMAIN m : ~(m[j].st = "rev" /\ CidLt(CidOf(m[j]), trim))} |-> m[k]]

\* newer.repl_merge_valueset(older, trim)
Merge(kind, newer, older, trim) ==
  LET u == [k \in DOMAIN newer \cup DOMAIN older |->
              IF k \notin DOMAIN newer THEN older[k]
              ELSE IF k \in DOMAIN older /\ Gt(kind, older[k], newer[k]) THEN older[k] ELSE newer[k]]
  IN Trim(kind, u, trim)

\* a view is [c |-> attribute change id (a number), m |-> map]; merge_state picks the newer side by change id
Join(kind, p, q, trim) == IF p.c > q.c THEN [c |-> p.c, m |-> Merge(kind, p.m, q.m, trim)]
                          ELSE [c |-> q.c, m |-> Merge(kind, q.m, p.m, trim)]
Perms3 == {<<1,2,3>>, <<1,3,2>>, <<2,1,3>>, <<2,3,1>>, <<3,1,2>>, <<3,2,1>>}
LeftFold(kind, vs, o, trim)  == Join(kind, Join(kind, vs[o[1]], vs[o[2]], trim), vs[o[3]], trim).m
RightFold(kind, vs, o, trim) == Join(kind, vs[o[1]], Join(kind, vs[o[2]], vs[o[3]], trim), trim).m

\* ------------------------------------------------------------------ L1 (on a set of result maps)
\* for keys the retained status change id is not part of the compared result (see DESIGN C11 note)
Norm(kind, m) == IF kind = "key" THEN [k \in DOMAIN m |-> m[k].st] ELSE m
AllEqual(kind, results) == \A a, b \in results : Norm(kind, a) = Norm(kind, b)

RevCids(views, k) == {CidOf(views[i].m[k]) : i \in {j \in DOMAIN views : k \in DOMAIN views[j].m /\ views[j].m[k].st = "rev"}}
MinCid(S) == CHOOSE c \in S : \A d \in S : c = d \/ CidLt(c, d)
Keys(views) == UNION {DOMAIN views[i].m : i \in DOMAIN views}
\* a revocation known to any view survives every merge until trim has passed it
Absorbing(kind, views, trim, res) ==
  \A k \in Keys(views) : RevCids(views, k) # {} =>
     LET mn == MinCid(RevCids(views, k)) IN
       ~CidLt(mn, trim) => (k \in DOMAIN res /\ res[k].st = "rev" /\ (kind # "key" => CidOf(res[k]) = mn))
\* the statement holds "until the changelog window expires": order independence is demanded of families in
\* which no revocation is already older than the trim point
InWindow(views, trim) == \A k \in Keys(views) : \A c \in RevCids(views, k) : ~CidLt(c, trim)
\* nothing is invented: every key of the result comes from some view
NoInvention(views, res) == DOMAIN res \subseteq Keys(views)
Idempotent(kind, v, trim, r) == r = Trim(kind, v, trim)
=============================================================================
