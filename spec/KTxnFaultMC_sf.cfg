CONSTANTS
  CommitOrder = "storage_first"
  NanoMax = 3
INIT Init
NEXT Next
INVARIANT L1NoTrace
INVARIANT L1Strict
INVARIANT L1AllUntouched
INVARIANT L1Success
INVARIANT L1Crash
INVARIANT L1IdxFail
INVARIANT Hyp
CHECK_DEADLOCK FALSE
