CONSTANTS
  Ttl1 = 4
  Ttl2 = 1
  NL = 2
  SessTtl = 3
  MaxSess = 3
  TMax = 8
  Depth = 6
  MaxGap = 4
SPECIFICATION Spec
INVARIANT Inv
INVARIANT Emit
CHECK_DEADLOCK FALSE
