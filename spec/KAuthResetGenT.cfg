CONSTANTS
  Ttl1 = 4
  Ttl2 = 2
  NL = 2
  SessTtl = 3
  MaxSess = 3
  TMax = 7
  Depth = 5
  MaxGap = 2
SPECIFICATION Spec
INVARIANT Inv
INVARIANT Emit
CHECK_DEADLOCK FALSE
