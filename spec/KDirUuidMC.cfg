SPECIFICATION Spec
PROPERTY StepOk
CHECK_DEADLOCK FALSE
