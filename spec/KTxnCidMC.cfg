CONSTANTS
  CommitOrder = "publish_first"
  NanoMax = 3
  Secs = {0, 1}
  Nanos = {0, 1, 2}
  Depth = 8
  Emit = FALSE
  MaxInit = 8
  NoRR = FALSE
  MaxBare = 8
INIT Init
NEXT Next
VIEW View
INVARIANT L1CidFresh
INVARIANT MemCoversDisk
CHECK_DEADLOCK FALSE
