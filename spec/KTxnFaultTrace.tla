--------------------------- MODULE KTxnFaultTrace ---------------------------
(* C04: validates fault-enumeration observations of the REAL server. One line per case:
   {"a":"ref"|"fault"|"abandon"|"opfail", "kind":K, "k":n, "point":P, "fired":0|1,
    "phase":"op"|"commit"|"begin", "res":"ok"|"commiterr"|"operr"|"beginerr"|"dropped"|"panic",
    "pre":V, "live":V, "reopen":D, "post":V, "postd":D, "rf":0|1, "reopenf":V}
   V = observation record of KTxn section B, D = its disk part.
   pre    observed through a read transaction before the write transaction began
   live   observed through a fresh read transaction after the transaction ended
   reopen observed on a server reopened on the same file (bare: disk fields only), after live2 was taken
   live2  observed after ONE following successful transaction on the same server; post2 = the same follow-up
          transaction observed after a transaction that was begun and dropped (reference)
   reopenf (when rf = 1) full observation on a server reopened AND initialised on the same file
   post/postd  what the same transaction shows after a fault-free commit (reference run)     *)
EXTENDS KTxn, Json, IOUtils
Rec == ndJsonDeserialize(IOEnv.TRACE)
VARIABLE l
r == Rec[l]

Failed == r.res # "ok"

\* ---- L1: a transaction that did not report success leaves no trace
L1Line == IF r.a = "ref" \/ ~Failed THEN TRUE
          ELSE /\ NoTrace(r.pre, r.live, r.live2, r.post2, r.reopen)
               \* (a re-initialised server has committed its own start-up transaction: RUV excluded)
               /\ (r.rf = 1 => \A f \in DOMAIN r.post2 \ {"ruv"} : r.reopenf[f] = r.post2[f])
L1Sig  == IF r.live # r.pre THEN "live-differs"
          ELSE IF r.live2 # r.post2 THEN "later-differs"
          ELSE IF r.reopen # DiskPart(r.post2) THEN "disk-differs" ELSE "reopened-differs"

\* ---- L2: the transcription of the commit order predicts exactly what is left behind
L2Line ==
  CASE r.a = "ref" -> r.res = "ok" /\ r.live = r.post /\ r.reopen = r.postd
    [] r.a = "fault" ->
         IF r.fired = 0
         THEN r.res = "ok" /\ r.live = r.post /\ r.reopen = r.postd
         ELSE /\ r.res \in {"commiterr", "operr", "beginerr"}
              /\ r.live = PredictLive(r.kind, r.phase, r.point, r.pre, r.post)
              /\ r.reopen = DiskPart(r.post2)
    [] r.a \in {"abandon", "opfail"} -> r.live = r.pre /\ r.reopen = DiskPart(r.post2)
    [] OTHER -> FALSE

Init == l = 1
Next == l <= Len(Rec) /\ l' = l + 1
Spec == Init /\ [][Next]_l

Judge == l <= Len(Rec) =>
           /\ (L1Line \/ PrintT(<<"L1FAIL", "C04", l, L1Sig>>))
           /\ (L2Line \/ PrintT(<<"L2DRIFT", "C04", l>>))
Consumed == TLCGet("stats").distinct = Len(Rec) + 1 \/ PrintT(<<"NOTCONSUMED", TLCGet("stats").distinct, Len(Rec)>>)
=============================================================================
