----------------------------- MODULE KActorsTrace -----------------------------
(* C47: validates event logs of REAL kanidm_actors runs (tokio multi-thread runtime, events sequence-numbered
   under one mutex by the harness; no repository hook).

   L1 is judged on the LOG ORDER alone (bookkeeping record L, a function of the consumed prefix):
     - a node counts as registered under c when its spawn_end / sub_end line precedes stop_issue(c)
       (resp. the signal line for the runtime) -- then the registration really completed before the stop
       was issued;
     - at stop_ret(c) / exec_ret every such actor must already have logged a_cleanup_end, and no callback
       line of such an actor may follow (the callback is executing when it logs).
   L2: the KActors transcription must be able to reproduce the log; the supervisor-task / exec steps are not
   logged, TLC infers them (hidden steps, any interleaving). A line the model cannot take desynchronises the
   run (ok = FALSE) -- conformance drift, reported per run through the absence of a RUNOK tuple, never an alarm. *)
EXTENDS KActors, Json, IOUtils
Rec == ndJsonDeserialize(IOEnv.TRACE)
TSups == {"s" \o ToString(i) : i \in 0..12}
TActs == {"a" \o ToString(i) : i \in 1..16}
CONSTANT Eager   \* TRUE: unlogged steps are applied eagerly (one model state per line); FALSE: full search
VARIABLES l, ok, S, L, run

\* ------------------------------------------------------------- L1 on the log
L0 == [par |-> {}, need |-> {}, ret |-> {}, clean |-> {}, zomb |-> {}]
Reg(LL) == {p[1] : p \in LL.par}
ParOf(LL, x) == IF x = Root \/ ~(\E p \in LL.par : p[1] = x) THEN RT ELSE (CHOOSE p \in LL.par : p[1] = x)[2]
RECURSIVE AncOrSelf(_, _)
AncOrSelf(LL, x) == IF x = RT THEN {RT} ELSE {x} \cup AncOrSelf(LL, ParOf(LL, x))
Under(LL, c) == {x \in Reg(LL) : c \in AncOrSelf(LL, ParOf(LL, x))}
NeedOf(LL, c) == {p[2] : p \in {q \in LL.need : q[1] = c}}
Released(LL) == UNION {NeedOf(LL, c) : c \in LL.ret}      \* nodes some completed stop was responsible for
Callbacks == {"a_setup", "a_setup_end", "a_state", "a_state_ret", "a_run", "a_run_end", "a_cleanup", "a_cleanup_end"}

Bad(LL, c) == {x \in NeedOf(LL, c) \cap Acts : x \notin LL.clean}
Z(LL, X) == IF X \subseteq LL.zomb THEN "1" ELSE "0"
\* L1 verdict for line r given the bookkeeping of the prefix: "" = fine, else a signature
L1Sig(LL, r) ==
  IF r.a = "stop_ret" /\ Bad(LL, r.s) # {} THEN "stop-returned-before-cleanup zombie=" \o Z(LL, Bad(LL, r.s)) \o " by=stop"
  ELSE IF r.a = "exec_ret" /\ Bad(LL, RT) # {} THEN "stop-returned-before-cleanup zombie=" \o Z(LL, Bad(LL, RT)) \o " by=exec"
  ELSE IF r.a \in Callbacks /\ r.x \in Released(LL) THEN "actor-step-after-stop-returned zombie=" \o Z(LL, {r.x}) \o " by=any"
  ELSE ""

LNext(LL, r) ==
  CASE r.a = "reset" -> L0
    [] r.a \in {"spawn_begin", "sub_begin"} ->
         \* registered on a supervisor whose own or an ancestor's stop (or the runtime) has already returned
         IF AncOrSelf(LL, r.p) \cap LL.ret # {} THEN [LL EXCEPT !.zomb = @ \cup {r.x}] ELSE LL
    [] r.a \in {"spawn_end", "sub_end"} -> [LL EXCEPT !.par = @ \cup {<<r.x, r.p>>}]
    [] r.a = "stop_issue" -> [LL EXCEPT !.need = @ \cup {<<r.s, x>> : x \in Under(LL, r.s)}]
    [] r.a = "signal" -> [LL EXCEPT !.need = @ \cup {<<RT, x>> : x \in Reg(LL)}]
    [] r.a = "a_cleanup_end" -> [LL EXCEPT !.clean = @ \cup {r.x}]
    [] r.a = "stop_ret" -> [LL EXCEPT !.ret = @ \cup {r.s}]
    [] r.a = "exec_ret" -> [LL EXCEPT !.ret = @ \cup {RT}]
    [] OTHER -> LL

\* ------------------------------------------------------------- L2: the model follows the log
\* guard / effect of the model for an observed line
ObsG(SS, r) ==
  CASE r.a = "exec_start" -> ExecStartG(SS)
    [] r.a = "setup_end" -> SetupDoneG(SS)
    [] r.a = "spawn_begin" -> SpawnG(SS, r.x, r.p)
    [] r.a = "spawn_end" -> SS.act[r.x].pc # "none"
    [] r.a = "sub_begin" -> SubG(SS, r.x, r.p)
    [] r.a = "sub_end" -> SS.sup[r.x].st # "none"
    [] r.a = "stop_issue" -> StopG(SS, r.s)
    [] r.a = "stop_ret" -> StopRetG(SS, r.s)
    [] r.a = "drop_handle" -> DropG(SS, r.s)
    [] r.a = "signal" -> SignalG(SS)
    [] r.a = "exec_ret" -> ExecJoinG(SS)
    [] r.a = "a_setup" -> SS.act[r.x].pc = "setup"
    [] r.a = "a_setup_end" -> ActSetupDoneG(SS, r.x)
    [] r.a = "a_state" -> SS.act[r.x].pc = "loop"
    [] r.a = "a_state_ret" -> SS.act[r.x].pc = "loop"
    [] r.a = "a_run" -> SS.act[r.x].pc = "run"
    [] r.a = "a_run_end" -> ActRunDoneG(SS, r.x)
    [] r.a = "a_cleanup" -> SS.act[r.x].pc = "cleanup" \/ ActRecvG(SS, r.x)
    [] r.a = "a_cleanup_end" -> ActCleanupDoneG(SS, r.x)
    [] OTHER -> TRUE
ObsE(SS, r) ==
  CASE r.a = "exec_start" -> ExecStartE(SS)
    [] r.a = "setup_end" -> SetupDoneE(SS)
    [] r.a = "spawn_begin" -> SpawnE(SS, r.x, r.p)
    [] r.a = "sub_begin" -> SubE(SS, r.x, r.p)
    [] r.a = "stop_issue" -> StopE(SS, r.s)
    [] r.a = "stop_ret" -> StopRetE(SS, r.s)
    [] r.a = "drop_handle" -> DropE(SS, r.s)
    [] r.a = "signal" -> SignalE(SS)
    [] r.a = "exec_ret" -> ExecJoinE(SS)
    [] r.a = "a_setup_end" -> ActSetupDoneE(SS, r.x)
    [] r.a = "a_state_ret" -> IF r.w = "ready" THEN ActReadyE(SS, r.x) ELSE ActStopE(SS, r.x)
    [] r.a = "a_run_end" -> ActRunDoneE(SS, r.x)
    \* the broadcast branch of select! won (not logged by itself)
    [] r.a = "a_cleanup" -> IF SS.act[r.x].pc = "loop" THEN ActRecvE(SS, r.x) ELSE SS
    \* cleanup returned; the receiver is dropped right after (before a_drop is logged)
    [] r.a = "a_cleanup_end" -> ActExitE(ActCleanupDoneE(SS, r.x), r.x)
    [] OTHER -> SS

\* all unlogged successors of a model state (supervisor tasks, Runtime::exec)
HiddenSucc(SS) ==
  {SupRecvParentE(SS, s) : s \in {x \in Sups : SupRecvParentG(SS, x)}}
  \cup {SupRecvStopE(SS, s) : s \in {x \in Sups : SupRecvStopG(SS, x)}}
  \cup {SupBroadcastE(SS, s) : s \in {x \in Sups : SupBroadcastG(SS, x)}}
  \cup {SupClosedE(SS, s) : s \in {x \in Sups : SupClosedG(SS, x)}}
  \cup {SupExitE(SS, s) : s \in {x \in Sups : SupExitG(SS, x)}}
  \cup {StopTellE(SS, s) : s \in {x \in Sups : StopTellG(SS, x)}}
  \cup (IF TakeSignalG(SS) THEN {TakeSignalE(SS)} ELSE {})
  \cup (IF PrimaryGoneG(SS) THEN {PrimaryGoneE(SS)} ELSE {})
  \cup (IF ExecSendG(SS) THEN {ExecSendE(SS)} ELSE {})
\* the unlogged steps only make progress and commute: run them to their fixpoint
RECURSIVE Settle(_)
Settle(SS) == LET H == HiddenSucc(SS) IN IF H = {} THEN SS ELSE Settle(CHOOSE x \in H : TRUE)
After(SS) == IF Eager THEN Settle(SS) ELSE SS

Init == l = 1 /\ ok = TRUE /\ S = S0 /\ L = L0 /\ run = 0

More == l <= Len(Rec)
\* unlogged steps of supervisor tasks and of Runtime::exec
Hidden ==
  /\ More /\ ok /\ ~Eager /\ UNCHANGED <<l, ok, L, run>>
  /\ S' \in HiddenSucc(S)
Consume(r) == l' = l + 1 /\ L' = LNext(L, r)
Reset ==
  /\ More /\ Rec[l].a = "reset"
  /\ (l = 1 \/ ~ok \/ PrintT(<<"RUNOK", run>>))
  /\ Consume(Rec[l]) /\ ok' = TRUE /\ S' = S0 /\ run' = Rec[l].run
Observe ==
  /\ More /\ ok /\ Rec[l].a # "reset" /\ ObsG(S, Rec[l])
  /\ Consume(Rec[l]) /\ S' = After(ObsE(S, Rec[l])) /\ UNCHANGED <<ok, run>>
\* the model cannot (or chooses not to) follow: the rest of the run is consumed without it
Desync ==
  /\ More /\ Rec[l].a # "reset"
  /\ Consume(Rec[l]) /\ ok' = FALSE /\ S' = S0 /\ UNCHANGED run
Finish ==
  /\ l = Len(Rec) + 1
  /\ (~ok \/ PrintT(<<"RUNOK", run>>))
  /\ l' = l + 1 /\ UNCHANGED <<ok, S, L, run>>
Next == Hidden \/ Reset \/ Observe \/ Desync \/ Finish
Spec == Init /\ [][Next]_<<l, ok, S, L, run>>

Judge == More => (L1Sig(L, Rec[l]) = "" \/ PrintT(<<"L1FAIL", "C47", l, L1Sig(L, Rec[l])>>))
Consumed == TLCGet("stats").distinct > Len(Rec) \/ PrintT(<<"NOTCONSUMED", TLCGet("stats").distinct, Len(Rec)>>)
=============================================================================
