CONSTANTS
  Machines = {"mA", "mB"}
  Pws = {"p1", "p2", "p3"}
  Depth = 6
  Hist = FALSE
  NoRollback = TRUE
  Emit = FALSE
INIT Init
NEXT Next
INVARIANT Safe
INVARIANT Exact
CHECK_DEADLOCK FALSE
