------------------------------- MODULE KKeysMC -------------------------------
(* C34, exhaustive: two replicas of one key object (one usage: usages are independent in the code),
   rotate (possibly twice in the same second, possibly into the future), revoke, sign, reload
   (restart), replicate.  The in-memory object is modelled as the code has it: `active` keyed by
   valid_from.  ReloadOnCommit = TRUE is what QueryServerWriteTransaction::commit does (the
   KEY_MATERIAL change flag triggers reload_key_material); with FALSE the model exhibits the
   DESIGN section 8 hypothesis (stale signer map) as a counterexample. *)
EXTENDS KKeys, Sequences
CONSTANTS T, MaxKeys, Servers, ReloadOnCommit,
          MaxAge,          \* changelog window: revoked keys with an older status change id are trimmed on merge
          StampOnRevoke    \* TRUE = revoke stamps the key with the revoking change id (the code);
                           \* FALSE = the key keeps its previous status change id (seeded hypothesis)
VARIABLES stored,   \* srv -> kid -> key      (the entry's KeyInternalData)
          mem,      \* srv -> in-memory object [all, active]
          now, toks, ever, nkeys
vars == <<stored, mem, now, toks, ever, nkeys>>
U == "es256"
Kid(n) == "k" \o ToString(n)

Init ==
  /\ stored = [s \in Servers |-> (Kid(1) :> [u |-> U, st |-> "valid", vf |-> None, sc |-> None])]
  /\ mem = [s \in Servers |-> [all |-> stored[s], active |-> (U :> (None :> Kid(1)))]]
  /\ now = 0 /\ toks = {} /\ ever = [s \in Servers |-> {}] /\ nkeys = 1

\* commit of a change on srv: the entry holds Merge(stored, staged.all); memory is reloaded from it
Commit(s, staged) ==
  LET st2 == Merge(stored[s], staged.all)
  IN  /\ stored' = [stored EXCEPT ![s] = st2]
      /\ IF ReloadOnCommit THEN \E o \in {x \in Loads(st2) : IsLoad(x)} : mem' = [mem EXCEPT ![s] = o]
         ELSE mem' = [mem EXCEPT ![s] = staged]
      /\ ever' = [ever EXCEPT ![s] = ever[s] \cup RevokedIn(st2)]

\* new_active(vf): all[kid] = valid key, active[vf] = kid  (OVERWRITES an entry with the same vf)
NewActive(o, kid, vf) ==
  [all |-> (kid :> [u |-> U, st |-> "valid", vf |-> vf, sc |-> now]) @@ o.all,
   active |-> (U :> ((vf :> kid) @@ ActiveOf(o, U)))]
\* revoke(kid): status revoked, active.remove(valid_from of that key)  (whatever kid sits there)
RevokeIn(o, kid) ==
  LET vf == o.all[kid].vf
      a  == ActiveOf(o, U)
  IN  [all |-> [o.all EXCEPT ![kid].st = "revoked", ![kid].sc = IF StampOnRevoke THEN now ELSE @],
       active |-> (U :> [v \in DOMAIN a \ {vf} |-> a[v]])]

Rotate(s, at) ==
  /\ nkeys < MaxKeys
  /\ LET vf == IF at > now THEN at ELSE now
         staged == NewActive(mem[s], Kid(nkeys + 1), vf)
     IN Commit(s, staged)
  /\ nkeys' = nkeys + 1 /\ UNCHANGED <<now, toks>>

Revoke(s, k) ==
  /\ k \in DOMAIN mem[s].all /\ mem[s].all[k].st # "revoked"
  /\ LET r1 == RevokeIn(mem[s], k)
         need == L2Signer(r1, U, None) = "none"       \* assert_active(Duration::ZERO)
     IN  /\ (need => nkeys < MaxKeys + 1)
         /\ Commit(s, IF need THEN NewActive(r1, Kid(nkeys + 1), None) ELSE r1)
         /\ nkeys' = IF need THEN nkeys + 1 ELSE nkeys
  /\ UNCHANGED <<now, toks>>

Sign(s) ==
  /\ L2Signer(mem[s], U, now) # "none"
  /\ toks' = toks \cup {[kid |-> L2Signer(mem[s], U, now), t |-> now, srv |-> s, snap |-> stored[s]]}
  /\ UNCHANGED <<stored, mem, now, ever, nkeys>>

Reload(s) ==
  /\ \E o \in {x \in Loads(stored[s]) : IsLoad(x)} : mem' = [mem EXCEPT ![s] = o]
  /\ UNCHANGED <<stored, now, toks, ever, nkeys>>

Replicate(from, to) ==
  /\ from # to
  /\ LET st2 == Trim(Merge(stored[to], stored[from]), now, MaxAge)     \* repl_merge_valueset: merge, then trim
     IN  /\ stored' = [stored EXCEPT ![to] = st2]
         /\ \E o \in {x \in Loads(st2) : IsLoad(x)} : mem' = [mem EXCEPT ![to] = o]
         /\ ever' = [ever EXCEPT ![to] = ever[to] \cup RevokedIn(st2)]
  /\ UNCHANGED <<now, toks, nkeys>>

Tick == now < T /\ now' = now + 1 /\ UNCHANGED <<stored, mem, toks, ever, nkeys>>

Next ==
  \/ Tick
  \/ \E s \in Servers :
       \/ \E at \in {0, now + 1} : Rotate(s, at)
       \/ \E k \in {Kid(n) : n \in 1..(MaxKeys + 1)} : Revoke(s, k)
       \/ Sign(s) \/ Reload(s)
       \/ \E s2 \in Servers : Replicate(s, s2)
Spec == Init /\ [][Next]_vars

\* L2 meets L1
InvVerify == \A tk \in toks, s \in Servers : L1Verify(stored[s], ever[s], tk.kid, L2Verify(mem[s].all, tk.kid))
InvSign   == \A tk \in toks : L1Sign(tk.snap, U, tk.t, "ok", tk.kid)
InvSignNow == \A s \in Servers : \A t \in now..(T + 1) :
                 L2Signer(mem[s], U, t) # "none" => L2Signer(mem[s], U, t) \in Newest(stored[s], U, t)
InvNoUnrevoke == \A s \in Servers : L1NoUnrevoke(ever[s], stored[s])
InvMemIsStored == ReloadOnCommit => \A s \in Servers : mem[s].all = stored[s]
=============================================================================
