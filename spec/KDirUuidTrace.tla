----------------------------- MODULE KDirUuidTrace -----------------------------
(* Validates observations of a REAL server: one committed base state ("reset" line) and, per request of
   the alphabet issued by a user identity under a grant-everything ACP, the store inside the (uncommitted)
   write transaction after the request.
     {"a":"reset","res":"ok","st":Store}
     {"a":"req","r":AbstractRequest,"detail":text,"res":"ok"|"refused"|"panic","err":text,"st":Store}
   Store = {id: {"u":[c1..c6], "live":class}}; after a refused request the transaction is abandoned,
   the logged store is {} and the state is the base state. *)
EXTENDS KDirUuid, Json, IOUtils
Rec == ndJsonDeserialize(IOEnv.TRACE)
VARIABLE l

Init == l = 1
Next == l <= Len(Rec) /\ l' = l + 1
Spec == Init /\ [][Next]_l

BaseIdx(i) == CHOOSE j \in 1..i : Rec[j].a = "reset" /\ \A k \in (j + 1)..i : Rec[k].a # "reset"
Post(i) == IF Rec[i].res = "ok" THEN Rec[i].st ELSE Rec[BaseIdx(i)].st

Judge == (l <= Len(Rec) /\ Rec[l].a = "req") =>
  LET pre == Rec[BaseIdx(l)].st  post == Post(l)  r == Rec[l].r
  IN /\ (r \in Alphabet \/ PrintT(<<"NOTINALPHABET", "C20", l>>))
     /\ (Rec[l].res # "panic" \/ PrintT(<<"L1FAIL", "C20", l, "#panic">>))
     /\ (NoNewReserved(pre, post) \/ PrintT(<<"L1FAIL", "C20", l, "#new-reserved">>))
     /\ \A i \in DOMAIN pre : (L1Entry(pre, post, i) \/ PrintT(<<"L1FAIL", "C20", l, i>>))
     /\ (~L1Step(pre, post) \/ L2Step(pre, post, r, Rec[l].res) \/ PrintT(<<"L2DRIFT", "C20", l>>))
Consumed == TLCGet("stats").distinct = Len(Rec) + 1 \/ PrintT(<<"NOTCONSUMED", TLCGet("stats").distinct, Len(Rec)>>)
=============================================================================
