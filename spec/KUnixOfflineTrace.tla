-------------------------- MODULE KUnixOfflineTrace --------------------------
(* C44: validates histories observed on the REAL provider / resolver / cache helpers. L1 uses bookkeeping B driven
   by the OBSERVED results only (last password accepted online per machine, provenance of the cached record);
   L2 (the offline-cache machine) runs alongside and must predict each observed result, else drift.
   Lines: {"a":"reset","lvl":..} then {"a":"online"|"offline"|"pwchange"|"swap","lvl","m","p","m2","res"} *)
EXTENDS KUnix, Json, IOUtils
Rec == ndJsonDeserialize(IOEnv.TRACE)
Machines == {"mA", "mB"}
VARIABLES l, S, B, ok

Init == l = 1 /\ S = OffInit(Machines) /\ B = OffB0(Machines) /\ ok = TRUE

Pred(r) == CASE r.a = "online" -> OffOnline(S, r.m, r.p).res
             [] r.a = "offline" -> OffOffline(S, r.m, r.p)
             [] OTHER -> "ok"
SNext(r) == CASE r.a = "online" -> OffOnline(S, r.m, r.p).S
              [] r.a = "pwchange" -> OffPwChange(S, r.p)
              [] r.a = "swap" -> OffSwap(S, r.m, r.m2)
              [] OTHER -> S
Next == /\ l <= Len(Rec) /\ l' = l + 1
        /\ IF Rec[l].a = "reset"
           THEN S' = OffInit(Machines) /\ B' = OffB0(Machines) /\ ok' = TRUE
           ELSE /\ B' = OffBNext(B, Rec[l])
                \* once the model mispredicted, the rest of the history is not compared any more
                /\ ok' = (ok /\ Pred(Rec[l]) = Rec[l].res)
                /\ S' = SNext(Rec[l])
Spec == Init /\ [][Next]_<<l, S, B, ok>>

LineL1(r) == r.a = "offline" => OffL1(B, r.m, r.p, r.res)
Sig(r) == IF B.prov[r.m] # r.m THEN "offline-accept-foreign-key" ELSE "offline-accept-stale-password"
Judge == (l <= Len(Rec) /\ Rec[l].a # "reset") =>
           /\ (LineL1(Rec[l]) \/ PrintT(<<"L1FAIL", "C44", l, Sig(Rec[l])>>))
           /\ (~ok \/ Pred(Rec[l]) = Rec[l].res \/ PrintT(<<"L2DRIFT", "C44", l>>))
Consumed == TLCGet("stats").distinct = Len(Rec) + 1 \/ PrintT(<<"NOTCONSUMED", TLCGet("stats").distinct, Len(Rec)>>)
=============================================================================
