------------------------------- MODULE KStoreMC -------------------------------
(* Exhaustive model of index maintenance: three entry slots, two names; create / rename / recycle / revive /
   tombstone / reap / uuid-changing conflict replacement / reindex / backup+restore.  Tables are maintained by
   the diff transcription (L2: DiffApply and the masked lookup update of entry_index) and must mirror the
   stored entries in every reachable state (L1).  Lookup table n2u is maintained by the transcription of the
   name2uuid part of entry_index including the uuid-changing arm. *)
EXTENDS KStore
CONSTANTS Slots, Names
VARIABLES ents, eqname, presname, eqclass, n2u, last

U(i) == "u" \o ToString(i)
C(i) == "c" \o ToString(i)       \* the uuid an entry gets when a replication conflict re-homes it
Cls(live) == CASE live = "live" -> <<"object">> [] live = "recycled" -> <<"object", "recycled">>
               [] live = "conflict" -> <<"conflict", "object", "recycled">> [] OTHER -> <<"object", "tombstone">>
Ent(i, u, live, n) ==
  IF live = "tombstone"
  THEN [id |-> i, uuid |-> u, live |-> live, a |-> [x \in {"class"} |-> Cls(live)], c |-> <<>>, syn |-> <<>>,
        k |-> [x \in {"eq:class"} |-> Cls(live)]]
  ELSE [id |-> i, uuid |-> u, live |-> live, a |-> [x \in {"class", "name"} |-> IF x = "class" THEN Cls(live) ELSE <<n>>],
        c |-> <<>>, syn |-> <<>>,
        k |-> [x \in {"eq:class", "eq:name", "pres:name"} |-> CASE x = "eq:class" -> Cls(live) [] x = "eq:name" -> <<n>> [] OTHER -> <<"_">>]]
\* model entries carry exactly the keys the transcription generates
KeysConsistent == \A e \in ents : \A at \in {"name", "class"} : \A ty \in {"eq", "pres"} :
                     (TK(at, ty) \in {"eq:class", "eq:name", "pres:name"}) => Keys(e, at, ty) = KeysL2(e, at, ty)

Slot(i) == {e \in ents : e.id = i}
LiveNames == UNION {Vals(e, "name") : e \in Visible(ents)}

\* ---- L2: one write = new entry set, tables by diff; lookup table by the masked diff of entry_index
N2UApply(t, pre, post) ==
  LET mpre == Visible(pre)  mpost == Visible(post)
      ids == {e.id : e \in pre \cup post}
      uuidSame(i) == \A a \in ById(pre, i), b \in ById(post, i) : a.uuid = b.uuid
      \* uuid changed: pre is treated as deleted first (its names removed), then post added from nothing
      rem == UNION {NameCands(a) : a \in {x \in mpre : \/ ~uuidSame(x.id)
                                                         \/ ById(mpost, x.id) = {}}}
             \cup UNION {NameCands(a) \ UNION {NameCands(b) : b \in ById(mpost, a.id)} : a \in mpre}
      add == [k \in UNION {NameCands(b) : b \in mpost} |->
                 {b.uuid : b \in {x \in mpost : k \in NameCands(x) /\
                                    (ById(mpre, x.id) = {} \/ ~uuidSame(x.id) \/ k \notin UNION {NameCands(a) : a \in ById(mpre, x.id)})}}]
  IN [k \in (DOMAIN t \ rem) \cup {x \in DOMAIN add : add[x] # {}} |->
        IF k \in DOMAIN add /\ add[k] # {} THEN One(add[k]) ELSE t[k]]

Write(post, what) ==
  /\ ents' = post
  /\ eqname' = DiffApply(eqname, ents, post, "name", "eq")
  /\ presname' = DiffApply(presname, ents, post, "name", "pres")
  /\ eqclass' = DiffApply(eqclass, ents, post, "class", "eq")
  /\ n2u' = N2UApply(n2u, ents, post)
  /\ last' = what

Create(i, n) == Slot(i) = {} /\ n \notin LiveNames /\ Write(ents \cup {Ent(i, U(i), "live", n)}, "create")
Rename(i, n) == \E e \in Slot(i) : e.live = "live" /\ n \notin LiveNames
                  /\ Write((ents \ {e}) \cup {Ent(i, e.uuid, "live", n)}, "rename")
Recycle(i) == \E e \in Slot(i) : e.live = "live" /\ Write((ents \ {e}) \cup {Ent(i, e.uuid, "recycled", One(Vals(e, "name")))}, "recycle")
Revive(i) == \E e \in Slot(i) : e.live = "recycled" /\ One(Vals(e, "name")) \notin LiveNames
                  /\ Write((ents \ {e}) \cup {Ent(i, e.uuid, "live", One(Vals(e, "name")))}, "revive")
Tombstone(i) == \E e \in Slot(i) : e.live \in {"recycled", "conflict"} /\ Write((ents \ {e}) \cup {Ent(i, e.uuid, "tombstone", "")}, "tombstone")
Reap(i) == \E e \in Slot(i) : e.live = "tombstone" /\ Write(ents \ {e}, "reap")
\* replication conflict: the stored entry keeps its id but becomes a conflict entry under a NEW uuid
Conflict(i) == \E e \in Slot(i) : e.live \in {"live", "recycled"} /\ e.uuid = U(i)
                  /\ Write((ents \ {e}) \cup {Ent(i, C(i), "conflict", One(Vals(e, "name")))}, "conflict")
Reindex == /\ ents' = ents /\ last' = "reindex"
           /\ eqname' = Table(ents, "name", "eq") /\ presname' = Table(ents, "name", "pres") /\ eqclass' = Table(ents, "class", "eq")
           /\ n2u' = [k \in UNION {NameCands(e) : e \in Visible(ents)} |-> One({e.uuid : e \in {x \in Visible(ents) : k \in NameCands(x)}})]
\* backup + restore into a fresh backend: ids are renumbered in row order, indexes rebuilt
Rank(i) == Cardinality({e \in ents : e.id <= i})
Restore == LET post == {[e EXCEPT !.id = Rank(e.id)] : e \in ents}
           IN /\ ents' = post /\ last' = "restore"
              /\ eqname' = Table(post, "name", "eq") /\ presname' = Table(post, "name", "pres") /\ eqclass' = Table(post, "class", "eq")
              /\ n2u' = [k \in UNION {NameCands(e) : e \in Visible(post)} |-> One({e.uuid : e \in {x \in Visible(post) : k \in NameCands(x)}})]

Init == ents = {} /\ eqname = <<>> /\ presname = <<>> /\ eqclass = <<>> /\ n2u = <<>> /\ last = "init"
Next == \/ \E i \in Slots, n \in Names : Create(i, n) \/ Rename(i, n)
        \/ \E i \in Slots : Recycle(i) \/ Revive(i) \/ Tombstone(i) \/ Reap(i) \/ Conflict(i)
        \/ Reindex \/ Restore
Spec == Init /\ [][Next]_<<ents, eqname, presname, eqclass, n2u, last>>

\* L1 on every reachable state
Mirror == /\ TableMirrors(eqname, ents, "name", "eq")
          /\ TableMirrors(presname, ents, "name", "pres")
          /\ TableMirrors(eqclass, ents, "class", "eq")
          /\ \A k \in Names : (IF k \in DOMAIN n2u THEN n2u[k] ELSE "-") \in N2U(ents, k)
\* restore keeps the content (by uuid)
ByUuid(es) == {[uuid |-> e.uuid, live |-> e.live, a |-> e.a, k |-> e.k] : e \in es}
RestoreKeeps == [][last' = "restore" => ByUuid(ents') = ByUuid(ents)]_<<ents, last>>
\* vacuity: every action happens
Seen(x) == last # x
View == <<ents, eqname, presname, eqclass, n2u>>
=============================================================================
