------------------------------ MODULE KAuthReset ------------------------------
(***************************************************************************)
(* Credential reset links (property C37).                                  *)
(*                                                                         *)
(* L0  links 1..NL on one account, each [st : "valid"|"prog"|"consumed",   *)
(*       sid : session in progress (0 = none), exp : expiry time];         *)
(*     sessions 1..k in exchange order, each [link, exp, alive];           *)
(*     cred : the session whose credential is stored (0 = the original);   *)
(*     steps Exchange(i,t), Commit(k,t), Cancel(k,t), result "ok"|"err".   *)
(*     The driver logs per step the link states (with the in-progress      *)
(*     session's index) and cred.  Time unit = 300 s: with session TTL 3   *)
(*     and link TTLs 1 / 4 these ARE the real constants (900 s, 300 s =    *)
(*     MINIMUM_INTENT_TTL, 1200 s).                                        *)
(* L1  the property over the observed history.                             *)
(* L2  transcription of exchange_intent_credential_update,                 *)
(*     commit_credential_update, cancel_credential_update and              *)
(*     expire_credential_update_sessions (credupdatesession.rs).           *)
(***************************************************************************)
EXTENDS Integers, Sequences, FiniteSets

\* ----------------------------- L1 ---------------------------------------
\* hist: sequence of observed steps [a, i (link), k (session), t, res]; exps[i]: expiry of link i.
SessLink(hist, k) ==   \* link of the k-th successfully exchanged session
  LET ex == SelectSeq(hist, LAMBDA s : s.a = "exchange" /\ s.res = "ok") IN IF k >= 1 /\ k <= Len(ex) THEN ex[k].i ELSE 0
Commits(hist, i) == Cardinality({j \in 1..Len(hist) : hist[j].a = "commit" /\ hist[j].res = "ok" /\ SessLink(SubSeq(hist, 1, j), hist[j].k) = i})
LatestOf(hist, i) ==   \* index of the latest successfully exchanged session of link i (0: none)
  LET ex == SelectSeq(hist, LAMBDA s : s.a = "exchange" /\ s.res = "ok")
      S == {k \in 1..Len(ex) : ex[k].i = i}
  IN IF S = {} THEN 0 ELSE CHOOSE k \in S : \A m \in S : m <= k

\* judge step s taken after history hist, with stored credential cred -> cred2
L1Step(hist, exps, s, cred, cred2) ==
  /\ (s.a = "exchange" /\ s.res = "ok") =>
        /\ Commits(hist, s.i) = 0            \* not after its change committed
        /\ s.t <= exps[s.i]                  \* not after it expired
  /\ (s.a = "commit" /\ s.res = "ok") =>
        LET i == SessLink(hist, s.k) IN
        /\ i # 0
        /\ Commits(hist, i) = 0              \* at most one committed change per link
        /\ LatestOf(hist, i) = s.k           \* a superseded session cannot commit
  /\ cred2 # cred => (s.a = "commit" /\ s.res = "ok" /\ cred2 = s.k)   \* storage changes only by a commit

\* ----------------------------- L2 ---------------------------------------
\* M = [links, sess, cred]
NewLink(ttl) == [st |-> "valid", sid |-> 0, exp |-> ttl]
M0(ttls) == [links |-> [i \in 1..Len(ttls) |-> NewLink(ttls[i])], sess |-> <<>>, cred |-> 0]
Res(r, M) == [res |-> r, M |-> M]

L2Exchange(M, i, t, SessTtl) ==
  LET L == M.links[i] IN
  IF L.st = "consumed" \/ t >= L.exp THEN Res("err", M)
  ELSE LET k == Len(M.sess) + 1
           pruned == [j \in 1..Len(M.sess) |-> IF M.sess[j].exp < t THEN [M.sess[j] EXCEPT !.alive = FALSE] ELSE M.sess[j]]
       IN  Res("ok", [M EXCEPT !.links[i] = [L EXCEPT !.st = "prog", !.sid = k],
                               !.sess = Append(pruned, [link |-> i, exp |-> t + SessTtl, alive |-> TRUE])])

Usable(M, k, t) == k >= 1 /\ k <= Len(M.sess) /\ t < M.sess[k].exp /\ M.sess[k].alive
L2Commit(M, k, t) ==
  IF ~Usable(M, k, t) THEN Res("err", M)
  ELSE LET i == M.sess[k].link  L == M.links[i] IN
       IF L.st = "prog" /\ L.sid = k
       THEN Res("ok", [M EXCEPT !.links[i] = [L EXCEPT !.st = "consumed", !.sid = 0], !.sess[k].alive = FALSE, !.cred = k])
       ELSE Res("err", M)
L2Cancel(M, k, t) ==
  IF ~Usable(M, k, t) THEN Res("err", M)
  ELSE LET i == M.sess[k].link  L == M.links[i] IN
       IF L.st = "prog" /\ L.sid = k
       THEN Res("ok", [M EXCEPT !.links[i] = [L EXCEPT !.st = "valid", !.sid = 0], !.sess[k].alive = FALSE])
       ELSE Res("err", M)
L2Do(M, s, SessTtl) ==
  CASE s.a = "exchange" -> L2Exchange(M, s.i, s.t, SessTtl)
    [] s.a = "commit"   -> L2Commit(M, s.k, s.t)
    [] OTHER            -> L2Cancel(M, s.k, s.t)
\* what the driver's projection shows of M
ProjLinks(M) == [i \in 1..Len(M.links) |-> [st |-> M.links[i].st, sid |-> M.links[i].sid]]
=============================================================================
