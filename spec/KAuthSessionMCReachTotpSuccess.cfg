CONSTANTS
  MaxLen = 5
SPECIFICATION Spec
INVARIANT ReachTotpSuccess
CHECK_DEADLOCK FALSE
