------------------------------ MODULE KValidity ------------------------------
(***************************************************************************)
(* Account validity window x front-end port x asker (property C49).        *)
(* L0  an observation o = [port, asker, vf, ex, t, rel]: at time t the     *)
(*     port, asked by `asker`, authenticated the account / released the    *)
(*     credential (rel) - vf / ex are the STORED valid-from / expiry       *)
(*     (None = -1 when absent).                                            *)
(* L1  outside the window nothing is released, whoever asks.               *)
(* L2  what each port does: every port decides on the full entry with the  *)
(*     inclusive window of Account::check_within_valid_time.  The RADIUS   *)
(*     port additionally applies a strict comparison to the window as the  *)
(*     ASKER may read it (access-reduced entry): an asker whose profile    *)
(*     does not grant account_valid_from / account_expire sees that second *)
(*     window as open.  (Before fix 9e5c126 the RADIUS port applied ONLY   *)
(*     the second check: L2RelBefore, kept to document the repaired        *)
(*     defect.)                                                            *)
(***************************************************************************)
EXTENDS Integers, TLC

None == -1
Ports  == {"auth_pw", "auth_pk", "auth_genpw", "ldap_bind", "ldap_session", "ldap_token", "unix_auth", "radius",
           "unix_token", "bearer", "api", "cert", "o2_authorise", "o2_refresh", "o2_introspect",
           \* previously issued login token of a service account; the anonymous account as subject
           "bearer_st", "bearer_an", "auth_anon", "ldap_anon_bind", "ldap_token_an", "ldap_session_an"}
Askers == {"self", "rad", "ux", "anon", "internal"}

Within(t, vf, ex)  == (vf = None \/ vf <= t) /\ (ex = None \/ t <= ex)
Outside(t, vf, ex) == (vf # None /\ t < vf) \/ (ex # None /\ ex < t)

\* ------------------------------------------------------------------ L1
L1Ok(o) == Outside(o.t, o.vf, o.ex) => ~o.rel

\* ------------------------------------------------------------------ L2
\* `self` can only ask with its own token, which is refused outside the window (for every port the
\* window in the observation is the window of the account the port is about; `self` is that account)
AskerHasIdentity(asker, t, vf, ex) == asker # "self" \/ Within(t, vf, ex)
\* shipped ACPs: idm_acp_radius_servers grants name/uuid/spn/displayname/memberof/radius_secret only;
\* the account itself (idm_acp_self_read) may read its own window
SeesWindow(asker) == asker \in {"self", "internal"}
\* askers that may read the RADIUS secret at all
MayReadRadius(asker) == asker \in {"self", "rad"}
StrictWithin(t, vf, ex) == (vf = None \/ vf < t) /\ (ex = None \/ t < ex)

L2Rel(port, asker, vf, ex, t) ==
  IF ~AskerHasIdentity(asker, t, vf, ex) THEN FALSE
  ELSE IF port = "radius"
       THEN /\ MayReadRadius(asker)
            /\ Within(t, vf, ex)                                              \* full entry (fix 9e5c126)
            /\ IF SeesWindow(asker) THEN StrictWithin(t, vf, ex) ELSE TRUE    \* reduced entry
       ELSE Within(t, vf, ex)

\* the RADIUS port as it was before fix 9e5c126 (finding C49-radius-window-read-from-reduced-entry)
L2RelBefore(port, asker, vf, ex, t) ==
  IF port = "radius" /\ AskerHasIdentity(asker, t, vf, ex)
  THEN MayReadRadius(asker) /\ (IF SeesWindow(asker) THEN StrictWithin(t, vf, ex) ELSE TRUE)
  ELSE L2Rel(port, asker, vf, ex, t)
=============================================================================
