---------------------------- MODULE KAuthTokensMC ----------------------------
(* Exhaustive exploration of the implementation-shaped layer (L2) of KAuthTokens against the
   property layer (L1) for C32 / C36: one person account, login sessions written by a DELAYED
   record (so the grace window after issue is reachable), API tokens, session revocation,
   credential removal / addition, validity changes, key rotation / revocation, account deletion.
   `hist` (the action list of the behaviour) is kept out of the fingerprint by the VIEW; in
   simulation mode it is printed so the driver can replay model behaviours on the real server. *)
EXTENDS KAuthTokens, Json

CONSTANTS T,          \* time horizon 0..T
          SessLen,    \* session expiry length
          ApiLen,     \* lifetime of expiring api tokens
          MaxSess,    \* number of login sessions that may be issued
          MaxApi,     \* number of api tokens that may be issued
          MaxKeys,    \* keys per usage
          MaxCreds,   \* credential ids that may ever exist
          MaxGrants,  \* OAuth2 grants that may be issued
          VFs, EXs,   \* valid-from / expiry values an administrator may set (None = absent)
          SimDepth    \* behaviours are printed at this length in simulation mode

VARIABLES st, now, toks, pend, grants, hist
vars == <<st, now, toks, pend, grants, hist>>
View == <<st, now, toks, pend, grants>>

\* value sets for VFs / EXs (cfg files cannot write -1)
OnlyNone == {None}
NoneOr1 == {None, 1}
NoneOr2 == {None, 2}
NoneOr3 == {None, 3}

Acct == "p1"
AllCreds == {"c" \o ToString(n) : n \in 1..MaxCreds}
Sid(n) == "s" \o ToString(n)
EsKey(n) == "e" \o ToString(n)
HsKey(n) == "h" \o ToString(n)

Exists == Acct \in DOMAIN st.accts
A == st.accts[Acct]
SetA(a) == [st EXCEPT !.accts = [x \in {Acct} |-> a]]

KeysOf(u) == {k \in DOMAIN st.keys : st.keys[k].u = u}
\* get_valid_signer: newest valid key whose valid_from has started
SignKeys(u) == {k \in KeysOf(u) : st.keys[k].st = "valid" /\ st.keys[k].vf <= now}
Signer(u) == CHOOSE k \in SignKeys(u) : \A j \in SignKeys(u) : st.keys[j].vf <= st.keys[k].vf

UsedSids == DOMAIN A.sess \cup DOMAIN A.api \cup {tk.sid : tk \in toks}
NextSid == Sid(Cardinality({tk \in toks : TRUE}) + 1)

Init ==
  /\ st = [accts |-> [x \in {Acct} |-> [vf |-> None, ex |-> None, sess |-> <<>>, api |-> <<>>,
                                         o2 |-> <<>>, creds |-> <<"c1">>]],
           keys  |-> (EsKey(1) :> [st |-> "valid", u |-> "es256", vf |-> None]) @@
                     (HsKey(1) :> [st |-> "valid", u |-> "hs256", vf |-> None])]
  /\ now = 0 /\ toks = {} /\ pend = {} /\ grants = {} /\ hist = <<>>

Log(e) == hist' = Append(hist, e)

Tick == /\ now < T /\ now' = now + 1 /\ UNCHANGED <<st, toks, pend, grants>> /\ Log([a |-> "tick"])

\* interactive login with credential c: token signed now, session record queued (not yet written)
Login(c) ==
  /\ Exists /\ Within(now, A.vf, A.ex) /\ c \in CredsOf(A)
  /\ Cardinality({tk \in toks : tk.kind = "uat"}) < MaxSess
  /\ SignKeys("es256") # {}
  /\ LET sid == NextSid
         tk  == [kind |-> "uat", acct |-> Acct, sid |-> sid, exp |-> now + SessLen, iat |-> now,
                 kid |-> Signer("es256"), anon |-> FALSE, compact |-> FALSE]
     IN  /\ toks' = toks \cup {tk}
         /\ pend' = pend \cup {[sid |-> sid, exp |-> now + SessLen, cred |-> c]}
  /\ UNCHANGED <<st, now, grants>> /\ Log([a |-> "login", c |-> c])

\* the delayed AuthSessionRecord is applied (any later time, any order)
Apply(r) ==
  /\ pend' = pend \ {r}
  /\ st' = IF Exists THEN SetA(DoApply(A, r.sid, r.exp, r.cred, now)) ELSE st
  /\ UNCHANGED <<now, toks, grants>> /\ Log([a |-> "apply", s |-> r.sid])

ApiIssue(expiring, cmp) ==
  /\ Exists /\ Cardinality({tk \in toks : tk.kind = "api"}) < MaxApi
  /\ SignKeys("hs256") # {}
  /\ LET sid == NextSid
         e   == IF expiring THEN now + ApiLen ELSE None
         tk  == [kind |-> "api", acct |-> Acct, sid |-> sid, exp |-> e, iat |-> now,
                 kid |-> Signer("hs256"), anon |-> FALSE, compact |-> cmp]
     IN  /\ toks' = toks \cup {tk}
         /\ st' = SetA(DoApiAdd(A, sid, e, now))
  /\ UNCHANGED <<now, pend, grants>> /\ Log([a |-> "apiissue", e |-> expiring, cmp |-> cmp])

ApiDestroy(s) ==
  /\ Exists /\ s \in DOMAIN A.api
  /\ st' = SetA(DoApiDel(A, s, now))
  /\ UNCHANGED <<now, toks, pend, grants>> /\ Log([a |-> "apidestroy", s |-> s])

Revoke(s) ==
  /\ Exists /\ s \in LiveSess(A)
  /\ st' = SetA(DoRevoke(A, s, now))
  /\ UNCHANGED <<now, toks, pend, grants>> /\ Log([a |-> "revoke", s |-> s])

\* credential changes (credential-update session commit, or administrative purge): a credential is
\* removed, a NEW one (fresh id) is added, or one is replaced by a new one in a single change
Without(seq, c) == SelectSeq(seq, LAMBDA x : x # c)
EverCreds == CredsOf(A) \cup {A.sess[s].cred : s \in DOMAIN A.sess} \cup {r.cred : r \in pend}
FreshCred == "c" \o ToString(Cardinality(EverCreds \cup {"c1"}) + 1)
RemoveCred(c) ==
  /\ Exists /\ c \in CredsOf(A)
  /\ st' = SetA(DoSetCreds(A, Without(A.creds, c), now))
  /\ UNCHANGED <<now, toks, pend, grants>> /\ Log([a |-> "credremove", c |-> c])
AddCred ==
  /\ Exists /\ Len(A.creds) < 2 /\ Cardinality(EverCreds \cup {"c1"}) < MaxCreds
  /\ st' = SetA(DoSetCreds(A, Append(A.creds, FreshCred), now))
  /\ UNCHANGED <<now, toks, pend, grants>> /\ Log([a |-> "credadd"])
ReplaceCred(c) ==
  /\ Exists /\ c \in CredsOf(A) /\ Cardinality(EverCreds \cup {"c1"}) < MaxCreds
  /\ st' = SetA(DoSetCreds(A, Append(Without(A.creds, c), FreshCred), now))
  /\ UNCHANGED <<now, toks, pend, grants>> /\ Log([a |-> "credreplace", c |-> c])

SetValid(vf, ex) ==
  /\ Exists /\ (A.vf # vf \/ A.ex # ex)
  /\ st' = SetA(DoSetValid(A, vf, ex, now))
  /\ UNCHANGED <<now, toks, pend, grants>> /\ Log([a |-> "setvalid", vf |-> vf, ex |-> ex])

\* key_action_rotate at now: one new key per usage; key_action_revoke of one key (the plugin's
\* assert step re-creates a valid_from = 0 key when none is left for time 0)
Rotate ==
  /\ Cardinality(KeysOf("es256")) < MaxKeys
  /\ LET n == Cardinality(KeysOf("es256")) + 1
     IN st' = [st EXCEPT !.keys = (EsKey(n) :> [st |-> "valid", u |-> "es256", vf |-> now]) @@
                                   (HsKey(n) :> [st |-> "valid", u |-> "hs256", vf |-> now]) @@ st.keys]
  /\ UNCHANGED <<now, toks, pend, grants>> /\ Log([a |-> "keyrotate"])
KeyRevoke(k) ==
  /\ st.keys[k].st = "valid"
  /\ k \in {tk.kid : tk \in toks}          \* revoking a key that signed nothing is a renaming
  /\ LET u  == st.keys[k].u
         k1 == [st.keys EXCEPT ![k].st = "revoked"]
         base == {j \in DOMAIN k1 : k1[j].u = u /\ k1[j].st = "valid" /\ k1[j].vf = None}
         n  == Cardinality({j \in DOMAIN k1 : k1[j].u = u}) + 1
         nk == IF u = "es256" THEN EsKey(n) ELSE HsKey(n)
     IN  /\ (base = {} => n <= MaxKeys + 1)
         /\ st' = [st EXCEPT !.keys = IF base = {} THEN (nk :> [st |-> "valid", u |-> u, vf |-> None]) @@ k1 ELSE k1]
  /\ UNCHANGED <<now, toks, pend, grants>> /\ Log([a |-> "keyrevoke", k |-> k])

\* OAuth2: the user behind an accepted login token authorises a client; the grant's session is a child
\* of the login session.  Refresh re-issues the access token (new iat) and modifies the account.
Oid(n) == "o" \o ToString(n)
O2Grant(tk) ==
  /\ Exists /\ tk.kind = "uat" /\ L2Present(tk, st, now) = "ok" /\ Cardinality(grants) < MaxGrants
  /\ LET oid == Oid(Cardinality(grants) + 1)
         rec == [st |-> "exp", exp |-> now + SessLen + 2, iat |-> now, parent |-> tk.sid]
         a1  == [A EXCEPT !.o2 = [o \in DOMAIN A.o2 \cup {oid} |-> IF o = oid THEN rec ELSE A.o2[o]]]
     IN  /\ st' = SetA(Plugin(a1, now))
         /\ grants' = grants \cup {[acct |-> Acct, oid |-> oid, parent |-> tk.sid, iat |-> now]}
  /\ UNCHANGED <<now, toks, pend>> /\ Log([a |-> "o2grant", s |-> tk.sid])
O2Refresh(g) ==
  /\ L2O2Active(g, st, now) = "active" /\ g.iat < now
  /\ st' = SetA(Plugin(A, now))
  /\ grants' = (grants \ {g}) \cup {[g EXCEPT !.iat = now]}
  /\ UNCHANGED <<now, toks, pend>> /\ Log([a |-> "o2refresh", o |-> g.oid])

Delete ==
  /\ Exists
  /\ st' = [st EXCEPT !.accts = <<>>]
  /\ UNCHANGED <<now, toks, pend, grants>> /\ Log([a |-> "delete"])

Next ==
  \/ Tick
  \/ \E c \in AllCreds : Login(c)
  \/ \E r \in pend : Apply(r)
  \/ \E b \in BOOLEAN, cmp \in BOOLEAN : ApiIssue(b, cmp)
  \/ \E s \in {Sid(n) : n \in 1..(MaxSess + MaxApi)} : ApiDestroy(s) \/ Revoke(s)
  \/ AddCred \/ \E c \in AllCreds : RemoveCred(c) \/ ReplaceCred(c)
  \/ \E vf \in VFs, ex \in EXs : SetValid(vf, ex)
  \/ Rotate
  \/ \E k \in DOMAIN st.keys : KeyRevoke(k)
  \/ Delete
  \/ \E tk \in toks : O2Grant(tk)
  \/ \E g \in grants : O2Refresh(g)

Spec == Init /\ [][Next]_vars

\* ---- L2 meets L1 (C32): whatever the transcription accepts satisfies the property
InvC32 == \A tk \in toks : L1PresentOk(tk, st, now, L2Present(tk, st, now))
\* ---- L2 meets L1 (C36, OAuth2): a grant found usable after its grace window has a live parent session
InvO2 == \A g \in grants : L1O2Usable(g, st, now, L2O2Active(g, st, now))
\* ---- L2 meets L1 (C36): action property over every step
StepC36 == (Acct \in DOMAIN st.accts /\ Acct \in DOMAIN st'.accts) =>
              L1CredRemoval(st.accts[Acct], st'.accts[Acct])
PropC36 == [][StepC36]_vars

\* simulation mode: print the behaviour once it has SimDepth actions
PrintHist == Len(hist) # SimDepth \/ PrintT(<<"CASE", ToJson(hist)>>)
=============================================================================
