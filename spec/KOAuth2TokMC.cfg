CONSTANTS
  CodeLife = 60
  AccessLife = 900
  RefreshLife = 57600
  Grace = 300
  Deltas = {1, 900, 57600}
  MaxTicks = 2
  MaxGen = 3
  KTypes = {"basicnopkce"}
  ClientAuth = {"k1ok", "k1bad", "k2ok"}
  ScopeKinds = {"none", "wide"}
INIT Init
NEXT Next
VIEW view
INVARIANT TypeOK
CHECK_DEADLOCK FALSE
