CONSTANTS
  Mode = "ast"
  Lim = 4
  MaxLen = 6
INIT Init
NEXT Next
INVARIANT MCInv
POSTCONDITION Census
CHECK_DEADLOCK FALSE
