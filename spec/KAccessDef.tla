------------------------------ MODULE KAccessDef ------------------------------
(* C25: the shipped access controls. The configuration is DATA extracted from a fresh default server
   (`kv-access acp-extract`): D is one JSON object with
     acps  every enabled profile entry (same projection as in KAccess), ents the target entries,
     roles all built-in static groups, nonhp those whose upward closure avoids the high-privilege
     group, up[g] = g and everything g is a member of, base = memberships every person has anyway,
     hp the high-privilege group, thp / tnon high-privilege / ordinary targets, probe the acting user.
   L1 is the property: an acting user whose memberships exclude hp gets no way to change a sensitive
   attribute of a high-privilege target (unless that target was delegated to a non-HP manager). *)
EXTENDS KAccessNorm

\* credential-, session- and detail-bearing attributes of accounts; membership of groups
SensCred    == {"primary_credential", "passkeys", "attested_passkeys", "unix_password", "radius_secret",
                "ssh_publickey", "credential_update_intent_token", "api_token_session"}
SensSession == {"user_auth_token_session", "oauth2_session", "api_token_session"}
SensDetail  == {"name", "displayname", "legalname", "mail", "account_expire", "account_valid_from",
                "gidnumber", "loginshell"}
SensAcct == SensCred \cup SensSession \cup SensDetail
Sens(e) == IF "group" \in Classes(e) THEN {"member"} ELSE SensAcct

UpOf(D, g) == IF g \in DOMAIN D.up THEN Range(D.up[g]) ELSE {g}
Mo(D, R) == Range(D.base) \cup UNION {UpOf(D, g) : g \in R}
HpFree(D, mo) == D.hp \notin mo
\* delegated to a non-high-privilege entry manager: a manager that is not a group inside hp
Delegated(D, e) == \E m \in AttrVals(e, "entry_managed_by") : m \notin DOMAIN D.up \/ D.hp \notin Range(D.up[m])

\* what the acting identity may change on e according to the transcribed decision (L2)
NoY == [x \in {} |-> {}]
Changeable(S, id, e) == LET m == L2ModAccess(S, NoY, id, e) IN IF m.deny THEN {} ELSE m.pres \cup m.rem
\* the property, on the model
L1Def(D, S, id, e, isHpTarget) ==
  (HpFree(D, id.mo) /\ isHpTarget /\ ~Delegated(D, e)) => Changeable(S, id, e) \cap Sens(e) = {}
=============================================================================
