CONSTANTS
  MaxLen = 3
  SlowLen = 1
  Single = TRUE
  Emit = TRUE
INIT Init
NEXT Next
INVARIANT Inv
POSTCONDITION Post
CHECK_DEADLOCK FALSE
