----------------------------- MODULE KTxnCidMC -----------------------------
(* C07, exhaustive: every sequence of Begin(now) / Commit / Abort / Restart(now) with `now`
   chosen freely (repeats, regressions) from a small grid, against L1 `CidFresh`.
   Two uses (two families of cfg):
     KTxnCidMC.cfg     states only (VIEW hides hist), NanoMax small so the +1ns carry is reached
     KTxnCidGen<D>.cfg hist is part of the state: every behaviour of length D is printed as a
                       <<"CASE", ...>> tuple and replayed on the real server (direction A).    *)
EXTENDS KTxn
CONSTANTS Secs, Nanos, Depth, Emit,
          MaxInit, MaxBare,  \* bounds on the number of restarts of each kind in one behaviour
          NoRR               \* TRUE: never two restarts in a row (a bare restart only overwrites the previous one)
VARIABLES mem,     \* committed content of the in-memory cid_max cell
          disk,    \* persisted ts_max
          isopen,  \* a write transaction is open
          open,    \* its change identifier
          maxc,    \* greatest identifier of a committed transaction (L1 history variable)
          hist     \* the behaviour so far (short strings)
vars == <<mem, disk, isopen, open, maxc, hist>>
View == <<mem, disk, isopen, open, maxc, Len(hist)>>

Times == {Ts(s, n) : s \in Secs, n \in Nanos}
Code(k, t) == k \o ToString(t.s) \o "." \o ToString(t.n)
RCodes == {Code("r", t) : t \in Times} \cup {Code("q", t) : t \in Times}
MayRestart == IF ~NoRR THEN TRUE ELSE IF hist = <<>> THEN TRUE ELSE hist[Len(hist)] \notin RCodes
CountOf(k) == Cardinality({i \in 1..Len(hist) : hist[i] \in {Code(k, t) : t \in Times}})

Init == /\ mem = Ts(0, 0) /\ disk = Ts(0, 0) /\ maxc = Ts(0, 0)
        /\ isopen = FALSE /\ open = Ts(0, 0) /\ hist = <<>>

Begin(now) == /\ ~isopen
              /\ open' = BeginCid(now, mem) /\ isopen' = TRUE
              /\ hist' = Append(hist, Code("b", now))
              /\ UNCHANGED <<mem, disk, maxc>>
Commit == /\ isopen
          /\ mem' = open /\ disk' = open /\ maxc' = TsMax(maxc, open) /\ isopen' = FALSE
          /\ hist' = Append(hist, "c")
          /\ UNCHANGED open
Abort == /\ isopen /\ isopen' = FALSE
         /\ hist' = Append(hist, "a")
         /\ UNCHANGED <<mem, disk, maxc, open>>
\* process restart the way kanidmd does it: new() + initialise_helper() (one committed txn)
RestartInit(now) == /\ ~isopen /\ CountOf("r") < MaxInit /\ MayRestart
                    /\ mem' = BootInitCid(now, disk) /\ disk' = BootInitCid(now, disk)
                    /\ maxc' = TsMax(maxc, BootInitCid(now, disk))
                    /\ hist' = Append(hist, Code("r", now))
                    /\ UNCHANGED <<isopen, open>>
\* bare restart: only QueryServer::new() (nothing committed before the next transaction)
RestartBare(now) == /\ ~isopen /\ CountOf("q") < MaxBare /\ MayRestart
                    /\ mem' = BootMem(now, disk)
                    /\ hist' = Append(hist, Code("q", now))
                    /\ UNCHANGED <<disk, maxc, isopen, open>>

Next == /\ Len(hist) < Depth
        /\ \/ \E now \in Times : Begin(now) \/ RestartInit(now) \/ RestartBare(now)
           \/ Commit \/ Abort
Spec == Init /\ [][Next]_vars

\* ---- L1 on the model
L1CidFresh == isopen => CidFresh(open, maxc)
\* ---- implementation invariants that explain why it holds
MemCoversDisk == TsLe(disk, mem) /\ TsLe(maxc, disk)

\* ---- behaviour emission (only in Gen configs)
EmitCase == (Emit /\ Len(hist) = Depth) => PrintT(<<"CASE">> \o hist)
=============================================================================
