CONSTANTS
  MaxStore = 2
SPECIFICATION Spec
INVARIANT Inv
PROPERTY Refusal
CHECK_DEADLOCK FALSE
