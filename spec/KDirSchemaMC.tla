----------------------------- MODULE KDirSchemaMC -----------------------------
(* Exhaustive: a schema of 2 classes x 3 attributes (plus later additions of a third class / fourth attribute),
   every create request (any class subset, any attribute subset with 1 or 2 values, right or wrong syntax) and every
   single-step modify of a stored entry; the L2 server accepts exactly the requests whose candidate entry is Valid;
   L1: all stored live entries are Valid under the schema in force, also after the schema grew. *)
EXTENDS KDirSchema
CONSTANT MaxStore
VARIABLES store, schema, last

A == {"a1", "a2", "a3"}
S0 == [classes |-> [c \in {"c1", "c2"} |-> IF c = "c1" THEN [must |-> <<"a1">>, may |-> <<"a2">>] ELSE [must |-> <<>>, may |-> <<"a3">>]],
       attrs |-> [a \in A |-> IF a = "a2" THEN [multi |-> 1, syn |-> "s1"] ELSE [multi |-> 0, syn |-> IF a = "a3" THEN "s2" ELSE "s1"]]]
\* schema additions only (the property excludes deletions / narrowing)
S1 == [S0 EXCEPT !.classes = [c \in {"c1", "c2", "c3"} |-> IF c = "c3" THEN [must |-> <<"a4">>, may |-> <<"a1">>] ELSE S0.classes[c]],
                 !.attrs = [a \in A \cup {"a4"} |-> IF a = "a4" THEN [multi |-> 1, syn |-> "s2"] ELSE S0.attrs[a]]]

AttrChoices == [A \cup {"a4"} -> {[n |-> 0, syn |-> "s1"], [n |-> 1, syn |-> "s1"], [n |-> 2, syn |-> "s1"], [n |-> 1, syn |-> "s2"]}]
Cands == {[live |-> "live", classes |-> cs, attrs |-> [a \in {x \in DOMAIN f : f[x].n > 0} |-> f[a]]] :
            cs \in {<<"c1">>, <<"c2">>, <<"c1", "c2">>, <<"c3">>, <<"c1", "c3">>, <<"cx">>, <<>>}, f \in AttrChoices}

Init == store = <<>> /\ schema = S0 /\ last = "init"
Create == \E c \in Cands : Len(store) < MaxStore /\ IF Valid(c, schema) THEN store' = Append(store, c) /\ last' = "created"
                                             ELSE store' = store /\ last' = "refused"
Modify == \E i \in DOMAIN store, c \in Cands :
             IF Valid(c, schema) THEN store' = [store EXCEPT ![i] = c] /\ last' = "modified" ELSE store' = store /\ last' = "refused"
Recycle == \E i \in DOMAIN store : store' = [store EXCEPT ![i].live = "recycled"] /\ last' = "recycled"
Grow == schema = S0 /\ schema' = S1 /\ store' = store /\ last' = "schema"
Next == (Create /\ UNCHANGED schema) \/ (Modify /\ UNCHANGED schema) \/ (Recycle /\ UNCHANGED schema) \/ Grow
Spec == Init /\ [][Next]_<<store, schema, last>>
Inv == AllValid(store, schema)
Refusal == [][last' = "refused" => NothingLeftBehind(store, store')]_<<store, schema, last>>
\* vacuity: some candidates are valid and some fail for each reason
ASSUME \A w \in {"valid", "unknown-class", "missing-required", "attribute-not-allowed", "single-valued-many", "syntax"} :
          \E c \in Cands : Why(c, S1) = w
=============================================================================
