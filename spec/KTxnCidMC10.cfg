CONSTANTS
  CommitOrder = "publish_first"
  NanoMax = 3
  Secs = {0, 1, 2}
  Nanos = {0, 1, 2}
  Depth = 10
  Emit = FALSE
  MaxInit = 10
  NoRR = FALSE
  MaxBare = 10
INIT Init
NEXT Next
VIEW View
INVARIANT L1CidFresh
INVARIANT MemCoversDisk
CHECK_DEADLOCK FALSE
