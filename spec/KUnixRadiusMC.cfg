CONSTANTS
  GroupKeys = {"1", "2", "3"}
  ReqIds = {"s1", "u1", "s2", "u2", "x1"}
  MaxLen = 3
  Rep = TRUE
  Dflt = 1
  Emit = TRUE
INIT Init
NEXT Next
INVARIANT Inv
POSTCONDITION Post
CHECK_DEADLOCK FALSE
