CONSTANTS
  MaxLen = 5
SPECIFICATION Spec
INVARIANT ReachBackupSuccess
CHECK_DEADLOCK FALSE
