-------------------------------- MODULE KKeys --------------------------------
(***************************************************************************)
(* Key objects (property C34).                                             *)
(* L0  a key set is a function kid -> [u : usage, st : "valid"|"retained"| *)
(*     "revoked", vf : valid_from seconds (None = -1 = epoch 0),           *)
(*     sc : seconds of the change id of the last status change]            *)
(* L1  - a token made with a key that was EVER seen revoked on a server is *)
(*       not accepted by that server (incl. after reload / replication),   *)
(*     - a successful signature at time t uses a newest non-revoked key    *)
(*       whose valid_from has started,                                     *)
(*     - tokens of keys that are not revoked keep verifying,               *)
(*     - replication / reload never un-revoke.                             *)
(* L2  transcription of server/keys/internal.rs: `all` (kid -> key) and    *)
(*     `active` (valid_from -> kid, keyed by valid_from AS THE CODE),      *)
(*     new_active / revoke / assert_active / load, the plugin's            *)
(*     stage-then-store order, valueset merge on replication.              *)
(***************************************************************************)
EXTENDS Integers, FiniteSets, TLC

None == -1

\* ------------------------------------------------------------------ L0 / L1
OfUsage(keys, u)     == {k \in DOMAIN keys : keys[k].u = u}
NonRevoked(keys, u)  == {k \in OfUsage(keys, u) : keys[k].st # "revoked"}
Started(keys, u, t)  == {k \in NonRevoked(keys, u) : keys[k].vf <= t}
Newest(keys, u, t)   == {k \in Started(keys, u, t) : \A j \in Started(keys, u, t) : keys[j].vf <= keys[k].vf}
RevokedIn(keys)      == {k \in DOMAIN keys : keys[k].st = "revoked"}

L1Sign(keys, u, t, res, kid) == res = "ok" => kid \in Newest(keys, u, t)

L1Verify(keys, ever, kid, res) ==
  /\ kid \in ever => res # "ok"
  /\ (kid \notin ever /\ kid \in DOMAIN keys /\ keys[kid].st # "revoked") => res = "ok"

\* keys revoked at the source stay revoked (or unknown) at the destination after a successful exchange;
\* nothing ever seen revoked comes back
L1NoUnrevoke(ever, after) == \A k \in ever : k \notin DOMAIN after \/ after[k].st = "revoked"

\* ------------------------------------------------------------------ L2 (in-memory object)
\* obj = [all : kid -> [u, st, vf], active : u -> (vf -> kid)]
ActiveOf(obj, u) == IF u \in DOMAIN obj.active THEN obj.active[u] ELSE <<>>
\* get_valid_signer: last entry of active with key <= t
L2Signer(obj, u, t) ==
  LET a == ActiveOf(obj, u)
      d == {v \in DOMAIN a : v <= t}
  IN  IF d = {} THEN "none" ELSE a[CHOOSE v \in d : \A w \in d : w <= v]
L2Verify(all, kid) == IF kid \in DOMAIN all /\ all[kid].st # "revoked" THEN "ok" ELSE "err"

\* load(): active rebuilt from the stored map, one entry per valid_from; when several valid keys share a
\* valid_from the later KeyId overwrites (KeyIds are hashes: any of them may win)
Loads(all) ==
  LET us == {all[k].u : k \in DOMAIN all}
      vfs(u) == {all[k].vf : k \in {j \in OfUsage(all, u) : all[j].st = "valid"}}
      cands(u, v) == {k \in OfUsage(all, u) : all[k].st = "valid" /\ all[k].vf = v}
  IN  {[all |-> all, active |-> act] : act \in [us -> UNION {[vfs(u) -> DOMAIN all] : u \in us}]}
IsLoad(obj) ==
  /\ DOMAIN obj.active = {obj.all[k].u : k \in DOMAIN obj.all}
  /\ \A u \in DOMAIN obj.active :
       /\ DOMAIN obj.active[u] = {obj.all[k].vf : k \in {j \in OfUsage(obj.all, u) : obj.all[j].st = "valid"}}
       /\ \A v \in DOMAIN obj.active[u] :
            LET k == obj.active[u][v] IN k \in OfUsage(obj.all, u) /\ obj.all[k].st = "valid" /\ obj.all[k].vf = v

\* valueset trim: a revoked key whose status change id is older than the changelog window is dropped
\* (ValueSetKeyInternal::trim; applied to the merged valueset in replication).  A revocation therefore
\* has to be stamped with the change id of the REVOKING transaction, else it is dropped at once.
Trim(keys, now, MaxAge) ==
  LET keep == {k \in DOMAIN keys : ~(keys[k].st = "revoked" /\ keys[k].sc < now - MaxAge)}
  IN  [k \in keep |-> keys[k]]

\* valueset merge (plugin store and replication): new keys inserted, status only moves up
Rank(s) == CASE s = "valid" -> 0 [] s = "retained" -> 1 [] s = "revoked" -> 2
Merge(a, b) == [k \in DOMAIN a \cup DOMAIN b |->
                  IF k \notin DOMAIN a THEN b[k]
                  ELSE IF k \in DOMAIN b /\ Rank(b[k].st) > Rank(a[k].st) THEN b[k] ELSE a[k]]
=============================================================================
