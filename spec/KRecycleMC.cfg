CONSTANTS
  RMax = 2
  CMax = 2
  MaxLen = 5
  TMax = 9
  Sample = 60
INIT Init
NEXT Next
VIEW View
INVARIANT Soft
CHECK_DEADLOCK FALSE
