CONSTANTS
  RMax = 2
  CMax = 2
  MaxLen = 4
  TMax = 8
  Sample = 40
INIT Init
NEXT Next
VIEW View
INVARIANT Soft
CHECK_DEADLOCK FALSE
