CONSTANTS
  RMax = 2
  CMax = 2
  MaxLen = 4
  TMax = 7
  Sample = 25
INIT Init
NEXT Next
VIEW View
INVARIANT Soft
CHECK_DEADLOCK FALSE
