CONSTANTS
  Slots = {1, 2, 3}
  Names = {"n1", "n2"}
SPECIFICATION Spec
INVARIANT Mirror
INVARIANT KeysConsistent
PROPERTY RestoreKeeps
CHECK_DEADLOCK FALSE
