CONSTANTS
  Kind = "ldap"
  LeafSet = "full"
  Depth = 1
  LayoutIds = {16, 17}
  CaseCap = 30
INIT Init
NEXT Next
INVARIANT MCInv
POSTCONDITION Census
CHECK_DEADLOCK FALSE
