CONSTANTS
  MaxLen = 2
INIT Init
NEXT Next
INVARIANT Inv
INVARIANT Emit
CHECK_DEADLOCK FALSE
