----------------------------- MODULE KTxnSnapMC -----------------------------
(* C06 in the model: free interleaving of one reader (snapshot acquisition steps) and one
   committing writer (publication steps).  TLC enumerates every reachable snapshot vector of the
   reader; for every distinct vector of PROBE versions it prints one witness schedule
   <<"SCHED", "probe versions", "RWRW...">> which the driver replays on the real server with the
   H3 pause controller.  L1 on the model is reported as hypotheses (<<"MIXED", ...>>), never as
   an alarm: whether a mixed vector is observable is decided by the replay.                    *)
EXTENDS KTxn
CONSTANT Fine     \* FALSE: steps = H3 pause points (replayable); TRUE: one step per statement (model only)
VARIABLES pr,     \* reader: next step
          pw,     \* writer: next step
          pub,    \* component -> 0/1: published by the writer
          rd,     \* component -> 0/1: version in the reader's snapshot (0 until acquired)
          sched   \* the interleaving so far, one letter per released step
vars == <<pr, pw, pub, rd, sched>>
View == <<pr, pw, pub, rd>>
RSteps == IF Fine THEN ReaderStepsFine ELSE ReaderSteps
WSteps == IF Fine THEN WriterStepsFine ELSE WriterSteps
NR == Len(RSteps)
NW == Len(WSteps)

Init == /\ pr = 1 /\ pw = 1
        /\ pub = [c \in SnapComps |-> 0] /\ rd = [c \in SnapComps |-> 0] /\ sched = ""

R == /\ pr <= NR
     /\ rd' = [c \in SnapComps |-> IF c \in RSteps[pr].c THEN pub[c] ELSE rd[c]]
     /\ pr' = pr + 1 /\ sched' = sched \o "R" /\ UNCHANGED <<pw, pub>>
W == /\ pw <= NW /\ pr <= NR          \* after the reader has everything the rest is irrelevant
     /\ pub' = [c \in SnapComps |-> IF c \in WSteps[pw].c THEN 1 ELSE pub[c]]
     /\ pw' = pw + 1 /\ sched' = sched \o "W" /\ UNCHANGED <<pr, rd>>
Next == R \/ W
Spec == Init /\ [][Next]_vars

Done == pr = NR + 1
PV == ProbeVersion(rd)
\* ---- L1 on the model: hypotheses
Consistent == Done => SnapshotConsistent(PV)
\* ---- structural facts the code relies on ("take the entry cache FIRST")
CacheNeverAheadOfSqlite == Done => (rd["entry_cache"] <= rd["sqlite"] /\ rd["idl_cache"] <= rd["sqlite"]
                                     /\ rd["name_cache"] <= rd["sqlite"])
\* ---- witness emission: one line per final state (the orchestrator keeps one per probe vector)
\* (short tuples only: TLC's pretty printer re-formats tuples wider than 80 columns)
D(x) == ToString(x)
VecStr == D(PV.sch) \o D(PV.dn) \o D(PV.acp) \o D(PV.oa) \o D(PV.ea) \o D(PV.eb) \o D(PV.n2u) \o D(PV.idx)
Emit == Done => IF Fine THEN PrintT(<<"VEC", VecStr>>) ELSE PrintT(<<"SCHED", VecStr, sched>>)
=============================================================================
