CONSTANTS
  Grace = 2
  MaxAge = 1
  T = 4
  SessLen = 3
  ApiLen = 2
  MaxSess = 2
  MaxApi = 1
  MaxKeys = 1
  MaxCreds = 2
  MaxGrants = 0
  VFs <- OnlyNone
  EXs <- NoneOr2
  SimDepth = 0
INIT Init
NEXT Next
VIEW View
INVARIANT InvC32
INVARIANT InvO2
PROPERTY PropC36
CHECK_DEADLOCK FALSE
