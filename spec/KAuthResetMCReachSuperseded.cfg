CONSTANTS
  Ttl1 = 4
  Ttl2 = 2
  NL = 2
  SessTtl = 3
  MaxSess = 3
  TMax = 8
  Depth = 7
  MaxGap = 8
SPECIFICATION Spec
INVARIANT ReachSuperseded
CHECK_DEADLOCK FALSE
