CONSTANTS
  MaxAge = 604800
INIT Init
NEXT Next
INVARIANT Judge
POSTCONDITION Consumed
CHECK_DEADLOCK FALSE
