---------------------------- MODULE KStoreValTrace ----------------------------
(* Validates observations of REAL servers taken through chains of storage transitions.
   Line shapes:
     {"a":"reset","c":i,"chain":[..],"res":"ok","st":Store}
     {"a":<transition>,"c":i,"k":pos,"res":class,"st":Store}      (st = {} when the transition failed)
   Store = {entry: {"live":class, "r":{attr:obs}, "n":{attr:obs}, "p":{attr:[[outer,inner]..]}}} *)
EXTENDS KStoreVal, Json, IOUtils
Rec == ndJsonDeserialize(IOEnv.TRACE)
VARIABLE l

Init == l = 1
Next == l <= Len(Rec) /\ l' = l + 1
Spec == Init /\ [][Next]_l

StepLine(i) == Rec[i].a # "reset"

Judge == (l <= Len(Rec) /\ StepLine(l)) =>
  LET pre == Rec[l - 1].st  post == Rec[l].st  a == Rec[l].a  res == Rec[l].res
  IN /\ (res \in OkResult(a) \/ PrintT(<<"L1FAIL", "C12", l, "#transition">>))
     /\ \A e \in DOMAIN pre : (EntryKept(pre, post, e, a) \/ PrintT(<<"L1FAIL", "C12", l, e>>))
     /\ (~L1Step(pre, post, a, res) \/ L2Step(pre, post, a, res) \/ PrintT(<<"L2DRIFT", "C12", l>>))
Consumed == TLCGet("stats").distinct = Len(Rec) + 1 \/ PrintT(<<"NOTCONSUMED", TLCGet("stats").distinct, Len(Rec)>>)
=============================================================================
