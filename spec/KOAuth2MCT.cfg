CONSTANTS
  Prompts = {"", "none", "login", "consent"}
  PrevKinds = {"no", "same"}
  Regs = {"https", "http", "mixed"}
  SMaps = {"m1", "m2"}
  Sups = {"none", "g1", "all"}
  Full = TRUE
  CodeLife = 2
  AccessLife = 3
  RefreshLife = 5
INIT Init
NEXT Next
INVARIANT Inv
POSTCONDITION Vacuity
CHECK_DEADLOCK FALSE
