CONSTANTS
  MaxStore = 1
SPECIFICATION Spec
INVARIANT Inv
PROPERTY Refusal
CHECK_DEADLOCK FALSE
