------------------------------- MODULE KSyncMC -------------------------------
(* Exhaustive check (C50) of the transcribed scim_sync_apply (L2, phases 1-5) against the scope property
   (L1) over a bounded space: a population with entries owned by this agreement (s1), by another (s2),
   native, recycled, and ids that do not exist yet (an ordinary one and one in the reserved system
   range); every subset of ids in the request, attribute variants (synchronisable / yielded / foreign),
   refresh / active / stale state, retention modes, identities.
   History: before repository commit bd2dcf7 phase 2 created stubs for missing ids of the reserved range
   (DESIGN section 8 hypothesis, reproduced on the real code: finding C50-sync-creates-reserved-uuid, now
   fixed); L2 transcribes the repaired phase 2, the arm "refused-reserved-range-id" guards that path and
   every run replays the former witness on the real server. *)
EXTENDS KSync

Syncable == {"name", "description", "member"}
KAttrs == [k \in {"group"} |-> Syncable]
A == "s1"
Reserved == {"res1"}

Ent(x, live, attrs) == [id |-> x, live |-> live, sys |-> x \in Reserved, o2g |-> {}, attrs |-> attrs]
SyncObj(x, owner, live) ==
  Ent(x, live, [a \in {"class", "name", "description", "sync_parent_uuid", "uuid"} |->
       CASE a = "class" -> {"object", "group", "sync_object"} \cup (IF live = "recycled" THEN {"recycled"} ELSE {})
         [] a = "name" -> {x} [] a = "description" -> {"d1"} [] a = "uuid" -> {x} [] OTHER -> {owner}])
Native(x) == Ent(x, "live", [a \in {"class", "name", "description", "uuid"} |->
       CASE a = "class" -> {"object", "group"} [] a = "name" -> {x} [] a = "uuid" -> {x} [] OTHER -> {"d1"}])
Agreement(x, yld, cookie) ==
  Ent(x, "live", [a \in {"class", "name", "uuid"} \cup (IF yld = {} THEN {} ELSE {"sync_yield_authority"}) \cup (IF cookie THEN {"sync_cookie"} ELSE {}) |->
       CASE a = "class" -> {"object", "sync_account"} [] a = "sync_yield_authority" -> yld [] a = "sync_cookie" -> {"set"} [] OTHER -> {x}])

State(yld, cookie) ==
  [x \in {"s1", "s2", "o1", "o2", "t1", "n1", "r1"} |->
     CASE x = "s1" -> Agreement("s1", yld, cookie) [] x = "s2" -> Agreement("s2", {}, TRUE)
       [] x = "o1" -> SyncObj("o1", "s1", "live") [] x = "o2" -> SyncObj("o2", "s1", "live")
       [] x = "t1" -> SyncObj("t1", "s2", "live") [] x = "n1" -> Native("n1")
       [] OTHER -> SyncObj("r1", "s1", "recycled")]

Order == <<"o1", "t1", "n1", "r1", "new1", "res1">>
Extra == {"none", "description", "entry_managed_by"}
ReqEntries(sel, extra, ext) ==
  LET ids == SelectSeq(Order, LAMBDA x : x \in sel) IN
  [i \in DOMAIN ids |->
     [id |-> ids[i], sys |-> ids[i] \in Reserved, kind |-> "group", ext |-> ext,
      attrs |-> [a \in {"name"} \cup (IF i = 1 /\ extra # "none" THEN {extra} ELSE {}) |-> IF a = "name" THEN {ids[i]} ELSE {"v2"}]]]
Retains == {[mode |-> "ignore", ids |-> {}], [mode |-> "retain", ids |-> {"o1"}], [mode |-> "retain", ids |-> {}],
            [mode |-> "delete", ids |-> {"o2"}], [mode |-> "delete", ids |-> {"t1"}], [mode |-> "delete", ids |-> {"r1"}],
            [mode |-> "delete", ids |-> {"n1", "o2"}]}

VARIABLES sel, extra, ext, from, cookie, retain, idk, yld
vars == <<sel, extra, ext, from, cookie, retain, idk, yld>>
Init == /\ sel \in SUBSET {"o1", "t1", "n1", "r1", "new1", "res1"} /\ extra \in Extra /\ ext \in BOOLEAN
        /\ from \in {"refresh", "active", "stale"} /\ cookie \in BOOLEAN /\ retain \in Retains
        /\ idk \in {"synch", "user"} /\ yld \in {{}, {"description"}}
Next == UNCHANGED vars
Spec == Init /\ [][Next]_vars

St == State(yld, cookie)
Req == [from |-> from, entries |-> ReqEntries(sel, extra, ext), retain |-> retain]
M == SyncApply(St, A, idk, cookie, Req, KAttrs, yld)

\* effect of a successful apply on the model population (stub creation, assertion of content, deletes)
ReqOf(x) == LET i == CHOOSE j \in DOMAIN Req.entries : Req.entries[j].id = x IN Req.entries[i]
Asserted(x, old) ==
  LET r == ReqOf(x)
      kept == {a \in DOMAIN old : a \notin (KAttrs[r.kind] \ yld)}
  IN  [a \in kept \cup DOMAIN r.attrs \cup {"sync_external_id"} |->
         IF a \in DOMAIN r.attrs THEN r.attrs[a] ELSE IF a = "sync_external_id" THEN {x} ELSE old[a]]
Stub(x) == [a \in {"class", "sync_parent_uuid", "uuid"} |->
              CASE a = "class" -> {"object", "sync_object", "group"} \cup (IF x \in Reserved THEN {"builtin"} ELSE {})
                [] a = "uuid" -> {x} [] OTHER -> {A}]
Post ==
  [x \in DOMAIN St \cup M.created |->
     LET base == IF x \in DOMAIN St THEN St[x] ELSE Ent(x, "live", Stub(x))
         e1 == IF x \in ReqIds(Req) THEN [base EXCEPT !.attrs = Asserted(x, base.attrs)] ELSE base
         e2 == IF x \in M.deleted THEN [e1 EXCEPT !.live = "recycled", !.attrs = [e1.attrs EXCEPT !["class"] = @ \cup {"recycled"}]] ELSE e1
     IN  IF x = A THEN Agreement("s1", yld, TRUE) ELSE e2]

Inv == M.ok => L1Sync(A, Syncable, yld, St, Post)

ASSUME \A i \in 1..7 : TLCSet(i, 0)
Arm(i, name, cond) == (TLCGet(i) = 0 /\ cond) => (TLCSet(i, 1) /\ PrintT(<<"ARM", name>>))
Arms ==
  /\ Arm(1, "sync-ok-creates", M.ok /\ M.created # {})
  /\ Arm(2, "sync-ok-deletes", M.ok /\ M.deleted # {})
  /\ Arm(3, "refused-foreign-entry", ~M.ok /\ idk = "synch" /\ from = "refresh" /\ ext /\ extra = "none" /\ {"t1", "n1"} \cap sel # {} /\ "r1" \notin sel)
  /\ Arm(4, "refused-yielded-attribute", ~M.ok /\ yld # {} /\ extra = "description" /\ sel = {"o1"} /\ idk = "synch" /\ from = "refresh" /\ ext /\ retain.mode = "ignore")
  /\ Arm(5, "refused-out-of-scope-delete", ~M.ok /\ sel = {} /\ idk = "synch" /\ from = "refresh" /\ retain.mode = "delete" /\ retain.ids \cap {"t1", "n1"} # {})
  /\ Arm(6, "refresh-cleanup", M.ok /\ from = "refresh" /\ retain.mode = "ignore" /\ M.deleted # {})
  /\ Arm(7, "refused-reserved-range-id", ~M.ok /\ sel = {"res1"} /\ idk = "synch" /\ from = "refresh" /\ ext /\ extra = "none" /\ retain.mode = "ignore")
=============================================================================
