--------------------------- MODULE KMemberOfTrace ---------------------------
(* Validates observations of the REAL server (dirsrv history driver / C17 case driver) against
   MemberOfExact (L1) and reports lines the memberof transcription (L2) does not explain.
   Line: {a, args.., res, first?, st}.  `reset` lines and lines with first=TRUE start a history. *)
EXTENDS KMemberOf, KDir, Json, IOUtils
Rec == ndJsonDeserialize(IOEnv.TRACE)
VARIABLE l

Starts(r) == r.a = "reset" \/ ("first" \in DOMAIN r /\ r.first)

\* ------------------------------- L0: abstraction of a logged state -------------------------------
Abs(st) ==
  LET I == Ids(st) IN
  [nodes |-> I,
   isg   |-> {x \in I : st.e[x].isg},
   live  |-> {x \in I : st.e[x].lv = "live"},
   member |-> [x \in I |-> IF st.e[x].isg THEN Member(st, x) \cup DynMember(st, x) ELSE {}],
   mo   |-> [x \in I |-> Mo(st, x)],
   dmo  |-> [x \in I |-> Dmo(st, x)],
   rdmo |-> [x \in I |-> Rdmo(st, x)]]

\* nodes that appear only later are absent (not live, nothing stored) in the earlier state
Extend(s, I) ==
  LET f(fn) == [x \in I |-> IF x \in s.nodes THEN fn[x] ELSE {}]
  IN  [nodes |-> I, isg |-> s.isg, live |-> s.live, member |-> f(s.member),
       mo |-> f(s.mo), dmo |-> f(s.dmo), rdmo |-> f(s.rdmo)]
Empty == [nodes |-> {}, isg |-> {}, live |-> {}, member |-> <<>>, mo |-> <<>>, dmo |-> <<>>, rdmo |-> <<>>]

\* ------------------------------------------ L1 on a line ------------------------------------------
\* judged on every live entry whose ancestors are all part of the projection (flag cl)
Scope(st)  == {x \in LiveIds(st) : st.e[x].cl}
BadAt(st)  == LET s == Abs(st) IN {x \in Scope(st) : ~ExactAt(s, x)}
LineL1(r)  == BadAt(r.st) = {}

\* --- classification of a failing line (finding signatures; never decides pass/fail) ---
\* discrepancy triples <<"s" stale | "m" missing | "d" direct, entry, group>>
Disc(st) ==
  LET s == Abs(st) IN
  UNION {{<<"s", x, g>> : g \in Stale(s, x)} \cup {<<"m", x, g>> : g \in Missing(s, x)}
         \cup {<<"d", x, g>> : g \in SymDiff(s.dmo[x], Parents(s, x))} : x \in Scope(st)}
\* stored values of x agree with its direct parents' stored values (what one recomputation of x yields)
LocalOK(s, x) == /\ s.dmo[x] = Parents(s, x)
                 /\ s.mo[x] = Parents(s, x) \cup UNION {s.mo[p] : p \in Parents(s, x)}
LocalBad(st) == LET s == Abs(st) IN {x \in Scope(st) : ~LocalOK(s, x)}
Sig(r, pst) ==
  LET q  == Abs(r.st)
      st0 == Starts(r)
      NT == IF st0 THEN Disc(r.st) ELSE Disc(r.st) \ Disc(pst)
      NB == IF st0 THEN LocalBad(r.st) ELSE LocalBad(r.st) \ LocalBad(pst)
      Rv == IF r.a = "revive" /\ r.res = "ok" /\ ~st0 THEN q.live \ Abs(pst).live ELSE {}
      \* F1: a stored value that every node can justify from its parents' stored values, but that is not in
      \* the closure: a fixpoint of the propagation that is not the least one
      f1 == \E t \in NT : t[1] = "s" /\ LocalOK(q, t[2])
      \* F2: direct members of a group revived by this operation do not list it
      isF2(x) == /\ Rv # {} /\ q.dmo[x] \subseteq Parents(q, x) /\ (Parents(q, x) \ q.dmo[x]) \subseteq Rv
      f2 == NB # {} /\ \A x \in NB : isF2(x)
      other == NB # {} /\ ~f2
      x0 == CHOOSE x \in NB : ~isF2(x)
  IN  IF NT = {} THEN "persist"
      ELSE IF other THEN "memberof-local-inconsistent after=" \o r.a \o " kind=" \o r.st.e[x0].k
      ELSE IF f1 /\ f2 THEN "stale-memberof local=ok | revive-group-members-missing"
      ELSE IF f2 THEN "revive-group-members-missing"
      ELSE IF f1 THEN "stale-memberof local=ok"
      ELSE "persist-inherited"

\* ------------------------------------------ L2 on a line ------------------------------------------
Ix(st, x) == st.e[x].ix
AllSym(p, q) == UNION {SymDiff(p.member[g], q.member[g]) : g \in q.nodes}
\* dyngroups whose dynmember changed, or which were the target of the modify: they and all their
\* former and new members are affected (apply_dyngroup_change)
DynAff(pst, qst, tg) ==
  UNION {{d} \cup DynMember(qst, d) \cup (IF d \in Ids(pst) THEN DynMember(pst, d) ELSE {}) :
         d \in {x \in tg \cap Ids(qst) : qst.e[x].k = "dyn"}}

Predict(r, pst, qst) ==
  LET I == Ids(qst) \cup (IF Starts(r) THEN {} ELSE Ids(pst))
      p == Extend(IF Starts(r) THEN Empty ELSE Abs(pst), I)
      q == Extend(Abs(qst), I)
      withGraph(s) == [s EXCEPT !.member = q.member, !.isg = q.isg]
      a == r.a
      tgt == IF a \in {"add_member", "remove_member", "set_members"} THEN {r.g}
             ELSE IF a \in {"set_emb", "clear_emb", "rename", "set_desc"} THEN {r.id}
             ELSE IF a \in {"add_scope", "rm_scope"} THEN {r.o}
             ELSE IF a = "set_refers" THEN {r.c}
             ELSE IF a = "set_filter" THEN {r.d}
             ELSE {}
  IN
  IF r.res # "ok" \/ a \in {"reset", "noop", "purge_recycled", "purge_tombstones"} THEN p
  ELSE IF a \in {"create_group", "create_dyn", "create_person", "create_svc", "create_cert", "create_oa2", "create_batch"} THEN
       LET C == q.live \ p.live
           s1 == [withGraph(p) EXCEPT !.live = q.live]
       IN  ApplyMemberOf(s1, C \cup UNION {q.member[x] : x \in C} \cup AllSym(p, q))
  ELSE IF a = "delete" THEN
       LET D == p.live \ q.live IN Delete(p, D)
  ELSE IF a = "revive" THEN
       LET R  == q.live \ p.live
           dynIds == {d \in Ids(qst) : qst.e[d].k = "dyn"}
           \* dynmember of dyngroups is the dyngroup plugin's business: taken from the observation
           s1 == [p EXCEPT !.live = q.live, !.rdmo = [x \in I |-> IF x \in R THEN {} ELSE @[x]],
                           !.member = [x \in I |-> IF x \in dynIds \cap R THEN q.member[x] ELSE @[x]]]
           s2 == ApplyMemberOf(s1, R \cup DynAff(pst, qst, R) \cup UNION {SymDiff(p.member[d], q.member[d]) : d \in dynIds \cap R})
           G  == UNION {p.rdmo[x] : x \in R}
           RECURSIVE Go(_, _)
           Go(t, gs) == IF gs = {} THEN t
                        ELSE LET g == CHOOSE h \in gs : \A k \in gs : Ix(qst, h) <= Ix(qst, k)
                                 add == {x \in R : g \in p.rdmo[x]}
                                 isd == g \in dynIds
                                 ex == IF isd THEN {g} \cup q.member[g] \cup t.member[g] ELSE {}
                                 M == IF isd THEN q.member[g] ELSE t.member[g] \cup add
                             IN  Go(SetMembers(t, g, M, ex), gs \ {g})
       IN  Go(s2, G)
  ELSE IF a = "domain_rename" THEN (IF pst.domattr # qst.domattr THEN ApplyMemberOf(withGraph(p), p.live) ELSE p)
  ELSE ApplyMemberOf(withGraph(p), (tgt \cap I) \cup AllSym(p, q) \cup DynAff(pst, qst, tgt))

LineL2(r, pst) ==
  r.a = "reset" \/
  LET q == Abs(r.st)  m == Predict(r, pst, r.st)
  IN  /\ m.live = q.live
      /\ \A x \in q.live : m.mo[x] = q.mo[x] /\ m.dmo[x] = q.dmo[x]
      /\ \A g \in q.isg : m.member[g] = q.member[g]

Init == l = 1
Next == l <= Len(Rec) /\ l' = l + 1
Spec == Init /\ [][Next]_l

Judge == l <= Len(Rec) =>
  /\ (LineL1(Rec[l]) \/ PrintT(<<"L1FAIL", "C17", l, Sig(Rec[l], IF l > 1 THEN Rec[l - 1].st ELSE Rec[l].st)>>))
  /\ (LineL2(Rec[l], IF l > 1 THEN Rec[l - 1].st ELSE Rec[l].st) \/ PrintT(<<"L2DRIFT", "C17", l>>))
Consumed == TLCGet("stats").distinct = Len(Rec) + 1 \/ PrintT(<<"NOTCONSUMED", TLCGet("stats").distinct, Len(Rec)>>)
=============================================================================
