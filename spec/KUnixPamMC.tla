----------------------------- MODULE KUnixPamMC -----------------------------
(* C43, exhaustive: every scripted daemon conversation (continuing replies* then one deciding / fault reply,
   length <= MaxLen) x module options x the answers of the PAM application that matter for that script, and
   every fallback situation (passwd / shadow presence x hash kind x expiry x typed password x options).
   The transcription of sm_authenticate_connected / sm_authenticate_fallback (L2) is checked against the
   property (L1). With Emit = TRUE every case is printed (direction A: replayed on the real code over a
   real unix socket). Slow fault kinds (the client waits for its socket timeout) and MFAPollWait without a
   preceding MFAPoll (the client sleeps its default interval) are enumerated with default options only. *)
EXTENDS KUnix, Json
CONSTANTS MaxLen, SlowLen, Single, Emit
VARIABLE c

Has(s, k) == \E i \in 1..Len(s) : s[i] = k
\* MFAPollWait only after an earlier MFAPoll (which sets the polling interval to 0 in the replay)
WaitOk(s) == \A i \in 1..Len(s) : s[i] = "MFAPollWait" => \E j \in 1..(i - 1) : s[j] = "MFAPoll"
Prefixes(n) == {s \in SeqsUpTo(PamCont, n) : WaitOk(s)}
FastTerm == {"Success", "Denied", "Unknown", "Error", "Garbage"} \cup PamOther
SlowTerm == {"Disconnect", "Truncated"}

Dflt(s) == [kind |-> "conn", script |-> s, ufp |-> FALSE, iuu |-> FALSE, authtok |-> "none",
            pw |-> "value", mfa |-> "value", pin |-> "value", msg |-> "ok", grant |-> "ok"]
Opt(s) ==
  {x \in [kind : {"conn"}, script : {s}, ufp : BOOLEAN, iuu : BOOLEAN, authtok : {"some", "none", "err"},
          pw : {"value", "none", "err"}, mfa : {"value", "none", "err"}, pin : {"value", "none", "err", "alt"},
          msg : {"ok", "err"}, grant : {"ok", "err"}] :
     /\ (~x.ufp => x.authtok = "none")
     /\ (~Has(s, "Unknown") => ~x.iuu)
     /\ (~Has(s, "Password") => x.pw = "value")
     /\ (~Has(s, "MFACode") => x.mfa = "value")
     /\ (~(Has(s, "Pin") \/ Has(s, "SetupPin")) => x.pin = "value")
     /\ (~(Has(s, "MFAPoll") \/ Has(s, "SetupPin")) => x.msg = "ok")
     /\ (~Has(s, "DeviceGrant") => x.grant = "ok")
     \* a failing stacked token ends the call before anything else matters
     /\ ((x.ufp /\ x.authtok = "err") => (x.pw = "value" /\ x.mfa = "value" /\ x.pin = "value" /\ x.msg = "ok" /\ x.grant = "ok" /\ ~x.iuu))
     \* Single: at most one application answer deviates from the default (quick tier)
     /\ (Single => Cardinality({k \in {"pw", "mfa", "pin", "msg", "grant"} : x[k] \notin {"value", "ok"}}) <= 1)}
ConnCases ==
  UNION {Opt(p \o <<t>>) : p \in Prefixes(MaxLen - 1), t \in FastTerm}
  \cup {Dflt(p \o <<t>>) : p \in Prefixes(SlowLen), t \in SlowTerm}
  \cup {Dflt(<<"MFAPollWait", t>>) : t \in {"Success", "Denied"}}

FbCases ==
  {x \in [kind : {"fb"}, user : BOOLEAN, shadow : BOOLEAN, hash : PamHashKinds, exp : PamExpKinds,
          typed : {"right", "wrong", "none", "err"}, ufp : BOOLEAN, iuu : BOOLEAN,
          authtok : {"right", "wrong", "none", "err"}] :
     /\ (~x.ufp => x.authtok = "none")
     /\ (~(x.user /\ x.shadow) => (x.hash = "sha512" /\ x.exp = "none" /\ x.typed = "right" /\ ~x.ufp))
     /\ ((x.user /\ x.shadow) => ~x.iuu)}
Cases == ConnCases \cup FbCases

Init == c \in Cases
Next == UNCHANGED c
Spec == Init /\ [][Next]_c

Res(x) == IF x.kind = "conn" THEN PamConn(x).res ELSE PamFb(x)
Inv ==
  /\ (c.kind = "conn" => PamConnL1(c.script, PamConn(c).res, PamConn(c).n))
  /\ (c.kind = "fb" => PamFbL1(c, PamFb(c)))
  \* two-sided reading of the connected path: success exactly when the conversation reaches an explicit Success
  /\ (c.kind = "conn" => ((PamConn(c).res = "SUCCESS") <=> (PamConn(c).n = Len(c.script) /\ c.script[Len(c.script)] = "Success")))
  /\ (Emit => PrintT(<<"CASE", ToJson(c)>>))

Count(k, r) == Cardinality({x \in Cases : x.kind = k /\ Res(x) = r})
Post == /\ TLCGet("stats").distinct = Cardinality(Cases)
        /\ Count("conn", "SUCCESS") > 0 /\ Count("conn", "AUTH_ERR") > 0 /\ Count("conn", "CRED_INSUFFICIENT") > 0
        /\ Count("fb", "SUCCESS") > 0 /\ Count("fb", "ACCT_EXPIRED") > 0 /\ Count("fb", "AUTH_ERR") > 0
        /\ PrintT(<<"SPACE", Cardinality(Cases), Cardinality(ConnCases), Cardinality(FbCases),
                    Count("conn", "SUCCESS"), Count("fb", "SUCCESS")>>)
=============================================================================
