------------------------------- MODULE KRefint -------------------------------
(***************************************************************************)
(* Referential integrity (property C16).                                    *)
(*                                                                         *)
(* L0  s = [ids, lv, ref, casc]                                             *)
(*       lv[x]      "live" | "recycled" | "tombstone" | "absent"            *)
(*       ref[x][a]  set of ids held by x in reference attribute a           *)
(*       casc[x]    cascade_deleted back pointer ({} or {target})           *)
(* L1  NoDangling: every reference held by a live entry targets a live      *)
(*     entry (hence: a write creating a dangling reference was refused, a   *)
(*     delete removed the references to the deleted entries)                *)
(* L2  transcription of plugins/refint.rs + server/delete.rs + recycle.rs:  *)
(*     post-write existence check of NEWLY added targets (live only; new =  *)
(*     not yet referenced by the entry through any attribute),              *)
(*     delete = cascade over `refers` dependents, references to the deleted *)
(*     set removed from every entry (recycled included), revive = restore   *)
(*     `refers` from cascade_deleted then existence check; and the dynamic  *)
(*     group re-evaluation as dyngroup.rs performs it (apply_dyngroup_change *)
(*     searches the filter among live entries)                               *)
(***************************************************************************)
EXTENDS Naturals, FiniteSets, TLC

LvOf(s, v) == IF v \in s.ids THEN s.lv[v] ELSE "absent"
RefersOf(s, v) == IF v \in s.ids THEN s.ref[v]["refers"] ELSE {}

\* ----------------------------------- L1 -----------------------------------
Dangling(s) == {<<x, a, v>> \in s.ids \X s.attrs \X s.ids :
                  s.lv[x] = "live" /\ v \in s.ref[x][a] /\ s.lv[v] # "live"}
NoDangling(s) == Dangling(s) = {}

\* ----------------------------------- L2 -----------------------------------
\* refint post_create / post_modify: the targets that are NEW in the operation (not in the previous values)
\* must all exist as LIVE entries: check_uuids_exist_fast counts the live matches of or(uuid = v ...) and
\* compares with the number of targets (commit d4954e2; before, one f_inc query under the hidden-entry
\* mask passed as soon as no target was unknown and at least one was live).  s is the state AFTER the
\* write was applied.
NewOk(s, New) == \A v \in New : LvOf(s, v) = "live"
\* what the property asks for
NewOkL1(s, New) == \A v \in New : LvOf(s, v) = "live"

\* modify: replace x's values of attribute a by V.
\* `refers` additionally must not point at an entry that itself has `refers` (ReferenceLoop).
SetRef(s, x, a, V) ==
  LET new == V \ UNION {s.ref[x][b] : b \in s.attrs}   \* uuids new to the ENTRY (cand_references_to_uuid_filter
                                                       \* diffs the union over all reference attributes)
      s1  == [s EXCEPT !.ref[x][a] = V]
      ok  == /\ s.lv[x] = "live"
             /\ NewOk(s1, new)
             /\ (a = "refers" => \A v \in V : RefersOf(s, v) = {})
  IN  IF ok THEN [st |-> s1, res |-> "ok"]
      ELSE [st |-> s, res |-> IF s.lv[x] = "live" THEN "err" ELSE "ok"]  \* internal modify of a non-match: ok, no effect

\* delete of live entries D (delete.rs + refint post_delete)
Delete(s, D) ==
  LET dep == {d \in s.ids : s.lv[d] = "live" /\ d \notin D /\ s.ref[d]["refers"] \cap D # {}}
      all == D \cup dep
      s1  == [s EXCEPT !.lv = [x \in s.ids |-> IF x \in all THEN "recycled" ELSE @[x]],
                       !.casc = [x \in s.ids |-> IF x \in dep THEN s.ref[x]["refers"] ELSE @[x]]]
  IN  [s1 EXCEPT !.ref = [x \in s.ids |-> [a \in s.attrs |-> s.ref[x][a] \ all]]]

\* ONE revive over the ids X0 (recycle.rs): the recycled ones among them and every recycled entry
\* cascade-deleted behind one of them; `refers` restored from cascade_deleted; refint checks the restored
\* references (live targets only).
Revive(s, X0) ==
  LET X  == {x \in X0 \cap s.ids : s.lv[x] = "recycled"}
      R  == X \cup {d \in s.ids : s.lv[d] = "recycled" /\ s.casc[d] # {} /\ s.casc[d] \subseteq X}
      s1 == [s EXCEPT !.lv = [y \in s.ids |-> IF y \in R THEN "live" ELSE @[y]],
                      !.ref = [y \in s.ids |-> IF y \in R /\ s.casc[y] # {}
                                               THEN [s.ref[y] EXCEPT !["refers"] = s.casc[y]] ELSE @[y]],
                      !.casc = [y \in s.ids |-> IF y \in R THEN {} ELSE @[y]]]
      ok == \A y \in R : \A v \in s1.ref[y]["refers"] \ s.ref[y]["refers"] : LvOf(s1, v) = "live"
  IN  IF X = {} THEN [st |-> s, res |-> "ok"]
      ELSE IF ok THEN [st |-> s1, res |-> "ok"] ELSE [st |-> s, res |-> "err"]

\* purge_recycled / purge_tombstones only change liveness classes of non-live entries
Purge(s, P)  == [s EXCEPT !.lv = [x \in s.ids |-> IF x \in P /\ @[x] = "recycled" THEN "tombstone" ELSE @[x]],
                          !.ref = [x \in s.ids |-> IF x \in P /\ s.lv[x] = "recycled" THEN [a \in s.attrs |-> {}] ELSE @[x]],
                          !.casc = [x \in s.ids |-> IF x \in P /\ s.lv[x] = "recycled" THEN {} ELSE @[x]]]
Reap(s, P)   == [s EXCEPT !.lv = [x \in s.ids |-> IF x \in P /\ @[x] = "tombstone" THEN "absent" ELSE @[x]],
                          !.ref = [x \in s.ids |-> IF x \in P /\ s.lv[x] = "tombstone" THEN [a \in s.attrs |-> {}] ELSE @[x]]]

\* dyngroup.rs apply_dyngroup_change for dynamic group d whose filter matches the set C of entries
\* by attribute values: the search is restricted to live entries (commit 1d61d90).
DynReeval(s, d, C) ==
  [s EXCEPT !.ref[d]["dynmember"] = {c \in C : s.lv[c] = "live"}]
=============================================================================
