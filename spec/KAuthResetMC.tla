----------------------------- MODULE KAuthResetMC -----------------------------
(* Exhaustive: all interleavings of exchange / commit / cancel over NL links and at most MaxSess
   sessions, at strictly increasing times 1..TMax, up to Depth steps; L2 against L1 on every step.
   With Emit the same run prints every maximal behaviour as <<"CASE", json>> for replay.        *)
EXTENDS KAuthReset, Json, TLC
CONSTANTS Ttl1, Ttl2, NL, SessTtl, MaxSess, TMax, Depth, MaxGap
Ttls == IF NL = 1 THEN <<Ttl1>> ELSE <<Ttl1, Ttl2>>
VARIABLES M, now, hist, ok
vars == <<M, now, hist, ok>>
Init == M = M0(Ttls) /\ now = 0 /\ hist = <<>> /\ ok = TRUE
Step(s) == LET o == L2Do(M, s, SessTtl) s2 == [s EXCEPT !.res = o.res] IN
           /\ ok' = L1Step(hist, [i \in 1..NL |-> Ttls[i]], s2, M.cred, o.M.cred)
           /\ M' = o.M /\ now' = s.t /\ hist' = Append(hist, s2)
Next == /\ Len(hist) < Depth
        /\ \E t \in (now + 1)..TMax :
             /\ t <= now + MaxGap
             /\ \/ \E i \in 1..NL : Len(M.sess) < MaxSess /\ Step([a |-> "exchange", i |-> i, k |-> 0, t |-> t, res |-> ""])
                \/ \E k \in 1..Len(M.sess) : \E a \in {"commit", "cancel"} : Step([a |-> a, i |-> 0, k |-> k, t |-> t, res |-> ""])
Spec == Init /\ [][Next]_vars
Inv == ok
Emit == (Len(hist) = Depth \/ now = TMax) => PrintT(<<"CASE", ToJson([ttls |-> Ttls, evs |-> hist])>>)
\* vacuity guards (each VIOLATED when checked alone)
ReachSuperseded == ~(\E j \in 1..Len(hist) : hist[j].a = "commit" /\ hist[j].res = "err" /\ hist[j].k < Len(M.sess) /\ M.sess[hist[j].k].alive)
ReachTwoCommits == ~(Cardinality({j \in 1..Len(hist) : hist[j].a = "commit" /\ hist[j].res = "ok"}) = 2)
ReachExpired    == ~(\E j \in 1..Len(hist) : hist[j].a = "exchange" /\ hist[j].res = "err" /\ M.links[hist[j].i].st = "valid")
ReachReExchange == ~(\E j \in 1..Len(hist) : hist[j].a = "cancel" /\ hist[j].res = "ok" /\ \E m \in (j + 1)..Len(hist) : hist[m].a = "exchange" /\ hist[m].res = "ok")
=============================================================================
