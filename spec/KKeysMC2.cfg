CONSTANTS
  T = 2
  MaxKeys = 2
  Servers = {"A", "B"}
  MaxAge = 2
  StampOnRevoke = TRUE
  ReloadOnCommit = TRUE
INIT Init
NEXT Next
INVARIANT InvVerify
INVARIANT InvSign
INVARIANT InvSignNow
INVARIANT InvNoUnrevoke
INVARIANT InvMemIsStored
CHECK_DEADLOCK FALSE
