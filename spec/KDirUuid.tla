------------------------------- MODULE KDirUuid -------------------------------
(***************************************************************************)
(* UUID immutability and protection of the system range (property C20;      *)
(* the "base" section of the KDirectory family of DESIGN.md section 5).     *)
(*                                                                         *)
(* L0  a store maps an ENTRY IDENTITY (the backend id, which survives any   *)
(*     change of attributes) to [u: uuid, live: liveness class].  A uuid is  *)
(*     the tuple of its six 24-bit chunks, most significant first; the      *)
(*     reserved system range 00000000-0000-0000-0000-* is "chunks 1..4 = 0". *)
(* L1  after any request of a USER (whatever access controls grant):        *)
(*       - every pre-existing entry still has its uuid,                     *)
(*       - no new entry has a uuid in the reserved range,                   *)
(*       - no built-in entry (reserved uuid) stopped being live.            *)
(*     One-sided: refusing anything is fine.                                *)
(* L2  decision table transcribed from plugins/base.rs (pre_create_transform,*)
(*     pre_modify, pre_batch_modify) and access/delete.rs                   *)
(*     (protected_filter_entry), applied to the abstract store.            *)
(***************************************************************************)
EXTENDS Naturals, Sequences, FiniteSets, TLC

\* ----------------------------- L0 ---------------------------------------
Reserved(u) == \A i \in 1..4 : u[i] = 0
BuiltIn(s, i) == Reserved(s[i].u)

\* ----------------------------- L1 ---------------------------------------
UuidKept(pre, post, i) == i \in DOMAIN post => post[i].u = pre[i].u
\* a pre-existing entry may disappear only by a legitimate delete -> it is then recycled, not gone;
\* an entry identity that vanishes altogether has lost its uuid as well.
StillThere(pre, post, i) == i \in DOMAIN post
NoNewReserved(pre, post) == \A i \in DOMAIN post \ DOMAIN pre : ~Reserved(post[i].u)
BuiltInLive(pre, post, i) == (BuiltIn(pre, i) /\ pre[i].live = "live") => (i \in DOMAIN post /\ post[i].live = "live")

L1Entry(pre, post, i) == StillThere(pre, post, i) /\ UuidKept(pre, post, i) /\ BuiltInLive(pre, post, i)
L1Step(pre, post) == NoNewReserved(pre, post) /\ \A i \in DOMAIN pre : L1Entry(pre, post, i)

\* ----------------------------- L2 ---------------------------------------
\* Abstract requests (the finite alphabet):
\*  [op |-> "modify"|"batch", kind |-> "present"|"removed"|"purged"|"set"|"assert", attr |-> "uuid"|"other",
\*   target |-> "user"|"builtin" (user = a named account and an entry without unique attributes), val |-> "same"|"dyn"|"reserved"|"illtyped"|"none", pos |-> "only"|"first"|"last"]
\*  [op |-> "create", how |-> "reserved_free"|"reserved_dup"|"anonymous"|"doesnotexist"|"dynmin"|"dynamic"|"absent"
\*                         |"dup_user"|"dup_recycled"|"two_values"|"two_same"|"mixed_reserved"]
\*  [op |-> "delete", target |-> "builtin"|"user"|"all"|"user_or_builtin"|"recycled"]
ModKinds == {"present", "removed", "purged", "set", "assert", "swap", "purgeswap", "setrename"}
\* swap = removed(same)+present(v); purgeswap = purged+present(v); setrename = set(v) + a fresh unique name in the same request
ValsOf(kind) == IF kind = "purged" THEN {"none"} ELSE IF kind \in {"swap", "purgeswap", "setrename"} THEN {"dyn", "reserved"} ELSE {"same", "dyn", "reserved"} \cup (IF kind = "present" THEN {"illtyped"} ELSE {})
ModReqs == {[op |-> o, kind |-> k, attr |-> "uuid", target |-> t, val |-> v, pos |-> p] :
               o \in {"modify", "batch"}, k \in ModKinds, t \in {"user", "builtin"}, v \in {"same", "dyn", "reserved", "illtyped", "none"},
               p \in {"only", "first", "last"}}
ModUuidReqs == {r \in ModReqs : r.val \in ValsOf(r.kind)}
ModOtherReqs == {[op |-> o, kind |-> k, attr |-> "other", target |-> t, val |-> "none", pos |-> "only"] :
               o \in {"modify", "batch"}, k \in {"present", "removed", "purged", "set"}, t \in {"user", "builtin"}}
CreateHows == {"reserved_free", "reserved_dup", "anonymous", "doesnotexist", "dynmin", "dynamic", "absent",
               "dup_user", "dup_recycled", "two_values", "two_same", "mixed_reserved"}
CreateReqs == {[op |-> "create", how |-> h] : h \in CreateHows}
DeleteReqs == {[op |-> "delete", target |-> t] : t \in {"builtin", "user", "all", "user_or_builtin", "recycled"}}
Alphabet == ModUuidReqs \cup ModOtherReqs \cup CreateReqs \cup DeleteReqs

\* The decision table: predicted result class ("ok" / "refused") of a request.
L2Result(r) ==
  IF r.op \in {"modify", "batch"} THEN
       IF r.target = "builtin" THEN "refused"                         \* access layer: built-in entries are not user-modifiable
       ELSE IF r.attr = "other" THEN "ok"
       ELSE IF r.val = "illtyped" THEN "refused"                      \* schema validation of the modify list
       ELSE IF r.kind = "assert" THEN (IF r.val = "same" THEN "ok" ELSE "refused")   \* assert changes nothing
       ELSE "refused"                                                 \* Base::pre_modify: SystemProtectedAttribute
  ELSE IF r.op = "create" THEN
       IF r.how \in {"dynmin", "dynamic", "absent"} THEN "ok" ELSE "refused"
  ELSE \* delete
       IF r.target \in {"user"} THEN "ok" ELSE "refused"              \* protected_filter_entry denies built-ins; recycled not matched

\* Effect on the abstract store: refused -> unchanged; ok -> uuids of old entries unchanged, a create adds an
\* entry with a non-reserved uuid, a delete recycles the user entry.
L2Step(pre, post, r, res) ==
  /\ (res = "ok") = (L2Result(r) = "ok")
  /\ res # "ok" => post = pre
  /\ res = "ok" => /\ L1Step(pre, post)
                   /\ r.op = "create" => Cardinality(DOMAIN post \ DOMAIN pre) = 1
                   /\ r.op # "create" => DOMAIN post = DOMAIN pre
=============================================================================
