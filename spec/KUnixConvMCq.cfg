CONSTANTS
  MaxEnv = 2
  FirstInit = TRUE
  Emit = TRUE
INIT Init
NEXT Next
INVARIANT ProbeSafe
INVARIANT EmitInv
CHECK_DEADLOCK FALSE
