-------------------------- MODULE KAuthPwQualityTrace --------------------------
(* Validates observed password-setting requests on the REAL server (C31).  One line per request:
   {"a":"setpw","path":P,"pols":[group policy...],"glen":G,"blen":B,"bad":0|1,
    "res":"ok"|"err","why":W,"stored":0|1}
   pols = the account-policy attributes of every group the account is a member of (KAuthPolicy
   shape); the effective minimum / maximum are computed HERE by the fold.                      *)
EXTENDS KAuthPwQuality, KAuthPolicy, Json, IOUtils, TLC
CONSTANTS FixMin
Rec == ndJsonDeserialize(IOEnv.TRACE)
VARIABLE l
RangeOf(s) == {s[i] : i \in 1..Len(s)}
NormCa(ca) == [has |-> ca.has, l |-> [c \in DOMAIN ca.l |-> RangeOf(ca.l[c])]]
NormPol(p) == [pe |-> p.pe, se |-> p.se, ml |-> p.ml, ct |-> p.ct, ca |-> NormCa(p.ca)]
Eff(r) == Fold([i \in 1..Len(r.pols) |-> NormPol(r.pols[i])])
LineL1(r) == r.stored = 1 => L1Stored(Eff(r).ml, Eff(r).mx, r.glen, r.blen, r.bad)
LineExact(r) == r.stored = 1 => UnitExact(Eff(r).ml, Eff(r).mx, r.glen, r.blen, r.bad)
LineL2(r) == LET w == L2Why(r.path, Eff(r).ml, Eff(r).mx, FixMin, r.glen, r.blen, r.bad) IN
             /\ (r.stored = 1) = (r.res = "ok")
             \* the zxcvbn score is not transcribed: a refusal for weakness is explained whenever the
             \* transcribed length checks pass (it precedes the badlist check; the direct path reports
             \* weakness as "badlisted", or as InvalidState when zxcvbn has no feedback for the score)
             /\ IF w \in {"ok", "badlisted"}
                THEN r.why \in ({w, "weak"} \cup (IF r.path = "direct_unix" THEN {"badlisted", "other:err:InvalidState"} ELSE {}))
                ELSE r.why = w
Init == l = 1
Next == l <= Len(Rec) /\ l' = l + 1
Judge == l <= Len(Rec) =>
           /\ (LineL1(Rec[l]) \/ PrintT(<<"L1FAIL", "C31", l, Rec[l].path>>))
           /\ (LineExact(Rec[l]) \/ PrintT(<<"UNITGAP", "C31", l>>))
           /\ (LineL2(Rec[l]) \/ PrintT(<<"L2DRIFT", "C31", l>>))
Consumed == TLCGet("stats").distinct = Len(Rec) + 1 \/ PrintT(<<"NOTCONSUMED", TLCGet("stats").distinct, Len(Rec)>>)
=============================================================================
