-------------------------------- MODULE KRepl --------------------------------
(***************************************************************************)
(* Multi-replica changelog replication of kanidm (properties C08 C09 C19,  *)
(* uses C10's KRange).                                                     *)
(*                                                                         *)
(* L0  per replica: entries (absent / live with per-attribute change ids / *)
(*     tombstone), conflict entries, RUV (set of change ids).              *)
(* L1  Converged, NoResurrection, UniqueLive (bottom of the file).         *)
(* L2  local writes stamped with a change id; Repl(s,c) = consumer_get_state*)
(*     -> supplier_provide_changes (range_diff, entries touched in the     *)
(*     supplied windows, ATTRIBUTES FILTERED TO THOSE WHOSE CID LIES IN    *)
(*     THE WINDOW: repl/proto.rs ReplIncrementalEntryV1::new) ->           *)
(*     consumer_apply_changes (is_add_conflict / resolve_add_conflict /    *)
(*     merge_state per attribute with mergeable valuesets / tombstone arms *)
(*     / RUV update with the supplier's ranges): entry.rs, consumer.rs.    *)
(***************************************************************************)
EXTENDS Naturals, FiniteSets, Sequences, TLC, KRange

CONSTANTS N,        \* number of replicas, named 1..N (the order of server uuids)
          Ids,      \* entry ids that exist everywhere initially (created by replica 1 at time 0)
          NewIds,   \* entry ids that may be created later (possibly on several replicas: uuid conflicts)
          Sids,     \* session ids
          MaxTs,    \* timestamps 1..MaxTs for local writes
          MaxRepl,  \* bound on exchanges
          MaxWrites,\* bound on local writes
          RecycleAge, \* recycle-bin retention in model time units (0 = purge allowed at once)
          Window,   \* changelog window in model time units (0 = no trimming action)
          MergeRestamp, \* BOOLEAN: merged valueset content is re-stamped with the consumer's change id (fixed tree)
          NoSkew,   \* BOOLEAN: clocks are causally consistent (a write is stamped later than every change the
                    \* replica has already received); FALSE also explores replicas whose clock lags behind
          EnableRename, \* BOOLEAN: include renames into a shared name pool (needs the attrunique conflict model)
          EnableClear   \* BOOLEAN: include purging the last-writer-wins attribute (value DnNone = attribute absent)

Replicas == 1..N
AllIds   == Ids \cup NewIds
Names    == {"p", "q"}                \* pool for the unique attribute
DefName(u) == ToString(u)             \* default (distinct) name of an id
NoCid    == <<0, 0>>
Cids     == (0..MaxTs) \X (0..N)
CidLt(a, b) == a[1] < b[1] \/ (a[1] = b[1] /\ a[2] < b[2])
CidMax(a, b) == IF CidLt(a, b) THEN b ELSE a

VARIABLES ent,     \* [Replicas -> [AllIds -> entry]]
          cnf,     \* [Replicas -> SUBSET conflict records]
          ruv,     \* [Replicas -> SUBSET Cids]
          nrepl, nwrites,
          hist,    \* sequence of operations performed (exported for replay; hidden by VIEW)
          purged,  \* ids that were purged to a tombstone somewhere (for NoDroppedDeletion)
          arms     \* which arms of the consumer's apply logic the last exchange took (coverage export; hidden)
vars == <<ent, cnf, ruv, nrepl, nwrites, hist, purged, arms>>
View == <<ent, cnf, ruv, nrepl, nwrites, purged>>

\* ---------------------------------------------------------------- L0: entries
\* session state record: st = 0 absent, 1 live (expires far in the future), 2 revoked at cid c
SNone == [st |-> 0, c |-> NoCid]
SLive == [st |-> 1, c |-> NoCid]
SRev(c) == [st |-> 2, c |-> c]
\* session lattice (value.rs Ord for SessionState): revoked (earlier cid greater) > live > absent
SesGt(x, y) ==   \* x > y
  IF x.st = 2 /\ y.st = 2 THEN CidLt(x.c, y.c) ELSE x.st > y.st
Attrs == {"dn", "cls", "ses", "nm"}
Absent == [k |-> "absent"]
NewLive(c, name) == [k |-> "live", at |-> c, ch |-> [a \in Attrs |-> c],
                     dn |-> 0, cls |-> "n", nm |-> name, ses |-> [s \in Sids |-> SNone]]
Tomb(c) == [k |-> "tomb", at |-> c]

IsLive(e)   == e.k = "live"
IsNormal(e) == e.k = "live" /\ e.cls = "n"          \* live and not recycled / conflicted
CidsOf(e)   == IF e.k = "live" THEN {e.at} \cup {e.ch[a] : a \in Attrs}
               ELSE IF e.k = "tomb" THEN {e.at} ELSE {}

\* ValueSetSession::repl_merge_valueset(self = newer, older): per key, older replaces only if greater
MergeSes(newer, older) == [s \in Sids |-> IF SesGt(older[s], newer[s]) THEN older[s] ELSE newer[s]]

\* ---------------------------------------------------------------- RUV ranges (feeds KRange)
SrvOf(S) == {x[2] : x \in S}
TsOf(S, srv) == {x[1] : x \in {y \in S : y[2] = srv}}
MinOf(T) == CHOOSE m \in T : \A o \in T : m <= o
MaxOf(T) == CHOOSE m \in T : \A o \in T : m >= o
Ranges(S) == [srv \in SrvOf(S) |-> Win(MinOf(TsOf(S, srv)), MaxOf(TsOf(S, srv)))]

OwnMax(r) == IF TsOf(ruv[r], r) = {} THEN 0 ELSE MaxOf(TsOf(ruv[r], r))

\* ---------------------------------------------------------------- L2: local writes
Stamp(r, ts) == /\ ts \in 1..MaxTs /\ ts > OwnMax(r)
                /\ NoSkew => \A x \in ruv[r] : ts > x[1]
Log(op) == hist' = Append(hist, op)

Write(r, u, newe, c, op) ==
  /\ nwrites < MaxWrites
  /\ ent' = [ent EXCEPT ![r][u] = newe]
  /\ ruv' = [ruv EXCEPT ![r] = @ \cup {c}]
  /\ nwrites' = nwrites + 1
  /\ Log(op)
  /\ arms' = {}
  /\ purged' = IF op.op = "purge" THEN purged \cup {u} ELSE purged
  /\ UNCHANGED <<cnf, nrepl>>

\* attrunique on create / rename: refused when another NORMAL entry on this replica has the name
NameFree(r, u, name) == ~EnableRename \/ \A v \in AllIds \ {u} : ~(IsNormal(ent[r][v]) /\ ent[r][v].nm = name)

Create(r, u, ts, name) ==
  /\ u \in NewIds /\ (IF EnableRename THEN name \in Names ELSE name = DefName(u)) /\ ent[r][u].k = "absent" /\ Stamp(r, ts) /\ NameFree(r, u, name)
  /\ Write(r, u, NewLive(<<ts, r>>, name), <<ts, r>>, [op |-> "create", r |-> r, e |-> u, t |-> ts, name |-> name])

SetDn(r, u, ts, v) ==
  /\ IsNormal(ent[r][u]) /\ Stamp(r, ts) /\ v \in {1, 2}
  /\ Write(r, u, [ent[r][u] EXCEPT !.dn = v, !.ch["dn"] = <<ts, r>>], <<ts, r>>,
           [op |-> "setdn", r |-> r, e |-> u, t |-> ts, v |-> v])

\* purge of the attribute: the entry keeps a change id for an attribute it no longer has (entry.rs merge_state arms
\* (Some, None) / (None, Some) / (None, None))
DnNone == 9
ClearDn(r, u, ts) ==
  /\ EnableClear /\ IsNormal(ent[r][u]) /\ ent[r][u].dn # DnNone /\ Stamp(r, ts)
  /\ Write(r, u, [ent[r][u] EXCEPT !.dn = DnNone, !.ch["dn"] = <<ts, r>>], <<ts, r>>,
           [op |-> "cleardn", r |-> r, e |-> u, t |-> ts])

Rename(r, u, ts, name) ==
  /\ EnableRename /\ IsNormal(ent[r][u]) /\ Stamp(r, ts) /\ NameFree(r, u, name) /\ ent[r][u].nm # name
  /\ Write(r, u, [ent[r][u] EXCEPT !.nm = name, !.ch["nm"] = <<ts, r>>], <<ts, r>>,
           [op |-> "rename", r |-> r, e |-> u, t |-> ts, name |-> name])

AddSes(r, u, ts, s) ==
  /\ IsNormal(ent[r][u]) /\ ent[r][u].ses[s].st = 0 /\ Stamp(r, ts)
  /\ Write(r, u, [ent[r][u] EXCEPT !.ses[s] = SLive, !.ch["ses"] = <<ts, r>>], <<ts, r>>,
           [op |-> "addses", r |-> r, e |-> u, t |-> ts, sid |-> s])

RevSes(r, u, ts, s) ==
  /\ IsNormal(ent[r][u]) /\ ent[r][u].ses[s].st = 1 /\ Stamp(r, ts)
  /\ Write(r, u, [ent[r][u] EXCEPT !.ses[s] = SRev(<<ts, r>>), !.ch["ses"] = <<ts, r>>], <<ts, r>>,
           [op |-> "revses", r |-> r, e |-> u, t |-> ts, sid |-> s])

Delete(r, u, ts) ==
  /\ IsNormal(ent[r][u]) /\ Stamp(r, ts)
  /\ Write(r, u, [ent[r][u] EXCEPT !.cls = "r", !.ch["cls"] = <<ts, r>>], <<ts, r>>,
           [op |-> "delete", r |-> r, e |-> u, t |-> ts])

Revive(r, u, ts) ==
  /\ IsLive(ent[r][u]) /\ ent[r][u].cls = "r" /\ Stamp(r, ts) /\ NameFree(r, u, ent[r][u].nm)
  /\ Write(r, u, [ent[r][u] EXCEPT !.cls = "n", !.ch["cls"] = <<ts, r>>], <<ts, r>>,
           [op |-> "revive", r |-> r, e |-> u, t |-> ts])

Purge(r, u, ts) ==    \* recycled -> tombstone (purge_recycled; the retention timer is abstracted)
  /\ IsLive(ent[r][u]) /\ ent[r][u].cls = "r" /\ Stamp(r, ts) /\ ts >= ent[r][u].ch["cls"][1] + RecycleAge
  /\ Write(r, u, Tomb(<<ts, r>>), <<ts, r>>, [op |-> "purge", r |-> r, e |-> u, t |-> ts])

\* purge_tombstones: an anchor change id is written, change ids older than the changelog window leave the
\* RUV, tombstones older than the window are removed for good
Trim(r, ts) ==
  /\ Window > 0 /\ Stamp(r, ts) /\ ts > Window /\ nwrites < MaxWrites
  /\ LET cut == ts - Window IN
       /\ ruv' = [ruv EXCEPT ![r] = {x \in @ : x[1] >= cut} \cup {<<ts, r>>}]
       /\ ent' = [ent EXCEPT ![r] = [u \in AllIds |-> IF @[u].k = "tomb" /\ @[u].at[1] < cut THEN Absent ELSE @[u]]]
  /\ nwrites' = nwrites + 1
  /\ Log([op |-> "trim", r |-> r, t |-> ts])
  /\ arms' = {}
  /\ UNCHANGED <<cnf, nrepl, purged>>

\* ---------------------------------------------------------------- L2: one incremental exchange
\* merge_state for two LIVE states with equal `at` (left = incoming, right = db)
MergeLive(inc, db, tc) ==
  LET sent == inc.sent     \* attribute names carried by the message
      pick(a) == IF a \in sent /\ CidLt(db.ch[a], inc.ch[a]) THEN "left" ELSE "right"
      \* mergeable valueset: when both sides have the attribute the NEWER side is `self` and absorbs
      \* the older one's content (entry.rs merge_state)
      newerSes == IF pick("ses") = "left" THEN inc.ses ELSE db.ses
      mergedSes == IF "ses" \notin sent THEN db.ses
                   ELSE IF pick("ses") = "left" THEN MergeSes(inc.ses, db.ses) ELSE MergeSes(db.ses, inc.ses)
      \* MergeRestamp = FALSE: the change id stays the newer side's although the content changed (base tree);
      \* MergeRestamp = TRUE: content that differs from the newer side is stamped with the consumer's
      \* transaction change id tc, so it is supplied onward (the `fix:` of C08/C11)
      restamp == MergeRestamp /\ "ses" \in sent /\ mergedSes # newerSes
      newch == [a \in Attrs |-> IF a = "ses" /\ restamp THEN tc
                                ELSE IF pick(a) = "left" THEN inc.ch[a] ELSE db.ch[a]]
  IN [k |-> "live", at |-> db.at, ch |-> newch,
      dn  |-> IF pick("dn")  = "left" THEN inc.dn  ELSE db.dn,
      cls |-> IF pick("cls") = "left" THEN inc.cls ELSE db.cls,
      nm  |-> IF pick("nm")  = "left" THEN inc.nm  ELSE db.nm,
      ses |-> mergedSes]
Restamped(inc, db) ==
  /\ MergeRestamp /\ inc.k = "live" /\ db.k = "live" /\ inc.at = db.at /\ "ses" \in inc.sent
  /\ LET newer == IF CidLt(db.ch["ses"], inc.ch["ses"]) THEN inc.ses ELSE db.ses
         merged == IF CidLt(db.ch["ses"], inc.ch["ses"]) THEN MergeSes(inc.ses, db.ses) ELSE MergeSes(db.ses, inc.ses)
     IN merged # newer

\* entry as created from a message when the consumer has nothing (stub + merge): only what was sent
FromMsg(inc) ==
  [k |-> "live", at |-> inc.at, ch |-> [a \in Attrs |-> IF a \in inc.sent THEN inc.ch[a] ELSE NoCid],
   dn |-> IF "dn" \in inc.sent THEN inc.dn ELSE 0, cls |-> IF "cls" \in inc.sent THEN inc.cls ELSE "n",
   nm |-> IF "nm" \in inc.sent THEN inc.nm ELSE "", ses |-> IF "ses" \in inc.sent THEN inc.ses ELSE [s \in Sids |-> SNone]]

\* result of applying one incoming entry state to the consumer's entry; also says whether the
\* consumer (as origin of the losing side) creates a conflict entry
ApplyOne(c, inc, db, tc) ==
  IF inc.k = "tomb" THEN
       IF db.k = "tomb" THEN [e |-> IF CidLt(inc.at, db.at) THEN Tomb(inc.at) ELSE db, cf |-> {}]
       ELSE [e |-> Tomb(inc.at), cf |-> {}]
  ELSE IF db.k = "tomb" THEN [e |-> db, cf |-> {}]
  ELSE IF db.k = "absent" THEN [e |-> FromMsg(inc), cf |-> {}]
  ELSE IF inc.at # db.at THEN
       \* uuid add-conflict: the later creation loses
       IF CidLt(db.at, inc.at) THEN [e |-> db, cf |-> {}]
       ELSE [e |-> FromMsg(inc),
             cf |-> IF db.at[2] = c THEN {[src_at |-> db.at, nm |-> db.nm, dn |-> db.dn]} ELSE {}]
  ELSE [e |-> MergeLive(inc, db, tc), cf |-> {}]

\* which arm of merge_state's per-attribute match the last-writer-wins attribute takes: incoming (unsent / some /
\* none) x local (some / none) x winner
DnArm(inc, db) ==
  "merge-dn-" \o (IF "dn" \notin inc.sent THEN "unsent" ELSE IF inc.dn = DnNone THEN "none" ELSE "some")
     \o "-" \o (IF db.dn = DnNone THEN "none" ELSE "some")
     \o "-" \o (IF "dn" \in inc.sent /\ CidLt(db.ch["dn"], inc.ch["dn"]) THEN "left" ELSE "right")

\* name of the arm ApplyOne takes (for transition coverage of replayed behaviours)
Arm(inc, db) ==
  IF inc.k = "tomb" THEN (IF db.k = "tomb" THEN "tomb-tomb" ELSE IF db.k = "absent" THEN "tomb-absent" ELSE "tomb-over-live")
  ELSE IF db.k = "tomb" THEN "live-onto-tomb"
  ELSE IF db.k = "absent" THEN "new-entry"
  ELSE IF inc.at # db.at THEN (IF CidLt(db.at, inc.at) THEN "addconflict-keep" ELSE "addconflict-replace")
  ELSE IF db.cls = "r" /\ "cls" \notin inc.sent THEN "merge-into-recycled"
  ELSE IF "cls" \in inc.sent /\ inc.cls = "r" /\ db.cls = "n" THEN "merge-recycle"
  ELSE IF "cls" \in inc.sent /\ inc.cls = "n" /\ db.cls = "r" THEN "merge-revive"
  ELSE IF EnableClear THEN DnArm(inc, db)
  ELSE "merge"

Repl(s, c, ts) ==
  /\ s # c /\ nrepl < MaxRepl
  /\ LET d == RangeDiff(Ranges(ruv[c]), Ranges(ruv[s]))
         InWin(x) == x[2] \in DOMAIN d.ok /\ x[1] > d.ok[x[2]].min /\ x[1] <= d.ok[x[2]].max
         touched == {u \in AllIds : \E x \in CidsOf(ent[s][u]) : InWin(x)}
         Msg(u) == LET e == ent[s][u] IN
                   IF e.k = "tomb" THEN [k |-> "tomb", at |-> e.at]
                   ELSE [k |-> "live", at |-> e.at, sent |-> {a \in Attrs : InWin(e.ch[a])},
                         ch |-> e.ch, dn |-> e.dn, cls |-> e.cls, nm |-> e.nm, ses |-> e.ses]
         res(u) == ApplyOne(c, Msg(u), ent[c][u], <<ts, c>>)
         restamps == \E u \in touched : Restamped(Msg(u), ent[c][u])
         newcf == UNION {res(u).cf : u \in touched}
         \* conflict entries are ordinary entries created under the consumer's own change id
         sentcf == {x \in cnf[s] : InWin(x.ccid)}
     IN IF d.status # "ok" \/ DOMAIN d.ok = {}
        THEN /\ UNCHANGED <<ent, cnf, ruv, nwrites, purged>>
             /\ arms' = {IF d.status = "ok" THEN "nothing-to-supply" ELSE "refused-" \o d.status}
             /\ nrepl' = nrepl + 1
             /\ Log([op |-> "repl", from |-> s, to |-> c, t |-> OwnMax(c), expect |-> d.status])
        ELSE LET merged == [u \in AllIds |-> IF u \in touched THEN res(u).e ELSE ent[c][u]]
                 \* post-replication attrunique: every party to a clash on the unique attribute goes to
                 \* the conflict state (class change under the consumer's own change id)
                 clash == IF ~EnableRename THEN {}
                          ELSE {u \in AllIds : IsNormal(merged[u]) /\
                                  \E v \in AllIds \ {u} : IsNormal(merged[v]) /\ merged[v].nm = merged[u].nm}
                 stamp == newcf # {} \/ clash # {} \/ restamps
             IN
             /\ IF stamp THEN Stamp(c, ts) /\ (NoSkew => \A x \in {y \in ruv[s] : InWin(y)} : ts > x[1]) ELSE ts = OwnMax(c)
             /\ ent' = [ent EXCEPT ![c] = [u \in AllIds |->
                           IF u \in clash THEN [merged[u] EXCEPT !.cls = "c", !.ch["cls"] = <<ts, c>>] ELSE merged[u]]]
             /\ cnf' = [cnf EXCEPT ![c] = @ \cup sentcf \cup
                           {[src_at |-> y.src_at, nm |-> y.nm, dn |-> y.dn, ccid |-> <<ts, c>>] : y \in newcf}]
             /\ ruv' = [ruv EXCEPT ![c] = @ \cup {x \in ruv[s] : InWin(x)} \cup (IF stamp THEN {<<ts, c>>} ELSE {})]
             /\ arms' = {Arm(Msg(u), ent[c][u]) : u \in touched} \cup (IF clash # {} THEN {"unique-clash"} ELSE {})
                        \cup (IF newcf # {} THEN {"conflict-copy-created"} ELSE {})
                        \* the survivor of a uuid add-conflict is itself a party to a unique-value clash
                        \cup (IF \E u \in touched \cap clash : Arm(Msg(u), ent[c][u]) \in {"addconflict-replace", "addconflict-keep"}
                             THEN {"addconflict-survivor-in-unique-clash"} ELSE {})
             /\ nrepl' = nrepl + 1
             /\ UNCHANGED <<nwrites, purged>>
             /\ Log([op |-> "repl", from |-> s, to |-> c, t |-> ts, expect |-> "ok"])

\* ---------------------------------------------------------------- spec
Init ==
  /\ ent = [r \in Replicas |-> [u \in AllIds |-> IF u \in Ids THEN NewLive(<<0, 1>>, DefName(u)) ELSE Absent]]
  /\ cnf = [r \in Replicas |-> {}]
  /\ ruv = [r \in Replicas |-> {<<0, 1>>}]
  /\ nrepl = 0 /\ nwrites = 0 /\ hist = <<>> /\ arms = {} /\ purged = {}

LocalWrite ==
  \E r \in Replicas, u \in AllIds, ts \in 1..MaxTs :
     \/ \E nm \in Names \cup {DefName(u)} : Create(r, u, ts, nm)
     \/ \E v \in {1, 2} : SetDn(r, u, ts, v)
     \/ ClearDn(r, u, ts)
     \/ \E s \in Sids : AddSes(r, u, ts, s) \/ RevSes(r, u, ts, s)
     \/ Delete(r, u, ts) \/ Revive(r, u, ts) \/ Purge(r, u, ts)
     \/ \E nm \in Names : Rename(r, u, ts, nm)
     \/ Trim(r, ts)

Exchange == \E s, c \in Replicas, ts \in 0..MaxTs : Repl(s, c, ts)

Next == LocalWrite \/ Exchange
Spec == Init /\ [][Next]_vars

\* ---------------------------------------------------------------- L1
\* every ordered pair has nothing left to supply
Quiescent == \A s, c \in Replicas : s # c =>
                LET d == RangeDiff(Ranges(ruv[c]), Ranges(ruv[s])) IN d.status = "ok" /\ DOMAIN d.ok = {}
\* what a user can observe of a replica: liveness, values, conflict entries (not change ids)
Obs(e) == IF e.k = "live" THEN [k |-> "live", dn |-> e.dn, cls |-> e.cls, nm |-> e.nm, ses |-> e.ses]
          ELSE [k |-> e.k]
ObsNoSes(e) == IF e.k = "live" THEN [k |-> "live", dn |-> e.dn, cls |-> e.cls, nm |-> e.nm] ELSE [k |-> e.k]
CnfObs(r) == {[src_at |-> x.src_at, nm |-> x.nm, dn |-> x.dn] : x \in cnf[r]}

Converged == Quiescent => \A r1, r2 \in Replicas :
                /\ \A u \in AllIds : Obs(ent[r1][u]) = Obs(ent[r2][u])
                /\ CnfObs(r1) = CnfObs(r2)
\* split used to keep exploring past the known session-merge divergence
ConvergedButSessions == Quiescent => \A r1, r2 \in Replicas :
                /\ \A u \in AllIds : ObsNoSes(ent[r1][u]) = ObsNoSes(ent[r2][u])
                /\ CnfObs(r1) = CnfObs(r2)
ConvergedSessions == Quiescent => \A r1, r2 \in Replicas : \A u \in AllIds :
                (IsLive(ent[r1][u]) /\ IsLive(ent[r2][u])) => ent[r1][u].ses = ent[r2][u].ses

\* C19 (model side): no two normal entries on one replica share a name
UniqueLive == \A r \in Replicas : \A u, v \in AllIds :
                (u # v /\ IsNormal(ent[r][u]) /\ IsNormal(ent[r][v])) => ent[r][u].nm # ent[r][v].nm

\* C09 (model side): once every pair has nothing left to supply, an entry that was purged to a tombstone
\* somewhere is not live anywhere (a trimmed supplier must have refused the lagging consumer instead)
NoDroppedDeletion == Quiescent => \A u \in purged : \A r \in Replicas : ~IsLive(ent[r][u])
\* C09 (model side): a tombstone never becomes live again on the same replica
NoResurrection == [][\A r \in Replicas, u \in AllIds : ent[r][u].k = "tomb" => ent'[r][u].k \in {"tomb", "absent"}]_vars
=============================================================================
