SPECIFICATION SpecSkip
PROPERTY UpgradeOk
CHECK_DEADLOCK FALSE
