---------------------------- MODULE KValidityTrace ----------------------------
(* C49: validates the observed matrix (driver `kv-token valid`) - L1Ok on every port line; L2Rel
   predicts the exact outcome (drift only). *)
EXTENDS KValidity, Sequences, Json, IOUtils
Rec == ndJsonDeserialize(IOEnv.TRACE)
VARIABLE l
JudgeLine(r) ==
  CASE r.a = "port" ->
         /\ (L1Ok(r) \/ PrintT(<<"L1FAIL", "C49", l, "released-outside-window port=" \o r.port \o " asker=" \o r.asker>>))
         /\ (r.rel = L2Rel(r.port, r.asker, r.vf, r.ex, r.t) \/ PrintT(<<"L2DRIFT", "C49", l>>))
    [] OTHER -> TRUE
Init == l = 1
Next == l <= Len(Rec) /\ l' = l + 1
Spec == Init /\ [][Next]_l
Judge == l <= Len(Rec) => JudgeLine(Rec[l])
Consumed == TLCGet("stats").distinct = Len(Rec) + 1 \/ PrintT(<<"NOTCONSUMED", TLCGet("stats").distinct, Len(Rec)>>)
=============================================================================
