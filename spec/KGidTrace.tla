------------------------------- MODULE KGidTrace -------------------------------
(* Validates observations of the REAL gidnumber plugin. One line per request:
   {"a":"gid","kind":"account|group|plain","path":..,"posix":0|1,"u":{h,l},"sup":{h,l},"res":class,
    "gid":{h,l},"gid2":{h,l}}      numbers as 16-bit halves, h = -1 means "none". *)
EXTENDS KGid, Sequences, Json, IOUtils, TLC
Rec == ndJsonDeserialize(IOEnv.TRACE)
VARIABLE l

Has(p) == p.h >= 0
Big(p) == p.h >= 32768                               \* >= 2^31: neither reserved nor accepted
Val(p) == p.h * 65536 + p.l
Res(p) == Has(p) /\ ~Big(p) /\ Reserved(Val(p))
Acc(p) == Has(p) /\ ~Big(p) /\ Accept(Val(p))
GenP(p) == [h |-> 28672 + (p.h % 4096), l |-> p.l]  \* = Gen on halves (KGidMC checks the identity)
None == [h |-> -1, l |-> 0]

LineL1(r) == L1Obs(r.posix = 1, Has(r.sup), Res(r.sup), r.res, Has(r.gid), Res(r.gid), r.gid = r.gid2)
LineL2(r) ==
  IF Has(r.sup) THEN (Acc(r.sup) /\ r.res = "ok" /\ r.gid = r.sup) \/ (~Acc(r.sup) /\ r.res # "ok")
  ELSE IF r.posix = 1 THEN r.res = "ok" /\ r.gid = GenP(r.u) /\ r.gid2 = r.gid
  ELSE r.res = "ok" /\ r.gid = None

Init == l = 1
Next == l <= Len(Rec) /\ l' = l + 1
Spec == Init /\ [][Next]_l
Judge == l <= Len(Rec) =>
   /\ (LineL1(Rec[l]) \/ PrintT(<<"L1FAIL", "C21", l, Rec[l].path>>))
   /\ (~LineL1(Rec[l]) \/ LineL2(Rec[l]) \/ PrintT(<<"L2DRIFT", "C21", l>>))
Consumed == TLCGet("stats").distinct = Len(Rec) + 1 \/ PrintT(<<"NOTCONSUMED", TLCGet("stats").distinct, Len(Rec)>>)
=============================================================================
