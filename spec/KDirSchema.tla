------------------------------ MODULE KDirSchema ------------------------------
(***************************************************************************)
(* Schema validity of stored entries (property C15; the schema section of   *)
(* the KDirectory family of DESIGN.md section 5).                           *)
(*                                                                         *)
(* L0  schema = [classes: name -> [must, may: sets of attribute names],      *)
(*               attrs:   name -> [multi: 0|1, syn: syntax tag]]             *)
(*     entry  = [live: class, classes: <<names>>, attrs: name -> [n, syn]]   *)
(*              (n = number of values, syn = syntax tag of the stored set)   *)
(* L1  every stored LIVE entry is Valid under the schema in force:           *)
(*       only allowed attributes, every required attribute present,          *)
(*       single-valued attributes hold one value, values carry the syntax    *)
(*       the schema prescribes; a rejected operation leaves nothing behind.  *)
(* L2  requests carry the defect class the generator gave them; the server  *)
(*     accepts exactly the defect-free ones (Entry::validate, entry.rs).    *)
(***************************************************************************)
EXTENDS Naturals, Sequences, FiniteSets, TLC

Range(s) == {s[i] : i \in DOMAIN s}

\* ----------------------------- L1 ---------------------------------------
Classes(e) == Range(e.classes)
Live(e) == e.live = "live"
KnownClasses(e, sc) == Classes(e) \subseteq DOMAIN sc.classes
Must(e, sc) == UNION {Range(sc.classes[c].must) : c \in Classes(e) \cap DOMAIN sc.classes}
May(e, sc)  == UNION {Range(sc.classes[c].may)  : c \in Classes(e) \cap DOMAIN sc.classes} \cup Must(e, sc)
Extensible(e) == "extensibleobject" \in Classes(e)

RequiredPresent(e, sc) == Must(e, sc) \subseteq DOMAIN e.attrs
OnlyAllowed(e, sc) == \A a \in DOMAIN e.attrs : a \in DOMAIN sc.attrs /\ (Extensible(e) \/ a \in May(e, sc))
SingleValued(e, sc) == \A a \in DOMAIN e.attrs \cap DOMAIN sc.attrs : sc.attrs[a].multi = 0 => e.attrs[a].n = 1
\* (a multi-valued attribute stored with an EMPTY valueset - the built-in classtype entries of the older domain levels
\* carry an empty systemsupplements - is not excluded by the property's four conditions)
SyntaxOk(e, sc) == \A a \in DOMAIN e.attrs \cap DOMAIN sc.attrs : e.attrs[a].syn = sc.attrs[a].syn

Valid(e, sc) == KnownClasses(e, sc) /\ RequiredPresent(e, sc) /\ OnlyAllowed(e, sc) /\ SingleValued(e, sc) /\ SyntaxOk(e, sc)
\* which of the conditions fails (for the signature of a finding)
Why(e, sc) == IF ~KnownClasses(e, sc) THEN "unknown-class" ELSE IF ~RequiredPresent(e, sc) THEN "missing-required"
              ELSE IF ~OnlyAllowed(e, sc) THEN "attribute-not-allowed" ELSE IF ~SingleValued(e, sc) THEN "single-valued-many"
              ELSE IF ~SyntaxOk(e, sc) THEN "syntax" ELSE "valid"

AllValid(ents, sc) == \A i \in DOMAIN ents : Live(ents[i]) => Valid(ents[i], sc)
NothingLeftBehind(pre, post) == post = pre

\* ----------------------------- L2 ---------------------------------------
Defects == {"valid", "missing_must", "not_allowed", "multi_single", "illtyped", "unknown_class", "unknown_attr"}
\* (an ill-typed Set reaches a debug assertion of the spn plugin before validation in debug builds: "panic")
L2Result(defect) == IF defect = "valid" THEN {"ok"} ELSE IF defect = "illtyped" THEN {"refused", "panic"} ELSE {"refused"}
=============================================================================
