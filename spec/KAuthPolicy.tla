----------------------------- MODULE KAuthPolicy -----------------------------
(***************************************************************************)
(* Account-policy resolution (property C35).                               *)
(*                                                                         *)
(* L0  a group policy is a record                                          *)
(*       [pe, se, ml, ct : Int (-1 = attribute absent),                    *)
(*        ca : [has : 0..1, l : CA name -> set of device ids]]             *)
(*     ({"*"} as device set = the CA is trusted for every device);         *)
(*     a resolved policy is [pe, se, ml, mx, ct, ca] without absents.      *)
(* L1  the property: order independence, strictest-of-all, CA trust only   *)
(*     where every list trusts, single-factor minimum length.              *)
(* L2  transcription of From<&Entry> for Option<AccountPolicy> (defaults)  *)
(*     and ResolvedAccountPolicy::fold_from (accountpolicy.rs), including  *)
(*     webauthn-attestation-ca AttestationCaList::intersection.            *)
(***************************************************************************)
EXTENDS Integers, Sequences, FiniteSets, TLC

CONSTANTS MaxPriv,   \* MAXIMUM_AUTH_PRIVILEGE_EXPIRY
          MaxSess,   \* MAXIMUM_AUTH_SESSION_EXPIRY (clamped by the projection, see C35.py)
          MfaMin,    \* PW_MFA_MIN_LENGTH
          SfaMin,    \* PW_SFA_MIN_LENGTH_NIST
          MaxLen,    \* PW_MAX_LENGTH_NIST
          Mfa        \* CredentialType::Mfa as a number

\* ----------------------------- L0 ---------------------------------------
Absent == -1
NoCa   == [has |-> 0, l |-> <<>>]
Blanket == {"*"}
MinOf(a, b) == IF a < b THEN a ELSE b
MaxOf(a, b) == IF a > b THEN a ELSE b

\* trust relation of a CA list over a universe of device ids
Trust(l, G) == {<<c, g>> \in (DOMAIN l) \X G : l[c] = Blanket \/ g \in l[c]}
Devices(seq, out) ==
  UNION ({UNION {seq[i].ca.l[c] : c \in DOMAIN seq[i].ca.l} : i \in 1..Len(seq)}
         \cup {UNION {out.ca.l[c] : c \in DOMAIN out.ca.l}}) \cup {"other"}

\* ----------------------------- L1 ---------------------------------------
\* `out` is at least as strict as every group policy in `seq`.
L1Strict(seq, out) ==
  LET G  == Devices(seq, out) \ {"*"}
      Wc == {i \in 1..Len(seq) : seq[i].ca.has = 1}
  IN
  /\ \A i \in 1..Len(seq) :
        /\ seq[i].pe # Absent => out.pe <= seq[i].pe
        /\ seq[i].se # Absent => out.se <= seq[i].se
        /\ seq[i].ml # Absent => out.ml >= seq[i].ml
        /\ seq[i].ct # Absent => out.ct >= seq[i].ct
  /\ Wc # {} => /\ out.ca.has = 1
                /\ \A i \in Wc : Trust(out.ca.l, G) \subseteq Trust(seq[i].ca.l, G)
  /\ out.ct < Mfa => out.ml >= SfaMin

\* all results of the permutations of one multiset are the same policy
L1Order(outs) == \A j \in 1..Len(outs) : outs[j] = outs[1]

\* ----------------------------- L2 ---------------------------------------
Val(v, def) == IF v = Absent THEN def ELSE v

CaEntryInter(a, b) == IF b = Blanket THEN a ELSE IF a = Blanket THEN b ELSE a \cap b
CaInter(a, b) ==
  LET keep == {c \in DOMAIN a \cap DOMAIN b : CaEntryInter(a[c], b[c]) # {}}
  IN  [c \in keep |-> CaEntryInter(a[c], b[c])]

Base == [pe |-> MaxPriv, se |-> MaxSess, ml |-> MfaMin, mx |-> MaxLen, ct |-> 0, ca |-> NoCa]

FoldStep(acc, p) ==
  [pe |-> MinOf(acc.pe, Val(p.pe, MaxPriv)),
   se |-> MinOf(acc.se, Val(p.se, MaxSess)),
   ml |-> MaxOf(acc.ml, Val(p.ml, MfaMin)),
   mx |-> acc.mx,
   ct |-> MaxOf(acc.ct, Val(p.ct, 0)),
   ca |-> IF p.ca.has = 1
          THEN (IF acc.ca.has = 1 THEN [has |-> 1, l |-> CaInter(acc.ca.l, p.ca.l)] ELSE p.ca)
          ELSE acc.ca]

RECURSIVE FoldAcc(_, _)
FoldAcc(acc, seq) == IF seq = <<>> THEN acc ELSE FoldAcc(FoldStep(acc, Head(seq)), Tail(seq))

Final(acc) == IF acc.ct < Mfa /\ acc.ml < SfaMin THEN [acc EXCEPT !.ml = SfaMin] ELSE acc

Fold(seq) == Final(FoldAcc(Base, seq))

Permute(seq, p) == [i \in 1..Len(seq) |-> seq[p[i]]]
Perms(n) == {p \in [1..n -> 1..n] : \A i, j \in 1..n : i # j => p[i] # p[j]}
=============================================================================
