------------------------------ MODULE KRefintMC ------------------------------
(* Exhaustive exploration of the refint transcription (L2) against NoDangling (L1).
   Population: 1,2 groups (may hold `member`, carry description x1), 3 a dependent (client certificate,
   single `refers`, initially -> 1), 4 a dynamic group whose filter matches 1 and 2 by attribute.
   Edits: add/remove a member, re-point refers, delete 1..2 entries, revive, purge the recycle bin,
   re-evaluate the dynamic group (any modify of it), replace a member set (>= 2 new members at once).  Histories are bounded by MaxLen; a transition
   into a state with a dangling reference is printed as <<"CEX", n, k1,a1,b1, ...>> and not explored
   further; every Sample-th full-length history is printed as <<"BEH", ...>> for replay on the real
   server (direction A). *)
EXTENDS KRefint, Sequences
CONSTANTS MaxLen, Sample
Ids4 == 1..4
A3 == {"member", "refers", "dynmember"}
VARIABLES s, h

None == [a \in A3 |-> {}]
Init == /\ s = [ids |-> Ids4, attrs |-> A3,
                lv |-> [x \in Ids4 |-> "live"],
                ref |-> [x \in Ids4 |-> IF x = 3 THEN [None EXCEPT !["refers"] = {1}]
                                        ELSE IF x = 4 THEN [None EXCEPT !["dynmember"] = {1, 2}] ELSE None],
                casc |-> [x \in Ids4 |-> {}]]
        /\ h = <<>>
SetCode(M) == LET RECURSIVE Sum(_)
                  Sum(P) == IF P = {} THEN 0 ELSE LET p == CHOOSE q \in P : TRUE IN 2 ^ (p - 1) + Sum(P \ {p})
              IN  Sum(M)
Step(k, a, b, t) == s' = t /\ h' = h \o <<k, a, b>>
Next == /\ NoDangling(s) /\ Len(h) < 3 * MaxLen
        /\ \/ \E g \in {1, 2}, x \in Ids4 : x \notin s.ref[g]["member"] /\ Step(1, g, x, SetRef(s, g, "member", s.ref[g]["member"] \cup {x}).st)
           \/ \E g \in {1, 2}, x \in Ids4 : x \in s.ref[g]["member"] /\ Step(2, g, x, SetRef(s, g, "member", s.ref[g]["member"] \ {x}).st)
           \/ \E x \in {1, 2, 4} : Step(3, 3, x, SetRef(s, 3, "refers", {x}).st)
           \/ \E D \in SUBSET {x \in Ids4 : s.lv[x] = "live"} : Cardinality(D) \in {1, 2} /\ Step(4, SetCode(D), 0, Delete(s, D))
           \/ \E x \in Ids4 : s.lv[x] = "recycled" /\ Step(5, x, 0, Revive(s, {x}).st)
           \/ (\E x \in Ids4 : s.lv[x] = "recycled") /\ Step(6, 0, 0, Purge(s, Ids4))
           \/ s.lv[4] = "live" /\ Step(7, 4, 0, DynReeval(s, 4, {1, 2}))
           \/ \E g \in {1, 2}, M \in SUBSET Ids4 : Cardinality(M \ s.ref[g]["member"]) >= 2
                   /\ Step(8, g, SetCode(M), SetRef(s, g, "member", M).st)
Spec == Init /\ [][Next]_<<s, h>>

Pad(q) == q \o [i \in 1..(24 - Len(q)) |-> 0]
Tup(tag) == LET p == Pad(h) IN
  <<tag, Len(h) \div 3, p[1], p[2], p[3], p[4], p[5], p[6], p[7], p[8], p[9], p[10], p[11], p[12], p[13], p[14], p[15],
       p[16], p[17], p[18], p[19], p[20], p[21], p[22], p[23], p[24]>>
Fold == LET RECURSIVE F(_) F(i) == IF i = 0 THEN 0 ELSE (h[i] * (i + 7) + F(i - 1)) % 100003 IN F(Len(h))
Soft == /\ NoDangling(s) \/ PrintT(Tup("CEX"))
        /\ (Len(h) = 3 * MaxLen /\ NoDangling(s) /\ Fold % Sample = 0) => PrintT(Tup("BEH"))
View == IF NoDangling(s) /\ Len(h) < 3 * MaxLen THEN <<s, <<>> >> ELSE <<s, h>>
=============================================================================
