---------------------------- MODULE KAccessTrace ----------------------------
(* Trace validation for C23: every observed search / recycle-bin search / existence check made
   against the REAL server (driver `kv-access c23`) is judged by the grant model L1 of KAccess;
   the transcription L2 must in addition predict the exact answer (else conformance drift).
   Lines:  {"a":"cfg","acps":[profile..],"ents":{id:{live,sys,attrs,o2g}}}   configuration in force
           {"a":"search","kind":"ext"|"recycle"|"exists","id":{..},"f":filter,"req":[..],"all":bool,
            "m":[candidate ids],"res":..,"out":{id:[attr names]},"ex":bool} *)
EXTENDS KAccessNorm, Json, IOUtils
Rec == ndJsonDeserialize(IOEnv.TRACE)
VARIABLES l, c

Out(r) == [x \in DOMAIN r.out |-> Range(r.out[x])]

\* kinds: "ext" search_ext, "recycle" recycle-bin search, "exists", and through the LDAP gateway
\* (LdapServer::do_op) "ldap" search with an explicit attribute list and "ldapcmp" compare
\* (ex = compareTrue; ex2 = the answer admitted that the entry exists; f2 = the entry's rdn term)
LineL1(C, r) ==
  LET S == NProfs(C.acps)  E == NEnts(C.ents)  id == NId(r.id) IN
  CASE r.kind = "exists" -> L1Exists(S, E, id, r.f, Range(r.m), r.ex)
    [] r.kind = "ldapcmp" -> /\ L1Exists(S, E, id, r.f, Range(r.m), r.ex)
                             /\ L1Exists(S, E, id, r.f2, Range(r.m2), r.ex2 /\ ~r.ex)
    [] OTHER -> L1Search(S, E, id, r.f, Range(r.req), r.all, r.kind = "recycle", Out(r))

LineSig(C, r) ==
  LET S == NProfs(C.acps)  E == NEnts(C.ents)  id == NId(r.id) IN
  IF r.kind \in {"exists", "ldapcmp"} THEN "exists-without-readable-candidate"
  ELSE LET bad == {x \in DOMAIN r.out : x \notin DOMAIN E \/
                     ~DisclosureOk(S, id, E[x], Out(r)[x], FilterAttrs(r.f), Range(r.req), r.all, r.kind = "recycle")}
           x == CHOOSE y \in bad : TRUE
       IN IF x \notin DOMAIN E THEN "unknown-entry"
          ELSE DisclosureSig(S, id, E[x], Out(r)[x], FilterAttrs(r.f), Range(r.req), r.all, r.kind = "recycle")

LineL2(C, r) ==
  LET S == NProfs(C.acps)  E == NEnts(C.ents)  id == NId(r.id)
      wrap == IF r.kind \in {"recycle", "ldap", "ldapcmp"} THEN {"class"} ELSE {}
      fa == CodeAttrs(r.f) \cup wrap
  IN  CASE r.kind = "exists" -> (r.res = "ok" /\ r.ex = L2Exists(S, E, id, fa, Range(r.m)))
        \* (the gateway's identities carry resource limits, which are not modelled: a refusal is accepted)
        [] r.kind = "ldapcmp" -> r.res = "ok" =>
                                 /\ r.ex = L2Exists(S, E, id, fa, Range(r.m))
                                 /\ r.ex2 = (r.ex \/ L2Exists(S, E, id, CodeAttrs(r.f2) \cup wrap, Range(r.m2)))
        [] r.kind = "ldap" -> r.res = "ok" => Out(r) = L2SearchExt(S, E, id, fa, Range(r.req), r.all, Range(r.m))
        [] OTHER -> IF id.origin # "user" THEN r.res # "ok"
                    ELSE r.res = "ok" /\ Out(r) = L2SearchExt(S, E, id, fa, Range(r.req), r.all, Range(r.m))

Init == l = 1 /\ c = 0
Next == /\ l <= Len(Rec)
        /\ l' = l + 1
        /\ c' = IF Rec[l].a = "cfg" THEN l ELSE c
Spec == Init /\ [][Next]_<<l, c>>

\* remark (not part of the property as stated, never an alarm): the DN of an LDAP result names the entry
\* by its spn even when no grant covers spn for that entry
DnRemark(C, r) ==
  LET S == NProfs(C.acps)  E == NEnts(C.ents)  id == NId(r.id) IN
  r.kind = "ldap" /\ \E x \in Range(r.dnspn) : x \in DOMAIN E /\ "spn" \notin ReadGrant(S, id, E[x])

Judge == (l <= Len(Rec) /\ Rec[l].a = "search") =>
           /\ (~DnRemark(Rec[c], Rec[l]) \/ PrintT(<<"REMARK", "C23", l, "ldap-dn-names-spn-without-spn-grant">>))
           /\ (LineL1(Rec[c], Rec[l]) \/ PrintT(<<"L1FAIL", "C23", l, LineSig(Rec[c], Rec[l])>>))
           /\ (LineL2(Rec[c], Rec[l]) \/ PrintT(<<"L2DRIFT", "C23", l>>))
Consumed == TLCGet("stats").distinct = Len(Rec) + 1 \/ PrintT(<<"NOTCONSUMED", TLCGet("stats").distinct, Len(Rec)>>)
=============================================================================
