---------------------------- MODULE KAccessTrace ----------------------------
(* Trace validation for C23: every observed search / recycle-bin search / existence check made
   against the REAL server (driver `kv-access c23`) is judged by the grant model L1 of KAccess;
   the transcription L2 must in addition predict the exact answer (else conformance drift).
   Lines:  {"a":"cfg","acps":[profile..],"ents":{id:{live,sys,attrs,o2g}}}   configuration in force
           {"a":"search","kind":"ext"|"recycle"|"exists","id":{..},"f":filter,"req":[..],"all":bool,
            "m":[candidate ids],"res":..,"out":{id:[attr names]},"ex":bool} *)
EXTENDS KAccessNorm, Json, IOUtils
Rec == ndJsonDeserialize(IOEnv.TRACE)
VARIABLES l, c

Out(r) == [x \in DOMAIN r.out |-> Range(r.out[x])]

LineL1(C, r) ==
  LET S == NProfs(C.acps)  E == NEnts(C.ents)  id == NId(r.id) IN
  IF r.kind = "exists" THEN L1Exists(S, E, id, r.f, Range(r.m), r.ex)
  ELSE L1Search(S, E, id, r.f, Range(r.req), r.all, r.kind = "recycle", Out(r))

LineSig(C, r) ==
  LET S == NProfs(C.acps)  E == NEnts(C.ents)  id == NId(r.id) IN
  IF r.kind = "exists" THEN "exists-without-readable-candidate"
  ELSE LET bad == {x \in DOMAIN r.out : x \notin DOMAIN E \/
                     ~DisclosureOk(S, id, E[x], Out(r)[x], FilterAttrs(r.f), Range(r.req), r.all, r.kind = "recycle")}
           x == CHOOSE y \in bad : TRUE
       IN IF x \notin DOMAIN E THEN "unknown-entry"
          ELSE DisclosureSig(S, id, E[x], Out(r)[x], FilterAttrs(r.f), Range(r.req), r.all, r.kind = "recycle")

LineL2(C, r) ==
  LET S == NProfs(C.acps)  E == NEnts(C.ents)  id == NId(r.id)
      fa == CodeAttrs(r.f) \cup (IF r.kind = "recycle" THEN {"class"} ELSE {})
  IN  IF r.kind = "exists" THEN (r.res = "ok" /\ r.ex = L2Exists(S, E, id, fa, Range(r.m)))
      ELSE IF id.origin # "user" THEN r.res # "ok"
      ELSE r.res = "ok" /\ Out(r) = L2SearchExt(S, E, id, fa, Range(r.req), r.all, Range(r.m))

Init == l = 1 /\ c = 0
Next == /\ l <= Len(Rec)
        /\ l' = l + 1
        /\ c' = IF Rec[l].a = "cfg" THEN l ELSE c
Spec == Init /\ [][Next]_<<l, c>>

Judge == (l <= Len(Rec) /\ Rec[l].a = "search") =>
           /\ (LineL1(Rec[c], Rec[l]) \/ PrintT(<<"L1FAIL", "C23", l, LineSig(Rec[c], Rec[l])>>))
           /\ (LineL2(Rec[c], Rec[l]) \/ PrintT(<<"L2DRIFT", "C23", l>>))
Consumed == TLCGet("stats").distinct = Len(Rec) + 1 \/ PrintT(<<"NOTCONSUMED", TLCGet("stats").distinct, Len(Rec)>>)
=============================================================================
