---------------------------- MODULE KDynGroupTrace ----------------------------
(* Validates observations of the REAL server against DynExact (L1) and reports lines the dyngroup
   transcription (L2) does not explain.  Candidate population = the model-range entries (built-in
   entries that happen to match are ignored on both sides; generated filters are guarded so that they
   cannot match them anyway). Dynamic groups whose filter uses something outside the modelled
   fragment (eq / pres / and / or / not over name, description, class, displayname) are skipped. *)
EXTENDS KDynGroup, KDir, Json, IOUtils
Rec == ndJsonDeserialize(IOEnv.TRACE)
VARIABLE l
Starts(r) == r.a = "reset" \/ ("first" \in DOMAIN r /\ r.first)
FA == {"name", "description", "class", "displayname"}

AV(st, x) == [a \in FA |-> Range(st.e[x].av[a])]
NoF == [t |-> "none", a |-> "", v |-> "", s |-> <<>>]
Abs(st, I) ==
  LET M == {x \in I : x \in Ids(st)} IN
  [ids |-> I,
   lv  |-> [x \in I |-> Lv(st, x)],
   dyn |-> {x \in M : st.e[x].k = "dyn" /\ Supported(st.e[x].f, FA)},
   av  |-> [x \in I |-> IF x \in M THEN AV(st, x) ELSE [a \in FA |-> {}]],
   filt |-> [x \in I |-> IF x \in M THEN st.e[x].f ELSE NoF],
   dm  |-> [x \in I |-> IF x \in M THEN DynMember(st, x) \cap I ELSE {}],
   rdmo |-> [x \in I |-> IF x \in M THEN Rdmo(st, x) \cap I ELSE {}]]
EmptySt == [e |-> <<>>, lvx |-> <<>>]
Cand(st) == ModelIds(st)

\* ------------------------------------------ L1 on a line ------------------------------------------
\* discrepancies <<dyngroup, entry, "extra"|"missing">> over ALL projected live dyngroups with a modelled filter
\* (built-in dyngroups are judged on the model candidates too)
DiscAll(st) ==
  LET C == Cand(st)
      D == {x \in LiveIds(st) : st.e[x].k = "dyn" /\ Supported(st.e[x].f, FA)}
      should(d) == {e \in C : st.e[e].lv = "live" /\ Match(st.e[d].f, AV(st, e))}
      has(d) == DynMember(st, d) \cap C
  IN  UNION {{<<d, e, "extra">> : e \in has(d) \ should(d)} \cup {<<d, e, "missing">> : e \in should(d) \ has(d)} : d \in D}
LineL1(r) == DiscAll(r.st) = {}
NewDisc(r, pst) == IF Starts(r) THEN DiscAll(r.st) ELSE DiscAll(r.st) \ DiscAll(pst)
IsNonLive(st, t) == t[3] = "extra" /\ st.e[t[2]].lv # "live"
IsDynCand(st, t) == st.e[t[2]].k = "dyn" /\ st.e[t[2]].lv = "live"
\* the filter negates a compound (and / or) sub-filter: the index-driven search of a re-evaluation
\* subtracts that sub-filter's CANDIDATE set, which may be a superset of its matches (be/mod.rs filter2idl)
RECURSIVE HasNotCompound(_)
HasNotCompound(f) ==
  CASE f.t = "not" -> f.s[1].t \in {"and", "or"} \/ HasNotCompound(f.s[1])
    [] f.t \in {"and", "or"} -> \E i \in DOMAIN f.s : HasNotCompound(f.s[i])
    [] OTHER -> FALSE
IsNotCompound(st, t) == t[3] = "missing" /\ st.e[t[2]].lv = "live" /\ HasNotCompound(st.e[t[1]].f)
Sig(r, pst) ==
  LET N == NewDisc(r, pst) IN
  IF N = {} THEN "persist"
  ELSE IF \A t \in N : IsNonLive(r.st, t) THEN "dyn-member-not-live"
  ELSE IF \A t \in N : IsNonLive(r.st, t) \/ IsDynCand(r.st, t) THEN "dyn-candidate-is-dyngroup"
  ELSE IF \A t \in N : IsNonLive(r.st, t) \/ IsDynCand(r.st, t) \/ IsNotCompound(r.st, t) THEN "dyn-missing not-of-compound"
  ELSE LET t == CHOOSE u \in N : ~IsNonLive(r.st, u) /\ ~IsDynCand(r.st, u) /\ ~IsNotCompound(r.st, u)
       IN  "dyn-inexact " \o t[3] \o " kind=" \o r.st.e[t[2]].k

\* ------------------------------------------ L2 on a line ------------------------------------------
Predict(r, p, q, domChanged) ==
  LET a == r.a
      X(x) == IF x \in p.ids /\ p.lv[x] = "live" THEN {x} ELSE {}
      live == {x \in p.ids : p.lv[x] = "live"}
  IN
  IF r.res # "ok" \/ a \in {"reset", "noop"} THEN p
  ELSE IF a \in {"create_group", "create_dyn", "create_person", "create_svc", "create_cert", "create_oa2", "create_batch"} THEN
       LET C == {x \in p.ids : p.lv[x] = "absent" /\ q.lv[x] = "live"}
           s1 == [p EXCEPT !.av = [x \in p.ids |-> IF x \in C THEN q.av[x] ELSE @[x]],
                           !.filt = [x \in p.ids |-> IF x \in C THEN q.filt[x] ELSE @[x]],
                           !.dyn = @ \cup (C \cap q.dyn)]
       IN  Create(s1, C)
  ELSE IF a \in {"rename", "set_desc"} THEN Modify(p, X(r.id), q.av, p.filt)
  ELSE IF a = "set_filter" THEN Modify([p EXCEPT !.dyn = (@ \ X(r.d)) \cup (X(r.d) \cap q.dyn)], X(r.d), p.av, q.filt)
  ELSE IF a \in {"add_member", "remove_member", "set_members"} THEN Modify(p, X(r.g), p.av, p.filt)
  ELSE IF a \in {"set_emb", "clear_emb"} THEN Modify(p, X(r.id), p.av, p.filt)
  ELSE IF a = "domain_rename" THEN (IF domChanged THEN Modify(p, live, p.av, p.filt) ELSE p)
  ELSE IF a = "delete" THEN Delete(p, {x \in p.ids : p.lv[x] = "live" /\ q.lv[x] = "recycled"})
  ELSE IF a = "revive" THEN Revive(p, {x \in p.ids : p.lv[x] = "recycled" /\ q.lv[x] = "live"})
  ELSE IF a = "purge_recycled" THEN Purge(p, {x \in p.ids : p.lv[x] = "recycled" /\ q.lv[x] = "tombstone"})
  ELSE p

LineL2(r, pst0) ==
  LET pst == IF Starts(r) THEN EmptySt ELSE pst0
      I == Cand(r.st) \cup (IF Starts(r) THEN {} ELSE Cand(pst))
      p == Abs(pst, I)  q == Abs(r.st, I)
      m == Predict(r, p, q, ~Starts(r) /\ pst0.domattr # r.st.domattr)
  IN  r.a = "reset" \/ \A d \in LiveDyn(q) : m.dm[d] = q.dm[d]

Init == l = 1
Next == l <= Len(Rec) /\ l' = l + 1
Spec == Init /\ [][Next]_l
Prev == IF l > 1 THEN Rec[l - 1].st ELSE Rec[l].st
Judge == l <= Len(Rec) =>
  /\ (LineL1(Rec[l]) \/ PrintT(<<"L1FAIL", "C18", l, Sig(Rec[l], Prev)>>))
  /\ (LineL2(Rec[l], Prev) \/ PrintT(<<"L2DRIFT", "C18", l>>))
Consumed == TLCGet("stats").distinct = Len(Rec) + 1 \/ PrintT(<<"NOTCONSUMED", TLCGet("stats").distinct, Len(Rec)>>)
=============================================================================
