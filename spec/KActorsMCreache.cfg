CONSTANTS
  Sups = {"s0", "s1", "s2"}
  Acts = {"a1", "a2"}
  Root = "s0"
  Env = "behaved"
  SupPar <- SupParDef
  ActPar <- ActParDef
  MaxReady = 0
INIT Init
NEXT Next
CHECK_DEADLOCK FALSE
INVARIANT ReachEarly
