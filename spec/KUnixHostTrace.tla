--------------------------- MODULE KUnixHostTrace ---------------------------
(* C45: validates observations of the REAL unix_user_authorise / pam_account_allowed (one ndjson line per
   call) against the property (L1); reports lines the transcription (L2) does not explain as drift.
   Line: {"a":"authorise","via":"provider"|"resolver","present":BOOL,"allow":[ids],
          "groups":[{"id","n","u","s"}],"valid":BOOL,"res":"allow"|"deny"|"unknown"|"error"} *)
EXTENDS KUnix, Json, IOUtils
Rec == ndJsonDeserialize(IOEnv.TRACE)
VARIABLE l

A(r) == SeqToSet(r.allow)
G(r) == SeqToSet(r.groups)
LineL1(r) == HostL1(r.present, A(r), G(r), r.valid, r.res)
LineL2(r) == r.res = HostL2(r.via, r.present, A(r), G(r), r.valid)

Init == l = 1
Next == l <= Len(Rec) /\ l' = l + 1
Spec == Init /\ [][Next]_l

Judge == l <= Len(Rec) =>
           /\ (LineL1(Rec[l]) \/ PrintT(<<"L1FAIL", "C45", l, "admitted">>))
           /\ (LineL2(Rec[l]) \/ PrintT(<<"L2DRIFT", "C45", l>>))
Consumed == TLCGet("stats").distinct = Len(Rec) + 1 \/ PrintT(<<"NOTCONSUMED", TLCGet("stats").distinct, Len(Rec)>>)
=============================================================================
