------------------------------ MODULE KFilterMC ------------------------------
(* Exhaustive check of the transcriptions (L2) against the reference semantics (L1):
   every (filter, wrapper, index layout, database) of the bounded space is one initial state.
     C02  InvRewrite : the rewritten filter matches exactly what the original matches (both paths)
     C02  InvOrder   : the comparator used by sort+dedup is a total preorder on the terms met
     C01  index-driven search (current, repaired code) equals the scan semantics everywhere; the code before
          the repair differs ONLY in the two signed defect classes (regression witnesses)
   Counters (TLCSet registers, one worker) give the vacuity guard and the counterexample census. *)
EXTENDS KFilter, TLCExt, Json, Randomization
CONSTANTS LeafSet,    \* "tiny" | "small" | "subfam" | "full"
          Depth,      \* 1 | 2 (connective depth)
          LayoutIds,  \* subset of 1..NLayouts
          DbSet,      \* "full16" | "le2" | "le2s" | "single"
          Thres,      \* filter-test threshold (real constant: 0)
          Wraps,      \* subset of BOOLEAN: with / without the ignore-hidden wrapper
          SampleK,    \* Depth = 3 only: size of the random depth-2 sample that is combined
          CaseCap     \* at most this many counterexample CASE lines per run

VARIABLES f, w, lay, db

\* ---- filters
LeavesSmall == {Eq("a", 1), Eq("b", 1), Pres("a"), Pres("b"), LessT("b", 2), Sub("a", 1)}
LeavesFull  == {Eq("a", 1), Eq("a", 2), Eq("b", 1), Eq("b", 2), Pres("a"), Pres("b"),
                LessT("b", 2), LessT("b", 3), Sub("a", 0), Sub("a", 1), Inv("a"), [k |-> "self"]}
LeavesTiny  == {Eq("a", 1), Eq("b", 1), Pres("a"), LessT("b", 2), Sub("a", 1)}
\* the substring family sharing attribute AND value (contains / starts-with / ends-with "ab"): the three kinds differ on
\* the values "abx" / "xab", and sort + dedup must never merge terms of different kinds
LeavesSubFam == {Sub("a", 0), Stw("a", 0), Enw("a", 0), Eq("a", 1)}
Leaves == CASE LeafSet = "tiny" -> LeavesTiny [] LeafSet = "small" -> LeavesSmall [] LeafSet = "subfam" -> LeavesSubFam [] OTHER -> LeavesFull
Comb(S) == {And(<<x>>) : x \in S} \cup {And(<<x, y>>) : x \in S, y \in S}
           \cup {Or(<<x>>) : x \in S} \cup {Or(<<x, y>>) : x \in S, y \in S} \cup {Not(x) : x \in S}
\* (operators with a parameter: TLC evaluates zero-arity constant definitions eagerly, needed or not)
D1(d) == Leaves \cup Comb(Leaves)
D2(d) == Leaves \cup Comb(D1(d))
\* depth 3 is sampled: combinations of SampleK randomly drawn depth-2 filters (TLC -seed)
D3s(d) == Comb(RandomSubset(SampleK, D2(d)))
Filters(d) == CASE d = 1 -> D1(d) [] d = 2 -> D2(d) [] OTHER -> D3s(d)

\* Filter::new_ignore_hidden: class values 91 = recycled, 92 = tombstone
Hidden == Not(Or(<<Eq("class", 92), Eq("class", 91)>>))
Wrap(x, wr) == IF wr THEN And(<<Hidden, x>>) ELSE x

\* ---- index layouts: keys that are indexed, with slopes (ties on purpose)
SlopeOfKey == [k \in {"a.eq", "b.eq"} |-> 2] @@ [k \in {"a.pres", "a.sub", "b.pres"} |-> 4]
              @@ [k \in {"b.ord"} |-> 5] @@ [k \in {"class.eq"} |-> 3] @@ [k \in {"uuid.eq"} |-> 1] @@ [k \in {"class.pres"} |-> 6]
Base == {"class.eq", "class.pres", "uuid.eq"}
ABKeys == <<"a.eq", "a.pres", "b.eq", "b.pres">>
\* layouts 1..16: subsets of eq/pres x a/b with sub+ord indexed; 17..32: same subsets without sub/ord
Bit(n, i) == (n \div (2 ^ (i - 1))) % 2 = 1
KeysOf(n) == LET m == (n - 1) % 16
             IN Base \cup {ABKeys[i] : i \in {j \in 1..4 : Bit(m, j)}} \cup (IF n <= 16 THEN {"a.sub", "b.ord"} ELSE {})
Layout(n) == [k \in KeysOf(n) |-> SlopeOfKey[k]]

\* ---- databases
Shapes == [a : SUBSET {1, 2}, b : SUBSET {1, 2}]
ShapeSeq == [i \in 1..16 |-> [a |-> {j \in {1, 2} : Bit(i - 1, j)}, b |-> {j \in {1, 2} : Bit(i - 1, j + 2)}]]
EntryOf(sh) == [a |-> sh.a, b |-> sh.b, class |-> {90}, uuid |-> {1}]   \* small databases: the caller's own entry
Full16 == [i \in 1..16 |-> [a |-> ShapeSeq[i].a, b |-> ShapeSeq[i].b, class |-> {90}, uuid |-> {i}]]
Sid == 1  \* the caller is entry 1
DBs == CASE DbSet = "full16" -> {Full16}
         [] DbSet = "single" -> {[i \in {1} |-> EntryOf(s)] : s \in Shapes} \cup {<<>>}
         \* databases of <= 2 entries over six representative shapes (threshold arms depend on cardinalities)
         [] DbSet = "le2s"   -> {<<>>} \cup {[i \in {1} |-> EntryOf(ShapeSeq[k])] : k \in {1, 2, 4, 6, 11, 16}}
                                \cup {[i \in {1, 2} |-> EntryOf(ShapeSeq[p[i]])] : p \in {q \in {1, 2, 4, 6, 11, 16} \X {1, 2, 4, 6, 11, 16} : q[1] <= q[2]}}
         [] DbSet = "le2"    -> {[i \in {1} |-> EntryOf(s)] : s \in Shapes} \cup {<<>>}
                                \cup {[i \in {1, 2} |-> EntryOf(ShapeSeq[p[i]])] : p \in {q \in (1..16) \X (1..16) : q[1] <= q[2]}}

Init == f \in Filters(Depth) /\ w \in Wraps /\ lay \in LayoutIds /\ db \in DBs
Next == UNCHANGED <<f, w, lay, db>>

\* ---- derived (one invariant, LET-cached so every piece is evaluated once per state)
RECURSIVE TermLists(_)
TermLists(rf) == IF rf.k \in {"and", "or"}
                 THEN {rf.fs} \cup UNION {TermLists(rf.fs[i]) : i \in DOMAIN rf.fs}
                 ELSE IF rf.k = "not" THEN TermLists(rf.f) ELSE {}
Leq(x, y) == Cmp(x, y) <= 0
\* the comparator is a total preorder on sibling terms, and PartialEq-equal terms compare Equal
OrderOk(rs) == \A l \in TermLists(rs) :
                 \A i, j, k \in DOMAIN l :
                   /\ Cmp(l[i], l[j]) = 0 - Cmp(l[j], l[i])
                   /\ (Leq(l[i], l[j]) /\ Leq(l[j], l[k]) => Leq(l[i], l[k]))
                   /\ (Eqv(l[i], l[j]) => Cmp(l[i], l[j]) = 0)
Count(r) == TLCSet(r, TLCGet(r) + 1)
Fail(tag) == PrintT(<<tag, f, w, lay, db>>) /\ FALSE
\* (A) spec -> impl: cases handed to the driver for replay on the real code
CaseJson == ToJson([f |-> f, w |-> w, keys |-> KeysOf(lay), db |-> [i \in DOMAIN db |-> [a |-> db[i].a, b |-> db[i].b]]])
\* register 10: outcome classes already represented; register 11: counterexample cases printed
EmitClass(c) == IF c \in TLCGet(10) THEN TRUE ELSE TLCSet(10, TLCGet(10) \cup {c}) /\ PrintT(<<"CASE", CaseJson>>)
EmitCex == IF TLCGet(11) >= CaseCap THEN TRUE ELSE TLCSet(11, TLCGet(11) + 1) /\ PrintT(<<"CASE", CaseJson>>)

(* The tree under test carries the repair of the two filter2idl defects (commit b91e119: anchored rewrite +
   AndNot fold).  Current code = RewriteFixed + F2I(fix = TRUE): it must be exact EVERYWHERE.  The transcription of
   the code before the repair is kept: the states where it diverges are the regression witnesses (census, CASEs). *)
MCInv ==
  LET orig  == Wrap(f, w)
      idx   == Layout(lay)
      rs    == ResolveIdx(orig, idx, Sid)
      rf    == Optimise(Anchor(rs, FALSE, idx))
      rfo   == Optimise(rs)
      rfn   == RewriteNoIdx(orig, Sid)
      truth == MatchSet(orig, db, Sid)
      cf    == Cfg(Thres, TRUE, PresAttrs(idx))
      cfo   == Cfg(Thres, FALSE, PresAttrs(idx))
      idl   == F2I(rf, db, cf)
      got   == SearchIdl(rf, db, Sid, idl)
      goto  == Search(rfo, db, Sid, cfo)
      sigo  == DefectSig(rfo, db, cfo)
  IN /\ Count(1)
     \* C02
     /\ (MatchSet(rf, db, Sid) = truth \/ Fail("REWRITE"))
     /\ (MatchSet(rfo, db, Sid) = truth \/ Fail("REWRITEOLD"))
     /\ (MatchSet(rfn, db, Sid) = truth \/ Fail("REWRITENOIDX"))
     /\ (OrderOk(rs) \/ Fail("ORDER"))
     /\ (OrderOk(Anchor(rs, FALSE, idx)) \/ Fail("ORDERANCHORED"))
     \* C01: index-driven search is exact
     /\ (got = truth \/ Fail("DIVERGES"))
     \* regression witnesses: where the code before the repair diverged, and in which class
     /\ (goto = truth \/ Count(IF sigo = "andnot-isolated" THEN 2 ELSE IF sigo = "andnot-partial" THEN 3 ELSE 4))
     /\ (goto = truth \/ sigo # "none" \/ Fail("UNEXPLAINED"))
     /\ (goto = truth \/ EmitCex)
     /\ (sigo = "none" \/ Count(5))
     /\ EmitClass(<<rf.k, idl.k, sigo, goto = truth, w>>)
     \* vacuity guard: candidate-set classes reached
     /\ Count(CASE idl.k = "allids" -> 6 [] idl.k = "partial" -> 7 [] idl.k = "pthres" -> 8 [] OTHER -> 9)

ASSUME (\A r \in 1..9 : TLCSet(r, 0)) /\ TLCSet(10, {}) /\ TLCSet(11, 0)
\* CENSUS: states, pre-repair code wrong with D1, with D2, unexplained, states with a pre-repair defect signature,
\*         allids, partial, pthres, indexed
Census == PrintT(<<"CENSUS", TLCGet(1), TLCGet(2), TLCGet(3), TLCGet(4), TLCGet(5), TLCGet(6), TLCGet(7), TLCGet(8), TLCGet(9)>>)
=============================================================================
