CONSTANTS
  CommitOrder = "publish_first"
  NanoMax = 3
  Fine = TRUE
INIT Init
NEXT Next
VIEW View
INVARIANT CacheNeverAheadOfSqlite
INVARIANT Emit
CHECK_DEADLOCK FALSE
