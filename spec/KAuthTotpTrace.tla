---------------------------- MODULE KAuthTotpTrace ----------------------------
(* Validates observations of the REAL Totp::verify (C29).  One line per call:
   {"a":"verify","step":S,"t":T,"code":C,"res":0|1,"k0":K0,"codes":[Code(K0),Code(K0+1),...], ...}
   `codes` is the table of RFC 6238 codes of the counters K0.. for the token's secret, algorithm
   and digit count, computed by the independent implementation in kv/checks/C29.py; this spec
   decides which counters make a code acceptable at time T.                                   *)
EXTENDS KAuthTotp, Sequences, Json, IOUtils, TLC
Rec == ndJsonDeserialize(IOEnv.TRACE)
VARIABLE l

\* code of counter k from the line's table; counters outside the table have no code (-1)
CodeOf(r, k) == IF k >= r.k0 /\ k < r.k0 + Len(r.codes) THEN r.codes[k - r.k0 + 1] ELSE -1

\* StepOf by search inside the table's counter range (real times are ~1e9: no 0..t enumeration)
StepIn(r) == CHOOSE k \in r.k0..(r.k0 + Len(r.codes) - 1) : k * r.step <= r.t /\ r.t < (k + 1) * r.step
HasStep(r) == \E k \in (r.k0 + 1)..(r.k0 + Len(r.codes) - 1) : k * r.step <= r.t /\ r.t < (k + 1) * r.step

LineL1(r) == LET k == StepIn(r) IN
               (r.res = 1) <=> (r.code = CodeOf(r, k) \/ r.code = CodeOf(r, k - 1))
LineL2(r) == LET counter == r.t \div r.step
                 C(k) == CodeOf(r, k)
             IN  (r.res = 1) <=> L2Verify(C, r.code, r.t, r.step)

Init == l = 1
Next == l <= Len(Rec) /\ l' = l + 1
Judge == l <= Len(Rec) =>
           /\ (HasStep(Rec[l]) \/ PrintT(<<"BADTABLE", "C29", l>>))
           /\ (~HasStep(Rec[l]) \/ LineL1(Rec[l]) \/ PrintT(<<"L1FAIL", "C29", l, IF Rec[l].res = 1 THEN "accept-invalid" ELSE "reject-valid">>))
           /\ (~HasStep(Rec[l]) \/ LineL2(Rec[l]) \/ PrintT(<<"L2DRIFT", "C29", l>>))
Consumed == TLCGet("stats").distinct = Len(Rec) + 1 \/ PrintT(<<"NOTCONSUMED", TLCGet("stats").distinct, Len(Rec)>>)
=============================================================================
