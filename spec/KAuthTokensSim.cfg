CONSTANTS
  Grace = 2
  MaxAge = 100
  T = 6
  SessLen = 3
  ApiLen = 2
  MaxSess = 3
  MaxApi = 2
  MaxKeys = 2
  MaxCreds = 3
  MaxGrants = 1
  VFs <- NoneOr2
  EXs <- NoneOr3
  SimDepth = 14
INIT Init
NEXT Next
INVARIANT PrintHist
CHECK_DEADLOCK FALSE
