------------------------------ MODULE KStoreTrace ------------------------------
(* Validates observations of a REAL server (driver harness/store/src/c03.rs).
   History lines (C03):
     {"a":"reset","h":n,"res":"ok","st":S}      {"a":"op","op":{..},"res":class,"st":S}
     S = {"ents":[Entry = {id,uuid,e,live,a,c,syn,k}], "meta":[[attr,type]], "idx":{"type:attr":{"present":0|1,"rows":{key:[ids]}}},
          "cached":{"type:attr":{key:[ids]}}, "n2u":{key:uuid|"-"}, "x2u":.., "u2s":.., "u2r":.., "resolve":.., "verify":[..]}
   Backup lines (C13):
     {"a":"bak","gz":0|1,"res":class,"orig":DB,"rest":DB}     DB = {"ents":{uuid:digest},"ids":{..},"ruv":[..],
                                                                "verify":[..],"beverify":[..],"probes":{name:[uuid]}}
     {"a":"bakver","mut":which,"res":"refused"|"ok"}           a backup whose version tag was rewritten *)
EXTENDS KStore, Json, IOUtils
Rec == ndJsonDeserialize(IOEnv.TRACE)
VARIABLE l

Init == l = 1
Next == l <= Len(Rec) /\ l' = l + 1
Spec == Init /\ [][Next]_l

Ents(st) == Range(st.ents)
ObsTable(o) == [k \in DOMAIN o.rows |-> Range(o.rows[k])]
TKey(m) == m[2] \o ":" \o m[1]

TableOk(st, m) == LET k == TKey(m) IN
  k \in DOMAIN st.idx /\ st.idx[k].present = 1 /\ TableMirrors(ObsTable(st.idx[k]), Ents(st), m[1], m[2])
\* rows read through the idl cache for a pool of keys: each equals the computed row (empty when no entry produces it)
CachedOk(st, m) == LET k == TKey(m) IN
  k \in DOMAIN st.cached => \A key \in DOMAIN st.cached[k] : Range(st.cached[k][key]) = RowOf(Table(Ents(st), m[1], m[2]), key)

JudgeState(st, ln) ==
  /\ \A i \in DOMAIN st.meta : (TableOk(st, st.meta[i]) \/ PrintT(<<"L1FAIL", "C03", ln, "table " \o TKey(st.meta[i])>>))
  /\ \A i \in DOMAIN st.meta : (CachedOk(st, st.meta[i]) \/ PrintT(<<"L1FAIL", "C03", ln, "cached " \o TKey(st.meta[i])>>))
  /\ ((\A k \in DOMAIN st.n2u : st.n2u[k] \in N2U(Ents(st), k)) \/ PrintT(<<"L1FAIL", "C03", ln, "lookup name2uuid">>))
  /\ ((\A k \in DOMAIN st.x2u : st.x2u[k] \in X2U(Ents(st), k)) \/ PrintT(<<"L1FAIL", "C03", ln, "lookup externalid2uuid">>))
  /\ ((\A u \in DOMAIN st.u2s : st.u2s[u] \in U2S(Ents(st), u)) \/ PrintT(<<"L1FAIL", "C03", ln, "lookup uuid2spn">>))
  /\ ((\A u \in DOMAIN st.u2r : st.u2r[u] \in U2R(Ents(st), u)) \/ PrintT(<<"L1FAIL", "C03", ln, "lookup uuid2rdn">>))
  /\ (ResolveAgrees(Ents(st), st.resolve) \/ PrintT(<<"L1FAIL", "C03", ln, "resolve name_to_uuid">>))

\* L2: the entries' keys are what the transcription of the key functions says, and
\* tables follow from the previous tables by the entry diff (or by recomputation on reindex)
L2Keys(st) == \A e \in Ents(st) : \A i \in DOMAIN st.meta :
                 Keys(e, st.meta[i][1], st.meta[i][2]) = KeysL2(e, st.meta[i][1], st.meta[i][2])
L2State(prev, st, op) ==
  /\ L2Keys(st)
  /\ \A i \in DOMAIN st.meta : LET m == st.meta[i]  k == TKey(m) IN
     (k \in DOMAIN st.idx /\ k \in DOMAIN prev.idx) =>
        ObsTable(st.idx[k]) = (IF op = "reindex" THEN Table(Ents(st), m[1], m[2])
                               ELSE DiffApply(ObsTable(prev.idx[k]), Ents(prev), Ents(st), m[1], m[2]))

BakOk(r, ln) ==
  /\ (r.res = "ok" \/ PrintT(<<"L1FAIL", "C13", ln, "restore-failed">>))
  /\ r.res = "ok" =>
       /\ (r.rest.ents = r.orig.ents \/ PrintT(<<"L1FAIL", "C13", ln, "entries">>))
       /\ (r.rest.ids = r.orig.ids \/ PrintT(<<"L1FAIL", "C13", ln, "identifiers">>))
       /\ (r.rest.ruv = r.orig.ruv \/ PrintT(<<"L1FAIL", "C13", ln, "ruv">>))
       /\ ((r.rest.verify = <<>> /\ r.rest.beverify = <<>>) \/ PrintT(<<"L1FAIL", "C13", ln, "verify">>))
       /\ (r.rest.probes = r.orig.probes \/ PrintT(<<"L1FAIL", "C13", ln, "probes">>))

Judge == l <= Len(Rec) =>
  LET r == Rec[l] IN
  CASE r.a \in {"reset", "op"} ->
         /\ JudgeState(r.st, l)
         /\ (r.a = "reset" \/ Rec[l - 1].a \notin {"reset", "op"} \/ L2State(Rec[l - 1].st, r.st, r.op.op) \/ PrintT(<<"L2DRIFT", "C03", l>>))
    [] r.a = "bak" -> BakOk(r, l)
    [] r.a = "bakver" -> (r.res # "ok" \/ PrintT(<<"L1FAIL", "C13", l, "version-accepted " \o r.mut>>))
    [] OTHER -> TRUE
Consumed == TLCGet("stats").distinct = Len(Rec) + 1 \/ PrintT(<<"NOTCONSUMED", TLCGet("stats").distinct, Len(Rec)>>)
=============================================================================
