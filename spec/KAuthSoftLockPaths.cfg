CONSTANTS
  D = 4
  Day = 86400
  Step = 30
  CreatePolicy = "cred"
SPECIFICATION Spec
INVARIANT Inv
INVARIANT Emit
CHECK_DEADLOCK FALSE
