----------------------------- MODULE KLdapTrace -----------------------------
(* Validates observations of the REAL LdapServer::do_op (driver: kv-oauth c40, one JSON line per
   operation, many histories per file, each starting with a "reset" line) against KLdap:
   L1 clause failures print <<"L1FAIL","C40",line,"<clause>">>, lines the implementation-shaped
   layer does not explain print <<"L2DRIFT","C40",line>>.

   cn = the connection as kanidmd_core's ldaps.rs keeps it: how the token in hand was obtained
   (k: none | auto | bind kind) and the session it carries (s, u).                              *)
EXTENDS KLdap, Json, IOUtils
Rec == ndJsonDeserialize(IOEnv.TRACE)
VARIABLES l, cn

Unbound == [k |-> "none", s |-> "none", u |-> ""]

NextCn(c, r) ==
  CASE r.a = "reset" -> Unbound
    [] r.a = "bind" -> IF r.res = "bound" THEN [k |-> r.k, s |-> r.ns, u |-> r.nu] ELSE c
    [] r.a = "unbind" -> IF r.res = "closed" THEN Unbound ELSE c
    [] r.a \in {"search", "compare"} -> IF r.ab THEN [k |-> "auto", s |-> "unix", u |-> AnonUuid] ELSE c
    [] OTHER -> c

IsOp(r) == r.a \in {"bind", "search", "compare", "whoami", "unbind", "wop"}

\* ---- L1 on line i (p = previous line when it belongs to the same history)
Fail(i, sig) == PrintT(<<"L1FAIL", "C40", i, sig>>)
LineL1(i, r, c) ==
  /\ IsOp(r) =>
       /\ (L1DbOp(r) \/ Fail(i, "db-changed"))
       /\ (i = 1 \/ r.a = "reset" \/ L1DbChain(r, Rec[i - 1]) \/ Fail(i, "db-changed-between"))
  /\ r.a = "bind" =>
       /\ (L1PwBindAnon(r) \/ Fail(i, "pw-bind-not-anon"))
       /\ (L1UnixFlag(r)   \/ Fail(i, "unix-bind-flag-off"))
       /\ (L1AppMember(r)  \/ Fail(i, "app-bind-nonmember"))
  /\ r.a = "search" =>
       /\ (L1PwSearchIdent(r, c.k) \/ Fail(i, "pw-bind-not-anon"))
       /\ (L1PwSearchReads(r, c.k) \/ Fail(i, "pw-bind-reads-more"))
       /\ (L1SearchEntries(r)      \/ Fail(i, "search-entries-differ"))
       /\ (L1SearchAttrs(r)        \/ Fail(i, "search-attrs-differ"))
  /\ r.a = "compare" =>
       (L1PwCompare(r, c.k) \/ Fail(i, "pw-bind-reads-more"))

\* ---- L2 (drift only)
SameEntries(a, b) == SubEntries(a, b) /\ SubEntries(b, a) /\ Len(a) = Len(b)
LineL2(r, c) ==
  /\ IsOp(r) => r.dl = 0 /\ r.tk = c.s /\ r.tu = c.u
  /\ r.a = "bind" =>
       /\ r.res = L2BindRes(r)
       /\ r.res = "bound" => /\ <<r.ns, r.nu>> = L2NewSession(r)
                             /\ r.eid = L2Ident(r.ns, r.nu)
       /\ r.res # "bound" => r.ns = c.s /\ r.nu = c.u           \* core keeps the previous session
  /\ r.a = "search" =>
       /\ r.ab = (c.s = "none" /\ r.res = "ok")               \* the auto-bound token is returned only with a result
       /\ r.kall = L2KAll(r.req) /\ (~r.kall => Range(r.kreq) = L2KReq(r.req))
       /\ (r.bk = "root" /\ r.scp = "base") => (r.res = "ok" /\ Len(r.ents) = 1)
       /\ r.bk = "bad" => r.res = "err"
       /\ Len(r.req) >= MaxQueryAttrs => r.res = "err"
       /\ ScopedSubset(r)
       /\ r.res = "ok" /\ r.bk # "root" =>
            /\ r.nres = "ok"
            /\ r.eid = L2Ident(IF r.ab THEN "unix" ELSE c.s, IF r.ab THEN AnonUuid ELSE c.u)
            /\ L2Ident(IF r.ab THEN "unix" ELSE c.s, IF r.ab THEN AnonUuid ELSE c.u) = AnonUuid
                 => (r.ares = "ok" /\ SameEntries(r.ents, r.anon))
            \* to_ldap transcription: the returned attribute types are exactly those of the reduced entry
            /\ \A i \in DOMAIN r.ents : \A j \in DOMAIN r.nat :
                 r.nat[j].dn = r.ents[i].dn => Range(r.ents[i].at) = L2ToLdap(r.req, Range(r.nat[j].at))
  /\ r.a = "compare" =>
       /\ r.ab = (c.s = "none" /\ r.res \in {"true", "false", "nosuch"})
       /\ (c.s \in {"none", "unix"}) => r.res = r.ares
  /\ r.a = "whoami" => r.res = (IF c.s = "none" THEN "operr" ELSE "ok")
  /\ r.a = "unbind" => r.res = "closed"
  /\ r.a = "wop" => r.res = "noserverop"
  /\ r.a = "cfg" => r.res = "ok"

Init == l = 1 /\ cn = Unbound
Next == l <= Len(Rec) /\ l' = l + 1 /\ cn' = NextCn(cn, Rec[l])
Spec == Init /\ [][Next]_<<l, cn>>

Judge == l <= Len(Rec) =>
           /\ LineL1(l, Rec[l], cn)
           /\ (LineL2(Rec[l], cn) \/ PrintT(<<"L2DRIFT", "C40", l>>))
Consumed == TLCGet("stats").distinct = Len(Rec) + 1 \/ PrintT(<<"NOTCONSUMED", TLCGet("stats").distinct, Len(Rec)>>)
=============================================================================
