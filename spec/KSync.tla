-------------------------------- MODULE KSync --------------------------------
(***************************************************************************)
(* Synchronisation agreements (property C50).                              *)
(* L0  entries as in KAccess; owner of an entry = its sync_parent_uuid;    *)
(*     a sync request [from \in {"refresh","active","stale"}, entries :    *)
(*     sequence of [id, sys, kind, ext, attrs], retain : [mode, ids]]      *)
(* L1  what a successful scim_sync_apply by agreement A may have done, and *)
(*     what a successful user modify may have done to a synchronised entry *)
(* L2  phases 1-5 of idm/scim.rs scim_sync_apply as the code composes them *)
(***************************************************************************)
EXTENDS KAccessNorm

\* ============================== L0 ======================================
Owner(e) == AttrVals(e, "sync_parent_uuid")
\* attributes the server maintains itself as a consequence of other changes
Derived == {"memberof", "directmemberof", "last_modified_cid"}
\* bookkeeping of the synchronisation itself on its own entries
Book == Derived \cup {"class", "sync_class", "sync_external_id", "spn"}
BornWith == {"uuid", "sync_parent_uuid", "created_at_cid"}
ChangedAttrs(pre, post) == {a \in DOMAIN pre.attrs \cup DOMAIN post.attrs : AttrVals(pre, a) # AttrVals(post, a)}
Untouched(pre, post) ==
  /\ pre.live = post.live
  /\ Classes(pre) \ {"memberof"} = Classes(post) \ {"memberof"}
  /\ ChangedAttrs(pre, post) \subseteq Derived \cup {"class"}

\* ============================== L1 ======================================
\* successful sync by agreement A; Yld = attributes A handed over to Kanidm's authority
L1Sync(A, Syncable, Yld, Pre, Post) ==
  \* only entries it owns: everything else (but the agreement's own record) is untouched
  /\ \A x \in DOMAIN Pre : (A \notin Owner(Pre[x]) /\ x # A) => (x \in DOMAIN Post /\ Untouched(Pre[x], Post[x]))
  \* creations: owned by A, never in the reserved system range, only synchronisable content
  /\ \A x \in DOMAIN Post \ DOMAIN Pre :
        /\ ~Post[x].sys
        /\ Owner(Post[x]) = {A}
        /\ DOMAIN Post[x].attrs \subseteq (Syncable \ Yld) \cup Book \cup BornWith
  \* its own entries that stay: only synchronisable, non-yielded attributes change
  /\ \A x \in DOMAIN Pre \cap DOMAIN Post :
        (A \in Owner(Pre[x]) /\ Pre[x].live = "live" /\ Post[x].live = "live")
           => ChangedAttrs(Pre[x], Post[x]) \subseteq (Syncable \ Yld) \cup Book
SyncSig(A, Syncable, Yld, Pre, Post) ==
  IF \E x \in DOMAIN Post \ DOMAIN Pre : Post[x].sys THEN "created-in-reserved-uuid-range"
  ELSE IF \E x \in DOMAIN Post \ DOMAIN Pre : Owner(Post[x]) # {A} THEN "created-not-owned"
  ELSE IF \E x \in DOMAIN Pre : A \notin Owner(Pre[x]) /\ x # A /\ (x \notin DOMAIN Post \/ ~Untouched(Pre[x], Post[x]))
       THEN "foreign-entry-changed"
  ELSE "attribute-outside-authority"

\* successful user modify with request ml: on synchronised entries only yielded attributes and
\* session / consent / reset state change; Y : agreement -> yielded attributes
L1UserMod(Y, ml, Pre, Post) ==
  \A x \in DOMAIN Pre \cap DOMAIN Post :
     "sync_object" \in Classes(Pre[x]) =>
        \A a \in NamedAttrs(ml) :
           AttrVals(Pre[x], a) # AttrVals(Post[x], a) =>
              a \in SyncBase \cup UNION {IF o \in DOMAIN Y THEN Y[o] ELSE {} : o \in Owner(Pre[x])}

\* ============================== L2 ======================================
ReqIds(req) == {req.entries[i].id : i \in DOMAIN req.entries}
ReqAttrs(req) == UNION {DOMAIN req.entries[i].attrs : i \in DOMAIN req.entries}
OwnedLive(St, A) == {x \in DOMAIN St : A \in Owner(St[x]) /\ St[x].live = "live"}

\* outcome of scim_sync_apply: ok?, ids created, ids deleted
SyncApply(St, A, idk, hasCookie, req, KAttrs, Yld) ==
  LET ids == ReqIds(req)
      existing == ids \cap DOMAIN St
      created == ids \ DOMAIN St
      p1 == idk = "synch" /\ (req.from = "refresh" \/ (req.from = "active" /\ hasCookie))
      \* phase 2: masked entries refuse; stubs for the missing ids through the internal identity
      p2 == \A x \in existing : ~Hidden(St[x])
      \* phase 2 refuses to create a stub whose id lies in the reserved system range (the stubs are created
      \* through the internal identity, which would be allowed to use that range)
      p2c == \A i \in DOMAIN req.entries : req.entries[i].id \in created => ~req.entries[i].sys
      \* phases 2+3: every existing entry must assert sync_parent_uuid = A
      p3a == \A x \in existing : A \in Owner(St[x])
      \* phase 3: classes must be sync classes, attributes sync-owned (not yielded)
      p3b == \A i \in DOMAIN req.entries : req.entries[i].kind \in {"group", "person"}
      p3c == \A i \in DOMAIN req.entries :
                 req.entries[i].kind \in DOMAIN KAttrs /\ DOMAIN req.entries[i].attrs \subseteq KAttrs[req.entries[i].kind] \ Yld
      \* phase 2 sets the external ids with one batch modify, which refuses an empty batch
      p2b == req.entries = <<>> \/ \E i \in DOMAIN req.entries : req.entries[i].ext
      owned2 == OwnedLive(St, A) \cup created
      cleanup == IF req.from = "refresh" THEN OwnedLive(St, A) \ ids ELSE {}
      left == owned2 \ cleanup
      \* phase 4 looks at the state after the cleanup: what the cleanup recycled is skipped as already deleted
      delc == {x \in req.retain.ids : ((x \in DOMAIN St /\ ~Hidden(St[x])) \/ x \in created) /\ x \notin cleanup}
      \* referential integrity: a member reference must point at something live after the cleanup
      refs == UNION {IF "member" \in DOMAIN req.entries[i].attrs THEN req.entries[i].attrs["member"] ELSE {} : i \in DOMAIN req.entries}
      pref == \A v \in refs : (v \in created) \/ (v \in DOMAIN St /\ St[v].live = "live" /\ v \notin cleanup)
      p4 == req.retain.mode = "delete" => \A x \in delc : x \in left
      del4 == CASE req.retain.mode = "retain" -> left \ req.retain.ids
                [] req.retain.mode = "delete" -> delc
                [] OTHER -> {}
      ok == p1 /\ p2 /\ p2c /\ p2b /\ p3a /\ p3b /\ p3c /\ pref /\ p4
  IN  [ok |-> ok, created |-> created, deleted |-> cleanup \cup del4]
=============================================================================
