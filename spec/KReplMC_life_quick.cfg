\* C09: lifecycle arms on 2 replicas (delete / revive / purge racing edits), every apply arm exported
CONSTANTS
  N = 2
  Ids = {1}
  NewIds = {}
  Sids = {}
  MaxTs = 3
  MaxRepl = 2
  MaxWrites = 3
  RecycleAge = 0
  Window = 0
  MergeRestamp = TRUE
  NoSkew = TRUE
  ArmQuota = 2
  EnableRename = FALSE
  EnableClear = FALSE
INIT Init
NEXT Next
VIEW View
INVARIANT InvConvergedButSessions
INVARIANT ArmExport
PROPERTY NoResurrection
CHECK_DEADLOCK FALSE
