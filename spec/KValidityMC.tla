----------------------------- MODULE KValidityMC -----------------------------
(* C49, exhaustive: every (port, asker, valid-from, expiry, time) of the bounded space is one initial
   state; Before = FALSE: the transcription of today's code (L2Rel) must satisfy the property on every
   cell.  Before = TRUE (KValidityAll.cfg, expected to be VIOLATED): the transcription of the RADIUS port
   as it was before fix 9e5c126 exhibits the repaired defect - a regression guard for the model itself. *)
EXTENDS KValidity
CONSTANTS T, Before
VARIABLES o
Times == 0..T
Opt == {None} \cup Times
Init == o \in {x \in [port : Ports, asker : Askers, vf : Opt, ex : Opt, t : Times, rel : BOOLEAN] :
                  x.rel = IF Before THEN L2RelBefore(x.port, x.asker, x.vf, x.ex, x.t)
                                   ELSE L2Rel(x.port, x.asker, x.vf, x.ex, x.t)}
Next == UNCHANGED o
Spec == Init /\ [][Next]_o
Inv == L1Ok(o)
=============================================================================
