----------------------------- MODULE KValidityMC -----------------------------
(* C49, exhaustive: every (port, asker, valid-from, expiry, time) of the bounded space is one initial
   state.  Inv: the transcription (L2Rel) satisfies the property everywhere EXCEPT the observation class
   of the known finding (KnownRadius), which is kept out as a constraint so that every other cell of the
   matrix is still checked; InvAll (expected to be violated) shows that the model exhibits the defect. *)
EXTENDS KValidity
CONSTANTS T
VARIABLES o
Times == 0..T
Opt == {None} \cup Times
Init == o \in {x \in [port : Ports, asker : Askers, vf : Opt, ex : Opt, t : Times, rel : BOOLEAN] :
                  x.rel = L2Rel(x.port, x.asker, x.vf, x.ex, x.t)}
Next == UNCHANGED o
Spec == Init /\ [][Next]_o
Inv == KnownRadius(o) \/ L1Ok(o)
InvAll == L1Ok(o)
=============================================================================
