--------------------------- MODULE KAuthPwQualityMC ---------------------------
(* Exhaustive over paths x effective minimum x grapheme length x extra bytes x badlisted, at the
   REAL constants; every state is also printed as a CASE to be concretised with real strings.  *)
EXTENDS KAuthPwQuality, TLC
CONSTANTS Mins, GLens, Extras, Max, FixMin
VARIABLES path, min, glen, extra, bad
vars == <<path, min, glen, extra, bad>>
blen == glen + extra
Init == path \in Paths /\ min \in Mins /\ glen \in GLens /\ extra \in Extras /\ bad \in {0, 1}
Next == UNCHANGED vars
\* Model hypothesis confirmed on the real code (known finding C31-direct-unix-ignores-policy-minimum):
\* the direct POSIX path checks a fixed 15-byte minimum instead of the account's effective minimum.
KnownDirect == path = "direct_unix" /\ min > FixMin /\ blen >= FixMin /\ blen < min
Inv == (L2Why(path, min, Max, FixMin, glen, blen, bad) = "ok") => (KnownDirect \/ L1Stored(min, Max, glen, blen, bad))
Emit == PrintT(<<"CASE", path, min, glen, blen, bad>>)
ReachKnown == ~(KnownDirect /\ L2Why(path, min, Max, FixMin, glen, blen, bad) = "ok")
ReachUnitGap == ~(L2Why(path, min, Max, FixMin, glen, blen, bad) = "ok" /\ ~UnitExact(min, Max, glen, blen, bad) /\ ~KnownDirect)
=============================================================================
