--------------------------- MODULE KAuthPwQualityMC ---------------------------
(* Exhaustive over paths x effective minimum x grapheme length x extra bytes x badlisted, at the
   REAL constants; every state is also printed as a CASE to be concretised with real strings.  *)
EXTENDS KAuthPwQuality, TLC
CONSTANTS Mins, GLens, Extras, Max, FixMin
VARIABLES path, min, glen, extra, bad
vars == <<path, min, glen, extra, bad>>
blen == glen + extra
Init == path \in Paths /\ min \in Mins /\ glen \in GLens /\ extra \in Extras /\ bad \in {0, 1}
Next == UNCHANGED vars
Inv == (L2Why(path, min, Max, FixMin, glen, blen, bad) = "ok") => L1Stored(min, Max, glen, blen, bad)
Emit == PrintT(<<"CASE", path, min, glen, blen, bad>>)
\* the direct path refuses a password that meets the fixed minimum but not the policy minimum
ReachKnown == ~(path = "direct_unix" /\ min > FixMin /\ glen >= FixMin /\ glen < min /\ L2Why(path, min, Max, FixMin, glen, blen, bad) = "tooshort")
ReachUnitGap == ~(L2Why(path, min, Max, FixMin, glen, blen, bad) = "ok" /\ ~UnitExact(min, Max, glen, blen, bad))
=============================================================================
