CONSTANTS
  Kind = "key"
  KeySet = {1}
INIT Init
NEXT Next
INVARIANT Inv
CHECK_DEADLOCK FALSE
