CONSTANTS
  NG = 3
  NL = 0
  Sample = 60
  MaxLen = 2
INIT Init
NEXT Next
VIEW View
INVARIANT Soft
CHECK_DEADLOCK FALSE
