------------------------------ MODULE KActorsMC ------------------------------
(* C47, exhaustive: all interleavings of the supervisor tasks, actor tasks, Runtime::exec, stop() calls and an
   environment that registers actors / subordinates, stops or drops handles and sends the terminate signal.
   Tree shape and actor population are constants; actor behaviours {block, finish early, long-running then
   block / finish} are chosen by the environment at spawn.
     Env = "behaved": nothing is registered under a supervisor once a stop of it or of an ancestor (or the
                      terminate signal) has been issued.
     Env = "free":    registrations at any time a handle is usable.
     Env = "nozombie": free, except registrations on a supervisor whose run() has already returned
                      (the reproduced finding C47-zombie-registration) -- shows there is no OTHER violation. *)
EXTENDS KActors
CONSTANTS Env, SupPar, ActPar, MaxReady
VARIABLES S, kind
vars == <<S, kind>>

\* tree used by the configs: s0 (primary) > s1 > s2 ; a1 under s1, a2 under s2, a3 under s0
SupParDef == ("s1" :> "s0") @@ ("s2" :> "s1")
ActParDef == ("a1" :> "s1") @@ ("a2" :> "s2") @@ ("a3" :> "s0")

Kinds == [ready : 0..MaxReady, fin : {"block", "stop"}]

RECURSIVE AncOrSelf(_)
AncOrSelf(p) == IF p = Root THEN {Root} ELSE {p} \cup AncOrSelf(SupPar[p])
Open(p) == /\ S.rt.sig = "none"
           /\ \A q \in AncOrSelf(p) \ {Root} : S.sup[q].hnd \in {"held", "dropped"}
MayRegister(p) == CASE Env = "behaved"  -> Open(p)
                    [] Env = "nozombie" -> S.sup[p].st \notin {"done", "gone"}
                    [] OTHER            -> TRUE

Init == S = S0 /\ kind = [a \in Acts |-> [ready |-> 0, fin |-> "block"]]

Step(G, E) == G /\ S' = E
EnvNext ==
  \/ Step(ExecStartG(S), ExecStartE(S)) /\ UNCHANGED kind
  \/ Step(SetupDoneG(S), SetupDoneE(S)) /\ UNCHANGED kind
  \/ Step(SignalG(S) /\ S.rt.pc # "none", SignalE(S)) /\ UNCHANGED kind
  \/ \E a \in Acts : /\ SpawnG(S, a, ActPar[a]) /\ MayRegister(ActPar[a])
                     /\ S' = SpawnE(S, a, ActPar[a])
                     /\ \E k \in Kinds : kind' = [kind EXCEPT ![a] = k]
  \/ \E c \in Sups \ {Root} : Step(SubG(S, c, SupPar[c]) /\ MayRegister(SupPar[c]), SubE(S, c, SupPar[c])) /\ UNCHANGED kind
  \/ \E s \in Sups : Step(StopG(S, s), StopE(S, s)) /\ UNCHANGED kind
  \/ \E s \in Sups : Step(DropG(S, s), DropE(S, s)) /\ UNCHANGED kind
TaskNext ==
  \/ \E s \in Sups : \/ Step(SupRecvParentG(S, s), SupRecvParentE(S, s))
                     \/ Step(SupRecvStopG(S, s), SupRecvStopE(S, s))
                     \/ Step(SupBroadcastG(S, s), SupBroadcastE(S, s))
                     \/ Step(SupClosedG(S, s), SupClosedE(S, s))
                     \/ Step(SupExitG(S, s), SupExitE(S, s))
                     \/ Step(StopTellG(S, s), StopTellE(S, s))
                     \/ Step(StopRetG(S, s), StopRetE(S, s))
     /\ UNCHANGED kind
  \/ \E a \in Acts : \/ Step(ActSetupDoneG(S, a), ActSetupDoneE(S, a)) /\ UNCHANGED kind
                     \/ Step(ActRecvG(S, a), ActRecvE(S, a)) /\ UNCHANGED kind
                     \/ /\ ActReadyG(S, a) /\ kind[a].ready > 0
                        /\ S' = ActReadyE(S, a) /\ kind' = [kind EXCEPT ![a].ready = @ - 1]
                     \/ Step(ActStopG(S, a) /\ kind[a].ready = 0 /\ kind[a].fin = "stop", ActStopE(S, a)) /\ UNCHANGED kind
                     \/ Step(ActRunDoneG(S, a), ActRunDoneE(S, a)) /\ UNCHANGED kind
                     \/ Step(ActCleanupDoneG(S, a), ActCleanupDoneE(S, a)) /\ UNCHANGED kind
                     \/ Step(ActExitG(S, a), ActExitE(S, a)) /\ UNCHANGED kind
  \/ Step(TakeSignalG(S), TakeSignalE(S)) /\ UNCHANGED kind
  \/ Step(PrimaryGoneG(S), PrimaryGoneE(S)) /\ UNCHANGED kind
  \/ Step(ExecSendG(S), ExecSendE(S)) /\ UNCHANGED kind
  \/ Step(ExecJoinG(S), ExecJoinE(S)) /\ UNCHANGED kind
Next == EnvNext \/ TaskNext
Spec == Init /\ [][Next]_vars
\* every task step is eventually taken if it stays enabled; the environment finishes setup
FairSpec == Spec /\ WF_vars(TaskNext) /\ WF_vars(Step(SetupDoneG(S), SetupDoneE(S)) /\ UNCHANGED kind)

\* L1 (safety)
Safe == StopSafe(S) /\ ExecSafe(S)
\* secondary (not part of the listed property): a stop / a termination eventually completes
StopLive == \A s \in Sups : (S.sup[s].hnd = "stopwait") ~> (S.sup[s].hnd = "returned")
ExecLive == (S.rt.sig = "sent" /\ S.rt.pc # "none") ~> (S.rt.pc = "returned")

\* vacuity guards: each is expected to be VIOLATED (the situation is reachable)
ReachStopWork == ~(\E s \in Sups : S.sup[s].hnd = "returned" /\ Cardinality(S.need[s] \cap Acts) >= 1
                                   /\ \E c \in S.need[s] \cap Sups : TRUE)
ReachExecWork == ~(S.rt.pc = "returned" /\ Cardinality(S.need[RT] \cap Acts) >= 2)
\* one state showing all of it at once (used by the quick tier: a single run, stops at the witness)
ReachAll == ~(/\ S.rt.pc = "returned" /\ Cardinality(S.need[RT] \cap Acts) >= 1
              /\ \E s \in Sups : S.sup[s].hnd = "returned" /\ S.need[s] \cap Acts # {} /\ S.need[s] \cap Sups # {}
              /\ \A a \in Acts : S.act[a].pc = "done")
ReachEarly    == ~(\E a \in Acts : S.act[a].pc = "done" /\ S.sup[S.act[a].par].st = "select")
=============================================================================
