---------------------------- MODULE KAuthPolicyMC ----------------------------
(* Exhaustive check of the fold transcription (L2) against the property (L1).
   Every sequence (= every permutation of every multiset) of at most N policies is one
   initial state.
   InitList : policies are the list the driver replays on the real code (file IOEnv.POLS,
              one JSON policy per line) -- the same finite space on both sides.
   InitProd : full product of small value domains (model only).                         *)
EXTENDS KAuthPolicy, Json, IOUtils
CONSTANTS N, PeDom, SeDom, MlDom, CtDom
VARIABLE seq

\* ---- policies from the shared file
RangeOf(s) == {s[i] : i \in 1..Len(s)}
NormCa(ca) == [has |-> ca.has, l |-> [c \in DOMAIN ca.l |-> RangeOf(ca.l[c])]]
NormPol(p) == [pe |-> p.pe, se |-> p.se, ml |-> p.ml, ct |-> p.ct, ca |-> NormCa(p.ca)]
FilePols == LET raw == ndJsonDeserialize(IOEnv.POLS) IN [i \in 1..Len(raw) |-> NormPol(raw[i])]

InitList == \E n \in 0..N : \E ix \in [1..n -> 1..Len(FilePols)] : seq = [i \in 1..n |-> FilePols[ix[i]]]

\* ---- product domain
CaDom == { NoCa,
           [has |-> 1, l |-> [c \in {"A"} |-> Blanket]],
           [has |-> 1, l |-> [c \in {"A", "B"} |-> IF c = "A" THEN {"g1", "g2"} ELSE {"g3"}]],
           [has |-> 1, l |-> [c \in {"A", "B"} |-> IF c = "A" THEN {"g2"} ELSE Blanket]],
           [has |-> 1, l |-> [c \in {"B"} |-> {"g4"}]] }
PolDom == [pe : PeDom \cup {Absent}, se : SeDom \cup {Absent}, ml : MlDom \cup {Absent}, ct : CtDom \cup {Absent}, ca : CaDom]
InitProd == \E n \in 0..N : seq \in [1..n -> PolDom]

Next == UNCHANGED seq

\* L2 meets L1 on this sequence: same result under every permutation, and strict.
Inv == LET out == Fold(seq) IN
         /\ L1Strict(seq, out)
         /\ \A p \in Perms(Len(seq)) : Fold(Permute(seq, p)) = out
         \* exactness of the CA part (two-sided reading: nothing trusted by all is dropped)
         /\ LET G == Devices(seq, out) \ {"*"}
                Wc == {i \in 1..Len(seq) : seq[i].ca.has = 1}
            IN  Wc # {} => Trust(out.ca.l, G) = {t \in (({"A", "B"} \cup DOMAIN out.ca.l) \X G) : \A i \in Wc : t \in Trust(seq[i].ca.l, G)}
\* vacuity guards (expected to be VIOLATED when checked on their own: the arm is reachable)
ReachSfaBump == ~(Len(seq) > 0 /\ Fold(seq).ml = SfaMin /\ FoldAcc(Base, seq).ml < SfaMin)
ReachCaEmpty == ~(Fold(seq).ca.has = 1 /\ DOMAIN Fold(seq).ca.l = {})
=============================================================================
