CONSTANTS
  Sups = {"s0", "s1", "s2"}
  Acts = {"a1", "a2"}
  Root = "s0"
  Env = "nozombie"
  SupPar <- SupParDef
  ActPar <- ActParDef
  MaxReady = 1
INIT Init
NEXT Next
CHECK_DEADLOCK FALSE
INVARIANT Safe
