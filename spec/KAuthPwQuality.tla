---------------------------- MODULE KAuthPwQuality ----------------------------
(***************************************************************************)
(* Password quality gate on every password-setting path (property C31).    *)
(*                                                                         *)
(* L0  a request: path in "cu_primary" | "cu_unix" (credential update      *)
(*     session, primary / POSIX password) | "direct_unix"                  *)
(*     (set_unix_account_password); the password as (glen graphemes, blen  *)
(*     bytes, bad = lower-cased form is in the system badlist); the        *)
(*     account's effective minimum / maximum length (from the fold of its  *)
(*     groups' policies, KAuthPolicy); observed: res, why, stored (the     *)
(*     stored credential now verifies this password).                      *)
(* L1  stored => not badlisted, not shorter than the minimum, not longer   *)
(*     than the maximum.  Lengths are compared conservatively: "shorter"   *)
(*     means shorter in EVERY unit (bytes >= characters >= graphemes, so   *)
(*     blen < min), "longer" means longer in every unit (glen > max); a    *)
(*     password that is short only in graphemes is counted, not alarmed.   *)
(* L2  transcription of the two check_password_quality functions           *)
(*     (credupdatesession.rs: policy minimum, graphemes; server.rs: the    *)
(*     larger of policy and fixed minimum, graphemes), without the zxcvbn  *)
(*     score (third party).                                                *)
(***************************************************************************)
EXTENDS Integers

Paths == {"cu_primary", "cu_unix", "direct_unix"}

\* ----------------------------- L1 ---------------------------------------
L1Stored(min, max, glen, blen, bad) == bad = 0 /\ blen >= min /\ glen <= max
\* the stricter, unit-exact reading (graphemes for the minimum, bytes for the maximum): informational
UnitExact(min, max, glen, blen, bad) == bad = 0 /\ glen >= min /\ blen <= max

\* ----------------------------- L2 ---------------------------------------
\* since commit 5b34a1f the direct path uses max(policy minimum, fixed minimum) counted in graphemes
L2Why(path, min, max, FixMin, glen, blen, bad) ==
  IF path = "direct_unix"
  THEN LET m == IF min > FixMin THEN min ELSE FixMin IN
       IF glen < m THEN "tooshort" ELSE IF glen > max \/ blen > 4 * max THEN "toolong" ELSE IF bad = 1 THEN "badlisted" ELSE "ok"
  ELSE IF glen < min THEN "tooshort" ELSE IF glen > max THEN "toolong" ELSE IF bad = 1 THEN "badlisted" ELSE "ok"
=============================================================================
