--------------------------- MODULE KOAuth2TokTrace ---------------------------
(* C39: validates observed histories of the REAL token endpoint (code exchange, refresh),
   introspection, userinfo and revocation of a kanidm IdmServer against the L1 predicates of
   KOAuth2 (Tokens section); lines the transcription (L2Exchange / L2Refresh / L2Use) does not
   explain are reported as drift.  Stateful: the model state `m` is rebuilt from the logged lines.
   One history = one grant; it starts with a "reset" line.  Times `t` are seconds relative to the
   harness epoch.  Line shapes (written by kv-oauth c39):
     {"a":"reset","t":T,"cfg":{"ktype","pkce","pkceReq","rtlife"},"code":{"client","redirect","pkce","verifier","scopes":[..]},"st":S}
     {"a":"tick","t":T,"d":D,"st":S}
     {"a":"exchange","t":T,"x":{"client","authok","redirect","verifier"},"res":"ok|err:..","scopes":[..],"atexp":E,"st":S}
     {"a":"refresh","t":T,"g":G,"x":{"client","authok","scopes":[..]|["*"]},"res":"ok|err:..","scopes":[..],"atexp":E,"alive":BOOL,"st":S}
     {"a":"introspect"|"userinfo","t":T,"g":G,"client":"k1|k2","res":"active|inactive|err:..","st":S}
     {"a":"revoke","t":T,"g":G,"kind":"at|rt","res":"ok|err:..","st":S}
     {"a":"expire"|"notyet"|"restore"|"logout","t":T,"st":S}   (account expiry / valid-from in the future / both cleared / parent login revoked)
   S = {"s":"absent|live|revoked","issued":I,"parent":"live|revoked|absent","from":F,"until":U}  (read back from the database) *)
EXTENDS KOAuth2, Json, IOUtils, Integers
CONSTANT Grace
Rec == ndJsonDeserialize(IOEnv.TRACE)
VARIABLES l, m

M0 == [code |-> [client |-> "", redirect |-> "", pkce |-> FALSE, verifier |-> "", t |-> 0], orig |-> {},
       pkceReq |-> FALSE, rtlife |-> 0, toks |-> <<>>, revoked |-> FALSE,
       st |-> [s |-> "absent", issued |-> 0, parent |-> "live", from |-> 0, until |-> 0]]

Ok(r) == r.res = "ok"
TokOf(mm, g, kind) ==
  LET k == mm.toks[g] IN
  [kind |-> kind, sess |-> "s1", client |-> mm.code.client, scopes |-> k.scopes, iat |-> k.iat,
   exp |-> IF kind = "at" THEN k.atexp ELSE k.iat + mm.rtlife, rot |-> k.rot]
Acct(mm) == [from |-> mm.st.from, until |-> mm.st.until]
SRecOf(mm) == [issued |-> mm.st.issued, state |-> mm.st.s, parent |-> mm.st.parent]
RevokedSet(mm) == IF mm.revoked THEN {"s1"} ELSE {}
HasTok(mm, r) == r.g \in DOMAIN mm.toks
LastIssue(mm) == IF Len(mm.toks) = 0 THEN 0 ELSE mm.toks[Len(mm.toks)].iat

XExchange(mm, r) == [client |-> r.x.client, authok |-> r.x.authok, redirect |-> r.x.redirect, verifier |-> r.x.verifier, pkceReq |-> mm.pkceReq]
XRefresh(r) == [client |-> r.x.client, authok |-> r.x.authok, scopes |-> Range(r.x.scopes)]
OtherwiseValid(mm, r, tok) == r.x.client = tok.client /\ r.x.authok /\ r.t < tok.exp /\ AcctValid(Acct(mm), r.t)

\* ------------------------------ L1 per line: "" or the failing clause ------------------------------
LineL1(mm, r) ==
  IF r.a = "exchange" THEN
       IF TokL1Exchange(mm.code, XExchange(mm, r), r.t, Ok(r)) THEN "" ELSE "exchange"
  ELSE IF r.a = "refresh" /\ HasTok(mm, r) THEN
       LET tok == TokOf(mm, r.g, "rt") IN
       IF ~TokL1RefreshScopes(mm.orig, Ok(r), Range(r.scopes)) THEN "refresh-scope"
       ELSE IF ~TokL1Reuse(tok, Ok(r), r.alive, OtherwiseValid(mm, r, tok))
            THEN (IF tok.iat = LastIssue(mm) THEN "reuse-samesec" ELSE "reuse")
       ELSE IF ~TokL1Dead(tok, RevokedSet(mm), Acct(mm), r.t, Ok(r))
            THEN (IF mm.revoked THEN "dead-revoked" ELSE IF ~AcctValid(Acct(mm), r.t) THEN "dead-account" ELSE "dead-expired")
       ELSE ""
  ELSE IF r.a \in {"introspect", "userinfo"} /\ HasTok(mm, r) THEN
       LET tok == TokOf(mm, r.g, "at") IN
       IF TokL1Dead(tok, RevokedSet(mm), Acct(mm), r.t, r.res = "active") THEN ""
       ELSE (IF mm.revoked THEN "dead-revoked" ELSE IF ~AcctValid(Acct(mm), r.t) THEN "dead-account" ELSE "dead-expired")
  ELSE ""

\* ------------------------------ L2 per line ------------------------------------------------------
Class(res) == IF res = "ok" THEN "ok" ELSE "err"
LineL2(mm, r) ==
  IF r.a = "exchange" THEN
       \* a second successful exchange of the same code is possible in kanidm (codes are not single-use)
       L2Exchange(mm.code, XExchange(mm, r), r.t) = Class(r.res)
  ELSE IF r.a = "refresh" /\ HasTok(mm, r) THEN
       LET p == L2Refresh(TokOf(mm, r.g, "rt"), XRefresh(r), SRecOf(mm), Acct(mm), r.t, Grace)
       IN  /\ (p = "ok") = Ok(r)
           /\ (p = "reuse" => r.st.s = "revoked")
           /\ (Ok(r) => Range(r.scopes) = (IF Range(r.x.scopes) = {"*"} THEN mm.toks[r.g].scopes ELSE Range(r.x.scopes)))
  ELSE IF r.a = "introspect" /\ HasTok(mm, r) THEN
       L2Use(TokOf(mm, r.g, "at"), SRecOf(mm), Acct(mm), r.t, Grace) = r.res
  ELSE IF r.a = "userinfo" /\ HasTok(mm, r) THEN
       (IF r.client # mm.code.client THEN "inactive" ELSE L2Use(TokOf(mm, r.g, "at"), SRecOf(mm), Acct(mm), r.t, Grace)) = r.res
  ELSE IF r.a = "revoke" /\ HasTok(mm, r) THEN
       LET tok == TokOf(mm, r.g, r.kind) IN
       (r.t < tok.exp /\ mm.st.s # "absent") => r.st.s = "revoked"
  ELSE TRUE

\* ------------------------------ model state update ------------------------------------------------
NewTok(r) == [iat |-> r.t, scopes |-> Range(r.scopes), rot |-> FALSE, atexp |-> r.atexp]
Upd(mm, r) ==
  LET base == [mm EXCEPT !.st = r.st] IN
  IF r.a = "reset" THEN
       [M0 EXCEPT !.code = [client |-> r.code.client, redirect |-> r.code.redirect, pkce |-> r.code.pkce,
                            verifier |-> r.code.verifier, t |-> r.t],
                  !.orig = Range(r.code.scopes), !.pkceReq = r.cfg.pkceReq, !.rtlife = r.cfg.rtlife, !.st = r.st]
  ELSE IF r.a = "exchange" /\ Ok(r) /\ Len(mm.toks) = 0 THEN [base EXCEPT !.toks = <<NewTok(r)>>]
  ELSE IF r.a = "refresh" /\ HasTok(mm, r) THEN
       IF Ok(r) THEN [base EXCEPT !.toks = Append([mm.toks EXCEPT ![r.g].rot = TRUE], NewTok(r))]
       ELSE LET tok == TokOf(mm, r.g, "rt") IN
            \* an otherwise valid reuse that was refused and (observably) killed the session
            [base EXCEPT !.revoked = mm.revoked \/ (tok.rot /\ OtherwiseValid(mm, r, tok) /\ ~r.alive)]
  ELSE IF r.a = "revoke" /\ HasTok(mm, r) /\ Ok(r) /\ r.t < TokOf(mm, r.g, r.kind).exp THEN [base EXCEPT !.revoked = TRUE]
  ELSE base

Init == l = 1 /\ m = M0
Next == l <= Len(Rec) /\ l' = l + 1 /\ m' = Upd(m, Rec[l])
Spec == Init /\ [][Next]_<<l, m>>

Judge == l <= Len(Rec) =>
           /\ (LineL1(m, Rec[l]) = "" \/ PrintT(<<"L1FAIL", "C39", l, LineL1(m, Rec[l])>>))
           /\ (LineL2(m, Rec[l]) \/ PrintT(<<"L2DRIFT", "C39", l>>))
Consumed == TLCGet("stats").distinct = Len(Rec) + 1 \/ PrintT(<<"NOTCONSUMED", TLCGet("stats").distinct, Len(Rec)>>)
=============================================================================
