---------------------------- MODULE KAuthSoftLock ----------------------------
(***************************************************************************)
(* Credential soft lock (property C28).                                    *)
(*                                                                         *)
(* L0  lock state st = [k : "init"|"locked"|"unlocked", n : failure count, *)
(*       r : reset_at, u : unlock_at, le : last admin expiry applied]      *)
(*     (n = r = u = 0 in "init", u = 0 in "unlocked": the projection of    *)
(*     CredSoftLock logged by the driver); policy p = [w : window length   *)
(*     (UTC day / TOTP step), th : thresholds, dl : delays]; events: a     *)
(*     time step (ct, admin expiry or None), a recorded failure (ct), a    *)
(*     protocol attempt = time step, then the credential check if valid.   *)
(* L1  the property as predicates over (state, event, next state).         *)
(* L2  transcription of CredSoftLockPolicy::failure_next_state,            *)
(*     CredSoftLock::apply_time_step / record_failure (softlock.rs) and    *)
(*     of the way the server consults it (idm/server.rs auth, unix).       *)
(***************************************************************************)
EXTENDS Integers, Sequences, FiniteSets

None == -1
Init0 == [k |-> "init", n |-> 0, r |-> 0, u |-> 0, le |-> 0]
CountOf(st) == IF st.k = "init" THEN 0 ELSE st.n
\* end of the window (UTC day / TOTP step) that contains ct
WindowEnd(p, ct) == LET e == ct + p.w IN e - (e % p.w)
MaxFail(p) == p.th[Len(p.th)]
SetMin(S) == CHOOSE x \in S : \A y \in S : x <= y

\* ----------------------------- L1 ---------------------------------------
\* last instant at which a locked credential is still refused: the lock ends at unlock_at, and the
\* whole state (lock included) is forgotten after reset_at, whichever comes first
EffU(st) == IF st.u < st.r THEN st.u ELSE st.r
\* the count may be forgotten at ct only after the window's reset time or a passed admin expiry
ResetAllowed(st, ct, exp) == st.k = "init" \/ ct > st.r \/ (exp # None /\ ct > exp)
\* the credential must still be refused at ct
MustRefuse(st, ct, exp) == st.k = "locked" /\ ct < st.u /\ ~ResetAllowed(st, ct, exp)

\* a step in which no failure was recorded (time passing, a refused or a successful attempt)
TimeLike(st, ct, exp, st2) ==
  /\ MustRefuse(st, ct, exp) => (st2.k = "locked" /\ st2.u >= st.u)
  /\ CountOf(st2) < CountOf(st) => ResetAllowed(st, ct, exp)
  /\ (st.k # "init" /\ st2.k # "init" /\ st2.r < st.r) => (exp # None /\ st2.r >= exp)
  /\ CountOf(st2) <= CountOf(st)

\* a step in which a failed credential check at ct was recorded; `base` is the count it adds to
FailLikeFrom(p, st, base, ct, st2) ==
  /\ st2.k = "locked"
  /\ st2.u >= ct
  /\ CountOf(st2) >= base + 1
  /\ (st.k = "locked" /\ base = CountOf(st)) => EffU(st2) >= EffU(st) \* never shortens the lock
  /\ st2.r >= WindowEnd(p, ct)                                       \* no reset inside this window
  /\ CountOf(st2) >= MaxFail(p) => st2.u >= st2.r                    \* cap: locked to the window end
FailRaw(p, st, ct, st2) == FailLikeFrom(p, st, CountOf(st), ct, st2)
FailLike(p, st, ct, exp, st2) ==
  \/ FailLikeFrom(p, st, CountOf(st), ct, st2)
  \/ (ResetAllowed(st, ct, exp) /\ FailLikeFrom(p, st, 0, ct, st2))

\* one protocol attempt at ct as observed: res = "ok" (credential accepted), "fail" (checked and
\* refused), "refused" (not checked), "none" (refused, reason not observable); wrong = 1 iff the
\* presented credential was wrong.
L1Attempt(p, st, ct, exp, res, wrong, st2) ==
  CASE res = "ok"      -> ~MustRefuse(st, ct, exp) /\ TimeLike(st, ct, exp, st2)
    [] res = "fail"    -> ~MustRefuse(st, ct, exp) /\ FailLike(p, st, ct, exp, st2)
    [] res = "refused" -> TimeLike(st, ct, exp, st2)
    [] res = "none"    -> IF wrong = 1
                          THEN st2.k = "locked" /\ (TimeLike(st, ct, exp, st2) \/ (~MustRefuse(st, ct, exp) /\ FailLike(p, st, ct, exp, st2)))
                          ELSE TimeLike(st, ct, exp, st2)
    [] OTHER           -> FALSE

\* was a failed check recorded by this attempt (for the per-window count)
CountsAsFailure(st, res, st2) == res = "fail" \/ (res = "none" /\ st2.k = "locked" /\ (st.k # "locked" \/ st2.u # st.u \/ st2.n # st.n))

\* ----------------------------- L2 ---------------------------------------
L2Fail(p, st, ct) ==
  LET n   == IF st.k = "init" THEN 1 ELSE st.n + 1
      r   == WindowEnd(p, ct)
      idx == {i \in 1..Len(p.th) : n < p.th[i]}
  IN  [k |-> "locked", n |-> n, r |-> r, u |-> IF idx = {} THEN r ELSE ct + p.dl[SetMin(idx)], le |-> st.le]

L2Time(st, ct, exp) ==
  CASE st.k = "init" -> st
    [] st.k = "locked" ->
         LET apply == exp # None /\ st.le # exp
             le2   == IF apply THEN exp ELSE st.le
             r2    == IF apply /\ st.r > exp THEN exp ELSE st.r
         IN  IF ct > r2 THEN [Init0 EXCEPT !.le = le2]
             ELSE IF ct > st.u THEN [k |-> "unlocked", n |-> st.n, r |-> r2, u |-> 0, le |-> le2]
             ELSE [st EXCEPT !.r = r2, !.le = le2]
    [] st.k = "unlocked" -> IF ct > st.r THEN [Init0 EXCEPT !.le = st.le] ELSE st

L2Valid(st) == st.k # "locked"

\* protocol attempt: time step, then (if valid) the check; a wrong credential records a failure.
\* returns <<result, next state>>
L2Attempt(p, st, ct, exp, wrong) ==
  LET mid == L2Time(st, ct, exp)
  IN  IF ~L2Valid(mid) THEN <<"refused", mid>>
      ELSE IF wrong = 1 THEN <<"fail", L2Fail(p, mid, ct)>>
      ELSE <<"ok", mid>>
=============================================================================
