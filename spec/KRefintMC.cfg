CONSTANTS
  MaxLen = 3
  Sample = 20
INIT Init
NEXT Next
VIEW View
INVARIANT Soft
CHECK_DEADLOCK FALSE
