----------------------------- MODULE KSyncYieldMC -----------------------------
(* C50, user side over time: the yield-authority of an agreement is STATE. Two things must be told
   apart: `stored` = the sync_yield_authority values on the agreements' records, and `pub` = the
   snapshot the access checks use (AccessControls.sync_agreements), which reload_accesscontrols
   publishes when a write transaction that touched an agreement commits.
   Actions (each one committed transaction): SetYield(a, Y), ClearYield(a). After every commit the
   property is judged for every (agreement, attribute): a user modify of attribute x on an entry
   synchronised by a is allowed (modify_sync_constrain, reading `pub`) ONLY IF x is currently yielded
   by a (`stored`) or is session / reset state.
   PublishEmpty = TRUE transcribes the code (the computed map is always published). FALSE is the
   variant "nothing to publish when the map is empty": the model must tell them apart (checked by the
   orchestrator as a sensitivity guard: that configuration has to violate Inv).
   Every transition is printed as <<"EDGE", from, action, to>>: the orchestrator turns the transition
   graph into a walk covering every edge and the driver lives it on the real server with real
   user-identity modifies after every commit. *)
EXTENDS KSync
CONSTANTS PublishEmpty

Agreements == {"e50", "e51"}
YSets == {{"description"}, {"description", "legalname"}}
Attrs == {"description", "legalname", "displayname"}

VARIABLES stored, pub
vars == <<stored, pub>>

\* what reload_accesscontrols computes from the stored records: only agreements that yield something
Computed(st) == [a \in {x \in Agreements : st[x] # {}} |-> st[a]]
Published(st, old) == IF PublishEmpty \/ DOMAIN Computed(st) # {} THEN Computed(st) ELSE old

SetCode(S) == IF S = {} THEN "0" ELSE IF S = {"description"} THEN "d" ELSE "dl"
Code(st) == SetCode(st["e50"]) \o "," \o SetCode(st["e51"])

Init == stored = [a \in Agreements |-> {}] /\ pub = Computed(stored)
SetYield(a, Y) == /\ stored' = [stored EXCEPT ![a] = Y]
                  /\ pub' = Published(stored', pub)
                  /\ PrintT(<<"EDGE", Code(stored), "set:" \o a \o ":" \o SetCode(Y), Code(stored')>>)
ClearYield(a) == /\ stored' = [stored EXCEPT ![a] = {}]
                 /\ pub' = Published(stored', pub)
                 /\ PrintT(<<"EDGE", Code(stored), "clear:" \o a, Code(stored')>>)
Next == \E a \in Agreements : ClearYield(a) \/ \E Y \in YSets : SetYield(a, Y)
Spec == Init /\ [][Next]_vars

\* L2: what modify_sync_constrain lets a (fully granted) user change on an entry synchronised by a
UserMayChange(a, x) == x \in SyncBase \cup (IF a \in DOMAIN pub THEN pub[a] ELSE {})
\* L1: only attributes the agreement currently hands over (or session / reset state)
Inv == \A a \in Agreements, x \in Attrs : UserMayChange(a, x) => x \in SyncBase \cup stored[a]
\* and nothing yielded is withheld (not part of the one-sided property; conformance only)
Complete == \A a \in Agreements : stored[a] \subseteq (IF a \in DOMAIN pub THEN pub[a] ELSE {})
=============================================================================
