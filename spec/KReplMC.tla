------------------------------- MODULE KReplMC -------------------------------
(* Exhaustive exploration of KRepl (L2) against the L1 invariants.  Counterexamples and complete
   behaviours are exported as JSON (one line each) for replay on the real servers. *)
EXTENDS KRepl, Json
\* a violated invariant prints the operation history that led to the state
\* (at most 40 per worker; never fails, so the whole bounded space is explored past known violations)
ASSUME TLCSet(1, 0)
Cex(name, ok) == ok \/ (IF TLCGet(1) < 40 THEN TLCSet(1, TLCGet(1) + 1) /\ PrintT(<<"CEX", name, ToJson(hist)>>) ELSE TRUE)
InvConvergedButSessions == Cex("ConvergedButSessions", ConvergedButSessions)
InvConvergedSessions    == Cex("ConvergedSessions", ConvergedSessions)
InvUniqueLive           == Cex("UniqueLive", UniqueLive)
\* export of complete behaviours (used with -simulate): prints when the budget is exhausted
Export == (nrepl = MaxRepl /\ nwrites = MaxWrites) => PrintT(<<"BEH", ToJson(hist)>>)
\* vacuity guards: each must be VIOLATED by some reachable state (checked in a separate run)
SomeQuiescentAfterWork == ~(Quiescent /\ nwrites > 0 /\ nrepl > 0)
=============================================================================
