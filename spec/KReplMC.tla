------------------------------- MODULE KReplMC -------------------------------
(* Exhaustive exploration of KRepl (L2) against the L1 invariants.  Counterexamples and complete
   behaviours are exported as JSON (one line each) for replay on the real servers. *)
EXTENDS KRepl, Json
CONSTANT ArmQuota   \* how many histories per apply-arm each worker exports
\* a violated invariant prints the operation history that led to the state
\* (at most 40 per worker; never fails, so the whole bounded space is explored past known violations)
ASSUME TLCSet(1, 0)
Cex(name, ok) == ok \/ (IF TLCGet(1) < 40 THEN TLCSet(1, TLCGet(1) + 1) /\ PrintT(<<"CEX", name, ToJson(hist)>>) ELSE TRUE)
InvConvergedButSessions == Cex("ConvergedButSessions", ConvergedButSessions)
InvConvergedSessions    == Cex("ConvergedSessions", ConvergedSessions)
InvUniqueLive           == Cex("UniqueLive", UniqueLive)
InvNoDroppedDeletion    == Cex("NoDroppedDeletion", NoDroppedDeletion)
\* export of complete behaviours (used with -simulate): prints when the budget is exhausted
Export == (nrepl = MaxRepl /\ nwrites = MaxWrites) => PrintT(<<"BEH", ToJson(hist)>>)
\* transition coverage: the first few histories (per worker) that end in an exchange taking each arm of the
\* consumer's apply logic are exported, so that every arm is replayed on the real servers
ArmNames == <<"tomb-tomb", "tomb-absent", "tomb-over-live", "live-onto-tomb", "new-entry", "addconflict-keep",
              "addconflict-replace", "merge-into-recycled", "merge-recycle", "merge-revive", "merge",
              "unique-clash", "addconflict-survivor-in-unique-clash", "conflict-copy-created", "nothing-to-supply", "refused-refresh", "refused-unwilling",
              "refused-critical", "refused-nooverlap",
              "merge-dn-unsent-some-right", "merge-dn-unsent-none-right", "merge-dn-some-some-left", "merge-dn-some-some-right",
              "merge-dn-some-none-left", "merge-dn-some-none-right", "merge-dn-none-some-left", "merge-dn-none-some-right",
              "merge-dn-none-none-left", "merge-dn-none-none-right">>
ArmIdx(a) == 10 + CHOOSE i \in 1..Len(ArmNames) : ArmNames[i] = a
ASSUME \A i \in 1..Len(ArmNames) : TLCSet(10 + i, 0)
ArmExport == \A a \in arms :
   IF TLCGet(ArmIdx(a)) < ArmQuota THEN TLCSet(ArmIdx(a), TLCGet(ArmIdx(a)) + 1) /\ PrintT(<<"ARM", a, ToJson(hist)>>) ELSE TRUE
\* vacuity guards: each must be VIOLATED by some reachable state (checked in a separate run)
SomeQuiescentAfterWork == ~(Quiescent /\ nwrites > 0 /\ nrepl > 0)
=============================================================================
