--------------------------- MODULE KScimTextTrace ---------------------------
(* Validates observations of the REAL SCIM filter printer and parser (harness/filter/src/c42.rs).
   rt  : an AST, its real printed text (and the text's tokens when its literals are lexable), the real parse result
   prec: a token string, its text, the real parse result *)
EXTENDS KScimText, Json, IOUtils
Rec == ndJsonDeserialize(IOEnv.TRACE)
\* failures are also tallied (registers 21 / 22) so that the orchestrator can detect lost output lines
Tally(r) == TLCSet(r, TLCGet(r) + 1)
ASSUME TLCSet(21, 0) /\ TLCSet(22, 0)
VARIABLE l
NoAtoms == {}

RtL1(r)  == /\ r.parsed.k # "panic"
            /\ RoundTripOk(r.ast, r.lim, r.parsed)
            /\ (Nest(Show(r.ast)) <= r.lim => r.same)
            /\ (Nest(Show(r.ast)) > r.lim => r.parsed = Err)
\* lines of the string-value family also carry the value's characters and the characters of its printed text
HasLex(r) == "vc" \in DOMAIN r
LexL2(r)  == HasLex(r) => (JsonQuote(r.vc) = r.vt /\ ScanQuoted(r.vt \o <<")">>) = Len(r.vt) + 1
                          /\ RefQuotedEnd(r.vt \o <<")">>) = Len(r.vt) + 1)
RtL2(r)  == (r.lex => (r.toks = Show(r.ast) /\ PegParse(r.toks, r.lim, NoAtoms) = r.parsed)) /\ LexL2(r)
PrecL1(r) == r.parsed.k # "panic" /\ PrecedenceOk(r.toks, r.lim, NoAtoms, r.parsed)
PrecL2(r) == PegParse(r.toks, r.lim, NoAtoms) = r.parsed

Init == l = 1
Next == l <= Len(Rec) /\ l' = l + 1
Judge == l <= Len(Rec) =>
  LET r == Rec[l] IN
    CASE r.a = "rt" ->
           /\ (RtL1(r) \/ (Tally(21) /\ PrintT(<<"L1FAIL", "C42", l, "roundtrip">>)))
           /\ (RtL2(r) \/ (Tally(22) /\ PrintT(<<"L2DRIFT", "C42", l>>)))
      [] r.a = "prec" ->
           /\ (PrecL1(r) \/ (Tally(21) /\ PrintT(<<"L1FAIL", "C42", l, "precedence">>)))
           /\ (PrecL2(r) \/ (Tally(22) /\ PrintT(<<"L2DRIFT", "C42", l>>)))
      [] OTHER -> TRUE
Consumed == /\ PrintT(<<"SUMMARY", TLCGet(21), TLCGet(22)>>)
            /\ (TLCGet("stats").distinct = Len(Rec) + 1 \/ PrintT(<<"NOTCONSUMED", TLCGet("stats").distinct, Len(Rec)>>))
=============================================================================
