-------------------------- MODULE KUnixRadiusTrace --------------------------
(* C46: validates observations of the REAL rlm_kanidm Module::authorise against the property (L1) and reports
   lines the transcription (L2) does not explain as drift.
   Line: {"a":"radius","present":BOOL,"req":[ids],"groups":[{"id","s","u"}],"maps":{spn:vlan},"dflt":n,
          "res":"release"|"reject"|"notfound"|"fail"|"other","vlan":n,"secret":"own"|"other"|"none"} *)
EXTENDS KUnix, Json, IOUtils
Rec == ndJsonDeserialize(IOEnv.TRACE)
VARIABLE l

Q(r) == SeqToSet(r.req)
LineL1(r) == RadL1(r.present, Q(r), r.groups, r.maps, r.dflt, r.res, r.vlan, r.secret)
LineL2(r) == LET m == RadAuthorise(r.present, Q(r), r.groups, r.maps, r.dflt)
             IN  m.res = r.res /\ m.vlan = r.vlan /\ m.secret = r.secret
Sig(r) == IF r.res = "release" /\ ~(r.present /\ RadMember(Q(r), r.groups)) THEN "released-to-non-member"
          ELSE IF r.res = "release" /\ r.secret # "own" THEN "wrong-secret"
          ELSE IF r.res = "release" THEN "wrong-vlan" ELSE "secret-without-release"

Init == l = 1
Next == l <= Len(Rec) /\ l' = l + 1
Spec == Init /\ [][Next]_l

Judge == l <= Len(Rec) =>
           /\ (LineL1(Rec[l]) \/ PrintT(<<"L1FAIL", "C46", l, Sig(Rec[l])>>))
           /\ (LineL2(Rec[l]) \/ PrintT(<<"L2DRIFT", "C46", l>>))
Consumed == TLCGet("stats").distinct = Len(Rec) + 1 \/ PrintT(<<"NOTCONSUMED", TLCGet("stats").distinct, Len(Rec)>>)
=============================================================================
