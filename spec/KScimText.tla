------------------------------ MODULE KScimText ------------------------------
(***************************************************************************)
(* SCIM filter text (property C42): printer and parser of                  *)
(* proto/src/scim_v1/mod.rs at token level.                                *)
(*                                                                         *)
(* L0  ASTs, tokens, Show (the two Display impls), nesting                *)
(* L1  round trip; the reference reading of an infix string (split at the  *)
(*     last top-level OR, else the last top-level AND, else NOT(..), else   *)
(*     a group, else a leaf: the textbook meaning of "AND binds tighter     *)
(*     than OR, left associative"); rejection beyond the nesting limit     *)
(* L2  transcription of the peg grammar: precedence! climbing with ordered *)
(*     choice, and the depth limiter arithmetic                            *)
(*                                                                         *)
(* AST:  [k|->"and",l,r] [k|->"or",l,r] [k|->"not",e] [k|->"cx",a,e]       *)
(*       [k|->"leaf",p,op,v]  (p attribute path or sub-attribute, op "pr"  *)
(*       with v = "" or a comparison op with the value's JSON text)        *)
(*       [k|->"atom",s]  (a whole leaf collapsed to one token; MC only)    *)
(* Token: [t |-> "(" | ")" | "]" | "cxo" | "w", s |-> text]                *)
(*        "cxo" is `attr[` (no space allowed between them), "w" a word     *)
(***************************************************************************)
EXTENDS Integers, Sequences, FiniteSets, TLC

CmpOps == {"eq", "ne", "co", "sw", "ew", "gt", "lt", "ge", "le"}
Tok(t, s) == [t |-> t, s |-> s]
W(s) == Tok("w", s)
LP == Tok("(", "")
RP == Tok(")", "")
RB == Tok("]", "")
Err == [k |-> "err"]

\* ----------------------------- L0: Show ----------------------------------
RECURSIVE Show(_)
Show(x) ==
  CASE x.k = "leaf" -> IF x.op = "pr" THEN <<LP, W(x.p), W("pr"), RP>> ELSE <<LP, W(x.p), W(x.op), W(x.v), RP>>
    [] x.k = "atom" -> <<LP, W(x.s), RP>>
    [] x.k = "not"  -> <<LP, W("not"), LP>> \o Show(x.e) \o <<RP, RP>>
    [] x.k \in {"and", "or"} -> <<LP>> \o Show(x.l) \o <<W(x.k)>> \o Show(x.r) \o <<RP>>
    [] x.k = "cx"   -> <<Tok("cxo", x.a)>> \o Show(x.e) \o <<RB>>

IsOpen(t)  == t.t \in {"(", "cxo"}
IsClose(t) == t.t \in {")", "]"}
\* bracket depth after each token (may dip below 0 on malformed strings)
Delta(t) == IF IsOpen(t) THEN 1 ELSE IF IsClose(t) THEN 0 - 1 ELSE 0
RECURSIVE DepthAt(_, _)
DepthAt(s, i) == IF i = 0 THEN 0 ELSE DepthAt(s, i - 1) + Delta(s[i])
RECURSIVE MaxDepthAcc(_, _, _, _)
MaxDepthAcc(s, i, cur, mx) == IF i > Len(s) THEN mx
                              ELSE LET c == cur + Delta(s[i]) IN MaxDepthAcc(s, i + 1, c, IF c > mx THEN c ELSE mx)
MaxDepth(s) == MaxDepthAcc(s, 1, 0, 0)
\* expression nesting: the whole filter is level 1, every group / not(..) / attr[..] one more
Nest(s) == 1 + MaxDepth(s)

\* ----------------------------- L1: reference reading ----------------------
\* dep[p] = bracket depth after token p (dep[0] = 0), computed once per string
\* (built as an explicit tuple: a function expression would be re-evaluated at every application)
RECURSIVE DepthSeq(_, _, _, _)
DepthSeq(s, i, cur, acc) == IF i > Len(s) THEN acc ELSE DepthSeq(s, i + 1, cur + Delta(s[i]), Append(acc, cur + Delta(s[i])))
DepthFn(s) == DepthSeq(s, 1, 0, <<>>)
DP(dep, p) == IF p = 0 THEN 0 ELSE dep[p]
Balanced(dep, i, j) == DP(dep, j) = DP(dep, i - 1) /\ \A p \in i..j : dep[p] >= DP(dep, i - 1)
\* position p holds keyword kw at bracket depth 0 of s[i..j] (and not at the edges)
TopKw(s, dep, i, j, p, kw) == i < p /\ p < j /\ s[p] = W(kw) /\ dep[p] = DP(dep, i - 1)
\* s[i] opens a bracket that closes exactly at j
Encloses(s, dep, i, j) == i < j /\ IsOpen(s[i]) /\ IsClose(s[j]) /\ dep[j] = DP(dep, i - 1) /\ \A p \in i..(j - 1) : dep[p] > DP(dep, i - 1)
LeafAt(s, i, j, atoms) ==
  IF j = i /\ s[i].t = "w" /\ s[i].s \in atoms THEN [k |-> "atom", s |-> s[i].s]
  ELSE IF j = i + 1 /\ s[i].t = "w" /\ s[j] = W("pr") /\ s[i].s \notin atoms THEN [k |-> "leaf", p |-> s[i].s, op |-> "pr", v |-> ""]
  ELSE IF j = i + 2 /\ s[i].t = "w" /\ s[i + 1].t = "w" /\ s[i + 1].s \in CmpOps /\ s[j].t = "w" /\ s[i].s \notin atoms
       THEN [k |-> "leaf", p |-> s[i].s, op |-> s[i + 1].s, v |-> s[j].s]
  ELSE Err
RECURSIVE Ref(_, _, _, _, _, _)
\* cx: inside attr[..] (no nested attr[..]); atoms: words that are whole leaves
Ref(s, dep, i, j, cx, atoms) ==
  IF j < i \/ ~Balanced(dep, i, j) THEN Err
  ELSE LET ors  == {p \in i..j : TopKw(s, dep, i, j, p, "or")}
           ands == {p \in i..j : TopKw(s, dep, i, j, p, "and")}
           split(p, kw) == LET a == Ref(s, dep, i, p - 1, cx, atoms) b == Ref(s, dep, p + 1, j, cx, atoms)
                           IN IF a = Err \/ b = Err THEN Err ELSE [k |-> kw, l |-> a, r |-> b]
           last(S) == CHOOSE p \in S : \A q \in S : q <= p
       IN IF ors # {} THEN split(last(ors), "or")
          ELSE IF ands # {} THEN split(last(ands), "and")
          ELSE IF j >= i + 3 /\ s[i] = W("not") /\ s[i + 1] = LP /\ s[j] = RP /\ Encloses(s, dep, i + 1, j)
               THEN LET e == Ref(s, dep, i + 2, j - 1, cx, atoms) IN IF e = Err THEN Err ELSE [k |-> "not", e |-> e]
          ELSE IF s[i] = LP /\ s[j] = RP /\ Encloses(s, dep, i, j) THEN Ref(s, dep, i + 1, j - 1, cx, atoms)
          ELSE IF ~cx /\ s[i].t = "cxo" /\ s[j] = RB /\ Encloses(s, dep, i, j)
               THEN LET e == Ref(s, dep, i + 1, j - 1, TRUE, atoms) IN IF e = Err THEN Err ELSE [k |-> "cx", a |-> s[i].s, e |-> e]
          ELSE LeafAt(s, i, j, atoms)
RefTree(s, atoms) == IF s = <<>> THEN Err ELSE LET dep == DepthFn(s) IN Ref(s, dep, 1, Len(s), FALSE, atoms)

\* the property on one observation: text tokens s (or the printed AST), the parser's answer
RoundTripOk(ast, lim, parsed) == Nest(Show(ast)) <= lim => parsed = ast
\* the tree without the literal texts (their lexical fidelity is not what precedence is about)
RECURSIVE Skel(_)
Skel(x) == CASE x.k = "leaf" -> [k |-> "leaf", p |-> x.p, op |-> x.op]
             [] x.k \in {"and", "or"} -> [k |-> x.k, l |-> Skel(x.l), r |-> Skel(x.r)]
             [] x.k = "not" -> [k |-> "not", e |-> Skel(x.e)]
             [] x.k = "cx" -> [k |-> "cx", a |-> x.a, e |-> Skel(x.e)]
             [] OTHER -> x
PrecedenceOk(s, lim, atoms, parsed) == /\ (parsed # Err => Skel(parsed) = Skel(RefTree(s, atoms)))
                                       /\ (Nest(s) > lim => parsed = Err)

\* ----------------------------- L2: the peg grammar ------------------------
(* Results are [ok, t, n]: success, tree, next position.  d is the remaining depth budget as the rules
   receive it: parse_depth(d) = limiter(d) then parse_inner(d - 1). *)
Fail == [ok |-> FALSE, t |-> Err, n |-> 0]
Ok(t, n) == [ok |-> TRUE, t |-> t, n |-> n]
At(s, p, tok) == p <= Len(s) /\ s[p] = tok
\* attrexp / complex_attrexp: `path pr` | `path op value` (ordered choice: pr first), or a collapsed atom
PLeaf(s, p, atoms) ==
  IF p <= Len(s) /\ s[p].t = "w" /\ s[p].s \in atoms THEN Ok([k |-> "atom", s |-> s[p].s], p + 1)
  ELSE IF p + 1 <= Len(s) /\ s[p].t = "w" /\ s[p + 1] = W("pr") THEN Ok([k |-> "leaf", p |-> s[p].s, op |-> "pr", v |-> ""], p + 2)
  ELSE IF p + 2 <= Len(s) /\ s[p].t = "w" /\ s[p + 1].t = "w" /\ s[p + 1].s \in CmpOps /\ s[p + 2].t = "w"
       THEN Ok([k |-> "leaf", p |-> s[p].s, op |-> s[p + 1].s, v |-> s[p + 2].s], p + 3)
  ELSE Fail
RECURSIVE PDepth(_, _, _, _, _), PAtom(_, _, _, _, _), PClimb(_, _, _, _, _, _), PLoop(_, _, _, _, _, _)
\* parse_depth(d) / parse_complex_depth(d)
PDepth(s, p, d, cx, atoms) == IF d = 0 THEN Fail ELSE PClimb(s, p, d - 1, cx, atoms, 0)
\* prefix / atom alternatives in the order of the precedence! block; d is parse_inner's argument
PAtom(s, p, d, cx, atoms) ==
  LET grp(q) == LET e == PDepth(s, q + 1, d, cx, atoms)
                IN IF e.ok /\ At(s, e.n, RP) THEN Ok(e.t, e.n + 1) ELSE Fail
      notr == IF At(s, p, W("not")) /\ At(s, p + 1, LP)
              THEN LET g == grp(p + 1) IN IF g.ok THEN Ok([k |-> "not", e |-> g.t], g.n) ELSE Fail
              ELSE Fail
      cxr  == IF ~cx /\ p <= Len(s) /\ s[p].t = "cxo"
              THEN LET e == PDepth(s, p + 1, d, TRUE, atoms)
                   IN IF e.ok /\ At(s, e.n, RB) THEN Ok([k |-> "cx", a |-> s[p].s, e |-> e.t], e.n + 1) ELSE Fail
              ELSE Fail
      leaf == PLeaf(s, p, atoms)
  IN IF notr.ok THEN notr ELSE IF cxr.ok THEN cxr ELSE IF leaf.ok THEN leaf
     ELSE IF At(s, p, LP) THEN grp(p) ELSE Fail
\* precedence climbing: level 0 = or, 1 = and (left associative: right operand one level up)
PClimb(s, p, d, cx, atoms, min) ==
  LET a == PAtom(s, p, d, cx, atoms) IN IF a.ok THEN PLoop(s, a, d, cx, atoms, min) ELSE Fail
PLoop(s, lhs, d, cx, atoms, min) ==
  LET tryop(kw, lvl) == IF lvl >= min /\ At(s, lhs.n, W(kw))
                        THEN LET r == PClimb(s, lhs.n + 1, d, cx, atoms, lvl + 1)
                             IN IF r.ok THEN Ok([k |-> kw, l |-> lhs.t, r |-> r.t], r.n) ELSE Fail
                        ELSE Fail
      o == tryop("or", 0)
      a == tryop("and", 1)
  IN IF o.ok THEN PLoop(s, o, d, cx, atoms, min)
     ELSE IF a.ok THEN PLoop(s, a, d, cx, atoms, min)
     ELSE lhs
\* scimfilter::parse with limit lim: the whole input must be consumed
PegParse(s, lim, atoms) == LET r == PDepth(s, 1, lim, FALSE, atoms)
                           IN IF r.ok /\ r.n = Len(s) + 1 THEN r.t ELSE Err
\* ----------------------------- lexical layer: quoted string values -------
(* Characters are one-character strings.  JsonQuote = how serde_json prints a string value (Display of the filter prints
   values that way); ScanQuoted = transcription of the peg rule
       quotedvalue = ['"'] ( (['\\'][_]) / (!['"'][_]) )* ['"']
   (ordered choice inside a greedy repetition): the position just after the closing quote, 0 if the rule fails.
   L1: the literal ends at the first quote preceded by an even number of backslashes - so scanning a printed value, whatever
   follows it, consumes exactly the printed value. *)
QUOTE == "\""
BSL == "\\"
EscChar(c) == IF c = QUOTE THEN <<BSL, QUOTE>> ELSE IF c = BSL THEN <<BSL, BSL>> ELSE IF c = "\t" THEN <<BSL, "t">> ELSE <<c>>
RECURSIVE EscAll(_, _)
EscAll(cs, i) == IF i > Len(cs) THEN <<>> ELSE EscChar(cs[i]) \o EscAll(cs, i + 1)
JsonQuote(cs) == <<QUOTE>> \o EscAll(cs, 1) \o <<QUOTE>>
\* L1 (declarative): number of backslashes immediately before position p
RECURSIVE BslRun(_, _)
BslRun(t, p) == IF p >= 1 /\ t[p] = BSL THEN 1 + BslRun(t, p - 1) ELSE 0
ClosingQuotes(t) == {p \in 2..Len(t) : t[p] = QUOTE /\ BslRun(t, p - 1) % 2 = 0}
RefQuotedEnd(t) == IF Len(t) >= 1 /\ t[1] = QUOTE /\ ClosingQuotes(t) # {}
                   THEN (CHOOSE p \in ClosingQuotes(t) : \A q \in ClosingQuotes(t) : p <= q) + 1 ELSE 0
\* L2: the peg rule
RECURSIVE ScanBody(_, _)
ScanBody(t, p) == IF p > Len(t) THEN 0
                  ELSE IF t[p] = BSL /\ p + 1 <= Len(t) THEN ScanBody(t, p + 2)
                  ELSE IF t[p] # QUOTE THEN ScanBody(t, p + 1)
                  ELSE p + 1
ScanQuoted(t) == IF Len(t) >= 1 /\ t[1] = QUOTE THEN ScanBody(t, 2) ELSE 0
=============================================================================
