\* C09: trimming and lag. 2 replicas, 1 entry; delete -> purge -> trim (window 2) racing edits and exchanges
CONSTANTS
  N = 2
  Ids = {1}
  NewIds = {}
  Sids = {}
  MaxTs = 6
  MaxRepl = 3
  MaxWrites = 3
  RecycleAge = 2
  Window = 2
  MergeRestamp = TRUE
  NoSkew = TRUE
  ArmQuota = 2
  EnableRename = FALSE
  EnableClear = FALSE
INIT Init
NEXT Next
VIEW View
INVARIANT InvNoDroppedDeletion
INVARIANT ArmExport
PROPERTY NoResurrection
CHECK_DEADLOCK FALSE
