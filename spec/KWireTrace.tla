------------------------------ MODULE KWireTrace ------------------------------
(* Validates observed runs of the REAL ConsumerCodec / SupplierCodec decoders.  One line per case:
   {"a":"case","dir":..,"hdr":8,"max":M,"frames":[{"len","blen","m"}],
    "steps":[{"t":"f","n":bytes fed}|{"t":"d","r":"none"|"empty"|"large"|"json"|"err"|"m<i>","b":buffer length after}]}
   The decoder is called after every read until it asks for more or fails (as FramedRead does). *)
EXTENDS KWire, Sequences, Json, IOUtils, TLC
Rec == ndJsonDeserialize(IOEnv.TRACE)
\* failures are also tallied (registers 21 / 22) so that the orchestrator can detect lost output lines
Tally(r) == TLCSet(r, TLCGet(r) + 1)
ASSUME TLCSet(21, 0) /\ TLCSet(22, 0)
VARIABLE l

\* fold over the steps; st = [fed, cons, done, dead, l1, l2]
StepF(c, st, s) ==
  IF s.t = "f" THEN [st EXCEPT !.fed = @ + s.n]
  ELSE LET d == L2Decode(c.hdr, c.max, c.frames, st.cons, st.fed)
           isMsg == s.r \notin {"none", "empty", "large", "json", "err"}
       IN [fed |-> st.fed,
           cons |-> st.fed - s.b,                       \* follow the OBSERVED buffer
           done |-> IF isMsg THEN st.done + 1 ELSE st.done,
           dead |-> st.dead \/ s.r \in {"empty", "large", "json", "err"},
           l1 |-> st.l1 /\ ~st.dead /\ L1StepOk(c.hdr, c.max, c.frames, st.done, st.fed, s.r),
           l2 |-> st.l2 /\ d.res = s.r /\ st.fed - d.cons = s.b]
RECURSIVE Fold(_, _, _)
Fold(c, st, i) == IF i > Len(c.steps) THEN st ELSE Fold(c, StepF(c, st, c.steps[i]), i + 1)
Final(c) == Fold(c, [fed |-> 0, cons |-> 0, done |-> 0, dead |-> FALSE, l1 |-> TRUE, l2 |-> TRUE], 1)
\* the whole stream was written, and at the end nothing deliverable is left undelivered
CaseL1(c) == LET st == Final(c)
             IN /\ st.l1
                /\ st.fed = StreamLen(c.hdr, c.frames)
                /\ (st.dead \/ L1Next(c.hdr, c.max, c.frames, st.done, st.fed) = "none")
CaseL2(c) == Final(c).l2

Init == l = 1
Next == l <= Len(Rec) /\ l' = l + 1
Judge == l <= Len(Rec) =>
           /\ (CaseL1(Rec[l]) \/ (Tally(21) /\ PrintT(<<"L1FAIL", "C14", l, "framing">>)))
           /\ (CaseL2(Rec[l]) \/ (Tally(22) /\ PrintT(<<"L2DRIFT", "C14", l>>)))
Consumed == /\ PrintT(<<"SUMMARY", TLCGet(21), TLCGet(22)>>)
            /\ (TLCGet("stats").distinct = Len(Rec) + 1 \/ PrintT(<<"NOTCONSUMED", TLCGet("stats").distinct, Len(Rec)>>))
=============================================================================
