----------------------------- MODULE KStoreValMC -----------------------------
(* Enumerates every chain of at most MaxLen storage transitions (the transition structure the
   harness must drive, printed as CASE tuples) and checks the L2 model (identity) against L1 on
   a small abstract store. *)
EXTENDS KStoreVal
CONSTANTS MaxLen
VARIABLES chain, st

S0 == [e \in {"e1", "e2"} |->
        [live |-> IF e = "e1" THEN "live" ELSE "recycled",
         r |-> [a \in {"name", "cred"} |-> <<e, a>>],
         n |-> [a \in {"lmc"} |-> <<e, a>>]]]

Init == chain = <<>> /\ st = S0
Next == \E a \in Trans :
          /\ Len(chain) < MaxLen
          /\ chain' = Append(chain, a)
          /\ st' = Apply(a, st)
Spec == Init /\ [][Next]_<<chain, st>>

\* L2 against L1: after any chain the store still observes as the initial one.
Inv == chain = <<>> \/ L1Step(S0, st, chain[Len(chain)], CHOOSE r \in OkResult(chain[Len(chain)]) : TRUE)
\* every chain is handed to the harness (direction A)
Emit == chain = <<>> \/ PrintT(<<"CASE">> \o chain)
=============================================================================
