----------------------------- MODULE KStoreValMC -----------------------------
(* Enumerates every chain of at most MaxLen storage transitions (the transition structure the
   harness must drive, printed as CASE tuples) and checks the L2 model (identity) against L1 on
   a small abstract store. *)
EXTENDS KStoreVal
CONSTANTS MaxLen
VARIABLES chain, st

S0 == [e \in {"e1", "e2"} |->
        [live |-> IF e = "e1" THEN "live" ELSE "recycled",
         r |-> [a \in {"name", "cred"} |-> <<e, a>>],
         n |-> [a \in {"lmc"} |-> <<e, a>>],
         \* a keyed multi-value with a SHARED outer key (two members under app1) and a second key
         p |-> [a \in {"apppw"} |-> << <<"app1", "l1">>, <<"app1", "l2">>, <<"app2", "l1">> >>]]]

Init == chain = <<>> /\ st = S0
Next == \E a \in Trans :
          /\ Len(chain) < MaxLen
          /\ chain' = Append(chain, a)
          /\ st' = Apply(a, st)
Spec == Init /\ [][Next]_<<chain, st>>

\* L2 against L1: after any chain the store still observes as the initial one.
Inv == chain = <<>> \/ L1Step(S0, st, chain[Len(chain)], CHOOSE r \in OkResult(chain[Len(chain)]) : TRUE)
\* keyed multi-values: every set of (outer, inner) pairs over 2 outer keys x 2 inner ids, in every stored order of
\* up to 4 records, decodes back to itself (L2 loader against L1); the overwriting loader is refuted (vacuity guard)
Outer == {"k1", "k2"}
Inner == {"i1", "i2"}
Seqs == UNION {[1..n -> Outer \X Inner] : n \in 0..4}
NoDup(s) == \A i, j \in DOMAIN s : i # j => s[i] # s[j]
ASSUME \A s \in {x \in Seqs : NoDup(x)} : PairsOf(Decode(s)) = PairSet(s)
ASSUME \E s \in {x \in Seqs : NoDup(x)} : PairsOf(DecodeOverwrite(s)) # PairSet(s)
\* every chain is handed to the harness (direction A)
Emit == chain = <<>> \/ PrintT(<<"CASE">> \o chain)
=============================================================================
