------------------------------- MODULE KMergeMC -------------------------------
(* Exhaustive: every family of three views over KeySet with states from the lattice, both trims, all six
   orders and both groupings of the transcription (L2) satisfy L1. One initial state per family. *)
EXTENDS KMerge
CONSTANTS Kind, KeySet
SesStates == {[st |-> "never", v |-> 0, s |-> 0], [st |-> "exp", v |-> 1, s |-> 0], [st |-> "exp", v |-> 2, s |-> 0],
              [st |-> "rev", v |-> 1, s |-> 1], [st |-> "rev", v |-> 2, s |-> 1]}
KeyStates == {[st |-> "valid", v |-> 0, s |-> 1], [st |-> "ret", v |-> 1, s |-> 1], [st |-> "ret", v |-> 2, s |-> 1],
              [st |-> "rev", v |-> 1, s |-> 1], [st |-> "rev", v |-> 2, s |-> 1]}
States == IF Kind = "key" THEN KeyStates ELSE SesStates
Maps == UNION {[D -> States] : D \in (SUBSET KeySet) \ {{}}}
VARIABLES v1, v2, v3, trim
Init == v1 \in Maps /\ v2 \in Maps /\ v3 \in Maps /\ trim \in {<<0, 0>>, <<2, 1>>}
Next == UNCHANGED <<v1, v2, v3, trim>>
Views == <<[c |-> 1, m |-> v1], [c |-> 2, m |-> v2], [c |-> 3, m |-> v3]>>
Results == {LeftFold(Kind, Views, o, trim) : o \in Perms3} \cup {RightFold(Kind, Views, o, trim) : o \in Perms3}
Inv == /\ InWindow(Views, trim) => AllEqual(Kind, Results)
       /\ \A r \in Results : Absorbing(Kind, Views, trim, r) /\ NoInvention(Views, r)
       /\ Idempotent(Kind, v1, trim, Merge(Kind, v1, v1, trim))
=============================================================================
