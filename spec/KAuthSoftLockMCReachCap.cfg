CONSTANTS
  W = 6
  Th <- ThPw
  Dl <- DlPw
  TMax = 13
  NMax = 6
  Exps = {4}
SPECIFICATION Spec
CONSTRAINT Bound

INVARIANT ReachCap
CHECK_DEADLOCK FALSE
