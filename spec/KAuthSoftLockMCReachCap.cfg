CONSTANTS
  W = 8
  Th <- ThPw
  Dl <- DlPw
  TMax = 9
  NMax = 5
  Exps = {5}
SPECIFICATION Spec
CONSTRAINT Bound

INVARIANT ReachCap
CHECK_DEADLOCK FALSE
