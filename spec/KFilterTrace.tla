----------------------------- MODULE KFilterTrace -----------------------------
(* Validates observations of the REAL search path (C01) and of the REAL filter rewrite (C02).
   Line shapes: see harness/filter/src/c01.rs and c02.rs.  State = line number + the database and
   index metadata established by the last reset / reshape line. *)
EXTENDS KFilter, Json, IOUtils
Rec == ndJsonDeserialize(IOEnv.TRACE)
\* failures are also tallied (registers 21 / 22) so that the orchestrator can detect lost output lines
Tally(r) == TLCSet(r, TLCGet(r) + 1)
ASSUME TLCSet(21, 0) /\ TLCSet(22, 0)
VARIABLES l, db, idx

Other == [a |-> {}, b |-> {}, class |-> {90}, uuid |-> {}]   \* 90 = "object": every entry has a class
MkDb(r) ==
  LET pop == r.db
      ids == {pop[j].id : j \in DOMAIN pop}
  IN [i \in ids \cup (IF r.others > 0 THEN {0} ELSE {}) |->
        IF i = 0 THEN Other
        ELSE LET p == pop[CHOOSE j \in DOMAIN pop : pop[j].id = i]
             IN [a |-> RangeOf(p.a), b |-> RangeOf(p.b), class |-> RangeOf(p.class), uuid |-> {i}]]
IsSetup(r) == r.a \in {"reset", "reshape"}

Init == l = 1 /\ db = (IF IsSetup(Rec[1]) THEN MkDb(Rec[1]) ELSE <<>>)
             /\ idx = (IF IsSetup(Rec[1]) THEN Rec[1].idx ELSE <<>>)
Next == /\ l <= Len(Rec) /\ l' = l + 1
        /\ IF l + 1 <= Len(Rec) /\ IsSetup(Rec[l + 1])
           THEN db' = MkDb(Rec[l + 1]) /\ idx' = Rec[l + 1].idx
           ELSE UNCHANGED <<db, idx>>

\* ---- totality guard for logged resolved filters
RECURSIVE WF(_)
WF(x) == /\ "k" \in DOMAIN x /\ "s" \in DOMAIN x
         /\ CASE x.k \in {"eq", "sub", "stw", "enw", "lt"} -> {"a", "v"} \subseteq DOMAIN x /\ x.v \in Nat
              [] x.k \in {"pres", "inv"} -> "a" \in DOMAIN x
              [] x.k \in {"and", "or"} -> "fs" \in DOMAIN x /\ \A i \in DOMAIN x.fs : WF(x.fs[i])
              [] x.k = "not" -> "f" \in DOMAIN x /\ WF(x.f)
              [] OTHER -> FALSE

Hidden == Not(Or(<<Eq("class", 92), Eq("class", 91)>>))      \* Filter::new_ignore_hidden
ResSet(ids, o) == RangeOf(ids) \cup (IF o = 1 THEN {0} ELSE {})

\* ---- C01
\* the property: exactly the (live, unless the unmasked form is used) entries satisfying the filter
Truth(r) == {i \in DOMAIN db : (r.w => db[i].class \cap {91, 92} = {}) /\ Match(r.f, db[i], 0)}
ResOk(truth, ids, o, err) == (err # "" /\ err # "panic") \/ (err = "" /\ o # 2 /\ ResSet(ids, o) = truth)
Orig(r) == IF r.w THEN And(<<Hidden, r.f>>) ELSE r.f
\* One evaluation per line: L1 verdict, L2 verdict, signature (LET definitions are computed once)
JudgeSearch(r, ln) ==
  LET truth == Truth(r)
      res   == ResSet(r.res, r.ro)
      l1    == /\ ResOk(truth, r.res, r.ro, r.rerr)
               /\ ((r.wres = r.res /\ r.wo = r.ro /\ r.werr = r.rerr) \/ ResOk(truth, r.wres, r.wo, r.werr))
               /\ (r.ex = 2 \/ ((r.ex = 1) = (truth # {})))
      wf    == WF(r.rf)
      pa    == PresAttrs(idx)
      \* current code (repair b91e119: anchored rewrite, AndNot fold keeps candidates when the excluded set is a superset)
      idlF  == F2I(r.rf, db, Cfg(0, TRUE, pa))
      \* code before the repair: explains observations of an old tree, and classifies a regression
      rfo   == Rewrite(Orig(r), idx, 0)
      cfo   == Cfg(0, FALSE, pa)
      reso  == Search(rfo, db, 0, cfo)
      \* an EMPTY candidate set may be reported as PartialThreshold even with threshold 0
      \* (idlset: below_threshold(0) is true on an empty compressed set): same (empty) answer
      idlok(i) == \/ (i.k = r.ik /\ r.io # 2 /\ (i.k = "allids" \/ i.s = ResSet(r.is, r.io)))
                  \/ (r.ik = "pthres" /\ r.is = <<>> /\ r.io = 0 /\ res = {})
      l2    == /\ wf /\ r.rerr = "" /\ r.ro # 2
               /\ \/ (r.rf = RewriteFixed(Orig(r), idx, 0) /\ idlok(idlF) /\ SearchIdl(r.rf, db, 0, idlF) = res)
                  \/ (r.rf = rfo /\ idlok(F2I(r.rf, db, cfo)) /\ reso = res)
               /\ r.wres = r.res /\ r.wo = r.ro
               /\ r.ex = (IF res # {} THEN 1 ELSE 0)
      \* signature of an L1 failure: defect class of the pre-repair code + whether that code predicts this very answer
      \* ("andnot-isolated/l2" or "andnot-partial/l2" = the repaired defect is back)
      sig   == DefectSig(rfo, db, cfo) \o (IF r.rerr = "" /\ r.ro # 2 /\ reso = res THEN "/l2" ELSE "/nol2")
  IN /\ (l1 \/ (Tally(21) /\ PrintT(<<"L1FAIL", "C01", ln, sig>>)))
     /\ (l2 \/ (Tally(22) /\ PrintT(<<"L2DRIFT", "C01", ln>>)))

\* ---- C02
\* {"a":"rewrite","f":F,"sid":n,"mode":"idx"|"noidx","ix":{key:slope},"rf":RF,"m":[ids matched by the REAL entry test on rf],"mo":o}
RewriteL1(r) == r.mo # 2 /\ ResSet(r.m, r.mo) = {i \in DOMAIN db : Match(r.f, db[i], r.sid)}
\* with index metadata: anchored rewrite (current code, b91e119) or the plain rewrite (code before it)
RewriteL2(r) == WF(r.rf) /\ (IF r.mode = "idx" THEN r.rf = RewriteFixed(r.f, r.ix, r.sid) \/ r.rf = Rewrite(r.f, r.ix, r.sid)
                                              ELSE r.rf = RewriteNoIdx(r.f, r.sid))

Judge == l <= Len(Rec) =>
  LET r == Rec[l] IN
    CASE r.a = "search" -> JudgeSearch(r, l)
      [] r.a = "rewrite" ->
           /\ (RewriteL1(r) \/ (Tally(21) /\ PrintT(<<"L1FAIL", "C02", l, "rewrite-changes-meaning">>)))
           /\ (RewriteL2(r) \/ (Tally(22) /\ PrintT(<<"L2DRIFT", "C02", l>>)))
      [] r.a = "reset" -> (r.attrord = AttrOrder \/ (Tally(22) /\ PrintT(<<"L2DRIFT", "C02", l>>)))
      [] OTHER -> TRUE
Consumed == /\ PrintT(<<"SUMMARY", TLCGet(21), TLCGet(22)>>)
            /\ (TLCGet("stats").distinct = Len(Rec) + 1 \/ PrintT(<<"NOTCONSUMED", TLCGet("stats").distinct, Len(Rec)>>))
=============================================================================
