CONSTANTS
  Mins = {10, 16, 20}
  GLens = {9, 10, 11, 14, 15, 16, 19, 20, 21, 127, 128, 129}
  Extras = {0, 1, 6, 120}
  Max = 128
  FixMin = 15
INIT Init
NEXT Next
INVARIANT Inv
INVARIANT Emit
CHECK_DEADLOCK FALSE
