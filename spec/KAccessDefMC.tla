----------------------------- MODULE KAccessDefMC -----------------------------
(* Exhaustive enumeration (C25) over the extracted default configuration: every subset of the built-in
   role groups that do not lead into the high-privilege group (and, as a vacuity guard, every single
   role group and every pair role x non-HP role) x every target. Also the monotonicity lemma: adding a
   role never removes a grant. *)
EXTENDS KAccessDef, Json, IOUtils
D == ndJsonDeserialize(IOEnv.DEFACP)[1]
S == NProfs(D.acps)
T == NEnts(D.ents)
NonHp == Range(D.nonhp)
AllRoles == Range(D.roles)
THP == Range(D.thp)
RoleSets == (SUBSET NonHp) \cup {{g} : g \in AllRoles} \cup {{g, h} : g \in AllRoles, h \in NonHp}

VARIABLES R, t
Init == R \in RoleSets /\ t \in THP \cup Range(D.tnon)
Next == UNCHANGED <<R, t>>
Spec == Init /\ [][Next]_<<R, t>>

User(Q) == [u |-> D.probe, mo |-> Mo(D, Q), scope |-> "rw", origin |-> "user", anon |-> FALSE,
            cls |-> Classes(T[D.probe]), spu |-> {}]
Inv == L1Def(D, S, User(R), T[t], t \in THP)
Mono == \A g \in NonHp : Changeable(S, User(R), T[t]) \subseteq Changeable(S, User(R \cup {g}), T[t])
AllKnown == \A p \in S : Known(p.tgt)

ASSUME \A i \in 1..4 : TLCSet(i, 0)
Arm(i, name, cond) == (TLCGet(i) = 0 /\ cond) => (TLCSet(i, 1) /\ PrintT(<<"ARM", name>>))
Arms ==
  /\ Arm(1, "hp-user-can-change-hp-target", ~HpFree(D, Mo(D, R)) /\ t \in THP /\ Changeable(S, User(R), T[t]) \cap Sens(T[t]) # {})
  /\ Arm(2, "hp-user-can-change-ordinary-target", ~HpFree(D, Mo(D, R)) /\ t \notin THP /\ Changeable(S, User(R), T[t]) \cap Sens(T[t]) # {})
  /\ Arm(3, "hp-free-user-checked-on-hp-target", HpFree(D, Mo(D, R)) /\ t \in THP /\ ~Delegated(D, T[t]))
  /\ Arm(4, "hp-filter-decides", ~HpFree(D, Mo(D, R)) /\ t \in THP
            /\ \E p \in ModProfiles(S) : RcvMatch(p, User(R), T[t]) /\ ~TgtMatch(p, User(R), T[t]) /\ p.pa \cap Sens(T[t]) # {})
=============================================================================
