----------------------------- MODULE KAuthTokens -----------------------------
(***************************************************************************)
(* Bearer tokens, login sessions and privilege (properties C32, C36, C33). *)
(*                                                                         *)
(* L0  vocabulary (shared with the JSON projection the driver logs):       *)
(*   account  a  = [vf, ex       validity window, None = -1 when absent    *)
(*                  sess : sid -> [st : "exp"|"never"|"rev", exp, cred,    *)
(*                                 rt (time of revocation, else None)],     *)
(*                  api  : sid -> [exp],                                    *)
(*                  o2   : oid -> [st, parent (sid|"none"), iat],           *)
(*                  creds: sequence of credential ids on the account]      *)
(*   state    st = [accts : name -> account (absent = deleted),            *)
(*                  keys  : kid -> [st : "valid"|"retained"|"revoked", u, vf]]*)
(*   token    tk = [kind : "uat"|"api", acct, sid, exp, iat, kid, anon,    *)
(*                  compact]                                               *)
(* L1  the properties as predicates over observations                      *)
(* L2  transcription of validate_client_auth_info_to_ident /                *)
(*     check_user_auth_token_valid / check_api_token_valid, of the session *)
(*     consistency plugin, of process_authsessionrecord and of the scope   *)
(*     rules of issue_uat / to_userauthtoken / to_reissue_userauthtoken    *)
(***************************************************************************)
EXTENDS Integers, FiniteSets, Sequences, TLC

CONSTANTS Grace,       \* AUTH_TOKEN_GRACE_WINDOW (300 s in the implementation)
          MaxAge       \* CHANGELOG_MAX_AGE: revoked session records older than this are trimmed

None == -1
Range(f) == {f[x] : x \in DOMAIN f}

\* ------------------------------------------------------------------ L0
\* inclusive window as Account::check_within_valid_time computes it
Within(t, vf, ex)  == (vf = None \/ vf <= t) /\ (ex = None \/ t <= ex)
\* strictly outside: valid-from not arrived, or expiry passed (boundary instants belong to neither)
Outside(t, vf, ex) == (vf # None /\ t < vf) \/ (ex # None /\ ex < t)

KeyUsable(st, kid) == kid \in DOMAIN st.keys /\ st.keys[kid].st # "revoked"

SessLive(a, tk) ==
  /\ tk.sid \in DOMAIN a.sess
  /\ LET s == a.sess[tk.sid]
     IN  \/ s.st = "exp"   /\ tk.exp # None /\ s.exp = tk.exp
         \/ s.st = "never" /\ tk.exp = None
ApiLive(a, tk) == tk.sid \in DOMAIN a.api

LiveSess(a) == {s \in DOMAIN a.sess : a.sess[s].st # "rev"}
CredsOf(a)  == Range(a.creds)

\* ------------------------------------------------------------------ L1  (C32)
\* Necessary conditions for a bearer token to be accepted at time t ("apart from a short grace window
\* after issue, its session must also be recorded ... and not revoked": the grace window waives the
\* PRESENCE of the record, never a recorded revocation).  Anonymous tokens never have
\* session records (stated design of the anonymous account), so only signature / expiry / account /
\* window are required of them.
L1Accept(tk, st, t) ==
  /\ KeyUsable(st, tk.kid)
  /\ (tk.exp = None \/ t <= tk.exp)
  /\ tk.acct \in DOMAIN st.accts
  /\ LET a == st.accts[tk.acct]
     IN  /\ ~Outside(t, a.vf, a.ex)
         \* the grace window only excuses a session record that is not (yet) there: a login session that
         \* IS recorded must be live (not revoked, same expiry) whatever the time
         /\ \/ tk.anon
            \/ tk.kind = "uat" /\ SessLive(a, tk)
            \/ tk.kind = "uat" /\ tk.sid \notin DOMAIN a.sess /\ t < tk.iat + Grace
            \/ tk.kind = "api" /\ (ApiLive(a, tk) \/ t < tk.iat + Grace)

L1PresentOk(tk, st, t, res) == res = "ok" => L1Accept(tk, st, t)

\* which requirement an accepted token fails (names the class of a violation)
L1Why(tk, st, t) ==
  IF ~KeyUsable(st, tk.kid) THEN "revoked-key"
  ELSE IF ~(tk.exp = None \/ t <= tk.exp) THEN "past-expiry"
  ELSE IF tk.acct \notin DOMAIN st.accts THEN "no-account"
  ELSE IF Outside(t, st.accts[tk.acct].vf, st.accts[tk.acct].ex) THEN "outside-validity"
  ELSE IF tk.kind = "uat" /\ tk.sid \in DOMAIN st.accts[tk.acct].sess
          /\ st.accts[tk.acct].sess[tk.sid].st = "rev" THEN "session-revoked"
  ELSE IF tk.kind = "uat" /\ tk.sid \in DOMAIN st.accts[tk.acct].sess THEN "session-expiry-mismatch"
  ELSE "no-session-record"

\* ------------------------------------------------------------------ L1  (C36)
\* One change prev -> cur of an account: every credential that disappears takes its live login
\* sessions with it (revoked, or no longer recorded at all) in that same change.
L1CredRemoval(prev, cur) ==
  \A c \in CredsOf(prev) \ CredsOf(cur) :
    \A s \in LiveSess(prev) :
      prev.sess[s].cred = c => (s \notin DOMAIN cur.sess \/ cur.sess[s].st = "rev")

\* Sessions of that change that violate it (for the signature of a finding)
L1CredRemovalBad(prev, cur) ==
  {s \in LiveSess(prev) : /\ prev.sess[s].cred \in CredsOf(prev) \ CredsOf(cur)
                          /\ s \in DOMAIN cur.sess /\ cur.sess[s].st # "rev"}

\* An OAuth2 session (token o = [acct, oid, parent, iat]) found usable at t: once the grace window
\* after issue has passed its parent login session must be recorded and not revoked.
ParentOk(a, p) == \/ p = "none"
                  \/ p \in DOMAIN a.sess /\ a.sess[p].st # "rev"
                  \/ p \in DOMAIN a.api
L1O2Usable(o, st, t, res) ==
  (res = "active" /\ t >= o.iat + Grace) =>
     /\ o.acct \in DOMAIN st.accts
     /\ ParentOk(st.accts[o.acct], o.parent)

\* ------------------------------------------------------------------ L2  (C32)
\* Result class of validate_client_auth_info_to_ident for a bearer token.
L2Present(tk, st, t) ==
  IF ~KeyUsable(st, tk.kid) THEN "notauth"
  ELSE IF tk.kind = "uat" THEN
         IF tk.exp # None /\ tk.exp < t THEN "expired"
         ELSE IF tk.acct \notin DOMAIN st.accts THEN "expired"
         ELSE LET a == st.accts[tk.acct]
              IN  IF ~Within(t, a.vf, a.ex) THEN "expired"
                  ELSE IF tk.anon THEN "ok"
                  ELSE IF tk.sid \in DOMAIN a.sess
                       THEN (IF SessLive(a, tk) THEN "ok" ELSE "expired")
                  ELSE IF t >= tk.iat + Grace THEN "expired" ELSE "ok"
       ELSE IF tk.compact THEN
         \* compact api token = bare session id: the account is found by searching for the session
         IF tk.acct \notin DOMAIN st.accts \/ ~ApiLive(st.accts[tk.acct], tk) THEN "notauth"
         ELSE IF tk.exp # None /\ t >= tk.exp THEN "expired"
         ELSE IF ~Within(t, st.accts[tk.acct].vf, st.accts[tk.acct].ex) THEN "expired"
         ELSE "ok"
       ELSE
         IF tk.exp # None /\ t >= tk.exp THEN "expired"
         ELSE IF tk.acct \notin DOMAIN st.accts THEN "notauth"
         ELSE LET a == st.accts[tk.acct]
              IN  IF ~Within(t, a.vf, a.ex) THEN "expired"
                  ELSE IF ApiLive(a, tk) THEN "ok"
                  ELSE IF t >= tk.iat + Grace THEN "expired" ELSE "ok"

\* check_oauth2_account_uuid_valid for an access token o = [acct, oid, parent, iat] (token expiry aside)
L2O2Active(o, st, t) ==
  IF o.acct \notin DOMAIN st.accts THEN "inactive"
  ELSE LET a == st.accts[o.acct]
           grace == t < o.iat + Grace
       IN  IF ~Within(t, a.vf, a.ex) THEN "inactive"
           ELSE IF o.oid \in DOMAIN a.o2 THEN
                  IF a.o2[o.oid].st = "rev" THEN "inactive"
                  ELSE IF o.parent = "none" THEN "active"
                  ELSE IF o.parent \in DOMAIN a.sess
                       THEN (IF a.sess[o.parent].st # "rev" THEN "active" ELSE "inactive")
                  ELSE IF o.parent \in DOMAIN a.api \/ grace THEN "active" ELSE "inactive"
           ELSE IF grace THEN "active" ELSE "inactive"

\* ------------------------------------------------------------------ L2  (C36, state changes)
\* SessionConsistency::modify_inner runs on every modify of the account at time now:
\* live sessions whose credential is gone are revoked, then sessions at/past expiry are revoked,
\* then orphaned / expired OAuth2 sessions are revoked.
\* Before that, Entry::invalidate trims revoked session records whose revocation is older than the
\* changelog window (valueset trim).
Plugin(a, now) ==
  LET keep == {s \in DOMAIN a.sess : ~(a.sess[s].st = "rev" /\ a.sess[s].rt < now - MaxAge)}
      s0 == [s \in keep |-> a.sess[s]]
      s1 == [s \in DOMAIN s0 |->
               IF s0[s].st # "rev" /\ s0[s].cred \notin CredsOf(a)
               THEN [s0[s] EXCEPT !.st = "rev", !.exp = None, !.rt = now] ELSE s0[s]]
      s2 == [s \in DOMAIN s1 |->
               IF s1[s].st = "exp" /\ s1[s].exp <= now
               THEN [s1[s] EXCEPT !.st = "rev", !.exp = None, !.rt = now] ELSE s1[s]]
      a2 == [a EXCEPT !.sess = s2]
      o2 == [o \in DOMAIN a.o2 |->
               IF a.o2[o].st = "rev" THEN a.o2[o]
               ELSE IF a.o2[o].st = "exp" /\ a.o2[o].exp <= now
                    THEN [a.o2[o] EXCEPT !.st = "rev", !.exp = None]
               ELSE IF (a.o2[o].parent = "none"
                        \/ (a.o2[o].parent \in DOMAIN s2 /\ s2[a.o2[o].parent].st # "rev"))
                    THEN a.o2[o]
               ELSE IF a.o2[o].iat + Grace <= now
                    THEN [a.o2[o] EXCEPT !.st = "rev", !.exp = None]
               ELSE a.o2[o]]
  IN  [a2 EXCEPT !.o2 = o2]

\* process_authsessionrecord: append the session (no effect if the id is already present), plugin runs
DoApply(a, sid, exp, cred, now) ==
  LET rec == [st |-> IF exp = None THEN "never" ELSE "exp", exp |-> exp, cred |-> cred, rt |-> None]
      ns  == IF sid \in DOMAIN a.sess THEN a.sess
             ELSE [s \in DOMAIN a.sess \cup {sid} |-> IF s = sid THEN rec ELSE a.sess[s]]
  IN  Plugin([a EXCEPT !.sess = ns], now)

DoRevoke(a, sid, now) ==
  Plugin([a EXCEPT !.sess = [s \in DOMAIN a.sess |->
            IF s = sid /\ a.sess[s].st # "rev" THEN [a.sess[s] EXCEPT !.st = "rev", !.exp = None, !.rt = now]
            ELSE a.sess[s]]], now)

DoSetCreds(a, cs, now) == Plugin([a EXCEPT !.creds = cs], now)
DoSetValid(a, vf, ex, now) == Plugin([a EXCEPT !.vf = vf, !.ex = ex], now)
DoApiAdd(a, sid, exp, now) ==
  Plugin([a EXCEPT !.api = [s \in DOMAIN a.api \cup {sid} |-> IF s = sid THEN [exp |-> exp] ELSE a.api[s]]], now)
DoApiDel(a, sid, now) ==
  Plugin([a EXCEPT !.api = [s \in DOMAIN a.api \ {sid} |-> a.api[s]]], now)

\* ------------------------------------------------------------------ C33 vocabulary
\* An observation u of a token in use:
\*   login : "anon"|"pw"|"genpw"|"mfa"|"passkey"|"ldap"|"cert"|"o2trust"|"apiro"|"apirw"
\*   priv  : privileged flag of the initial login
\*   issue : "login"|"reauth_rw"|"reauth_ro"     how THIS token was obtained
\*   at    : time of the authentication / re-authentication that produced this token
\*   t     : time of use;  scope : "rw"|"ro"|"none" (rejected)
AlwaysRO == {"anon", "o2trust", "cert", "ldap", "apiro"}
Ordinary == {"pw", "mfa", "passkey"}           \* interactive person logins

\* L1 (C33): PrivMax is the bound of a privilege window (statement: "bounded"; the implementation's
\* documented maximum is 3600 s).
L1Scope(u, PrivMax) ==
  u.scope = "rw" =>
    \/ u.login = "apirw"
    \/ /\ u.login \notin AlwaysRO
       /\ u.at <= u.t /\ u.t < u.at + PrivMax
       /\ (u.login \in Ordinary /\ u.issue = "login") => u.priv
       /\ u.issue # "reauth_ro"

\* re-authentication never extends the overall session expiry
L1ReauthExpiry(oldexp, newexp, sessexp_before, sessexp_after) ==
  /\ newexp # None /\ (oldexp # None => newexp <= oldexp)
  /\ sessexp_after = sessexp_before

\* L2 (C33): exact scope.  SessExp / PrivExp / LimExp: policy session expiry, policy privilege
\* expiry, DEFAULT_AUTH_SESSION_LIMITED_EXPIRY.
Min(a, b) == IF a <= b THEN a ELSE b
L2Scope(u, SessExp, PrivExp, LimExp) ==
  IF u.login = "apirw" THEN "rw"
  ELSE IF u.login \in AlwaysRO THEN "ro"
  ELSE IF u.issue = "reauth_rw" THEN (IF u.t < u.at + PrivExp THEN "rw" ELSE "ro")
  ELSE IF u.issue = "reauth_ro" THEN "ro"
  ELSE IF u.login = "genpw" \/ u.priv THEN (IF u.t < u.at + Min(SessExp, LimExp) THEN "rw" ELSE "ro")
  ELSE "ro"
=============================================================================
