------------------------------ MODULE KSyncTrace ------------------------------
(* Trace validation for C50: histories of REAL scim_sync_apply requests, yield-authority changes and
   user modifications (driver `kv-access c50`); "st" is the population after each step.
   {"a":"reset","syncable":[..],"st":{..}}  {"a":"sync","ag","idk","req":{from,entries,retain},"res","st"}
   {"a":"yield","ag","y":[..],"res","st"}    {"a":"umod","id","t","ml","res","st"} *)
EXTENDS KSync, Json, IOUtils
Rec == ndJsonDeserialize(IOEnv.TRACE)
VARIABLES l, c       \* c = line of the reset that started the current history

NReq(r) == [from |-> r.from,
            entries |-> [i \in DOMAIN r.entries |-> [id |-> r.entries[i].id, sys |-> r.entries[i].sys, kind |-> r.entries[i].kind, ext |-> r.entries[i].ext,
                                                    attrs |-> [a \in DOMAIN r.entries[i].attrs |-> Range(r.entries[i].attrs[a])]]],
            retain |-> [mode |-> r.retain.mode, ids |-> Range(r.retain.ids)]]
YldOf(St, A) == IF A \in DOMAIN St THEN AttrVals(St[A], "sync_yield_authority") ELSE {}

LineL1(C, p, r) ==
  LET Pre == NEnts(p.st)  Post == NEnts(r.st)  Syn == Range(C.syncable) IN
  r.res = "ok" =>
    CASE r.a = "sync" -> L1Sync(r.ag, Syn, YldOf(Pre, r.ag), Pre, Post)
      [] r.a = "umod" -> L1UserMod(Yield(Pre), NMl(r.ml), Pre, Post)
      [] OTHER -> TRUE
LineSig(C, p, r) ==
  LET Pre == NEnts(p.st)  Post == NEnts(r.st)  Syn == Range(C.syncable) IN
  IF r.a = "sync" THEN SyncSig(r.ag, Syn, YldOf(Pre, r.ag), Pre, Post) ELSE "user-changed-sync-owned-attribute"

LineL2(C, p, r) ==
  LET Pre == NEnts(p.st)  Post == NEnts(r.st)  Syn == Range(C.syncable) IN
  CASE r.a = "sync" ->
         LET m == SyncApply(Pre, r.ag, r.idk, "sync_cookie" \in DOMAIN Pre[r.ag].attrs, NReq(r.req), [k \in DOMAIN C.kattrs |-> Range(C.kattrs[k])], YldOf(Pre, r.ag)) IN
         /\ (r.res = "ok") = m.ok
         /\ r.res = "ok" => /\ DOMAIN Post \ DOMAIN Pre = m.created
                            /\ {x \in DOMAIN Pre \cap DOMAIN Post : Pre[x].live = "live" /\ Post[x].live # "live"} = m.deleted \cap DOMAIN Pre
    [] r.a = "umod" ->
         \* the user holds a grant-all profile: only the built-in sync constraint (and scope) decide
         LET id == NId(r.id)  e == Pre[r.t]  ml == NMl(r.ml)
             S == {[rk |-> "group", rg |-> id.mo, tgt |-> [t |-> "pres", a |-> "class"], srch |-> FALSE, sa |-> {}, mod |-> TRUE,
                    pa |-> NamedAttrs(ml), ra |-> NamedAttrs(ml), pc |-> {}, rc |-> {}, cre |-> FALSE, ca |-> {}, cc |-> {}, del |-> FALSE]}
         IN  r.t \in DOMAIN Pre /\ ~Hidden(Pre[r.t]) /\ "e20" \in id.mo =>
               ((r.res # "denied") = L2ModifyAllowed(S, Yield(Pre), id, ml, e))
    [] OTHER -> r.res = "ok"

Init == l = 1 /\ c = 0
Next == /\ l <= Len(Rec)
        /\ l' = l + 1
        /\ c' = IF Rec[l].a = "reset" THEN l ELSE c
Spec == Init /\ [][Next]_<<l, c>>
Judge == (l <= Len(Rec) /\ Rec[l].a # "reset") =>
           /\ (LineL1(Rec[c], Rec[l - 1], Rec[l]) \/ PrintT(<<"L1FAIL", "C50", l, LineSig(Rec[c], Rec[l - 1], Rec[l])>>))
           /\ (LineL2(Rec[c], Rec[l - 1], Rec[l]) \/ PrintT(<<"L2DRIFT", "C50", l>>))
Consumed == TLCGet("stats").distinct = Len(Rec) + 1 \/ PrintT(<<"NOTCONSUMED", TLCGet("stats").distinct, Len(Rec)>>)
=============================================================================
