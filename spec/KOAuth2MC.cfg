CONSTANTS
  Prompts = {"", "none", "login"}
  PrevKinds = {"no", "same"}
  Regs = {"https", "http", "mixed"}
  SMaps = {"m1"}
  Sups = {"none", "g1"}
  Full = FALSE
  CodeLife = 2
  AccessLife = 3
  RefreshLife = 5
INIT Init
NEXT Next
INVARIANT Inv
POSTCONDITION Vacuity
CHECK_DEADLOCK FALSE
