--------------------------- MODULE KProtoFilterTrace ---------------------------
(* Validates observed LDAP / SCIM searches of the REAL protocol paths (harness/filter/src/c41.rs).
   reset lines carry the model population as stored and the index metadata; proto lines one search. *)
EXTENDS KProtoFilter, Json, IOUtils
Rec == ndJsonDeserialize(IOEnv.TRACE)
\* failures are also tallied (registers 21 / 22) so that the orchestrator can detect lost output lines
Tally(r) == TLCSet(r, TLCGet(r) + 1)
ASSUME TLCSet(21, 0) /\ TLCSet(22, 0)
VARIABLES l, db, idx

MkDb(r) == LET pop == r.db
           IN [i \in {pop[j].id : j \in DOMAIN pop} |->
                 LET p == pop[CHOOSE j \in DOMAIN pop : pop[j].id = i]
                 IN [a |-> RangeOf(p.a), b |-> RangeOf(p.b), class |-> RangeOf(p.class), uuid |-> {i}]]
Init == l = 1 /\ db = (IF Rec[1].a = "reset" THEN MkDb(Rec[1]) ELSE <<>>) /\ idx = (IF Rec[1].a = "reset" THEN Rec[1].idx ELSE <<>>)
Next == /\ l <= Len(Rec) /\ l' = l + 1
        /\ IF l + 1 <= Len(Rec) /\ Rec[l + 1].a = "reset"
           THEN db' = MkDb(Rec[l + 1]) /\ idx' = Rec[l + 1].idx
           ELSE UNCHANGED <<db, idx>>

JudgeProto(r, ln) ==
  LET truth == IF r.kind = "ldap" THEN LdapTruth(r.pf, db) ELSE ScimTruth(r.pf, db)
      res   == RangeOf(r.res)
      \* the property: refused with an explicit error, or exactly what the standard selects
      l1    == (r.err # "" /\ r.err # "panic") \/ (r.err = "" /\ res = truth)
      co    == Cfg(0, FALSE, PresAttrs(idx))     \* code before the repair b91e119
      wr    == IF r.kind = "ldap" THEN LdapWrapped(r.pf) ELSE ScimWrapped(r.pf)
      ans   == L2Answer(wr, db, idx, Cfg(0, TRUE, PresAttrs(idx)), r.kind = "ldap")   \* current code
      anso  == L2Answer(wr, db, idx, co, r.kind = "ldap")
      big   == IF r.kind = "ldap" THEN LdapTooBig(r.pf) ELSE ScimTooBig(r.pf)
      expl(a) == IF big \/ a.rej THEN r.err # "" ELSE (r.err = "" /\ a.s = res)
      l2    == expl(ans) \/ expl(anso)
      \* class of the divergence; for the (repaired) C01 classes "/l2" means the pre-repair code predicts this very answer
      sig   == ProtoSig(r.kind, r.pf, wr, db, idx, co) \o (IF l2 THEN "/l2" ELSE "/nol2")
  IN /\ (l1 \/ (Tally(21) /\ PrintT(<<"L1FAIL", "C41", ln, sig>>)))
     /\ (l2 \/ (Tally(22) /\ PrintT(<<"L2DRIFT", "C41", ln>>)))
Judge == l <= Len(Rec) => (IF Rec[l].a = "proto" THEN JudgeProto(Rec[l], l) ELSE TRUE)
Consumed == /\ PrintT(<<"SUMMARY", TLCGet(21), TLCGet(22)>>)
            /\ (TLCGet("stats").distinct = Len(Rec) + 1 \/ PrintT(<<"NOTCONSUMED", TLCGet("stats").distinct, Len(Rec)>>))
=============================================================================
