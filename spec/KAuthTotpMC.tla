----------------------------- MODULE KAuthTotpMC -----------------------------
(* Exhaustive check of the window arithmetic: L2 (integer division, counter and counter-1)
   against L1 (step containing t / the step before), for Steps x t in S..TMul*S x candidate codes
   Code(0..KMax) and a junk code.  Code is injective here (Code(k) = k, junk = -1): the model
   decides WHICH counters are acceptable; what the code of a counter is belongs to RFC 6238 and is
   supplied in trace validation.  Every state is also printed as a CASE for replay.            *)
EXTENDS KAuthTotp, TLC
CONSTANTS Steps, TMul, KMax
VARIABLES S, t, c
Code(k) == k
Init == /\ S \in Steps
        /\ t \in S..(TMul * S)
        /\ c \in (0..KMax) \cup {-1}
Next == UNCHANGED <<S, t, c>>
Inv == L2Verify(Code, c, t, S) <=> L1Accept(Code, c, t, S)
\* replay cases: <<"CASE", S, t, c>>
Emit == PrintT(<<"CASE", S, t, c>>)
\* vacuity: both verdicts, and acceptance through the previous step, are reachable
ReachAcceptPrev == ~(L1Accept(Code, c, t, S) /\ c # Code(StepOf(t, S)))
ReachReject == L1Accept(Code, c, t, S)
=============================================================================
