------------------------------- MODULE KGidApa -------------------------------
(* Apalache obligation: for ALL 32-bit u and g (symbolic integers, no enumeration)
   generation and acceptance never land in a reserved range.
   apalache-mc check --length=0 --inv=Inv KGidApa.tla *)
EXTENDS KGid
\* @type: Int;
U32Max == 4294967295
VARIABLES
  \* @type: Int;
  u,
  \* @type: Int;
  g
Init == u \in Int /\ g \in Int /\ 0 <= u /\ u <= U32Max /\ 0 <= g /\ g <= U32Max
Next == u' = u /\ g' = g
InvGen == GenSafe(u) /\ 0 <= Gen(u) /\ Gen(u) <= U32Max
InvAccept == AcceptSafe(g)
Inv == InvGen /\ InvAccept
\* vacuity canaries: these MUST be refuted by Apalache (the orchestrator expects a counterexample)
CanaryAccept == Accept(g) => g # 65533
CanaryGen == Gen(u) # 2147483647
=============================================================================
