CONSTANTS
  W = 8
  Th <- ThPw
  Dl <- DlPw
  TMax = 17
  NMax = 5
  Exps = {5}
SPECIFICATION Spec
CONSTRAINT Bound
PROPERTY L1Action
INVARIANT WindowBound
CHECK_DEADLOCK FALSE
