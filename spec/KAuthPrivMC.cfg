CONSTANTS
  Grace = 2
  MaxAge = 100
  T = 6
  LimExp = 3
  PrivMax = 3
INIT Init
NEXT Next
INVARIANT Inv
INVARIANT InvExp
CHECK_DEADLOCK FALSE
