-------------------------------- MODULE KStore --------------------------------
(***************************************************************************)
(* Entry store, attribute indexes, lookup tables, backup/restore            *)
(* (properties C03 and C13; C12's value transitions are in KStoreVal).      *)
(*                                                                         *)
(* L0  a stored entry is a record                                           *)
(*       [id, uuid, live, a: attr -> <<values>>, c: attr -> <<char seqs>>,   *)
(*        syn: attr -> syntax]                                              *)
(*     plus k: "type:attr" -> <<index keys>>                                 *)
(*     (a: the values as proto strings; c: the characters of                *)
(*     the values of substring-indexed attributes; k: the index keys the    *)
(*     backend's own key functions generate for the entry).  An index table is a    *)
(*     function key -> set of entry ids (empty rows do not count).  Lookup  *)
(*     tables are observed by probing a finite key pool.                    *)
(* L1  IndexMirror: every table equals the table computed from the stored   *)
(*     entries; lookup tables equal the ones computed from the entries that *)
(*     are neither recycled nor tombstones; resolvers agree with a scan.    *)
(*     BackupRestore: the restored database has the same content.           *)
(* L2  entry_index(pre, post) as a diff applied to the previous tables       *)
(*     (be/mod.rs), reindex = recomputation.                                *)
(***************************************************************************)
EXTENDS Naturals, Sequences, FiniteSets, TLC

\* ----------------------------- L0 ---------------------------------------
Range(s) == {s[i] : i \in DOMAIN s}
Has(e, at) == at \in DOMAIN e.a
Vals(e, at) == IF Has(e, at) THEN Range(e.a[at]) ELSE {}

RECURSIVE Concat(_)
Concat(s) == IF s = <<>> THEN "" ELSE s[1] \o Concat(Tail(s))
Windows(cs, k) == {Concat(SubSeq(cs, i, i + k - 1)) : i \in 1..(IF Len(cs) >= k THEN Len(cs) - k + 1 ELSE 0)}
Trigraphs(cs) == Windows(cs, 3) \cup Windows(cs, 2) \cup Windows(cs, 1)
\* syntaxes whose valuesets generate substring keys (valueset/{iname,iutf8,address}.rs)
SubSyntax == {"Utf8StringIname", "Utf8StringInsensitive", "EmailAddress"}
SubKeys(e, at) == IF at \in DOMAIN e.c /\ at \in DOMAIN e.syn /\ e.syn[at] \in SubSyntax
                  THEN UNION {Trigraphs(e.c[at][i]) : i \in DOMAIN e.c[at]} ELSE {}

\* The index keys an entry produces.  L0/L1 take them as the stored entry's own keys (field k: "type:attr" ->
\* <<keys>>, logged from the backend's key functions ValueSet::generate_idx_*_keys); KeysL2 is the
\* transcription of those functions from the attribute values (implementation-shaped, only used for drift
\* reporting and to build the keys of model entries).
TK(at, ty) == ty \o ":" \o at
Keys(e, at, ty) == IF TK(at, ty) \in DOMAIN e.k THEN Range(e.k[TK(at, ty)]) ELSE {}
KeysL2(e, at, ty) == CASE ty = "eq"   -> Vals(e, at)
                       [] ty = "pres" -> IF Has(e, at) THEN {"_"} ELSE {}
                       [] ty = "sub"  -> SubKeys(e, at)
                       [] OTHER       -> {}
\* the table the stored entries produce
Table(ents, at, ty) ==
  LET ks == UNION {Keys(e, at, ty) : e \in ents}
  IN  [k \in ks |-> {e.id : e \in {x \in ents : k \in Keys(x, at, ty)}}]

\* recycled entries and tombstones are masked from the lookup tables (Entry::mask_recycled_ts)
Masked(e) == "recycled" \in Vals(e, "class") \/ "tombstone" \in Vals(e, "class")
Visible(ents) == {e \in ents : ~Masked(e)}
NameCands(e) == Vals(e, "spn") \cup Vals(e, "name") \cup Vals(e, "gidnumber")
One(S) == CHOOSE x \in S : TRUE
\* acceptable answers of the lookups ("-" = no answer)
N2U(ents, k) == LET s == {e.uuid : e \in {x \in Visible(ents) : k \in NameCands(x)}} IN IF s = {} THEN {"-"} ELSE s
X2U(ents, k) == LET s == {e.uuid : e \in {x \in Visible(ents) : k \in Vals(x, "sync_external_id")}} IN IF s = {} THEN {"-"} ELSE s
SpnOf(e) == IF Has(e, "spn") THEN One(Vals(e, "spn")) ELSE IF Has(e, "name") THEN One(Vals(e, "name")) ELSE e.uuid
RdnOf(e) == IF Has(e, "spn") THEN "spn=" \o One(Vals(e, "spn"))
            ELSE IF Has(e, "name") THEN "name=" \o One(Vals(e, "name")) ELSE "uuid=" \o e.uuid
U2S(ents, u) == LET s == {SpnOf(e) : e \in {x \in Visible(ents) : x.uuid = u}} IN IF s = {} THEN {"-"} ELSE s
U2R(ents, u) == LET s == {RdnOf(e) : e \in {x \in Visible(ents) : x.uuid = u}} IN IF s = {} THEN {"-"} ELSE s

\* ----------------------------- L1 (C03) ---------------------------------
TableMirrors(obs, ents, at, ty) == obs = Table(ents, at, ty)
LookupMirrors(ents, n2u, x2u, u2s, u2r) ==
  /\ \A k \in DOMAIN n2u : n2u[k] \in N2U(ents, k)
  /\ \A k \in DOMAIN x2u : x2u[k] \in X2U(ents, k)
  /\ \A u \in DOMAIN u2s : u2s[u] \in U2S(ents, u)
  /\ \A u \in DOMAIN u2r : u2r[u] \in U2R(ents, u)
ResolveAgrees(ents, resolve) == \A k \in DOMAIN resolve : resolve[k] \in N2U(ents, k)

\* ----------------------------- L1 (C13) ---------------------------------
\* content of a database as the property means it: entries by uuid (digest of everything stored incl. change
\* state), server / domain identifiers, max change time, replication metadata (RUV change ids); plus the
\* consistency check and the answers to a fixed probe set of searches.
SameDatabase(o, r) ==
  /\ r.ents = o.ents /\ r.ids = o.ids /\ r.ruv = o.ruv
RestoreOk(o, r) ==
  /\ SameDatabase(o, r)
  /\ r.verify = <<>> /\ r.beverify = <<>>
  /\ r.probes = o.probes

\* ----------------------------- L2 ---------------------------------------
\* entry_index(pre, post): remove the id from rows of keys only pre produces, add it to rows of keys only post
\* produces.  Applied for every entry id that changed between two states.
RowOf(t, k) == IF k \in DOMAIN t THEN t[k] ELSE {}
Prune(t) == [k \in {x \in DOMAIN t : t[x] # {}} |-> t[k]]
ById(ents, i) == {e \in ents : e.id = i}
DiffApply(t, pre, post, at, ty) ==
  LET ids == {e.id : e \in pre \cup post}
      kpre(i)  == UNION {Keys(e, at, ty) : e \in ById(pre, i)}
      kpost(i) == UNION {Keys(e, at, ty) : e \in ById(post, i)}
      allk == DOMAIN t \cup UNION {kpre(i) \cup kpost(i) : i \in ids}
  IN Prune([k \in allk |-> (RowOf(t, k) \ {i \in ids : k \in kpre(i) /\ k \notin kpost(i)})
                            \cup {i \in ids : k \in kpost(i) /\ k \notin kpre(i)}])
=============================================================================
