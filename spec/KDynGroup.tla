------------------------------ MODULE KDynGroup ------------------------------
(***************************************************************************)
(* Dynamic groups (property C18).                                           *)
(*                                                                         *)
(* L0  s = [ids, lv, dyn, av, filt, dm, rdmo]                               *)
(*       lv[x]   liveness class;  dyn: the ids that are dynamic groups      *)
(*       av[x]   candidate attributes  [attr -> set of values]              *)
(*       filt[d] filter tree [t, a, v, s] (t: eq pres and or not)           *)
(*       dm[d]   stored dynmember;  rdmo[x] recycled_directmemberof         *)
(* L1  DynExact: for every live dynamic group, dynmember (within the        *)
(*     candidate population) = the LIVE entries that match its filter       *)
(* L2  transcription of plugins/dyngroup.rs: the incremental path           *)
(*     (post_create / post_modify: pre/post evaluation of every cached      *)
(*     filter on the NON-dyngroup entries of the operation) and the         *)
(*     re-evaluation path (apply_dyngroup_change: internal search of the    *)
(*     filter among live entries whenever the dynamic group entry itself is *)
(*     created or modified); delete through refint; revive through the      *)
(*     modify path (a recycled pre-image never matches) plus the            *)
(*     recycled_directmemberof restore (a modify of each group)             *)
(***************************************************************************)
EXTENDS Naturals, Sequences, FiniteSets, TLC

\* reference semantics of a filter on one entry's attributes (the oracle of C18)
RECURSIVE Match(_, _)
Match(f, av) ==
  CASE f.t = "eq"   -> f.a \in DOMAIN av /\ f.v \in av[f.a]
    [] f.t = "pres" -> f.a \in DOMAIN av /\ av[f.a] # {}
    [] f.t = "and"  -> \A i \in DOMAIN f.s : Match(f.s[i], av)
    [] f.t = "or"   -> \E i \in DOMAIN f.s : Match(f.s[i], av)
    [] f.t = "not"  -> ~Match(f.s[1], av)
    [] OTHER        -> FALSE
RECURSIVE Supported(_, _)
Supported(f, A) ==
  CASE f.t \in {"eq", "pres"} -> f.a \in A
    [] f.t \in {"and", "or"}  -> \A i \in DOMAIN f.s : Supported(f.s[i], A)
    [] f.t = "not"            -> Len(f.s) = 1 /\ Supported(f.s[1], A)
    [] OTHER                  -> FALSE

\* ----------------------------------- L1 -----------------------------------
LiveDyn(s)     == {d \in s.dyn : s.lv[d] = "live"}
Should(s, d)   == {e \in s.ids : s.lv[e] = "live" /\ Match(s.filt[d], s.av[e])}
DynExactAt(s, d) == s.dm[d] = Should(s, d)
DynExact(s)    == \A d \in LiveDyn(s) : DynExactAt(s, d)

\* ----------------------------------- L2 -----------------------------------
\* apply_dyngroup_change: the group's filter is searched among the LIVE entries (since commit 1d61d90 the
\* search is masked; before, recycled matches were returned too). Dynamic groups (the group itself
\* included) are ordinary search results.
Reeval(s, d) == [s EXCEPT !.dm[d] = {e \in s.ids : s.lv[e] = "live" /\ Match(s.filt[d], s.av[e])}]
RECURSIVE ReevalAll(_, _)
ReevalAll(s, D) == IF D = {} THEN s ELSE LET d == CHOOSE x \in D : TRUE IN ReevalAll(Reeval(s, d), D \ {d})

\* incremental path for the NON-dyngroup entries X of an operation with attributes before/after
Incr(s, cache, X, avPre, avPost, wasThere) ==
  [s EXCEPT !.dm = [d \in DOMAIN s.dm |->
      IF d \in cache
      THEN (s.dm[d] \cup {x \in X \ s.dyn : Match(s.filt[d], avPost[x]) /\ ~(wasThere /\ Match(s.filt[d], avPre[x]))})
                    \ {x \in X \ s.dyn : wasThere /\ Match(s.filt[d], avPre[x]) /\ ~Match(s.filt[d], avPost[x])}
      ELSE s.dm[d]]]

\* create of entries C (attributes / filters already in s as not-stored values): existing dyngroups take
\* the new NON-dyngroup entries that match, new dyngroups are evaluated by search
Create(s, C) ==
  LET s1 == [s EXCEPT !.lv = [x \in s.ids |-> IF x \in C THEN "live" ELSE @[x]]]
      s2 == Incr(s1, LiveDyn(s1) \ C, C, s.av, s.av, FALSE)   \* the cache holds the dyngroups that existed before
  IN  ReevalAll(s2, C \cap s.dyn)

\* modify of live entries X: attributes become av2, filters filt2. dyngroups among X are re-evaluated
\* first, then the incremental path runs for the others.
Modify(s, X, av2, filt2) ==
  LET s1 == [s EXCEPT !.av = av2, !.filt = filt2]
      s2 == ReevalAll(s1, X \cap LiveDyn(s1))
  IN  Incr(s2, LiveDyn(s2), X, s.av, av2, TRUE)

\* delete: refint removes the deleted entries from every dynmember; memberof keeps dmo as rdmo
Delete(s, D) ==
  [s EXCEPT !.lv = [x \in s.ids |-> IF x \in D THEN "recycled" ELSE @[x]],
            !.rdmo = [x \in s.ids |-> IF x \in D THEN {d \in LiveDyn(s) : x \in s.dm[d]} ELSE @[x] \ D],
            !.dm = [d \in DOMAIN @ |-> @[d] \ D]]

\* revive of R: modify path with pre = the recycled entries, which count as NOT matching (1d61d90), so
\* the incremental path adds every revived non-dyngroup entry that matches a cached filter; revived
\* dyngroups are re-evaluated; then every group in recycled_directmemberof is modified (static member
\* added), which re-evaluates it.
Revive(s, R) ==
  LET s1 == [s EXCEPT !.lv = [x \in s.ids |-> IF x \in R THEN "live" ELSE @[x]],
                      !.rdmo = [x \in s.ids |-> IF x \in R THEN {} ELSE @[x]]]
      s2 == ReevalAll(s1, R \cap s.dyn)
      s3 == Incr(s2, LiveDyn(s2), R, s.av, s.av, FALSE)
  IN  ReevalAll(s3, (UNION {s.rdmo[x] : x \in R}) \cap LiveDyn(s3))

Purge(s, P) == [s EXCEPT !.lv = [x \in s.ids |-> IF x \in P THEN "tombstone" ELSE @[x]],
                         !.av = [x \in s.ids |-> IF x \in P THEN [a \in DOMAIN @[x] |-> {}] ELSE @[x]]]
=============================================================================
