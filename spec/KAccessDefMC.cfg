INIT Init
NEXT Next
INVARIANT Inv
INVARIANT Mono
INVARIANT AllKnown
INVARIANT Arms
CHECK_DEADLOCK FALSE
