-------------------------------- MODULE KUpgrade --------------------------------
(***************************************************************************)
(* Domain level upgrade (property C48; the upgrade section of the           *)
(* KDirectory family of DESIGN.md section 5).                               *)
(*                                                                         *)
(* L0  db  = uuid -> [live: class, attrs: attr -> <<values>>]                *)
(*     def = uuid -> attr -> <<values>>   built-in definitions of the target *)
(*           level (TRUSTED INPUT: extracted by the harness from fresh       *)
(*           target-level servers, instance-independent attributes only)     *)
(*     user = uuid -> <<attrs>>           attributes the user set on the     *)
(*           entries the user created                                        *)
(*     removed = uuid -> attr -> <<values>>  values of built-in entries an   *)
(*           administrator removed before the upgrade: for a multi-valued    *)
(*           attribute the migration data specifies, a PROPER NON-EMPTY      *)
(*           subset of the specified values (so the stored value is a subset *)
(*           of Defined \cup Extra that still meets Defined)                 *)
(* L1  the upgrade succeeds; the consistency check passes; every user        *)
(*     entry is still there, in the same liveness class, with every user-set *)
(*     value; every defined built-in entry exists and carries every defined  *)
(*     value - in particular every removed one is back (Restored) - and     *)
(*     values the user added to built-in entries survive.                   *)
(* L2  migration = "assert" of each definition (gen_modlist_assert):         *)
(*     single-valued attributes are replaced, multi-valued ones get the      *)
(*     defined values added, nothing else is touched.                        *)
(***************************************************************************)
EXTENDS Naturals, Sequences, FiniteSets, TLC

Range(s) == {s[i] : i \in DOMAIN s}
ValsOf(db, u, a) == IF u \in DOMAIN db /\ a \in DOMAIN db[u].attrs THEN Range(db[u].attrs[a]) ELSE {}

\* ----------------------------- L1 ---------------------------------------
UserEntryKept(pre, post, user, u) ==
  /\ u \in DOMAIN post
  /\ u \in DOMAIN pre => post[u].live = pre[u].live
  /\ \A i \in DOMAIN user[u] : ValsOf(pre, u, user[u][i]) \subseteq ValsOf(post, u, user[u][i])
UserDataKept(pre, post, user) == \A u \in DOMAIN user : UserEntryKept(pre, post, user, u)

DefEntryOk(post, def, u) ==
  /\ u \in DOMAIN post
  /\ post[u].live = "live"
  /\ \A a \in DOMAIN def[u] : Range(def[u][a]) \subseteq ValsOf(post, u, a)
DefinitionsPresent(post, def) == \A u \in DOMAIN def : DefEntryOk(post, def, u)

\* the removal really was RemoveSome (L0 sanity of the logged perturbation) ...
RemovedOk(pre, def, removed, u, a) ==
  /\ removed[u][a] # <<>>
  /\ Range(removed[u][a]) \cap ValsOf(pre, u, a) = {}
  /\ u \in DOMAIN def /\ a \in DOMAIN def[u] => (Range(def[u][a]) \cap ValsOf(pre, u, a)) # {}     \* proper: a defined value stayed
\* ... and the upgrade brings every removed value back
RestoredAt(post, removed, u, a) == Range(removed[u][a]) \subseteq ValsOf(post, u, a)
Restored(post, removed) == \A u \in DOMAIN removed : \A a \in DOMAIN removed[u] : RestoredAt(post, removed, u, a)

L1Upgrade(pre, post, user, def, res, verify) ==
  /\ res = "ok" /\ verify = <<>>
  /\ UserDataKept(pre, post, user)
  /\ DefinitionsPresent(post, def)

\* ----------------------------- L2 ---------------------------------------
\* assert one definition onto the database; `single` = set of single-valued attributes
AssertDef(db, d, u, single) ==
  LET old == IF u \in DOMAIN db THEN db[u].attrs ELSE <<>>
      merged == [a \in DOMAIN old \cup DOMAIN d |->
                   IF a \notin DOMAIN d THEN old[a]
                   ELSE IF a \in single \/ a \notin DOMAIN old THEN d[a]
                   ELSE old[a] \o SelectSeq(d[a], LAMBDA v : v \notin Range(old[a]))]
  IN [x \in DOMAIN db \cup {u} |-> IF x = u THEN [live |-> "live", attrs |-> merged] ELSE db[x]]

\* The shortcut "skip the entry when it already satisfies the definition" is only sound with ALL defined values
\* present.  The variant that is content with ONE value per attribute (vacuity guard of KUpgradeMC: it must be refuted).
SatisfiedAny(db, d, u) == u \in DOMAIN db /\ \A a \in DOMAIN d : Range(d[a]) \cap ValsOf(db, u, a) # {}
AssertDefSkipAny(db, d, u, single) == IF SatisfiedAny(db, d, u) THEN db ELSE AssertDef(db, d, u, single)
=============================================================================
