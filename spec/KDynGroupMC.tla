----------------------------- MODULE KDynGroupMC -----------------------------
(* Exhaustive exploration of the dyngroup transcription (L2) against DynExact (L1).
   Population: candidates 1..3 (persons, description in {x1,x2}), dynamic groups 4,5 (they carry a
   description too, so a filter over the candidates' attributes can match them).  Filters: F[1]
   description=x1, F[2] description=x2, F[3] (description=x1 or description=x2) and not name=n1.
   Edits: create candidate, change description, delete, revive, create dyngroup, change filter, purge.
   CEX / BEH tuples as in KRefintMC. *)
EXTENDS KDynGroup
CONSTANTS MaxLen, Sample
I5 == 1..5
Cands == 1..3
Dyns == {4, 5}
VARIABLES s, h
Eq(a, v) == [t |-> "eq", a |-> a, v |-> v, s |-> <<>>]
F == << Eq("description", "x1"), Eq("description", "x2"),
        [t |-> "and", a |-> "", v |-> "", s |-> << [t |-> "or", a |-> "", v |-> "", s |-> <<Eq("description", "x1"), Eq("description", "x2")>>],
                                                     [t |-> "not", a |-> "", v |-> "", s |-> <<Eq("name", "n1")>>] >>] >>
Vals == <<"x1", "x2">>
Nm(x) == <<"n1", "n2", "n3", "n4", "n5">>[x]
AvOf(x, d) == [name |-> {Nm(x)}, description |-> {d}]
NoAv == [name |-> {}, description |-> {}]

Init == /\ s = [ids |-> I5, dyn |-> {4},
                lv |-> [x \in I5 |-> IF x \in {1, 2, 4} THEN "live" ELSE "absent"],
                av |-> [x \in I5 |-> IF x = 1 THEN AvOf(1, "x1") ELSE IF x = 2 THEN AvOf(2, "x2") ELSE IF x = 4 THEN AvOf(4, "x1") ELSE NoAv],
                filt |-> [x \in I5 |-> F[1]],
                dm |-> [x \in I5 |-> IF x = 4 THEN {1, 4} ELSE {}],
                rdmo |-> [x \in I5 |-> {}]]
        /\ h = <<>>
Step(k, a, b, t) == s' = t /\ h' = h \o <<k, a, b>>
Next == /\ DynExact(s) /\ Len(h) < 3 * MaxLen
        /\ \/ \E c \in Cands, v \in 1..2 : s.lv[c] = "absent" /\ Step(1, c, v, Create([s EXCEPT !.av[c] = AvOf(c, Vals[v])], {c}))
           \/ \E x \in I5, v \in 1..2 : s.lv[x] = "live" /\ s.av[x].description # {Vals[v]}
                   /\ Step(2, x, v, Modify(s, {x}, [s.av EXCEPT ![x] = AvOf(x, Vals[v])], s.filt))
           \/ \E x \in I5 : s.lv[x] = "live" /\ Step(3, x, 0, Delete(s, {x}))
           \/ \E x \in I5 : s.lv[x] = "recycled" /\ Step(4, x, 0, Revive(s, {x}))
           \/ \E f \in 1..3 : s.lv[5] = "absent" /\ Step(5, 5, f, Create([s EXCEPT !.av[5] = AvOf(5, "x1"), !.filt[5] = F[f], !.dyn = @ \cup {5}], {5}))
           \/ \E d \in Dyns, f \in 1..3 : s.lv[d] = "live" /\ s.filt[d] # F[f] /\ Step(6, d, f, Modify(s, {d}, s.av, [s.filt EXCEPT ![d] = F[f]]))
           \/ (\E x \in I5 : s.lv[x] = "recycled") /\ Step(7, 0, 0, Purge(s, {x \in I5 : s.lv[x] = "recycled"}))
Spec == Init /\ [][Next]_<<s, h>>

Pad(q) == q \o [i \in 1..(24 - Len(q)) |-> 0]
Tup(tag) == LET p == Pad(h) IN
  <<tag, Len(h) \div 3, p[1], p[2], p[3], p[4], p[5], p[6], p[7], p[8], p[9], p[10], p[11], p[12], p[13], p[14], p[15],
       p[16], p[17], p[18], p[19], p[20], p[21], p[22], p[23], p[24]>>
Fold == LET RECURSIVE G(_) G(i) == IF i = 0 THEN 0 ELSE (h[i] * (i + 7) + G(i - 1)) % 100003 IN G(Len(h))
Soft == /\ DynExact(s) \/ PrintT(Tup("CEX"))
        /\ (Len(h) = 3 * MaxLen /\ DynExact(s) /\ Fold % Sample = 0) => PrintT(Tup("BEH"))
View == IF DynExact(s) /\ Len(h) < 3 * MaxLen THEN <<s, <<>> >> ELSE <<s, h>>
=============================================================================
