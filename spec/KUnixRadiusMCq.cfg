CONSTANTS
  GroupKeys = {"1", "2", "3"}
  ReqIds = {"s1", "u1", "u2", "x1"}
  MaxLen = 3
  Rep = FALSE
  Dflt = 1
  Emit = TRUE
INIT Init
NEXT Next
INVARIANT Inv
POSTCONDITION Post
CHECK_DEADLOCK FALSE
