\* quick shard (the check derives the other shards by substituting LayoutIds / LeafSet / Depth / DbSet / Thres)
CONSTANTS
  LeafSet = "tiny"
  Depth = 2
  LayoutIds = {16}
  DbSet = "full16"
  Thres = 0
  Wraps = {TRUE, FALSE}
  SampleK = 60
  CaseCap = 40
INIT Init
NEXT Next
INVARIANT MCInv
POSTCONDITION Census
CHECK_DEADLOCK FALSE
