---------------------------- MODULE KTxnCidTrace ----------------------------
(* C07: validates an observed history of ONE real file-backed server (ndjson, one line per step)
   against L1 CidFresh, and reports lines the L2 transcription does not explain as drift.
   Line shapes (times are {"s": secs - T0, "n": nanos}):
     {"a":"reset",  "c":T, "srv":U}                  sync transaction committed with identifier c
     {"a":"begin",  "now":T, "c":T, "d":T, "srv":U}  write(now): identifier c, persisted ts_max d
     {"a":"commit", "c":T, "srv":U, "res":"ok"|"err"}identifier stamped on the probe entry afterwards
     {"a":"abort",  "c":T, "srv":U}                  probe entry afterwards (must be the old stamp)
     {"a":"restart","now":T, "kind":"init"|"bare"}   server dropped and reopened on the same file
   The whole file is one history: `reset` does NOT forget the committed maximum.            *)
EXTENDS KTxn, Json, IOUtils
Rec == ndJsonDeserialize(IOEnv.TRACE)

VARIABLES l,       \* next line
          mem,     \* model: content of cid_max (predicted, resynchronised from observations)
          disk,    \* model: persisted ts_max
          open,    \* identifier of the open transaction (observed)
          maxc,    \* L1: greatest identifier observed on a committed transaction
          srv      \* server uuid of the history
vars == <<l, mem, disk, open, maxc, srv>>

T(o) == Ts(o.s, o.n)
Zero == Ts(0, 0)

Init == l = 1 /\ mem = Zero /\ disk = Zero /\ open = Zero /\ maxc = Zero /\ srv = "none"

r == Rec[l]

\* ---------------------------------------------------------------- L1 per line
\* begin : the identifier given to the transaction is above every identifier committed before
\* commit: the identifier stamped on what the transaction wrote is above every identifier
\*         committed before (an equal timestamp under another server uuid is not comparable here:
\*         one server has one uuid, so that case is left to L2 drift)
L1Line == CASE r.a = "begin"  -> (r.srv # srv /\ srv # "none") \/ CidFresh(T(r.c), maxc)
            [] r.a = "commit" -> r.res # "ok" \/ (r.srv # srv /\ srv # "none") \/ CidFresh(T(r.c), maxc)
            [] OTHER -> TRUE
L1Sig  == CASE r.a = "begin"  -> "begin-not-above-committed"
            [] r.a = "commit" -> "stamp-not-above-committed"
            [] OTHER -> "none"

\* ---------------------------------------------------------------- L2 per line
L2Line == CASE r.a = "reset"   -> TRUE
            [] r.a = "begin"   -> /\ T(r.c) = BeginCid(T(r.now), mem)
                                  /\ T(r.d) = disk
                                  /\ (srv = "none" \/ r.srv = srv)
            [] r.a = "commit"  -> r.res = "ok" /\ T(r.c) = open /\ r.srv = srv
            [] r.a = "abort"   -> T(r.c) = maxc          \* the probe still carries the last committed stamp
            [] r.a = "restart" -> TRUE                   \* effect is checked at the next begin
            [] OTHER -> FALSE

\* ---------------------------------------------------------------- state update (observation first)
Step ==
  /\ l <= Len(Rec)
  /\ l' = l + 1
  /\ CASE r.a = "reset" ->
            /\ mem' = T(r.c) /\ disk' = T(r.c) /\ maxc' = TsMax(maxc, T(r.c))
            /\ open' = T(r.c) /\ srv' = r.srv
       [] r.a = "begin" ->
            /\ open' = T(r.c) /\ disk' = T(r.d)
            /\ UNCHANGED <<mem, maxc, srv>>
       [] r.a = "commit" ->
            IF r.res = "ok"
            THEN /\ mem' = T(r.c) /\ disk' = T(r.c) /\ maxc' = TsMax(maxc, T(r.c))
                 /\ UNCHANGED <<open, srv>>
            ELSE UNCHANGED <<mem, disk, open, maxc, srv>>
       [] r.a = "restart" ->
            IF r.kind = "init"
            THEN /\ mem' = BootInitCid(T(r.now), disk) /\ disk' = BootInitCid(T(r.now), disk)
                 /\ UNCHANGED <<open, maxc, srv>>
            ELSE /\ mem' = BootMem(T(r.now), disk)
                 /\ UNCHANGED <<disk, open, maxc, srv>>
       [] OTHER -> UNCHANGED <<mem, disk, open, maxc, srv>>
Next == Step
Spec == Init /\ [][Next]_vars

Judge == l <= Len(Rec) =>
           /\ (L1Line \/ PrintT(<<"L1FAIL", "C07", l, L1Sig>>))
           /\ (L2Line \/ PrintT(<<"L2DRIFT", "C07", l>>))
Consumed == TLCGet("stats").distinct = Len(Rec) + 1 \/ PrintT(<<"NOTCONSUMED", TLCGet("stats").distinct, Len(Rec)>>)
=============================================================================
