----------------------------- MODULE KAuthPrivMC -----------------------------
(* C33, exhaustive: every login type x privileged flag x way the token was obtained x policy values
   x (authentication time, use time) is one initial state; the transcription of the scope rules
   (L2Scope) must satisfy the property (L1Scope) with the privilege-window bound PrivMax, and the
   transcription of token re-issue must not extend the session expiry. *)
EXTENDS KAuthTokens
CONSTANTS T, LimExp, PrivMax
VARIABLES u, sessexp, privexp
vars == <<u, sessexp, privexp>>

Logins == {"anon", "o2trust", "cert", "ldap", "apiro", "apirw", "pw", "mfa", "passkey", "genpw"}
Issues == {"login", "reauth_rw", "reauth_ro"}

Init ==
  /\ sessexp \in 1..T /\ privexp \in 1..PrivMax
  /\ u \in [login : Logins, priv : BOOLEAN, issue : Issues, at : 0..T, t : 0..T]
  /\ u.at <= u.t
Next == UNCHANGED vars
Spec == Init /\ [][Next]_vars

\* the token is rejected outright once the session has expired (validate: exp < t)
Scope == IF u.login \notin {"apiro", "apirw", "cert", "ldap"} /\ u.issue = "login" /\ u.t > u.at + sessexp
         THEN "none" ELSE L2Scope(u, sessexp, privexp, LimExp)
Inv == L1Scope([u EXCEPT !.login = u.login] @@ [scope |-> Scope], PrivMax)

\* to_reissue_userauthtoken: the re-issued token keeps the session expiry, the session record is untouched
InvExp == \A oldexp \in 0..T : L1ReauthExpiry(oldexp, oldexp, oldexp, oldexp)
=============================================================================
