----------------------------- MODULE KAccessWMC -----------------------------
(* Exhaustive check (C24) of the transcribed write-access decisions (L2: modify_allow_operation_per_entry
   + apply_modify_access with the protected-entry and sync constraints, apply_delete_access,
   apply_create_access) against the write property (L1) over a bounded space: profile sets from a pool
   (receiver x target x present/removed attribute sets x class sets), entry kinds (plain, described,
   managed, group, system class, reserved uuid range, recycled, tombstone, synchronised with/without
   parent, dynamic group), identities of every scope/origin and a pool of modification lists. *)
EXTENDS KAccess
CONSTANTS MaxProfiles, SmallPool

F_eq(a, v) == [t |-> "eq", a |-> a, v |-> v]
F_pres(a) == [t |-> "pres", a |-> a]

Prof(rk, rg, tgt, pa, ra, pc, rc, cre, del) ==
  [rk |-> rk, rg |-> rg, tgt |-> tgt, srch |-> FALSE, sa |-> {}, mod |-> TRUE, pa |-> pa, ra |-> ra,
   pc |-> pc, rc |-> rc, cre |-> cre, ca |-> {"class", "name", "description"}, cc |-> {"object", "group", "system"}, del |-> del]
Receivers == {<<"group", {"g1"}>>, <<"mgr", {}>>}
Targets == {F_pres("class"), F_eq("class", "recycled")}
ASets == IF SmallPool THEN {{}, {"description", "class"}} ELSE {{}, {"description", "class"}, {"member"}}
\* class grants: none, or a set containing protected and unprotected classes
CSets == IF SmallPool THEN {<<{"group", "system", "recycled"}, {"group", "recycled", "sync_object"}>>}
         ELSE {<<{}, {}>>, <<{"group", "system", "recycled"}, {"group", "recycled", "sync_object"}>>}
Pool == {Prof(r[1], r[2], t, pa, ra, cs[1], cs[2], cd, cd) : r \in Receivers, t \in Targets, pa \in ASets, ra \in ASets,
                                                            cs \in CSets, cd \in BOOLEAN}

Ent(x, live, sys, attrs) == [id |-> x, live |-> live, sys |-> sys, o2g |-> {}, attrs |-> attrs]
A1(c) == [a \in {"class"} |-> c]
A2(c, k, v) == [a \in {"class", k} |-> IF a = "class" THEN c ELSE v]
A3(c, k1, v1, k2, v2) == [a \in {"class", k1, k2} |-> IF a = "class" THEN c ELSE IF a = k1 THEN v1 ELSE v2]
Entries == {
  Ent("plain", "live", FALSE, A1({"object"})),
  Ent("descr", "live", FALSE, A2({"object"}, "description", {"d1"})),
  Ent("managed", "live", FALSE, A3({"object"}, "description", {"d1"}, "entry_managed_by", {"u3"})),
  Ent("group", "live", FALSE, A2({"object", "group"}, "member", {"u9"})),
  Ent("sysgroup", "live", FALSE, A3({"object", "group", "system"}, "member", {"u9"}, "description", {"d1"})),
  Ent("sysplain", "live", FALSE, A2({"object", "system"}, "description", {"d1"})),
  Ent("builtin", "live", TRUE, A2({"object", "group"}, "description", {"d1"})),
  Ent("recycled", "recycled", FALSE, A2({"object", "recycled"}, "description", {"d1"})),
  Ent("tomb", "tombstone", FALSE, A1({"object", "tombstone"})),
  Ent("synced", "live", FALSE, A3({"object", "sync_object"}, "description", {"d1"}, "sync_parent_uuid", {"s1"})),
  Ent("orphan", "live", FALSE, A2({"object", "sync_object"}, "description", {"d1"})),
  Ent("dyn", "live", FALSE, A2({"object", "group", "dyngroup"}, "description", {"d1"}))}

Id(u, mo, scope, origin) == [u |-> u, mo |-> mo, scope |-> scope, origin |-> origin, anon |-> FALSE, cls |-> {"account"}, spu |-> {}]
Ids == {Id("u1", {"g1"}, "rw", "user"), Id("u3", {}, "rw", "user"), Id("u1", {"g1"}, "ro", "user"),
        Id("u1", {"g1"}, "sync", "user"), Id("s1", {}, "rw", "sync")}
It(k, a, v) == [k |-> k, a |-> a, v |-> v]
Mls == {<<It("pres", "description", {"d3"})>>, <<It("rem", "description", {"d1"})>>, <<It("purge", "description", {})>>,
        <<It("purge", "class", {})>>, <<It("pres", "class", {"group"})>>, <<It("rem", "class", {"group"})>>,
        <<It("pres", "class", {"system"})>>, <<It("pres", "class", {"recycled"})>>, <<It("rem", "class", {"recycled"})>>,
        <<It("rem", "class", {"sync_object"})>>, <<It("pres", "member", {"u8"})>>, <<It("purge", "member", {})>>,
        <<It("pres", "class", {"group"}), It("pres", "description", {"d3"})>>, <<>>,
        <<It("set", "description", {"d3"})>>, <<It("set", "member", {"u8"})>>,
        <<It("set", "class", {"object", "group"})>>, <<It("set", "class", {"object", "system"})>>}
Yields == {[x \in {} |-> {}], [x \in {"s1"} |-> {"description"}]}
Ops == {"modify", "revive", "delete", "create"}

ProfileSets == {{}} \cup {{p} : p \in Pool} \cup (IF MaxProfiles >= 2 THEN {{p, q} : p \in Pool, q \in Pool} ELSE {})
VARIABLES S, e, id, ml, Y, op
vars == <<S, e, id, ml, Y, op>>
NoY == [x \in {} |-> {}]
ReviveMl == <<It("rem", "class", {"recycled"})>>
Init == /\ S \in ProfileSets
        /\ id \in Ids /\ op \in Ops
        /\ e \in (CASE op = "revive" -> {x \in Entries : x.live = "recycled"}
                    [] op = "modify" -> {x \in Entries : ~Hidden(x)}
                    [] OTHER -> Entries)
        /\ ml \in (CASE op = "modify" -> Mls [] op = "revive" -> {ReviveMl} [] OTHER -> {<<>>})
        /\ Y \in (IF op = "modify" /\ "sync_object" \in Classes(e) THEN Yields ELSE {NoY})
Next == UNCHANGED vars
Spec == Init /\ [][Next]_vars

PostE == [e EXCEPT !.attrs = ApplyMl(ml, e.attrs), !.live = IF op = "revive" THEN "live" ELSE e.live]
One(x) == [y \in {e.id} |-> x]

Inv ==
  CASE op \in {"modify", "revive"} ->
         L2ModifyAllowed(S, Y, id, ml, e) => L1Modify(S, id, op, ml, {e.id}, One(e), One(PostE))
    [] op = "delete" ->
         L2DeleteAllowed(S, id, e) => L1Delete(S, id, One(e), One([e EXCEPT !.live = "recycled", !.attrs = [e.attrs EXCEPT !["class"] = @ \cup {"recycled"}]]))
    [] op = "create" ->
         L2CreateAllowed(S, id, e) => L1Create(S, id, e, [y \in {} |-> e], One(e))
    [] OTHER -> TRUE

\* user edits of a synchronised entry stay inside yielded attributes + session / reset state (C50, user side)
InvSync == (op = "modify" /\ "sync_object" \in Classes(e) /\ id.origin = "user" /\ L2ModifyAllowed(S, Y, id, ml, e)) =>
             NamedAttrs(ml) \subseteq SyncBase \cup UNION {IF y \in DOMAIN Y THEN Y[y] ELSE {} : y \in AttrVals(e, "sync_parent_uuid")}

ASSUME \A i \in 1..10 : TLCSet(i, 0)
Arm(i, name, cond) == (TLCGet(i) = 0 /\ cond) => (TLCSet(i, 1) /\ PrintT(<<"ARM", name>>))
Arms ==
  /\ Arm(1, "modify-allowed", op = "modify" /\ L2ModifyAllowed(S, Y, id, ml, e))
  /\ Arm(2, "revive-allowed", op = "revive" /\ L2ModifyAllowed(S, Y, id, ml, e))
  /\ Arm(3, "delete-allowed", op = "delete" /\ L2DeleteAllowed(S, id, e))
  /\ Arm(4, "create-allowed", op = "create" /\ L2CreateAllowed(S, id, e))
  /\ Arm(5, "protected-entry-constrained-allowed", op = "modify" /\ (e.sys \/ "system" \in Classes(e)) /\ L2ModifyAllowed(S, Y, id, ml, e))
  /\ Arm(6, "sync-entry-yielded-allowed", op = "modify" /\ "sync_object" \in Classes(e) /\ L2ModifyAllowed(S, Y, id, ml, e))
  /\ Arm(7, "class-added", op = "modify" /\ L2ModifyAllowed(S, Y, id, ml, e) /\ AddedVals(e, PostE, "class") # {})
  /\ Arm(8, "entry-manager-allowed", id.u = "u3" /\ op = "modify" /\ L2ModifyAllowed(S, Y, id, ml, e))
  /\ Arm(9, "set-allowed", op = "modify" /\ SetItems(ml) # {} /\ L2ModifyAllowed(S, Y, id, ml, e))
  /\ Arm(10, "set-refused-for-missing-removed-grant", op = "modify" /\ ml = <<It("set", "description", {"d3"})>> /\ CanWrite(id)
             /\ ~L2ModifyAllowed(S, Y, id, ml, e) /\ "description" \in ModGrant(S, id, e).pres /\ "description" \notin ModGrant(S, id, e).rem
             /\ ~e.sys /\ Classes(e) \cap ProtectedPres = {})
=============================================================================
