CONSTANTS
  Grace = 2
  MaxAge = 100
  T = 4
  SessLen = 3
  ApiLen = 2
  MaxSess = 1
  MaxApi = 0
  MaxKeys = 1
  MaxCreds = 2
  MaxGrants = 1
  VFs <- OnlyNone
  EXs <- OnlyNone
  SimDepth = 0
INIT Init
NEXT Next
VIEW View
INVARIANT InvC32
INVARIANT InvO2
PROPERTY PropC36
CHECK_DEADLOCK FALSE
