----------------------------- MODULE KAuthSession -----------------------------
(***************************************************************************)
(* Authentication session machine (property C27).                          *)
(*                                                                         *)
(* L0  account: credential configuration cfg in Cfgs and validity window w *)
(*       "in" | "before" | "after" | "expiring" (valid until the clock is  *)
(*       advanced) | "starting" (valid only after the advance);            *)
(*     step: [a : "init"|"begin"|"cred", x : mechanism / credential kind]; *)
(*     answer: res in "choose","continue","denied","success","err",        *)
(*       mechs offered (for choose), tok (a token was returned).           *)
(*     The driver logs exactly this per step.                              *)
(* L1  the property over the history of ONE auth session (since the last   *)
(*     Init): H = [has, ended, acc, off] -- session exists, a step was     *)
(*     denied or succeeded, sequence of accepted (non-error) steps,        *)
(*     mechanisms the Init answer offered.  A step is DENIED when the      *)
(*     server answers Denied, and also when a mechanism choice (Begin in   *)
(*     the choosing phase) names a mechanism that was not offered: that    *)
(*     choice can only be refused, whatever the transport answer is (the   *)
(*     server answers it with an error).  Requests that are merely out of  *)
(*     phase (Cred before Begin, Begin while in progress) are errors       *)
(*     without effect, not denials.                                        *)
(* L2  transcription of AuthSession::new / start_session / validate_creds, *)
(*     CredHandler::validate_* (authsession/mod.rs) and of the soft-lock   *)
(*     consultation in IdmServerAuthTransaction::auth (server.rs).         *)
(***************************************************************************)
EXTENDS Integers, Sequences, FiniteSets

Cfgs  == {"none", "pw", "pwtotp", "pwtotpbackup", "anon"}
Mechs == {"anonymous", "password", "passwordtotp", "passwordbackupcode", "passwordsecuritykey", "passkey", "oauth2trust"}
Creds == {"pw_ok", "pw_bad", "totp_cur", "totp_prev", "totp_stale", "backup_ok", "backup_bad", "anon"}

Valid(w, advanced) == w = "in" \/ (w = "expiring" /\ ~advanced) \/ (w = "starting" /\ advanced)
SecondFactor(cfg) == cfg \in {"pwtotp", "pwtotpbackup"}

\* what must be presented, in order, after choosing mechanism m
Factors(m) == CASE m = "password"           -> << {"pw_ok"} >>
                [] m = "passwordtotp"       -> << {"totp_cur", "totp_prev"}, {"pw_ok"} >>
                [] m = "passwordbackupcode" -> << {"backup_ok"}, {"pw_ok"} >>
                [] m = "anonymous"          -> << {"anon"} >>
                [] OTHER                    -> << {} >>
\* mechanisms an account of this configuration can legitimately complete
MechsOf(cfg) == CASE cfg = "pw"           -> {"password"}
                  [] cfg = "pwtotp"       -> {"passwordtotp"}
                  [] cfg = "pwtotpbackup" -> {"passwordtotp", "passwordbackupcode"}
                  [] cfg = "anon"         -> {"anonymous"}
                  [] OTHER                -> {}

\* ----------------------------- L1 ---------------------------------------
H0 == [has |-> FALSE, ended |-> FALSE, acc |-> <<>>, off |-> {}]
\* a mechanism choice that cannot be granted: Begin, in the choosing phase, of a mechanism not offered
RefusedChoice(H, step) == step.a = "begin" /\ H.has /\ ~H.ended /\ H.acc = <<>> /\ step.x \notin H.off
Complete(cfg, acc) ==
  /\ Len(acc) >= 2
  /\ acc[1].a = "begin" /\ acc[1].x \in MechsOf(cfg)
  /\ LET F == Factors(acc[1].x) IN
       /\ Len(acc) = Len(F) + 1
       /\ \A i \in 1..Len(F) : acc[i + 1].a = "cred" /\ acc[i + 1].x \in F[i]

L1Step(cfg, w, advanced, H, step, res, mechs, tok) ==
  /\ tok = 1 => res = "success"                                           \* a token only with success
  /\ res = "success" =>
        /\ Valid(w, advanced)                                             \* never outside the window
        /\ H.has /\ ~H.ended /\ step.a = "cred"
        /\ Complete(cfg, Append(H.acc, step))                            \* every factor, in order, this session
  /\ (step.a = "init" /\ res = "choose" /\ SecondFactor(cfg)) => "password" \notin mechs
  /\ (step.a = "begin" /\ step.x = "password" /\ SecondFactor(cfg)) => res # "continue"
  /\ RefusedChoice(H, step) => res \in {"err", "denied"}                   \* only offered mechanisms begin
  /\ (step.a # "init" /\ H.ended) => res \in {"err", "denied"}            \* denial / success is final
  /\ (step.a # "init" /\ ~H.has) => res \in {"err", "denied"}             \* nothing without a session

HNext(H, step, res, mechs) ==
  IF step.a = "init" THEN [has |-> res = "choose", ended |-> FALSE, acc |-> <<>>, off |-> IF res = "choose" THEN mechs ELSE {}]
  ELSE IF res = "continue" THEN [H EXCEPT !.acc = Append(@, step)]
  ELSE IF res \in {"denied", "success"} THEN [H EXCEPT !.ended = TRUE]
  ELSE IF RefusedChoice(H, step) THEN [H EXCEPT !.ended = TRUE]          \* a refused choice is a denied step
  ELSE H

\* ----------------------------- L2 ---------------------------------------
\* S = [sess, h, mfa, locked]: session phase, chosen handler, second factor verified, soft lock active
S0 == [sess |-> "none", h |-> "", mfa |-> 0, locked |-> FALSE]
Handlers(cfg) == MechsOf(cfg)
Lockable(h) == h \in {"password", "passwordtotp", "passwordbackupcode"}
First(h) == CASE h = "password" -> "password" [] h = "passwordtotp" -> "totp"
              [] h = "passwordbackupcode" -> "backupcode" [] OTHER -> "anonymous"

Out(res, mechs, tok, S) == [res |-> res, mechs |-> mechs, tok |-> tok, S |-> S]

L2Init(cfg, w, advanced, S) ==
  IF ~Valid(w, advanced) \/ Handlers(cfg) = {}
  THEN Out("denied", {}, 0, [S EXCEPT !.sess = "none", !.h = "", !.mfa = 0])
  ELSE Out("choose", Handlers(cfg), 0, [S EXCEPT !.sess = "init", !.h = "", !.mfa = 0])

L2Begin(cfg, S, m) ==
  CASE S.sess = "none" -> Out("err", {}, 0, S)
    [] S.sess = "init" ->
         IF m \in Handlers(cfg)
         THEN IF Lockable(m) /\ S.locked
              THEN Out("denied", {}, 0, [S EXCEPT !.sess = "denied"])
              ELSE Out("continue", {First(m)}, 0, [S EXCEPT !.sess = "prog", !.h = m, !.mfa = 0])
         ELSE Out("err", {}, 0, [S EXCEPT !.sess = "denied"])       \* denied inside, error outside
    [] S.sess = "prog" ->
         IF Lockable(S.h) /\ S.locked
         THEN Out("denied", {}, 0, [S EXCEPT !.sess = "denied"])
         ELSE Out("err", {}, 0, S)                                   \* refused, session unchanged
    [] OTHER -> Out("err", {}, 0, S)

Deny(S) == Out("denied", {}, 0, [S EXCEPT !.sess = "denied", !.locked = (S.locked \/ Lockable(S.h))])
\* validate_creds re-checks the validity window at every credential step (commit 3b51d07); the
\* server counts that denial on the soft lock like any other.
L2Cred(w, advanced, S, c) ==
  IF S.sess # "prog" THEN Out("err", {}, 0, S)
  ELSE IF Lockable(S.h) /\ S.locked THEN Out("denied", {}, 0, [S EXCEPT !.sess = "denied"])
  ELSE IF ~Valid(w, advanced) THEN Deny(S)
  ELSE CASE S.h = "anonymous" -> IF c = "anon" THEN Out("success", {}, 1, [S EXCEPT !.sess = "success"]) ELSE Deny(S)
         [] S.h = "password"  -> IF c = "pw_ok" THEN Out("success", {}, 1, [S EXCEPT !.sess = "success"]) ELSE Deny(S)
         [] S.h = "passwordtotp" ->
              IF S.mfa = 0
              THEN IF c \in {"totp_cur", "totp_prev"} THEN Out("continue", {"password"}, 0, [S EXCEPT !.mfa = 1]) ELSE Deny(S)
              ELSE IF c = "pw_ok" THEN Out("success", {}, 1, [S EXCEPT !.sess = "success"]) ELSE Deny(S)
         [] S.h = "passwordbackupcode" ->
              IF S.mfa = 0
              THEN IF c = "backup_ok" THEN Out("continue", {"password"}, 0, [S EXCEPT !.mfa = 1]) ELSE Deny(S)
              ELSE IF c = "pw_ok" THEN Out("success", {}, 1, [S EXCEPT !.sess = "success"]) ELSE Deny(S)
         [] OTHER -> Out("err", {}, 0, S)

L2Step(cfg, w, advanced, S, step) ==
  CASE step.a = "init"  -> L2Init(cfg, w, advanced, S)
    [] step.a = "begin" -> L2Begin(cfg, S, step.x)
    [] OTHER            -> L2Cred(w, advanced, S, step.x)
\* the clock jump between two steps releases the soft lock (the jump exceeds every delay / window)
L2Advance(S) == [S EXCEPT !.locked = FALSE]
=============================================================================
