-------------------------- MODULE KAuthSoftLockPaths --------------------------
(***************************************************************************)
(* C28, the soft lock as a PER-CREDENTIAL object shared by every entry     *)
(* path: the web auth session ("auth"), the POSIX password check ("unix")  *)
(* and the LDAP password bind ("ldap").  With primary-credential fallback  *)
(* (account policy allow_primary_cred_fallback, no POSIX password) the     *)
(* unix / ldap paths check the PRIMARY credential, so all three paths      *)
(* share one lock; without fallback only "auth" reaches that credential.   *)
(*                                                                         *)
(* L0  credential kind "pw" | "pwtotp", fb (fallback on), the lock object  *)
(*     [made, lp (policy it was created with), st], events (path, wrong).  *)
(* L1  judged with the policy DERIVED FROM THE CREDENTIAL KIND             *)
(*     (PolicyOfCred): whichever path a guess arrives on, and whichever    *)
(*     path touched the credential first, failed guesses are limited by    *)
(*     that policy (KAuthSoftLock.L1Attempt + the per-window bound).       *)
(* L2  the lock is created by the first path that touches the credential   *)
(*     and its policy is frozen then (server.rs auth Init, reauth_init,    *)
(*     auth_with_unix_pass); every path takes it from the credential       *)
(*     (CreatePolicy = "cred").  CreatePolicy = "password" is the seeded   *)
(*     variant (unix/ldap create it as a password lock): used as a vacuity *)
(*     guard -- the invariant must FAIL for it.                            *)
(* Every behaviour (first-touch path x kind x fallback x every order of    *)
(* paths and right/wrong guesses, each guess at the earliest moment the    *)
(* model allows) is printed as a CASE and replayed on the real IdmServer.  *)
(***************************************************************************)
EXTENDS KAuthSoftLock, Json, TLC
CONSTANTS D, Day, Step, CreatePolicy
PwTh == <<3, 9, 25, 100>>
PwDl == <<1, 3, 5, 10>>
TotpTh == <<3>>
TotpDl == <<1>>
Pol(name) == IF name = "password" THEN [w |-> Day, th |-> PwTh, dl |-> PwDl] ELSE [w |-> Step, th |-> TotpTh, dl |-> TotpDl]
\* Credential::softlock_policy
PolNameOfCred(kind) == IF kind = "pwtotp" THEN "totp" ELSE "password"
PolicyOfCred(kind) == Pol(PolNameOfCred(kind))
Base == 1700000000

VARIABLES kind, fb, made, lp, st, now, hist, wc, ok
vars == <<kind, fb, made, lp, st, now, hist, wc, ok>>
Init == /\ kind \in {"pw", "pwtotp"} /\ fb \in BOOLEAN
        /\ made = FALSE /\ lp = "" /\ st = Init0 /\ now = Base /\ hist = <<>>
        /\ wc = [w |-> 0, c |-> 0] /\ ok = TRUE
FirstPaths == IF fb THEN {"auth", "unix", "ldap"} ELSE {"auth"}
TailPaths  == IF fb THEN {"auth", "unix"} ELSE {"auth"}
Do(path, wrong) ==
  LET ct  == IF st.k = "locked" THEN EffU(st) + 1 ELSE now + 1        \* earliest moment the model admits a guess
      lp2 == IF made THEN lp
             ELSE IF path = "auth" \/ CreatePolicy = "cred" THEN PolNameOfCred(kind) ELSE "password"
      a   == L2Attempt(Pol(lp2), st, ct, None, wrong)
      P   == PolicyOfCred(kind)
      wc2 == IF a[1] = "fail" THEN (IF wc.w = WindowEnd(P, ct) THEN [wc EXCEPT !.c = @ + 1] ELSE [w |-> WindowEnd(P, ct), c |-> 1]) ELSE wc
  IN  /\ made' = TRUE /\ lp' = lp2 /\ st' = a[2] /\ now' = ct /\ wc' = wc2
      /\ hist' = Append(hist, [path |-> path, wrong |-> wrong, ct |-> ct])
      /\ ok' = (L1Attempt(P, st, ct, None, a[1], wrong, a[2]) /\ wc2.c <= MaxFail(P))
      /\ UNCHANGED <<kind, fb>>
Next == /\ Len(hist) < D
        /\ \E path \in (IF hist = <<>> THEN FirstPaths ELSE TailPaths), wrong \in {0, 1} : Do(path, wrong)
Spec == Init /\ [][Next]_vars
Inv  == ok
Emit == Len(hist) = D => PrintT(<<"CASE", ToJson([kind |-> kind, fb |-> IF fb THEN 1 ELSE 0, evs |-> hist])>>)
=============================================================================
