CONSTANTS
  Grace = 2
  MaxAge = 100
  T = 9
  LimExp = 4
  PrivMax = 4
INIT Init
NEXT Next
INVARIANT Inv
INVARIANT InvExp
CHECK_DEADLOCK FALSE
