CONSTANTS
  MaxEnv = 3
  FirstInit = FALSE
  Emit = TRUE
INIT Init
NEXT Next
INVARIANT ProbeSafe
INVARIANT EmitInv
CHECK_DEADLOCK FALSE
