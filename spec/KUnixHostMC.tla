---------------------------- MODULE KUnixHostMC ----------------------------
(* C45, exhaustive: every allowed-login list over Ids x every token over GroupKeys x validity, for the
   provider-level and the resolver-level entry point. Each case is one initial state; the transcription
   (L2) is checked against the property (L1) and against the exact reading (two-sided) of the statement.
   With Emit = TRUE every case is printed as a CASE tuple: the orchestrator feeds them to the driver
   (direction A, spec -> impl). *)
EXTENDS KUnix, Json
CONSTANTS GroupKeys, Ids, Emit
VARIABLE c

Groups == {HostGroup(k) : k \in GroupKeys}
Cases ==
  {x \in [via : {"provider", "resolver"}, present : BOOLEAN, allow : SUBSET Ids,
          groups : SUBSET Groups, valid : BOOLEAN] :
     /\ (x.via = "provider" => x.present)
     /\ (~x.present => (x.groups = {} /\ ~x.valid))}

Init == c \in Cases
Next == UNCHANGED c
Spec == Init /\ [][Next]_c

Res(x) == HostL2(x.via, x.present, x.allow, x.groups, x.valid)
\* the two-sided reading restricted to name / uuid (what the shipped code implements)
Exact(x) == (Res(x) = "allow") <=>
              (x.present /\ x.allow # {} /\ x.valid /\ \E g \in x.groups : g.n \in x.allow \/ g.u \in x.allow)
Inv ==
  /\ HostL1(c.present, c.allow, c.groups, c.valid, Res(c))
  /\ Exact(c)
  /\ (Emit => PrintT(<<"CASE", ToJson(c)>>))

\* vacuity guard + size of the space (compared with the number of replayed cases)
Count(r) == Cardinality({x \in Cases : Res(x) = r})
Post == /\ TLCGet("stats").distinct = Cardinality(Cases)
        /\ Count("allow") > 0 /\ Count("deny") > 0 /\ Count("unknown") > 0
        /\ PrintT(<<"SPACE", Cardinality(Cases), Count("allow"), Count("deny"), Count("unknown")>>)
=============================================================================
