------------------------------- MODULE KActors -------------------------------
(***************************************************************************)
(* Supervisor tree, broadcast / mailbox channels and shutdown protocol of  *)
(* /repo/libs/actors/src/lib.rs (property C47).                            *)
(*                                                                         *)
(* Functional style: the whole system state is ONE record S; every step is *)
(* a pair  <guard>(S, ..) / <effect>(S, ..)  so that the exhaustive model  *)
(* (KActorsMC) and the trace validator (KActorsTrace) share the same       *)
(* transcription.                                                          *)
(*                                                                         *)
(* L0  S = [sup, act, chan, rt, need]                                      *)
(*   sup[s]  = [st, hnd, mbox, par]   supervisor TASK state st:            *)
(*        none | select | bcast | wait | done | gone                       *)
(*        (select: the select! loop of SupervisorTask::run; bcast: about   *)
(*         to ctrl_tx.send(()); wait: in ctrl_tx.closed().await; done:     *)
(*         run() returned; gone: task struct dropped = parent receiver,    *)
(*         mailbox receiver and sender clone released)                     *)
(*      and supervisor HANDLE state hnd:                                   *)
(*        none | held | stopwait | stopjoin | returned | dropped           *)
(*   act[a]  = [pc, par, cleaned]   SupervisedActor::run program counter:  *)
(*        none | setup | loop | run | cleanup | drop | done                *)
(*   chan[c] = [rx, pend]  broadcast channel owned by supervisor c (or by  *)
(*        Runtime::exec for c = RT): live receivers, receivers holding an  *)
(*        unread () message                                                *)
(*   rt      = [pc, sig]   Runtime::exec: none | setup | loop | send |     *)
(*        join | returned ; signal none | sent | taken                     *)
(*   need[c] = nodes registered under c when stop(c) was issued (RT: when  *)
(*        the terminate signal was issued)  -- L1 bookkeeping only         *)
(***************************************************************************)
EXTENDS Naturals, FiniteSets, Sequences, TLC
CONSTANTS Sups, Acts, Root
RT == "rt"
Chans == Sups \cup {RT}
Nodes == Sups \cup Acts

NoSup == [st |-> "none", hnd |-> "none", mbox |-> 0, par |-> "-"]
NoAct == [pc |-> "none", par |-> "-", cleaned |-> FALSE]
S0 == [sup  |-> [s \in Sups |-> NoSup],
       act  |-> [a \in Acts |-> NoAct],
       chan |-> [c \in Chans |-> [rx |-> {}, pend |-> {}]],
       rt   |-> [pc |-> "none", sig |-> "none"],
       need |-> [c \in Chans |-> {}]]

\* ------------------------------------------------------------------ helpers
Children(S, p) == {c \in Sups : S.sup[c].st # "none" /\ S.sup[c].par = p}
                  \cup {a \in Acts : S.act[a].pc # "none" /\ S.act[a].par = p}
RECURSIVE Subtree(_, _)
Subtree(S, p) == LET ch == Children(S, p) IN ch \cup UNION {Subtree(S, c) : c \in ch \cap Sups}

SendersAlive(S, c) ==
  IF c = RT THEN S.rt.pc \notin {"none", "returned"}
  ELSE S.sup[c].hnd \in {"held", "stopwait", "stopjoin"} \/ S.sup[c].st \notin {"none", "gone"}
\* broadcast::Receiver::recv completes: a message (or Lagged) is there, or every sender is gone (Closed)
RecvReady(S, r, c) == r \in S.chan[c].pend \/ ~SendersAlive(S, c)
Unsub(S, r, c) == [S EXCEPT !.chan[c] = [rx |-> @.rx \ {r}, pend |-> @.pend \ {r}]]

\* =========================================================================
\* L2: transcription of libs/actors/src/lib.rs
\* =========================================================================
\* ---- SupervisorTask::run ------------------------------------------------
SupRecvParentG(S, s) == S.sup[s].st = "select" /\ RecvReady(S, s, S.sup[s].par)
SupRecvParentE(S, s) == [S EXCEPT !.sup[s].st = "bcast", !.chan[S.sup[s].par].pend = @ \ {s}]
SupRecvStopG(S, s)   == S.sup[s].st = "select" /\ S.sup[s].mbox > 0
SupRecvStopE(S, s)   == [S EXCEPT !.sup[s].st = "bcast", !.sup[s].mbox = @ - 1]
\* let _ = self.ctrl_tx.send(());   every receiver subscribed NOW gets the message
SupBroadcastG(S, s)  == S.sup[s].st = "bcast"
SupBroadcastE(S, s)  == [S EXCEPT !.sup[s].st = "wait", !.chan[s].pend = S.chan[s].rx]
\* self.ctrl_tx.closed().await      completes when the receiver count is zero
SupClosedG(S, s)     == S.sup[s].st = "wait" /\ S.chan[s].rx = {}
SupClosedE(S, s)     == [S EXCEPT !.sup[s].st = "done"]
\* the spawned block ends: SupervisorTask dropped (parent_ctrl_rx, mbox_rx, ctrl_tx)
SupExitG(S, s)       == S.sup[s].st = "done"
SupExitE(S, s)       == Unsub([S EXCEPT !.sup[s].st = "gone"], s, S.sup[s].par)

\* ---- SupervisedActor::run -------------------------------------------------
ActSetupDoneG(S, a)  == S.act[a].pc = "setup"
ActSetupDoneE(S, a)  == [S EXCEPT !.act[a].pc = "loop"]
\* select!: parent_ctrl_rx.recv() branch (any status breaks)
ActRecvG(S, a)       == S.act[a].pc = "loop" /\ RecvReady(S, a, S.act[a].par)
ActRecvE(S, a)       == [S EXCEPT !.act[a].pc = "cleanup", !.chan[S.act[a].par].pend = @ \ {a}]
\* select!: a.state() branch; what the user's actor answers is environment
ActReadyG(S, a)      == S.act[a].pc = "loop"
ActReadyE(S, a)      == [S EXCEPT !.act[a].pc = "run"]
ActStopG(S, a)       == S.act[a].pc = "loop"
ActStopE(S, a)       == [S EXCEPT !.act[a].pc = "cleanup"]
ActRunDoneG(S, a)    == S.act[a].pc = "run"
ActRunDoneE(S, a)    == [S EXCEPT !.act[a].pc = "loop"]
ActCleanupDoneG(S, a) == S.act[a].pc = "cleanup"
ActCleanupDoneE(S, a) == [S EXCEPT !.act[a].pc = "drop", !.act[a].cleaned = TRUE]
\* the spawned block ends: SupervisedActor dropped (its receiver first)
ActExitG(S, a)       == S.act[a].pc = "drop"
ActExitE(S, a)       == Unsub([S EXCEPT !.act[a].pc = "done"], a, S.act[a].par)

\* ---- Supervisor (the handle) ----------------------------------------------
\* the primary supervisor's handle is only reachable inside RuntimeSetup::setup
Usable(S, p) == S.sup[p].hnd = "held" /\ (p = Root => S.rt.pc = "setup")
SpawnG(S, a, p) == S.act[a].pc = "none" /\ Usable(S, p)
SpawnE(S, a, p) == [S EXCEPT !.act[a] = [pc |-> "setup", par |-> p, cleaned |-> FALSE], !.chan[p].rx = @ \cup {a}]
SubG(S, c, p)   == S.sup[c].st = "none" /\ c # Root /\ Usable(S, p)
SubE(S, c, p)   == [S EXCEPT !.sup[c] = [st |-> "select", hnd |-> "held", mbox |-> 0, par |-> p], !.chan[p].rx = @ \cup {c}]
\* stop(self): mbox_tx.send(Stop) (an error if the task is gone is only logged) ...
StopG(S, s)     == S.sup[s].hnd = "held" /\ s # Root
StopE(S, s)     == [S EXCEPT !.sup[s].hnd = "stopwait",
                             !.sup[s].mbox = IF S.sup[s].st = "gone" THEN @ ELSE @ + 1,
                             !.need[s] = Subtree(S, s)]
\* ... then mbox_tx.closed().await: completes when the task's mailbox receiver is dropped (or closed); since fix
\* f3903f9 stop() then tells whatever is (still / newly) subscribed to this supervisor's control channel to stop ...
StopTellG(S, s) == S.sup[s].hnd = "stopwait" /\ S.sup[s].st = "gone"
StopTellE(S, s) == [S EXCEPT !.sup[s].hnd = "stopjoin", !.chan[s].pend = S.chan[s].rx]
\* ... and waits for that channel to close (ctrl_tx.closed().await) before it returns
StopRetG(S, s)  == S.sup[s].hnd = "stopjoin" /\ S.chan[s].rx = {}
StopRetE(S, s)  == [S EXCEPT !.sup[s].hnd = "returned"]
DropG(S, s)     == S.sup[s].hnd = "held" /\ s # Root
DropE(S, s)     == [S EXCEPT !.sup[s].hnd = "dropped"]

\* ---- Runtime::exec ----------------------------------------------------------
ExecStartG(S)   == S.rt.pc = "none"
ExecStartE(S)   == [S EXCEPT !.rt.pc = "setup",
                             !.sup[Root] = [st |-> "select", hnd |-> "held", mbox |-> 0, par |-> RT],
                             !.chan[RT].rx = {Root}]
SetupDoneG(S)   == S.rt.pc = "setup"
SetupDoneE(S)   == [S EXCEPT !.rt.pc = "loop"]
SignalG(S)      == S.rt.sig = "none"
SignalE(S)      == [S EXCEPT !.rt.sig = "sent", !.need[RT] = Subtree(S, RT)]
TakeSignalG(S)  == S.rt.pc = "loop" /\ S.rt.sig = "sent"
TakeSignalE(S)  == [S EXCEPT !.rt.pc = "send", !.rt.sig = "taken"]
PrimaryGoneG(S) == S.rt.pc = "loop" /\ S.sup[Root].st = "gone"
PrimaryGoneE(S) == [S EXCEPT !.rt.pc = "send"]
ExecSendG(S)    == S.rt.pc = "send"
ExecSendE(S)    == [S EXCEPT !.rt.pc = "join", !.chan[RT].pend = S.chan[RT].rx]
ExecJoinG(S)    == S.rt.pc = "join" /\ S.sup[Root].st = "gone"
ExecJoinE(S)    == [S EXCEPT !.rt.pc = "returned", !.sup[Root].hnd = "dropped"]

\* =========================================================================
\* L1: the property
\*   "Stopping a supervisor, or terminating the runtime, stops every actor and subordinate supervisor
\*    registered under it before the stop completes, after each actor's cleanup has run."
\* A node counts as registered under c if it was registered (directly or through subordinates) when the stop
\* of c was issued. Stopped: an actor has finished cleanup and runs no further step; a supervisor's run()
\* has returned.
\* =========================================================================
StoppedNode(S, x) == IF x \in Acts THEN S.act[x].cleaned /\ S.act[x].pc \in {"drop", "done"}
                     ELSE S.sup[x].st \in {"done", "gone"}
StopSafe(S) == \A s \in Sups : S.sup[s].hnd = "returned" => \A x \in S.need[s] : StoppedNode(S, x)
ExecSafe(S) == S.rt.pc = "returned" => \A x \in S.need[RT] : StoppedNode(S, x)
=============================================================================
