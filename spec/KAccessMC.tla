------------------------------ MODULE KAccessMC ------------------------------
(* Exhaustive check (C23) of the transcribed search path (L2: search_related_acp, apply_search_access,
   filter_entries, attribute reduction) against the disclosure property (L1) over a bounded space:
   every set of at most MaxProfiles profiles from a pool (receiver x target x attribute set), every
   world from a family of small populations, every identity, request filter, requested attribute set
   and request kind is one initial state. *)
EXTENDS KAccess
CONSTANTS MaxProfiles, Worlds, Big, Quick, Shard

F_eq(a, v) == [t |-> "eq", a |-> a, v |-> v]
F_pres(a) == [t |-> "pres", a |-> a]
F_self == [t |-> "self"]
F_and(s) == [t |-> "and", s |-> s]
F_or(s) == [t |-> "or", s |-> s]
F_not(f) == [t |-> "andnot", f |-> f]
F_none == [t |-> "none"]

Prof(rk, rg, tgt, sa) ==
  [rk |-> rk, rg |-> rg, tgt |-> tgt, srch |-> TRUE, sa |-> sa, mod |-> FALSE, pa |-> {}, ra |-> {},
   pc |-> {}, rc |-> {}, cre |-> FALSE, ca |-> {}, cc |-> {}, del |-> FALSE]

Receivers == {<<"group", {"g1"}>>, <<"group", {"g2"}>>, <<"mgr", {}>>} \cup (IF Big THEN {<<"none", {}>>} ELSE {})
Targets == {F_pres("class"), F_eq("description", "d1"), F_eq("class", "recycled")} \cup (IF Quick THEN {} ELSE {F_self})
             \cup (IF Big THEN {F_none, F_and(<<F_pres("class"), F_not(F_eq("name", "n1"))>>)} ELSE {})
AttrSets == {{"name", "class"}, {"description", "memberof"}} \cup (IF Big THEN {{"uuid"}} ELSE {})
Pool == {Prof(r[1], r[2], t, a) : r \in Receivers, t \in Targets, a \in AttrSets}

Ent(x, live, cls, extra) ==
  [id |-> x, live |-> live, sys |-> FALSE, o2g |-> {},
   attrs |-> [a \in {"class", "name", "uuid"} \cup DOMAIN extra |->
                 IF a = "class" THEN cls \cup (IF live = "recycled" THEN {"recycled"} ELSE {})
                 ELSE IF a = "name" THEN {x} ELSE IF a = "uuid" THEN {x} ELSE extra[a]]]
NoExtra == [a \in {} |-> {}]
Desc(d) == [a \in {"description"} |-> {d}]
Mgr(m) == [a \in {"entry_managed_by"} |-> {m}]
DescMgr(d, m) == [a \in {"description", "entry_managed_by"} |-> IF a = "description" THEN {d} ELSE {m}]
E1Variants == {NoExtra, Desc("d1"), Mgr("g1"), Mgr("u3"), DescMgr("d1", "g1"), DescMgr("d1", "u3")}

\* a world: e1 varies (attributes x liveness), e2 varies a little, u1's own entry, an OAuth2 client
World(w) ==
  LET e1 == Ent("n1", w[2], {"object"}, w[1])
      e2 == Ent("n2", "live", {"object"}, w[3])
      u1 == [Ent("u1", "live", {"object", "account"}, [a \in {"memberof", "directmemberof"} |-> {"g1"}]) EXCEPT !.id = "u1"]
      rs == [Ent("rs", "live", {"object", "oauth2_resource_server"}, [a \in {"displayname", "oauth2_rs_origin_landing"} |-> {"x"}]) EXCEPT !.o2g = {"g1"}]
  IN  [x \in {"n1", "n2", "u1", "rs"} |-> CASE x = "n1" -> e1 [] x = "n2" -> e2 [] x = "u1" -> u1 [] OTHER -> rs]
AllWorlds == {<<v, lv, v2>> : v \in (IF Worlds = "tiny" THEN {NoExtra, DescMgr("d1", "g1"), DescMgr("d1", "u3")} ELSE E1Variants),
                              lv \in {"live", "recycled"},
                              v2 \in (IF Worlds = "big" THEN {NoExtra, Desc("d1"), Mgr("g2")} ELSE {Desc("d1")})}

Id(u, mo, scope, origin, anon) == [u |-> u, mo |-> mo, scope |-> scope, origin |-> origin, anon |-> anon, cls |-> {"account"}, spu |-> {}]
Ids == {Id("u1", {"g1"}, "rw", "user", FALSE), Id("u3", {}, "rw", "user", FALSE),
        Id("u1", {"g1"}, "sync", "user", FALSE), Id("an", {"g1"}, "ro", "user", TRUE)}
       \cup (IF Quick THEN {} ELSE {Id("u2", {"g1", "g2"}, "ro", "user", FALSE), Id("s1", {}, "sync", "sync", FALSE)})
Filters == {F_eq("description", "d1"), F_self, F_or(<<F_eq("name", "n1"), F_eq("name", "rs")>>),
            F_and(<<F_pres("class"), F_not(F_eq("description", "d1"))>>)}
           \cup (IF Quick THEN {} ELSE {F_eq("name", "n1"), F_pres("entry_managed_by")})
Reqs == {<<TRUE, {}>>, <<FALSE, {"name"}>>, <<FALSE, {"description", "directmemberof", "displayname"}>>}
Kinds == IF Shard = "all" THEN {"ext", "recycle", "exists"} ELSE {Shard}

ProfileSets == {{}} \cup {{p} : p \in Pool} \cup (IF MaxProfiles >= 2 THEN {{p, q} : p \in Pool, q \in Pool} ELSE {})
VARIABLES S, w, id, f, rq, kind
vars == <<S, w, id, f, rq, kind>>
Init == /\ S \in ProfileSets
        /\ w \in AllWorlds /\ id \in Ids /\ f \in Filters /\ rq \in Reqs /\ kind \in Kinds
Next == UNCHANGED vars
Spec == Init /\ [][Next]_vars

E == World(w)
Recycle == kind = "recycle"
CodeFa == CodeAttrs(f) \cup (IF Recycle THEN {"class"} ELSE {})
Cnd == Cands(E, id, f, Recycle)
OutL2 == L2SearchExt(S, E, id, CodeFa, rq[2], rq[1], Cnd)

\* L2 refines L1
Inv == IF kind = "exists" THEN L1Exists(S, E, id, f, Cnd, L2Exists(S, E, id, CodeFa, Cnd))
       ELSE L1Search(S, E, id, f, rq[2], rq[1], Recycle, OutL2)

\* vacuity guard: the first time an arm of the property / transcription is exercised its name is
\* printed (registers are per worker, so a name may be printed once per worker); the orchestrator
\* requires every name to appear
ASSUME \A i \in 1..7 : TLCSet(i, 0)
Arm(i, name, cond) == (TLCGet(i) = 0 /\ cond) => (TLCSet(i, 1) /\ PrintT(<<"ARM", name>>))
Arms ==
  /\ Arm(1, "discloses", DOMAIN OutL2 # {})
  /\ Arm(2, "recycled-disclosed", Recycle /\ \E x \in DOMAIN OutL2 : E[x].live = "recycled")
  /\ Arm(3, "builtin-rule-only", \E x \in DOMAIN OutL2 : BuiltinApplies(id, E[x]) /\ ~\E p \in S : Applies(p, id, E[x]))
  /\ Arm(4, "entry-manager", \E x \in DOMAIN OutL2 : \E p \in S : p.rk = "mgr" /\ Applies(p, id, E[x]))
  /\ Arm(5, "exists-true", kind = "exists" /\ L2Exists(S, E, id, CodeFa, Cnd))
  /\ Arm(6, "trimmed-to-nothing", kind = "ext" /\ ~rq[1] /\ \E x \in DOMAIN OutL2 : OutL2[x] = {})
  /\ Arm(7, "filter-attr-refused", ~L2Denied(id) /\ Cnd # {} /\ L2Visible(S, E, id, CodeFa, Cnd) = {}
                                     /\ \E x \in Cnd : HasReadGrant(S, id, E[x]))
=============================================================================
