------------------------------ MODULE KUpgradeTrace ------------------------------
(* Validates observations of a REAL server upgraded from the previous domain level (driver c48.rs).
     {"a":"def","def":Def}                                   (first line; trusted input)
     {"a":"reset","h":i,"hseed":s,"level":prev}
     {"a":"pre","st":DB,"user":{uuid:[attrs]},"removed":{uuid:{attr:[values]}}}   (removed: KUpgrade RemoveSome)
     {"a":"upgrade","res":class,"level":n,"target":n,"verify":[..],"st":DB,"ents":[C15 entries],"schema":S}
   DB = {uuid: {"live":class, "attrs":{attr:[values]}}} *)
EXTENDS KUpgrade, Json, IOUtils
DS == INSTANCE KDirSchema
Rec == ndJsonDeserialize(IOEnv.TRACE)
VARIABLE l

Init == l = 1
Next == l <= Len(Rec) /\ l' = l + 1
Spec == Init /\ [][Next]_l

Judge == (l <= Len(Rec) /\ Rec[l].a = "upgrade") =>
  LET r == Rec[l]  pre == Rec[l - 1].st  user == Rec[l - 1].user  def == Rec[1].def  post == r.st  removed == Rec[l - 1].removed IN
  /\ ((r.res = "ok" /\ r.level = r.target) \/ PrintT(<<"L1FAIL", "C48", l, "upgrade-failed">>))
  /\ (r.verify = <<>> \/ PrintT(<<"L1FAIL", "C48", l, "verify">>))
  /\ \A u \in DOMAIN user : (UserEntryKept(pre, post, user, u) \/ PrintT(<<"L1FAIL", "C48", l, "user " \o u>>))
  /\ \A u \in DOMAIN removed : \A a \in DOMAIN removed[u] :
        /\ (RemovedOk(pre, def, removed, u, a) \/ PrintT(<<"L1FAIL", "C48", l, "perturbation " \o u \o " " \o a>>))
        /\ (RestoredAt(post, removed, u, a) \/ PrintT(<<"L1FAIL", "C48", l, "restore " \o u \o " " \o a>>))
  /\ \A u \in DOMAIN def : (DefEntryOk(post, def, u) \/ PrintT(<<"L1FAIL", "C48", l, "def " \o u>>))
  /\ \A i \in DOMAIN r.ents : ((DS!Live(r.ents[i]) => DS!Valid(r.ents[i], r.schema))
                                 \/ PrintT(<<"L1FAIL", "C48", l, "schema " \o r.ents[i].id \o " " \o DS!Why(r.ents[i], r.schema)>>))
Consumed == TLCGet("stats").distinct = Len(Rec) + 1 \/ PrintT(<<"NOTCONSUMED", TLCGet("stats").distinct, Len(Rec)>>)
=============================================================================
