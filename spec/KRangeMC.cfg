CONSTANTS
  Servers = {s1, s2}
  T = 3
INIT Init
NEXT Next
INVARIANT Inv
CHECK_DEADLOCK FALSE
