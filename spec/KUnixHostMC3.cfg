CONSTANTS
  GroupKeys = {"1", "2", "3"}
  Ids = {"n1", "u1", "s1", "n2", "u2", "n3", "u3", "x1"}
  Emit = TRUE
INIT Init
NEXT Next
INVARIANT Inv
POSTCONDITION Post
CHECK_DEADLOCK FALSE
