CONSTANTS
  D = 4
  Day = 86400
  Step = 30
  CreatePolicy = "password"
SPECIFICATION Spec
INVARIANT Inv
CHECK_DEADLOCK FALSE
