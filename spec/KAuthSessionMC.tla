---------------------------- MODULE KAuthSessionMC ----------------------------
(* Exhaustive: every sequence of at most MaxLen steps over the full alphabet (Init, Begin(m),
   Cred(c)) for every credential configuration and validity window, with an optional clock
   advance before any step; L2 (handler machine) is checked against L1 on every step.       *)
EXTENDS KAuthSession, TLC
CONSTANTS MaxLen
VARIABLES cfg, w, advanced, S, H, n, last
vars == <<cfg, w, advanced, S, H, n, last>>
Steps == {[a |-> "init", x |-> ""]} \cup {[a |-> "begin", x |-> m] : m \in Mechs} \cup {[a |-> "cred", x |-> c] : c \in Creds}
NoLast == [step |-> [a |-> "", x |-> ""], res |-> "", mechs |-> {}, tok |-> 0, H |-> H0, adv |-> FALSE]
Init == /\ cfg \in Cfgs /\ w \in {"in", "before", "after", "expiring", "starting"}
        /\ advanced = FALSE /\ S = S0 /\ H = H0 /\ n = 0 /\ last = NoLast
Do(step, adv) ==
  LET S1 == IF adv THEN L2Advance(S) ELSE S
      o  == L2Step(cfg, w, advanced \/ adv, S1, step)
  IN  /\ advanced' = (advanced \/ adv)
      /\ S' = o.S
      /\ last' = [step |-> step, res |-> o.res, mechs |-> o.mechs, tok |-> o.tok, H |-> H, adv |-> advanced \/ adv]
      /\ H' = HNext(H, step, o.res, o.mechs)
      /\ n' = n + 1
      /\ UNCHANGED <<cfg, w>>
Next == n < MaxLen /\ \E step \in Steps : Do(step, FALSE) \/ (~advanced /\ Do(step, TRUE))
Spec == Init /\ [][Next]_vars
\* L1 on the step just taken (all inputs of the step are in `last`)
Inv == n > 0 => L1Step(cfg, w, last.adv, last.H, last.step, last.res, last.mechs, last.tok)
\* vacuity guards (each VIOLATED when checked alone)
ReachTotpSuccess   == ~(last.res = "success" /\ S.h = "passwordtotp")
ReachBackupSuccess == ~(last.res = "success" /\ S.h = "passwordbackupcode")
\* after a refused mechanism choice a Begin of an OFFERED mechanism is answered with an error
ReachRefusedChoice == ~(last.step.a = "begin" /\ last.H.ended /\ last.H.has /\ last.H.acc = <<>> /\ last.step.x \in last.H.off /\ last.res = "err")
ReachLockedBegin   == ~(last.step.a = "begin" /\ last.res = "denied")
\* a live session whose account expired meanwhile is denied at its next credential step
ReachCrossWindow   == ~(last.res = "denied" /\ w = "expiring" /\ last.adv /\ last.step.a = "cred" /\ last.H.has /\ ~last.H.ended /\ ~S.locked)
=============================================================================
