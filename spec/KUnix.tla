-------------------------------- MODULE KUnix --------------------------------
(***************************************************************************)
(* Client-side integrations of kanidm (properties C43, C44, C45, C46).     *)
(* Operator style (no variables): the MC and Trace modules own the state.  *)
(*                                                                         *)
(*   Section HostAuth  (C45)  host login authorisation by allowed groups   *)
(*   Section Radius    (C46)  release of RADIUS secrets, VLAN selection    *)
(*   Section Pam       (C43)  PAM client conversation and shadow fallback  *)
(*   Section Offline   (C44)  resolver offline credential cache            *)
(*                                                                         *)
(* Every section has  L0 vocabulary (and the JSON shape the driver logs),  *)
(* L1 the property exactly as stated (only L1 can raise a violation), and  *)
(* L2 a transcription of what the code does (explored by TLC against L1,   *)
(* and used to report conformance drift of observed lines).                *)
(***************************************************************************)
EXTENDS Naturals, Integers, Sequences, FiniteSets, TLC

SeqToSet(s) == {s[i] : i \in 1..Len(s)}
\* all sequences over S of length 0..n
SeqsUpTo(S, n) == UNION {[1..k -> S] : k \in 0..n}

(***************************************************************************)
(* Section HostAuth (C45)                                                  *)
(*                                                                         *)
(* L0. A group is a record [id, n, u, s]: model id, and the identifier     *)
(* strings standing for its name, its UUID and its SPN. The host's         *)
(* allowed-login list is a set of identifier strings. A user token is a    *)
(* set of groups plus the validity flag of the account record.             *)
(* Result classes: "allow", "deny", "unknown" (no such directory user),    *)
(* "error".                                                                *)
(* Logged line: {a:"authorise", via:"provider"|"resolver", present:BOOL,   *)
(*   allow:[ids], groups:[{id,n,u,s}], valid:BOOL, res:class}              *)
(***************************************************************************)
HostGroup(k) == [id |-> "g" \o k, n |-> "n" \o k, u |-> "u" \o k, s |-> "s" \o k]

\* L1 ---------------------------------------------------------------------
\* "A directory user may log in to a host only if the user's current account record is valid and
\*  the user belongs, by name or UUID, to at least one group in the host's allowed-login list; an
\*  empty list admits no directory users."  One-sided: refusing more is always fine. A list entry
\*  that is the SPN of one of the user's groups also designates that group, so L1 does not forbid
\*  an implementation that honours it (the shipped one does not).
HostMayAdmit(allow, groups, valid) ==
  /\ allow # {}
  /\ valid
  /\ \E g \in groups : g.n \in allow \/ g.u \in allow \/ g.s \in allow
HostL1(present, allow, groups, valid, res) ==
  res = "allow" => (present /\ HostMayAdmit(allow, groups, valid))

\* L2 ---------------------------------------------------------------------
\* KanidmProvider::unix_user_authorise (idprovider/kanidm.rs): empty list -> Some(false); else the set
\* {name, hyphenated uuid} of every group of the token is intersected with the configured list.
HostUserSet(groups) == UNION {{g.n, g.u} : g \in groups}
HostProvider(allow, groups, valid) ==
  IF allow = {} THEN "deny"
  ELSE IF Cardinality(HostUserSet(groups) \cap allow) > 0 /\ valid THEN "allow" ELSE "deny"
\* Resolver::pam_account_allowed (resolver.rs): no system account of that name, token looked up through
\* the cache / the provider; no token -> Ok(None); else the provider that issued the token decides.
HostResolver(present, allow, groups, valid) ==
  IF ~present THEN "unknown" ELSE HostProvider(allow, groups, valid)
HostL2(via, present, allow, groups, valid) ==
  IF via = "provider" THEN HostProvider(allow, groups, valid)
  ELSE HostResolver(present, allow, groups, valid)

(***************************************************************************)
(* Section Radius (C46)                                                    *)
(*                                                                         *)
(* L0. The user's RADIUS token carries an ORDERED list of groups, each a   *)
(* record [id, s, u] (spn and uuid identifier strings). Configuration:     *)
(* req = set of identifier strings (radius_required_groups), maps = a      *)
(* function from spn identifiers to VLAN numbers (radius_groups), dflt =   *)
(* radius_default_vlan.                                                    *)
(* Result classes: "release" (secret handed to the RADIUS server, with a   *)
(* VLAN), "reject", "notfound", "fail".                                    *)
(* Logged line: {a:"radius", present:BOOL, req:[ids], groups:[{id,s,u}],   *)
(*   maps:{spn:vlan}, dflt:n, res:class, vlan:n (0 unless release),        *)
(*   secret:"own"|"other"|"none"}                                          *)
(***************************************************************************)
RadGroup(k) == [id |-> "g" \o k, s |-> "s" \o k, u |-> "u" \o k]

\* L1 ---------------------------------------------------------------------
RadMember(req, groups) == \E i \in 1..Len(groups) : groups[i].u \in req \/ groups[i].s \in req
\* "the last of the user's groups with a VLAN mapping, or the default VLAN if none has one"
RadMapped(groups, maps) == {i \in 1..Len(groups) : groups[i].s \in DOMAIN maps}
RadVlan(groups, maps, dflt) ==
  IF RadMapped(groups, maps) = {} THEN dflt
  ELSE LET i == CHOOSE j \in RadMapped(groups, maps) : \A k \in RadMapped(groups, maps) : k <= j
       IN  maps[groups[i].s]
\* A secret is released only to members; whenever a secret is released the VLAN is the stated one and the
\* secret is the user's own. Every other result class must not carry a secret.
RadL1(present, req, groups, maps, dflt, res, vlan, secret) ==
  /\ res = "release" => (present /\ RadMember(req, groups))
  /\ res = "release" => vlan = RadVlan(groups, maps, dflt)
  /\ res = "release" => secret = "own"
  /\ res # "release" => secret = "none"

\* L2 ---------------------------------------------------------------------
\* Module::authorise (rlm_kanidm/module/src/logic.rs): fetch_token (404 -> NotFound, other error -> Fail),
\* user_in_required_groups (any group whose uuid or spn is in the set), resolve_group_configs (fold over the
\* groups in order, a mapped group overwrites the vlan).
RECURSIVE RadFold(_, _, _, _)
RadFold(groups, maps, i, vlan) ==
  IF i > Len(groups) THEN vlan
  ELSE RadFold(groups, maps, i + 1, IF groups[i].s \in DOMAIN maps THEN maps[groups[i].s] ELSE vlan)
RadAuthorise(present, req, groups, maps, dflt) ==
  IF ~present THEN [res |-> "notfound", vlan |-> 0, secret |-> "none"]
  ELSE IF ~(\E i \in 1..Len(groups) : groups[i].u \in req \/ groups[i].s \in req)
       THEN [res |-> "reject", vlan |-> 0, secret |-> "none"]
  ELSE [res |-> "release", vlan |-> RadFold(groups, maps, 1, dflt), secret |-> "own"]

(***************************************************************************)
(* Section Pam (C43)                                                       *)
(*                                                                         *)
(* L0, connected path. The resolver daemon answers each client request     *)
(* with one reply; a scripted daemon is a sequence of reply kinds:         *)
(*   continuing  Password MFACode MFAPoll MFAPollWait SetupPin Pin         *)
(*               DeviceGrant                                               *)
(*   deciding    Success Denied Unknown                                    *)
(*   faults      Error, the eight non-authentication replies, Garbage (an  *)
(*               undecodable frame), Truncated (half a frame, then close), *)
(*               Disconnect (close instead of replying)                    *)
(* The PAM application answers prompts: pw / mfa in {value, none, err},    *)
(* pin in {value, none, err, alt (first confirmation mismatches)}, msg /   *)
(* grant (display callbacks) in {ok, err}; module options ufp              *)
(* (use_first_pass), iuu (ignore_unknown_user); stacked token authtok in   *)
(* {some, none, err}.                                                      *)
(* Logged line: {a:"pam_conn", script:[kinds], ufp, iuu, authtok, pw, mfa, *)
(*   pin, msg, grant, res: PAM code, n: replies the daemon sent,           *)
(*   reqs:[request kinds the daemon received]}                             *)
(*                                                                         *)
(* L0, fallback path (daemon unreachable): passwd entry present?, shadow   *)
(* entry present?, hash kind, expiry class relative to now, typed password *)
(* class, options.                                                         *)
(* Logged line: {a:"pam_fb", user, shadow, hash, exp, typed, ufp, iuu,     *)
(*   authtok, res}                                                         *)
(***************************************************************************)
PamCont  == {"Password", "MFACode", "MFAPoll", "MFAPollWait", "SetupPin", "Pin", "DeviceGrant"}
PamOther == {"Ok", "SshKeys", "NssAccounts", "NssAccount", "NssGroups", "NssGroup", "PamStatus", "ProviderStatus"}
PamFault == {"Error", "Garbage", "Truncated", "Disconnect"} \cup PamOther
PamTerm  == {"Success", "Denied", "Unknown"} \cup PamFault

PamSupported == {"sha256", "sha512", "yescrypt"}
\* expiry classes relative to the login instant: none, future, now (login exactly at the expiry instant), and strictly
\* after it by 1 s, 12 h, 24 h - 1 s, 10 days. "now" is left to L2 (the shadow date is the first expired day).
PamExpKinds == {"none", "future", "now", "past_1s", "past_12h", "past_1d", "past"}
PamExpired == {"past_1s", "past_12h", "past_1d", "past"}
PamHashKinds == PamSupported \cup {"locked_bang", "locked_star", "locked_hash", "empty", "md5", "nologin_x"}

\* L1 ---------------------------------------------------------------------
\* "reports successful authentication only when the resolver daemon explicitly reports success, or, when the
\*  daemon is unreachable, when the local shadow entry holds a supported hash that verifies the password and
\*  the account has not expired. Every error, unknown user or unexpected reply yields a non-success result,
\*  and locked or empty shadow password fields never authenticate."
PamConnL1(script, res, n) ==
  res = "SUCCESS" => (n >= 1 /\ n <= Len(script) /\ script[n] = "Success")
\* the credential the fallback verifies: the stacked token when use_first_pass supplies one, else the typed one
PamFbCred(c) == IF c.ufp /\ c.authtok \in {"right", "wrong"} THEN c.authtok ELSE c.typed
PamFbL1(c, res) ==
  res = "SUCCESS" => /\ c.user /\ c.shadow
                     /\ c.hash \in PamSupported
                     /\ PamFbCred(c) = "right"
                     /\ c.exp \notin PamExpired

\* L2 ---------------------------------------------------------------------
\* sm_authenticate_connected (pam_sparkle_common/src/core.rs): one loop iteration per daemon reply.
PamOut(res, n, reqs) == [res |-> res, n |-> n, reqs |-> reqs]
PamAsk(mode) == CASE mode \in {"value", "alt"} -> "go" [] mode = "none" -> "CRED_INSUFFICIENT" [] OTHER -> "CONV_ERR"
RECURSIVE PamLoop(_, _, _, _)
PamLoop(c, i, stacked, reqs) ==
  LET r == c.script[i]
      next(q, st) == PamLoop(c, i + 1, st, Append(reqs, q))
      ask(mode, q) == IF PamAsk(mode) = "go" THEN next(q, stacked) ELSE PamOut(PamAsk(mode), i, reqs)
  IN  CASE r = "Success" -> PamOut("SUCCESS", i, reqs)
        [] r = "Denied"  -> PamOut("AUTH_ERR", i, reqs)
        [] r = "Unknown" -> PamOut(IF c.iuu THEN "IGNORE" ELSE "USER_UNKNOWN", i, reqs)
        [] r \in PamFault -> PamOut("AUTH_ERR", i, reqs)
        [] r = "Password" -> IF stacked THEN next("Password", FALSE) ELSE ask(c.pw, "Password")
        [] r = "Pin"      -> IF stacked THEN next("Pin", FALSE) ELSE ask(c.pin, "Pin")
        [] r = "MFACode"  -> ask(c.mfa, "MFACode")
        [] r = "DeviceGrant" -> IF c.grant = "ok" THEN next("DeviceGrant", stacked) ELSE PamOut("CONV_ERR", i, reqs)
        [] r = "MFAPoll"  -> IF c.msg = "ok" THEN next("MFAPoll", stacked) ELSE PamOut("CONV_ERR", i, reqs)
        [] r = "MFAPollWait" -> next("MFAPoll", stacked)
        [] r = "SetupPin" -> IF c.msg # "ok" THEN PamOut("CONV_ERR", i, reqs) ELSE ask(c.pin, "SetupPin")
PamConn(c) ==
  IF c.ufp /\ c.authtok = "err" THEN PamOut("AUTHTOK_ERR", 0, <<>>)
  ELSE PamLoop(c, 1, c.ufp /\ c.authtok = "some", <<"Init">>)

\* sm_authenticate_fallback
PamFb(c) ==
  IF ~(c.user /\ c.shadow) THEN (IF c.iuu THEN "IGNORE" ELSE "USER_UNKNOWN")
  ELSE IF c.exp \in PamExpired \cup {"now"} THEN "ACCT_EXPIRED"
  ELSE IF c.ufp /\ c.authtok = "err" THEN "AUTHTOK_ERR"
  ELSE LET cred == PamFbCred(c)
       IN  IF cred = "none" THEN "CRED_INSUFFICIENT"
           ELSE IF cred = "err" THEN "CONV_ERR"
           ELSE IF c.hash \in PamSupported /\ cred = "right" THEN "SUCCESS" ELSE "AUTH_ERR"

(***************************************************************************)
(* Section Offline (C44)                                                   *)
(*                                                                         *)
(* L0. One directory user; the server holds its current password srv. Each *)
(* machine m has its own hardware-bound key (soft TPM context + machine    *)
(* key + sealed HMAC key) and a credential cache cache[m] = OffNone or     *)
(* [pw, key]: the password it was derived from and the machine whose key   *)
(* sealed it. last[m] = the most recent password verified ONLINE on m.     *)
(* Steps: online(m, p) login while the server is reachable; pwchange(p) on *)
(* the server; offline(m, p) login while it is unreachable; swap(m1, m2):  *)
(* the cached user record of m1 is copied into the cache of m2.            *)
(* Result classes: accept | deny | nocred (no offline credential) | error. *)
(* Logged line: {a, lvl:"provider"|"resolver"|"helper", m, p, m2, res}     *)
(* after {a:"reset"}.                                                      *)
(***************************************************************************)
OffNone == [pw |-> "none", key |-> "none"]
OffInit(M) == [srv |-> "p1", cache |-> [m \in M |-> OffNone], last |-> [m \in M |-> "none"]]

\* L1 ---------------------------------------------------------------------
\* "accepts a password only if it equals the most recent password verified online for that user on this
\*  machine, and only if that cached credential was sealed with this machine's hardware-bound key"
\* B is bookkeeping derived from OBSERVED results: last[m], and prov[m] = the machine on which the record now
\* cached on m was produced (moved around by swap).
OffB0(M) == [last |-> [m \in M |-> "none"], prov |-> [m \in M |-> "none"]]
OffL1(B, m, p, res) == res = "accept" => (B.last[m] = p /\ B.prov[m] = m)
OffBNext(B, r) ==
  CASE r.a = "online" /\ r.res = "accept" -> [B EXCEPT !.last[r.m] = r.p, !.prov[r.m] = r.m]
    [] r.a = "swap" -> [B EXCEPT !.prov[r.m2] = B.prov[r.m]]
    [] OTHER -> B

\* L2 ---------------------------------------------------------------------
\* KanidmProvider::unix_user_online_auth_step: the server verifies; success re-derives the cached credential with
\* this machine's HMAC key (kanidm_update_cached_password); denial leaves the cache as it is.
OffOnline(S, m, p) ==
  IF p = S.srv THEN [res |-> "accept", S |-> [S EXCEPT !.cache[m] = [pw |-> p, key |-> m], !.last[m] = p]]
  ELSE [res |-> "deny", S |-> S]
OffPwChange(S, p) == [S EXCEPT !.srv = p]
\* unix_user_offline_auth_init / _step: kanidm_check_cached_password = argon2id keyed through THIS machine's TPM key
OffOffline(S, m, p) ==
  IF S.cache[m] = OffNone THEN "nocred"
  ELSE IF S.cache[m].pw = p /\ S.cache[m].key = m THEN "accept" ELSE "deny"
OffSwap(S, m1, m2) == [S EXCEPT !.cache[m2] = S.cache[m1]]

(***************************************************************************)
(* Section Offline, part 2 (C44): overlapping PAM conversations            *)
(*                                                                         *)
(* One machine, one user, two passwords. A PAM conversation is opened by   *)
(* pam_account_authenticate_init (it becomes an ONLINE or OFFLINE session  *)
(* depending on the provider state at that moment and carries a snapshot   *)
(* of the cached user record) and completed later by                       *)
(* pam_account_authenticate_step with a password. Several conversations    *)
(* may be open; the provider may go offline / online and the server-side   *)
(* password may change in between.                                         *)
(* C = [srv, cache, last, on, conv[c] = [st, mode, snap]]                  *)
(* Logged lines (lvl "conv"): setup{p}, toggle{on}, pwchange{p},           *)
(*   cinit{c,on,mode}, cstep{c,p,on,mode,res}, probe{p,res} (a fresh       *)
(*   offline conversation, init + step back to back, provider forced       *)
(*   offline for its duration).                                            *)
(***************************************************************************)
ConvIds == {"c1", "c2"}
ConvOther(p) == IF p = "p1" THEN "p2" ELSE "p1"
ConvNone == [st |-> "none", mode |-> "-", snap |-> "-"]
ConvInit0(on) == [srv |-> "p1", cache |-> "p1", last |-> "p1", on |-> on, conv |-> [c \in ConvIds |-> ConvNone]]

\* L1 ---------------------------------------------------------------------
\* last = most recent password accepted by an ONLINE-mode step (observed). A fresh offline login (probe) accepts only
\* that password; so does an offline-mode conversation completed while the server is unreachable.
ConvProbeL1(last, p, res) == res = "accept" => p = last
ConvStepL1(last, r) == (r.mode = "offline" /\ ~r.on /\ r.res = "accept") => r.p = last

\* L2 ---------------------------------------------------------------------
ConvToggle(C) == [C EXCEPT !.on = ~C.on]
ConvPwChange(C) == [C EXCEPT !.srv = ConvOther(C.srv)]
\* pam_account_authenticate_init: cached record with credentials => online session iff the provider is online
ConvOpen(C, c) == [C EXCEPT !.conv[c] = [st |-> "open", mode |-> IF C.on THEN "online" ELSE "offline", snap |-> C.cache]]
\* pam_account_authenticate_step
ConvStepRes(C, c, p) ==
  IF C.conv[c].mode = "online"
  THEN (IF ~C.on THEN "error" ELSE IF p = C.srv THEN "accept" ELSE "deny")
  \* unix_user_offline_auth_step checks the SESSION's snapshot ...
  ELSE (IF p = C.conv[c].snap THEN "accept" ELSE "deny")
ConvStep(C, c, p) ==
  LET res == ConvStepRes(C, c, p)
      C1 == [C EXCEPT !.conv[c].st = "done"]
  IN  IF C.conv[c].mode = "online" /\ res = "accept" THEN [C1 EXCEPT !.cache = p, !.last = p]
      \* ... and on success writes back the CURRENT cached record (re-read under the hsm lock): no change
      ELSE C1
ConvProbe(C, p) == IF p = C.cache THEN "accept" ELSE "deny"

=============================================================================
