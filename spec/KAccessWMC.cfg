CONSTANTS
  MaxProfiles = 1
  SmallPool = FALSE
INIT Init
NEXT Next
INVARIANT Inv
INVARIANT InvSync
INVARIANT Arms
CHECK_DEADLOCK FALSE
