------------------------------- MODULE KAccess -------------------------------
(***************************************************************************)
(* Access control of the kanidm query server (properties C23, C24; the     *)
(* operators are reused by KAccessDef* for C25 and KSync* for C50).        *)
(*                                                                         *)
(* L0  vocabulary: filters, entries, identities, access control profiles   *)
(* L1  the properties: what a search may disclose / when a write may       *)
(*     succeed, written from the property statements only (one-sided)      *)
(* L2  transcription of server/access/{mod,search,modify,create,delete}.rs *)
(*                                                                         *)
(* Projection contract (what the driver logs, after normalisation in the   *)
(* trace modules: JSON arrays -> sets):                                    *)
(*   filter  [t |-> "eq", a, v] | [t |-> "pres", a] | [t |-> "self"]       *)
(*           [t |-> "and"|"or", s |-> <<f..>>] | [t |-> "andnot", f]       *)
(*           [t |-> "none"] (profile without target) ; other t = unknown   *)
(*   entry   [id, live \in {"live","recycled","tombstone","conflict"},     *)
(*            sys (uuid in the reserved system range), attrs : attribute   *)
(*            name -> set of value strings, o2g : set of group ids holding *)
(*            a scope map on an OAuth2 client]                             *)
(*   ident   [u, mo : set of group ids, scope \in {"ro","rw","sync"},      *)
(*            origin \in {"user","sync","internal"}, anon, cls, spu]       *)
(*   profile [rk \in {"group","mgr","none","bad"}, rg, tgt : filter,       *)
(*            srch, sa, mod, pa, ra, pc, rc, cre, ca, cc, del]             *)
(***************************************************************************)
EXTENDS Naturals, FiniteSets, Sequences, TLC

\* ============================== L0 ======================================
Range(s) == {s[i] : i \in DOMAIN s}

AttrVals(e, a) == IF a \in DOMAIN e.attrs THEN e.attrs[a] ELSE {}
Classes(e) == AttrVals(e, "class")

\* Boolean reference semantics of a filter on one entry, for identity uuid `self`.
RECURSIVE Match(_, _, _)
Match(f, e, self) ==
  CASE f.t = "eq"     -> f.v \in AttrVals(e, f.a)
    [] f.t = "pres"   -> f.a \in DOMAIN e.attrs
    [] f.t = "self"   -> e.id = self
    [] f.t = "and"    -> \A i \in DOMAIN f.s : Match(f.s[i], e, self)
    [] f.t = "or"     -> \E i \in DOMAIN f.s : Match(f.s[i], e, self)
    [] f.t = "andnot" -> ~Match(f.f, e, self)
    [] OTHER          -> FALSE

\* Attributes a request filter tests (a "self" term names no attribute).
RECURSIVE FilterAttrs(_)
FilterAttrs(f) ==
  CASE f.t \in {"eq", "pres"} -> {f.a}
    [] f.t \in {"and", "or"}  -> UNION {FilterAttrs(f.s[i]) : i \in DOMAIN f.s}
    [] f.t = "andnot"         -> FilterAttrs(f.f)
    [] OTHER                  -> {}

\* Does the filter only use constructs the reference semantics knows?
RECURSIVE Known(_)
Known(f) ==
  CASE f.t \in {"eq", "pres", "self", "none"} -> TRUE
    [] f.t \in {"and", "or"}  -> \A i \in DOMAIN f.s : Known(f.s[i])
    [] f.t = "andnot"         -> Known(f.f)
    [] OTHER                  -> FALSE

Hidden(e) == e.live \in {"recycled", "tombstone"}

\* ---- receiver / target of a profile against an identity and an entry
ManagedBy(id, e) == AttrVals(e, "entry_managed_by") \cap (id.mo \cup {id.u}) # {}
RcvMatch(p, id, e) ==
  \/ p.rk = "group" /\ p.rg \cap id.mo # {}
  \/ p.rk = "mgr" /\ ManagedBy(id, e)
TgtMatch(p, id, e) == p.tgt.t # "none" /\ Match(p.tgt, e, id.u)
Applies(p, id, e) == RcvMatch(p, id, e) /\ TgtMatch(p, id, e)

\* a profile that lets `memberof` be read also lets `directmemberof` be read (documented rule)
SearchAttrs(p) == p.sa \cup (IF "memberof" \in p.sa THEN {"directmemberof"} ELSE {})

\* ---- built-in visibility rules (search.rs): OAuth2 client, application, sync account
O2Attrs  == {"class", "displayname", "uuid", "name", "oauth2_rs_origin_landing", "image"}
AppAttrs == {"class", "displayname", "uuid", "name", "linked_group"}
SynAttrs == {"class", "uuid", "sync_credential_portal"}
O2Rule(id, e)  == /\ id.origin = "user" /\ ~id.anon
                  /\ "oauth2_resource_server" \in Classes(e) /\ e.o2g \cap id.mo # {}
AppRule(id, e) == /\ id.origin = "user" /\ ~id.anon
                  /\ "application" \in Classes(e) /\ AttrVals(e, "linked_group") \cap id.mo # {}
SynRule(id, e) == /\ id.origin = "user" /\ {"sync_object", "account"} \subseteq id.cls
                  /\ "sync_account" \in Classes(e) /\ e.id \in id.spu
BuiltinAttrs(id, e) == (IF O2Rule(id, e) THEN O2Attrs ELSE {})
                  \cup (IF AppRule(id, e) THEN AppAttrs ELSE {})
                  \cup (IF SynRule(id, e) THEN SynAttrs ELSE {})
BuiltinApplies(id, e) == O2Rule(id, e) \/ AppRule(id, e) \/ SynRule(id, e)

\* ============================== L1 : C23 ================================
SearchProfiles(S) == {p \in S : p.srch}
ReadGrant(S, id, e) ==
  UNION {SearchAttrs(p) : p \in {q \in SearchProfiles(S) : Applies(q, id, e)}} \cup BuiltinAttrs(id, e)
HasReadGrant(S, id, e) == (\E p \in SearchProfiles(S) : Applies(p, id, e)) \/ BuiltinApplies(id, e)

CanSearch(id) == id.origin = "user" /\ id.scope \in {"ro", "rw"}

\* one disclosed entry e with attribute names `names`, for a request with filter attributes fa,
\* requested attributes req (or all), in a recycle-bin search or not
DisclosureOk(S, id, e, names, fa, req, all, recycle) ==
  /\ CanSearch(id)
  /\ HasReadGrant(S, id, e)
  /\ fa \subseteq ReadGrant(S, id, e)
  /\ names \subseteq ReadGrant(S, id, e)
  /\ (all \/ names \subseteq req)
  /\ (Hidden(e) => recycle)

\* search_ext / recycle-bin search: out is a function entry id -> set of attribute names
L1Search(S, E, id, f, req, all, recycle, out) ==
  \A x \in DOMAIN out :
     x \in DOMAIN E /\ DisclosureOk(S, id, E[x], out[x], FilterAttrs(f), req, all, recycle)

\* existence check: a positive answer needs a candidate the caller may learn about through f
L1Exists(S, E, id, f, cands, ex) ==
  ex => \E x \in cands : x \in DOMAIN E /\ DisclosureOk(S, id, E[x], {}, FilterAttrs(f), {}, TRUE, FALSE)

\* the minimal reason a disclosure is wrong (for signatures)
DisclosureSig(S, id, e, names, fa, req, all, recycle) ==
  IF ~CanSearch(id) THEN "scope-or-origin"
  ELSE IF Hidden(e) /\ ~recycle THEN "hidden-entry"
  ELSE IF ~HasReadGrant(S, id, e) THEN "no-grant"
  ELSE IF ~(fa \subseteq ReadGrant(S, id, e)) THEN "filter-attr"
  ELSE IF ~(names \subseteq ReadGrant(S, id, e)) THEN "attr-not-granted"
  ELSE IF ~(all \/ names \subseteq req) THEN "attr-not-requested"
  ELSE "ok"

\* ============================== L2 : search =============================
\* attributes the code tests for a request filter (filter_orig.get_attr_set): a self term counts
\* as uuid; a recycle-bin request is wrapped in a class test by the event constructor
RECURSIVE CodeAttrs(_)
CodeAttrs(f) ==
  CASE f.t \in {"eq", "pres"} -> {f.a}
    [] f.t = "self" -> {"uuid"}
    [] f.t \in {"and", "or"}  -> UNION {CodeAttrs(f.s[i]) : i \in DOMAIN f.s}
    [] f.t = "andnot"         -> CodeAttrs(f.f)
    [] OTHER                  -> {}

\* search_related_acp: receiver group test and target presence, trimmed by requested attrs
Related(S, id) ==
  {p \in SearchProfiles(S) :
      /\ (p.rk = "group" /\ p.rg \cap id.mo # {}) \/ p.rk = "mgr"
      /\ p.tgt.t # "none"}
RelatedTrim(S, id, req, all) ==
  IF all THEN Related(S, id) ELSE {p \in Related(S, id) : SearchAttrs(p) \cap req # {}}

\* apply_search_access for a user identity that is allowed to search
L2Allow(R, id, e) ==
  UNION {SearchAttrs(p) : p \in {q \in R : (q.rk = "mgr" => ManagedBy(id, e)) /\ Match(q.tgt, e, id.u)}}
    \cup BuiltinAttrs(id, e)
L2Denied(id) == id.origin # "user" \/ id.scope = "sync"

\* filter_entries: candidates the access step lets through
L2Visible(S, E, id, fa, cands) ==
  IF L2Denied(id) \/ fa = {} THEN {}
  ELSE {x \in cands : fa \subseteq L2Allow(Related(S, id), id, E[x])}

\* search_ext: filter_entries then search_filter_entry_attributes (reduction)
L2SearchExt(S, E, id, fa, req, all, cands) ==
  IF id.origin # "user" THEN [x \in {} |-> {}]
  ELSE LET vis == L2Visible(S, E, id, fa, cands)
           allow(x) == L2Allow(RelatedTrim(S, id, req, all), id, E[x])
           red(x) == IF all THEN allow(x) ELSE req \cap allow(x)
       IN  [x \in vis |-> red(x) \cap DOMAIN E[x].attrs]
L2Exists(S, E, id, fa, cands) == L2Visible(S, E, id, fa, cands) # {}

\* candidate set of a request filter in the model (the driver logs the real backend's set)
Cands(E, id, f, recycle) ==
  {x \in DOMAIN E : /\ Match(f, E[x], id.u)
                    /\ IF recycle THEN E[x].live = "recycled" ELSE ~Hidden(E[x])}

\* ============================== L1 : C24 ================================
\* classes that no user may add / remove (access/protected.rs, stated in the property)
ProtectedPres == {"system", "domain_info", "system_info", "system_config", "dyngroup", "sync_object", "tombstone", "recycled"}
ProtectedRem  == ProtectedPres \ {"recycled"}
\* protected or built-in entries (never deleted by a user)
ProtectedEntry(e) == e.sys \/ Classes(e) \cap ProtectedPres # {}

ModProfiles(S) == {p \in S : p.mod}
ModGrant(S, id, e) ==
  LET A == {p \in ModProfiles(S) : Applies(p, id, e)}
  IN  [pres |-> UNION {p.pa : p \in A}, rem |-> UNION {p.ra : p \in A},
       pcls |-> UNION {p.pc : p \in A}, rcls |-> UNION {p.rc : p \in A}]
CreGrant(S, id, e) ==
  LET A == {p \in S : p.cre /\ Applies(p, id, e)}
  IN  [attrs |-> UNION {p.ca : p \in A}, cls |-> UNION {p.cc : p \in A}]
DelGrant(S, id, e) == \E p \in S : p.del /\ Applies(p, id, e)

CanWrite(id) == id.origin = "user" /\ id.scope = "rw"

\* A modification list is a sequence of items [k \in {"pres","rem","purge","set"}, a, v : set of strings]
\* ("set" replaces the whole value set of a: Modify::Set, used by SCIM PUT / batch paths).
AddedVals(pre, post, a)   == AttrVals(post, a) \ AttrVals(pre, a)
RemovedVals(pre, post, a) == AttrVals(pre, a) \ AttrVals(post, a)
NamedAttrs(ml) == {ml[i].a : i \in DOMAIN ml}
SetItems(ml) == {i \in DOMAIN ml : ml[i].k = "set"}
\* class values a request is about: the ones it lists; a Set on class is about every class of the entry too
NamedClassVals(ml, pre) ==
  UNION {ml[i].v : i \in {j \in DOMAIN ml : ml[j].a = "class"}}
    \cup (IF \E i \in SetItems(ml) : ml[i].a = "class" THEN Classes(pre) ELSE {})
PurgesClass(ml) == \E i \in DOMAIN ml : ml[i].k = "purge" /\ ml[i].a = "class"

\* what a successful user modify with request ml did to one entry (pre -> post) must be granted:
\* every attribute the request names and that gained / lost a value, every class value it names
\* and that was added / removed; on an entry the request was applied to, a Set of attribute a counts
\* as BOTH adding its new values and removing every existing value of a
ModifyEntryOk(S, id, ml, pre, post, applied) ==
  LET g == ModGrant(S, id, pre) IN
  /\ \A a \in NamedAttrs(ml) :
        /\ (AddedVals(pre, post, a) # {} => a \in g.pres)
        /\ (RemovedVals(pre, post, a) # {} => a \in g.rem)
  /\ (AddedVals(pre, post, "class") \cap NamedClassVals(ml, pre)) \subseteq g.pcls
  /\ (RemovedVals(pre, post, "class") \cap NamedClassVals(ml, pre)) \subseteq g.rcls
  /\ applied => \A i \in SetItems(ml) :
        /\ (ml[i].v # {} => ml[i].a \in g.pres)
        /\ (AttrVals(pre, ml[i].a) # {} => ml[i].a \in g.rem)

\* rules that hold regardless of grants, for any entry around a successful user operation
RegardlessOk(op, pre, post) ==
  /\ (op # "delete" => AddedVals(pre, post, "class") \cap ProtectedPres = {})
  /\ RemovedVals(pre, post, "class") \cap ProtectedRem = {}
  /\ ("recycled" \in RemovedVals(pre, post, "class") => op = "revive")
  /\ (pre.live = "tombstone" => post = pre)

\* successful modify / revive (revive = removal of class "recycled"): Pre, Post are id -> entry,
\* T the entries the request was applied to
L1Modify(S, id, op, ml, T, Pre, Post) ==
  /\ CanWrite(id)
  /\ ~PurgesClass(ml)
  /\ \A x \in DOMAIN Pre \cap DOMAIN Post :
        /\ ModifyEntryOk(S, id, ml, Pre[x], Post[x], x \in T)
        /\ RegardlessOk(op, Pre[x], Post[x])

\* successful batch modify: Mls maps each addressed entry to its own modification list
L1Batch(S, id, Mls, Pre, Post) ==
  /\ CanWrite(id)
  /\ \A x \in DOMAIN Mls : ~PurgesClass(Mls[x])
  /\ \A x \in DOMAIN Pre \cap DOMAIN Post :
        /\ ModifyEntryOk(S, id, IF x \in DOMAIN Mls THEN Mls[x] ELSE <<>>, Pre[x], Post[x], x \in DOMAIN Mls)
        /\ RegardlessOk("modify", Pre[x], Post[x])

\* successful create: req is the entry as submitted, Pre/Post as above
L1Create(S, id, req, Pre, Post) ==
  /\ CanWrite(id)
  /\ DOMAIN req.attrs \subseteq CreGrant(S, id, req).attrs
  /\ Classes(req) \subseteq CreGrant(S, id, req).cls
  /\ Classes(req) \cap ProtectedPres = {}
  /\ \A x \in DOMAIN Post \ DOMAIN Pre : Classes(Post[x]) \cap ProtectedPres = {}
  /\ \A x \in DOMAIN Pre \cap DOMAIN Post : RegardlessOk("create", Pre[x], Post[x])

\* successful delete: every entry that left the live state needed a delete grant and is not protected
Deleted(Pre, Post) == {x \in DOMAIN Pre \cap DOMAIN Post : Pre[x].live = "live" /\ Post[x].live # "live"}
L1Delete(S, id, Pre, Post) ==
  /\ CanWrite(id)
  /\ \A x \in Deleted(Pre, Post) : DelGrant(S, id, Pre[x]) /\ ~ProtectedEntry(Pre[x])
  /\ \A x \in DOMAIN Pre \cap DOMAIN Post : RegardlessOk("delete", Pre[x], Post[x])

WriteSig(S, id, op, ml, Pre, Post) ==
  IF ~CanWrite(id) THEN "scope-or-origin"
  ELSE IF op \in {"modify", "revive"} /\ PurgesClass(ml) THEN "class-purged"
  ELSE IF \E x \in DOMAIN Pre \cap DOMAIN Post : ~RegardlessOk(op, Pre[x], Post[x]) THEN "protected-rule"
  ELSE IF op = "delete" /\ \E x \in Deleted(Pre, Post) : ProtectedEntry(Pre[x]) THEN "protected-deleted"
  ELSE "not-granted"

\* ============================== L2 : writes =============================
\* modify_allow_operation_per_entry + apply_modify_access for one entry
ReqPres(ml) == {ml[i].a : i \in {j \in DOMAIN ml : ml[j].k \in {"pres", "set"}}}
ReqRem(ml)  == {ml[i].a : i \in {j \in DOMAIN ml : ml[j].k \in {"rem", "purge", "set"}}}
\* a Set on class is judged on the difference to the entry's current classes
ReqPresCls(ml, e) == UNION {ml[i].v : i \in {j \in DOMAIN ml : ml[j].k = "pres" /\ ml[j].a = "class"}}
                       \cup UNION {ml[i].v \ Classes(e) : i \in {j \in SetItems(ml) : ml[j].a = "class"}}
ReqRemCls(ml, e)  == UNION {ml[i].v : i \in {j \in DOMAIN ml : ml[j].k = "rem" /\ ml[j].a = "class"}}
                       \cup UNION {Classes(e) \ ml[i].v : i \in {j \in SetItems(ml) : ml[j].a = "class"}}

ProtectedMod == ProtectedPres \ {"sync_object"}
\* modify_protected_entry_attrs: the attributes that stay modifiable on a protected entry
ProtConstrain(cls) ==
  (IF "recycled" \in cls THEN {"class"} ELSE {})
  \cup (IF "classtype" \in cls THEN {"may", "must"} ELSE {})
  \cup (IF "system_config" \in cls THEN {"badlist_password"} ELSE {})
  \cup (IF "domain_info" \in cls THEN {"domain_ssid", "domain_ldap_basedn", "ldap_max_queryable_attrs",
          "ldap_allow_unix_pw_bind", "fernet_private_key_str", "es256_private_key_der", "key_action_revoke",
          "key_action_rotate", "id_verification_eckey", "denied_name", "domain_display_name", "image",
          "domain_allow_easter_eggs", "domain_allow_account_recovery"} ELSE {})
  \cup (IF "account" \in cls THEN {"account_expire", "account_valid_from"} ELSE {})
  \cup (IF "service_account" \in cls THEN {"ssh_publickey", "user_auth_token_session", "oauth2_session",
          "mail", "primary_credential", "api_token_session"} ELSE {})
  \cup (IF "group" \in cls THEN {"member"} ELSE {})
  \cup (IF "dyngroup" \in cls THEN {"auth_session_expiry", "auth_password_minimum_length",
          "credential_type_minimum", "privilege_expiry", "webauthn_attestation_ca_list",
          "limit_search_max_results", "limit_search_max_filter_test", "allow_primary_cred_fallback"} ELSE {})
SyncBase == {"user_auth_token_session", "oauth2_session", "oauth2_consent_scope_map", "credential_update_intent_token"}

\* Y : sync agreement id -> set of yielded attributes (only agreements that yield something)
L2ModAccess(S, Y, id, e) ==
  LET cls == Classes(e)
      protd == e.sys \/ cls \cap ProtectedMod # {}
      pc == ProtConstrain(cls)
      deny1 == ~CanWrite(id)
      deny2 == protd /\ ("tombstone" \in cls \/ pc = {})
      issync == "sync_object" \in cls
      spu == AttrVals(e, "sync_parent_uuid")
      deny3 == issync /\ spu = {}
      sc == IF issync /\ spu # {}
            THEN SyncBase \cup UNION {IF y \in DOMAIN Y THEN Y[y] ELSE {} : y \in spu} ELSE {}
      con == (IF protd THEN pc ELSE {}) \cup sc
      A == {p \in ModProfiles(S) :
              /\ (p.rk = "group" /\ p.rg \cap id.mo # {}) \/ (p.rk = "mgr" /\ ManagedBy(id, e))
              /\ p.tgt.t # "none" /\ Match(p.tgt, e, id.u)}
      ap == UNION {p.pa : p \in A}
      ar == UNION {p.ra : p \in A}
  IN  [deny |-> deny1 \/ deny2 \/ deny3,
       pres |-> IF con # {} THEN con \cap ap ELSE ap,
       rem  |-> IF con # {} THEN con \cap ar ELSE ar,
       pcls |-> UNION {p.pc : p \in A} \ ProtectedPres,
       rcls |-> UNION {p.rc : p \in A} \ ProtectedRem]

L2ModifyAllowed(S, Y, id, ml, e) ==
  LET m == L2ModAccess(S, Y, id, e) IN
  /\ ~PurgesClass(ml)
  /\ ReqPres(ml) \cup ReqRem(ml) # {}
  /\ ~m.deny
  /\ ReqPres(ml) \subseteq m.pres /\ ReqRem(ml) \subseteq m.rem
  /\ ReqPresCls(ml, e) \subseteq m.pcls /\ ReqRemCls(ml, e) \subseteq m.rcls

\* the write paths select their targets with an impersonated search first
L2WriteClass(S, Y, E, id, fa, cands, allowed(_)) ==
  LET vis == L2Visible(S, E, id, fa, cands) IN
  IF vis = {} THEN "nomatch" ELSE IF \A x \in vis : allowed(x) THEN "pass" ELSE "denied"

\* batch_modify: targets are addressed by uuid (no hidden-entry mask), all of them must be visible
L2BatchClass(S, Y, E, id, cands, Mls) ==
  LET vis == L2Visible(S, E, id, {"uuid"}, cands) IN
  IF vis = {} THEN "nomatch"
  ELSE IF Cardinality(vis) # Cardinality(DOMAIN Mls) THEN "missing"
  ELSE IF \A x \in vis : x \in DOMAIN Mls /\ L2ModifyAllowed(S, Y, id, Mls[x], E[x]) THEN "pass" ELSE "denied"

L2DeleteAllowed(S, id, e) ==
  /\ CanWrite(id) /\ ~e.sys /\ Classes(e) \cap ProtectedPres = {}
  /\ \E p \in S : /\ p.del
                  /\ (p.rk = "group" /\ p.rg \cap id.mo # {}) \/ (p.rk = "mgr" /\ ManagedBy(id, e))
                  /\ p.tgt.t # "none" /\ Match(p.tgt, e, id.u)

L2CreateAllowed(S, id, req) ==
  /\ CanWrite(id) /\ ~req.sys /\ Classes(req) \cap ProtectedPres = {}
  /\ \E p \in S : /\ p.cre /\ p.rk = "group" /\ p.rg \cap id.mo # {}
                  /\ p.tgt.t # "none" /\ Match(p.tgt, req, id.u)
                  /\ DOMAIN req.attrs \subseteq p.ca /\ Classes(req) \subseteq p.cc

\* model of applying a modification list to an entry (for the exhaustive run)
RECURSIVE ApplyMl(_, _)
ApplyMl(ml, attrs) ==
  IF ml = <<>> THEN attrs
  ELSE LET m == Head(ml)
           cur == IF m.a \in DOMAIN attrs THEN attrs[m.a] ELSE {}
           nv == CASE m.k = "pres" -> cur \cup m.v
                   [] m.k = "rem" -> cur \ m.v
                   [] m.k = "set" -> m.v
                   [] OTHER -> {}
           D == IF nv = {} THEN DOMAIN attrs \ {m.a} ELSE DOMAIN attrs \cup {m.a}
       IN  ApplyMl(Tail(ml), [a \in D |-> IF a = m.a THEN nv ELSE attrs[a]])
=============================================================================
