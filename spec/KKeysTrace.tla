------------------------------ MODULE KKeysTrace ------------------------------
(* C34: validates observed histories of REAL key objects (driver `kv-token keys`): two servers
   (A file-backed and restarted by `reload`, B a replica), objects `dom` and `ko`.
   `cur` = stored key sets after the last state-carrying line; `ever[srv][obj]` = keys ever SEEN
   revoked on that server.  L1 judges every sign / verify / reload / repl line; L2 predicts the exact
   result and the exact change of the stored key set (drift only). *)
EXTENDS KKeys, Sequences, Json, IOUtils
CONSTANT MaxAge     \* CHANGELOG_MAX_AGE (604800 s)
Rec == ndJsonDeserialize(IOEnv.TRACE)
VARIABLES l, cur, ever, restarted   \* restarted: servers restarted (reload) since the reset

Srvs == {"A", "B"}
Objs == {"dom", "ko"}
Has(r, f) == f \in DOMAIN r
EmptyEver == [s \in Srvs |-> [o \in Objs |-> {}]]
Keys(st, s, o) == st[s][o]

\* ---- L2 predictions
L2SignRes(keys, u, t) == IF Started(keys, u, t) = {} THEN "err" ELSE "ok"
NewKeys(before, after) == DOMAIN after \ DOMAIN before
Unchanged(before, after, except) == \A k \in DOMAIN before \ except : k \in DOMAIN after /\ after[k] = before[k]
UsagesOf(keys) == {keys[k].u : k \in DOMAIN keys}
L2Rotate(before, after, vf, now) ==
  /\ Unchanged(before, after, {})
  /\ \A u \in UsagesOf(before) : Cardinality({k \in NewKeys(before, after) : after[k].u = u}) = 1
  /\ \A k \in NewKeys(before, after) : after[k].st = "valid" /\ after[k].vf = vf /\ after[k].sc = now
\* the revoked key carries the change id of the REVOKING transaction
L2Revoke(before, after, kid, now) ==
  /\ kid \in DOMAIN after /\ after[kid].st = "revoked"
  /\ (before[kid].st # "revoked" => after[kid].sc = now)
  /\ Unchanged(before, after, {kid})
  /\ LET u == before[kid].u
         base == {j \in OfUsage(before, u) \ {kid} : before[j].st = "valid" /\ before[j].vf = None}
     IN  IF base = {} /\ before[kid].st # "revoked"
         THEN /\ Cardinality(NewKeys(before, after)) = 1
              /\ \A k \in NewKeys(before, after) : after[k] = [u |-> u, st |-> "valid", vf |-> None, sc |-> now]
         ELSE NewKeys(before, after) = {}
\* replication / restart: the destination holds the merge (status only moves up), nothing else changes
L2Repl(tobefore, from, toafter, now) == toafter = Trim(Merge(tobefore, from), now, MaxAge)

Max(a, b) == IF a >= b THEN a ELSE b

L2StateOk(r) ==
  /\ \A s \in Srvs, o \in Objs :
       (~(Has(r, "srv") /\ s = r.srv) \/ (r.a \in {"rotate", "revoke"} /\ o # r.obj) \/ r.res # "ok")
          => Keys(r.st, s, o) = Keys(cur, s, o)
  /\ r.res = "ok" =>
       CASE r.a = "rotate" -> L2Rotate(Keys(cur, r.srv, r.obj), Keys(r.st, r.srv, r.obj), Max(r.at, r.t), r.t)
         [] r.a = "revoke" -> L2Revoke(Keys(cur, r.srv, r.obj), Keys(r.st, r.srv, r.obj), r.k, r.t)
         [] r.a = "reload" -> \A o \in Objs : Keys(r.st, "A", o) = Keys(cur, "A", o)
         [] r.a = "repl"   -> \A o \in Objs : L2Repl(Keys(cur, r.to, o), Keys(cur, r.from, o), Keys(r.st, r.to, o), r.t)
         [] OTHER -> TRUE

\* ---- L1 on state-carrying lines: nothing ever seen revoked is un-revoked; a successful exchange
\* carries every revocation of the source to the destination
L1StateOk(r) ==
  /\ \A s \in Srvs, o \in Objs : L1NoUnrevoke(ever[s][o], Keys(r.st, s, o))
  /\ (r.a = "repl" /\ r.res = "ok") =>
        \A o \in Objs : L1NoUnrevoke(RevokedIn(Keys(cur, r.from, o)), Keys(r.st, r.to, o))

Init == l = 1 /\ cur = <<>> /\ ever = EmptyEver /\ restarted = {}
Next ==
  /\ l <= Len(Rec)
  /\ l' = l + 1
  /\ LET r == Rec[l] IN
     /\ cur' = IF Has(r, "st") THEN r.st ELSE cur
     /\ ever' = IF r.a = "reset" THEN [s \in Srvs |-> [o \in Objs |-> RevokedIn(Keys(r.st, s, o))]]
                ELSE IF Has(r, "st") THEN [s \in Srvs |-> [o \in Objs |-> ever[s][o] \cup RevokedIn(Keys(r.st, s, o))]]
                ELSE ever
     /\ restarted' = IF r.a = "reset" THEN {} ELSE IF r.a = "reload" THEN restarted \cup {r.srv} ELSE restarted
Spec == Init /\ [][Next]_<<l, cur, ever, restarted>>

JudgeLine(r) ==
  CASE r.a = "reset" -> TRUE
    [] r.a = "sign" ->
         LET keys == Keys(cur, r.srv, r.obj) IN
         /\ (L1Sign(keys, r.u, r.t, r.res, IF Has(r, "kid") THEN r.kid ELSE "none")
               \/ PrintT(<<"L1FAIL", "C34", l, "sign-not-newest u=" \o r.u>>))
         /\ ((IF r.res = "ok" THEN "ok" ELSE "err") = L2SignRes(keys, r.u, r.t) \/ PrintT(<<"L2DRIFT", "C34", l>>))
    [] r.a = "verify" ->
         LET keys == Keys(cur, r.srv, r.tk.obj)
             ev   == ever[r.srv][r.tk.obj] IN
         /\ (L1Verify(keys, ev, r.tk.kid, r.res)
               \/ PrintT(<<"L1FAIL", "C34", l,
                     (IF r.tk.kid \in ev THEN "revoked-key-accepted" ELSE "unrevoked-key-rejected") \o " u=" \o r.tk.u>>))
         /\ ((IF r.res = "ok" THEN "ok" ELSE "err") = L2Verify(keys, r.tk.kid) \/ PrintT(<<"L2DRIFT", "C34", l>>))
    [] Has(r, "st") ->
         /\ (L1StateOk(r) \/ PrintT(<<"L1FAIL", "C34", l, "unrevoked-by-" \o r.a \o
                 (IF r.a = "repl" THEN (IF r.from \in restarted THEN " src-restarted=1" ELSE " src-restarted=0") ELSE "")>>))
         /\ (L2StateOk(r) \/ PrintT(<<"L2DRIFT", "C34", l>>))
    [] OTHER -> TRUE

Judge == l <= Len(Rec) => JudgeLine(Rec[l])
Consumed == TLCGet("stats").distinct = Len(Rec) + 1 \/ PrintT(<<"NOTCONSUMED", TLCGet("stats").distinct, Len(Rec)>>)
=============================================================================
