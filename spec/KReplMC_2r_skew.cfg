\* CLOCK SKEW variant (hypothesis generator, not part of a check verdict). 2 replicas: 1 shared entry + 1 creatable id (uuid conflicts), lifecycle, sessions
CONSTANTS
  N = 2
  Ids = {1}
  NewIds = {2}
  Sids = {1}
  MaxTs = 3
  MaxRepl = 3
  MaxWrites = 3
  RecycleAge = 0
  Window = 0
  MergeRestamp = TRUE
  NoSkew = FALSE
  ArmQuota = 0
  EnableRename = FALSE
  EnableClear = FALSE
INIT Init
NEXT Next
VIEW View
INVARIANT InvConvergedButSessions
INVARIANT InvConvergedSessions
INVARIANT InvUniqueLive
PROPERTY NoResurrection
CHECK_DEADLOCK FALSE
